(* Correspondence entry point for C02.  A case is a recorded run of the real
   shovel.Task (Corr/TaskCase.v).  [check] = trace conformance with the model
   (Corr/TaskConf.v: same op at every position when fed the observed replies,
   same outcome class, same committed database at every snapshot)
   + TaskInv (I1-I3 through the ghost) on every committed state; a step that did not converge leaves the previous state of its pair or a strictly earlier position. *)
From Coq Require Import List NArith Bool.
From Shovel Require Import Base.Outcome Model.TaskTypes Model.TaskDb Model.Task Model.TaskNode
  Model.TaskSys Corr.TaskCase Corr.TaskConf Corr.TaskPred.
Import ListNotations.
Open Scope N_scope.

Definition case := tcase.

Definition check (c : case) : bool :=
  conforms c && (let fs := frames c in inv_everywhere fs && steps_ok [] fs).

Definition run (cs : list case) : list nat := mismatches check cs.

(* self-test of the checker, re-evaluated on every run: the two example cases
   of the format are accepted; a trace produced by the LEGACY variant of the
   model (reorg with batch 3: no QPrev, rows >= the deleted position only) is
   rejected by trace conformance *)
From Shovel Require Import Model.TaskWitness Corr.TaskGen.
Example examples_accepted : check example_case = true /\ check example_case2 = true.
Proof. vm_compute. split; reflexivity. Qed.
Example legacy_trace_rejected :
  conforms (gen_case legacy w2_cfg (Db [] []) [chainA; chainB]
                     [(chainA, []); (chainA, []); (chainB, []); (chainB, [])]) = false
  /\ check (gen_case repaired w2_cfg (Db [] []) [chainA; chainB]
                     [(chainA, []); (chainA, []); (chainB, []); (chainB, [])]) = true.
Proof. vm_compute. split; reflexivity. Qed.
