(* Extraction of the C09 / C10 scan-case checkers for the thorough tier's second
   evaluator.  ExtrOcamlBasic ONLY (bool, option, unit, list, prod, sumbool map
   to OCaml's; N, Z, positive, nat stay the extracted inductives); no Extract
   Constant, no Extract Inductive.  Not a dependency of any Properties file.
   Run from coq/extracted:  coqc -Q .. Shovel ../Corr/ExtractAbi.v *)
From Coq Require Extraction.
From Coq Require Import ExtrOcamlBasic.
From Shovel Require Import Base.Sx Corr.AbiSx.
Extraction Language OCaml.
Extraction "abi_extracted.ml" Base.Sx.sx AbiSx.check_sx09 AbiSx.check_sx10.
