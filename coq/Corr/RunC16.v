(* Correspondence entry point for C16.  A case carries a pre-existing
   catalog, a configuration as decoded (before validation), and what the
   implementation did against the Go-level fake database: accepted or
   rejected, the statements config.DDL prints, the catalog after config.Migrate (or that it failed), and per
   integration the written columns and the outcome of inserting the rows of
   the same blocks twice.  [check] recomputes all of it with the model. *)
From Coq Require Import List NArith Bool String.
From Shovel Require Import Base.Outcome Model.Config Model.Sql Model.Schema Model.ConfigGen Corr.RunC15.
Import ListNotations.
Open Scope N_scope.

Definition run1 := (nat * list ablock * list str * copyres * copyres)%type.

Inductive case :=
(* CNote: a case judged by the harness's direct oracle only (one log with a huge array) *)
| CNote
| CRun (t : cls) (pre : catalog) (c : root) (accepted : bool) (printed : list N) (mig : option catalog) (runs : list run1).

Definition strs_eqb := list_eqb str_eqb.
Definition ptable_eqb (a b : ptable) : bool :=
  str_eqb (pt_name a) (pt_name b) && strs_eqb (pt_cols a) (pt_cols b).
Definition pindex_eqb (a b : pindex) : bool :=
  str_eqb (ix_name a) (ix_name b) && str_eqb (ix_table a) (ix_table b) &&
  strs_eqb (ix_cols a) (ix_cols b) && Bool.eqb (ix_unique a) (ix_unique b).
Definition catalog_eqb (a b : catalog) : bool :=
  list_eqb ptable_eqb (cat_tables a) (cat_tables b) && list_eqb pindex_eqb (cat_indexes a) (cat_indexes b).
Definition copyres_eqb (a b : copyres) : bool :=
  match a, b with
  | CopyOk n, CopyOk m => Nat.eqb n m
  | CopyDup, CopyDup => true
  | CopyColErr, CopyColErr => true
  | InsertErr, InsertErr => true
  | _, _ => false
  end.

Fixpoint check_runs (cat : catalog) (igs : list integ) (d : db) (runs : list run1) : bool :=
  match runs with
  | [] => true
  | (k, bs, wcols, r1, r2) :: rest =>
      let g := nth k igs dummy_ig in
      let src := match ig_sources g with s :: _ => s | [] => [] end in
      let i1 := insert cat d g src bs in
      let i2 := insert cat (snd i1) g src bs in
      strs_eqb (written_columns g) wcols && copyres_eqb (fst i1) r1 && copyres_eqb (fst i2) r2
      && check_runs cat igs (snd i2) rest
  end.

Definition check (c : case) : bool :=
  gen_ok &&
  match c with
  | CNote => true
  | CRun t pre c acc printed mig runs =>
      match validate_fix (mk_uni t) G c with
      | None => negb acc
      | Some c' =>
          acc &&
          (* config.DDL (-print-schema): one table per name with the united columns;
             statements compared as a multiset of text hashes (Go iterates a map) *)
          list_eqb N.eqb (sortN (map (fun s => hash_str (render s))
                                     (flat_map (ddl reserved) (ddl_tables (integs c') []))))
                         (sortN printed) &&
          match migrate_all reserved pre (integs c'), mig with
          | None, None => is_nil runs
          | Some cat, Some cat' => catalog_eqb cat cat' && check_runs cat (integs c') [] runs
          | _, _ => false
          end
      end
  end.

Definition run (cs : list case) : list nat := mismatches check cs.
