(* Correspondence entry point of C14: per case the harness writes the indexing
   mode, the selected field names, the names the integration handed to glf.New
   (after config.AddRequiredFields), the requests the scripted node actually
   received, and for every selected field whether every stored row carried the
   node's value.  [check] recomputes all three with the model:
   required fields, plan + dispatch, supplied-matrix. *)
From Coq Require Import List String Bool.
From Shovel Require Import Base.Outcome Model.Plan Model.Provides Model.PlanCheck Gen.GlfTables Gen.GetFields Gen.FetchFills Gen.GetDispatch.
Import ListNotations.
Open Scope string_scope.

Inductive case :=
| CPlan (m : mode) (sel : list string) (needs : list string) (fetches : list fetch) (supplied : list (string * bool)).

Definition lookup (n : string) : option field := find (fun f => String.eqb (f_name f) n) get_fields.
Definition subset (a b : list string) : bool := forallb (fun x => mem x b) a.
Definition same_names (a b : list string) : bool := subset a b && subset b a.
Definition fetch_subset (a b : list fetch) : bool := forallb (fun x => has_fetch x b) a.

Fixpoint all_some {A} (l : list (option A)) : option (list A) :=
  match l with
  | [] => Some []
  | None :: _ => None
  | Some x :: r => match all_some r with Some r' => Some (x :: r') | None => None end
  end.

Definition check (c : case) : bool :=
  match c with
  | CPlan m sel needs fetches supplied =>
      match all_some (map lookup sel) with
      | None => false                                   (* a selected name the row builder does not know *)
      | Some Sel =>
          let fs := dispatch_of get_dispatch (new glf_tables glf_steps needs) in
          same_names needs (needs_of m Sel)
          && fetch_subset fs fetches && fetch_subset fetches fs
          && forallb (fun nb => match lookup (fst nb) with
                                | Some f => Bool.eqb (supplied_b (provides_of fetch_fills) fs m f) (snd nb)
                                | None => false end) supplied
          && same_names (map fst supplied) sel
      end
  end.

Definition run (cs : list case) : list nat := mismatches check cs.
