(* Correspondence entry points for C18.  The driver (harness/cmd/c18)
   translates the source again in-process and reports, per region, the shape
   of the skeleton and the access pairs its own copy of the checker rejects;
   [check] recomputes both from Gen/Skeleton.v with the proved checker.  For
   every data race the Go race detector reported while the workloads ran, the
   driver gives the source positions on the two stacks; [check] recomputes
   how the statically rejected pairs explain the report. *)
From Coq Require Import List String Bool NArith Ascii.
From Shovel Require Import Base.Outcome Model.Lockset Model.LocksetKnown Gen.Skeleton.
Import ListNotations.
Open Scope string_scope.

Definition str_pair_eqb (a b : string * string) : bool :=
  String.eqb (fst a) (fst b) && String.eqb (snd a) (snd b).

Fixpoint count_accs (p : prog) : N :=
  match p with
  | Skip => 0
  | Seq a b => count_accs a + count_accs b
  | Acc _ => 1
  | Sync _ q => count_accs q
  | Star q => count_accs q
  end.
Fixpoint count_syncs (p : prog) : N :=
  match p with
  | Skip => 0
  | Seq a b => count_syncs a + count_syncs b
  | Acc _ => 0
  | Sync _ q => 1 + count_syncs q
  | Star q => count_syncs q
  end.

Definition region_at (i : nat) : region := nth i regions {| gname := ""; groles := [] |}.

(* positions of the statically rejected pairs (no exemption), all regions *)
Definition all_bad_pos : list (string * string) :=
  Eval vm_compute in
    flat_map (fun g => map (fun p => (apos (fst (fst p)), apos (fst (snd p)))) (bad_pairs no_exempt g)) regions.

Definition mem (s : string) (l : list string) : bool := existsb (String.eqb s) l.

(* 2: some rejected pair has one access on each stack; 1: some rejected pair
   has an access on one of the stacks; 0: the skeleton has no unprotected
   access anywhere on the two stacks *)
Definition explain (fa fb : list string) : N :=
  if existsb (fun p => (mem (fst p) fa && mem (snd p) fb) || (mem (fst p) fb && mem (snd p) fa)) all_bad_pos then 2%N
  else if existsb (fun p => mem (fst p) fa || mem (snd p) fa || mem (fst p) fb || mem (snd p) fb) all_bad_pos then 1%N
  else 0%N.

Inductive case :=
| CShape (region : nat) (name : string) (roles : list (string * bool * N * N))
| CBad (region : nat) (exempt : bool) (pairs : list (string * string))
| CDyn (fa fb : list string) (verdict : N).

Definition role_shape (r : role) := (rname r, rrepl r, count_accs (rbody r), count_syncs (rbody r)).
Definition shape_eqb (a b : string * bool * N * N) : bool :=
  let '(n1, r1, a1, s1) := a in let '(n2, r2, a2, s2) := b in
  String.eqb n1 n2 && Bool.eqb r1 r2 && N.eqb a1 a2 && N.eqb s1 s2.

Definition check (c : case) : bool :=
  match c with
  | CShape i name roles =>
      String.eqb (gname (region_at i)) name &&
      list_eqb shape_eqb (map role_shape (groles (region_at i))) roles
  | CBad i exempt pairs =>
      list_eqb str_pair_eqb
        (pair_sites (bad_pairs (if exempt then known_exempt else no_exempt) (region_at i))) pairs
  | CDyn fa fb v => N.eqb (explain fa fb) v
  end.

Definition run (cs : list case) : list nat := mismatches check cs.
