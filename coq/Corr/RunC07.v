(* Correspondence entry point of C07: the harness writes, per case, the plan,
   the range, the DECODED view of every reply the scripted node gave (or would
   have given) and what the implementation returned (canonical dump);
   [check] recomputes the result with the model of the repaired client. *)
From Coq Require Import List NArith Bool.
From Shovel Require Import Base.Outcome Model.Client.
Import ListNotations.
Open Scope N_scope.

Definition payload_eqb := list_eqb N.eqb.
Definition log_eqb (a b : log) : bool := (l_idx a =? l_idx b) && payload_eqb (l_pl a) (l_pl b).
Definition trace_eqb (a b : trace) : bool := (ta_idx a =? ta_idx b) && payload_eqb (ta_pl a) (ta_pl b).
Definition tx_eqb (a b : tx) : bool :=
  (t_idx a =? t_idx b) && bytes_eqb (t_hash a) (t_hash b) && payload_eqb (t_tft a) (t_tft b)
  && payload_eqb (t_body a) (t_body b) && payload_eqb (t_rcpt a) (t_rcpt b)
  && list_eqb log_eqb (t_logs a) (t_logs b) && list_eqb trace_eqb (t_traces a) (t_traces b).
Definition block_eqb (a b : block) : bool :=
  (b_num a =? b_num b) && bytes_eqb (b_hash a) (b_hash b) && bytes_eqb (b_parent a) (b_parent b)
  && payload_eqb (b_hpl a) (b_hpl b) && list_eqb tx_eqb (b_txs a) (b_txs b).

Definition canon_outcome (o : outcome (list block)) : outcome (list block) :=
  match o with Ok bs => Ok (map canon_block bs) | Err => Err | Panic => Panic end.

Inductive case :=
| CGet (p : plan) (start limit : N) (w : world) (res : outcome (list block))
| CLatest (r : reply hreply) (res : outcome (N * bytes))
| CHash (r : reply hreply) (res : outcome bytes).

Definition nh_eqb (a b : N * bytes) : bool := (fst a =? fst b) && bytes_eqb (snd a) (snd b).

Definition check (c : case) : bool :=
  match c with
  | CGet p s l w res => outcome_eqb (list_eqb block_eqb) (canon_outcome (get p s l w)) res
  | CLatest r res => outcome_eqb nh_eqb (latest r) res
  | CHash r res => outcome_eqb bytes_eqb (hash_of r) res
  end.

Definition run (cs : list case) : list nat := mismatches check cs.

(* short constructor names for the case files *)
Notation B := mkBlock (only parsing).
Notation T := mkTx (only parsing).
Notation L := mkLog (only parsing).
Notation A := mkTrace (only parsing).
Notation BE := mkBelem (only parsing).
Notation RC := mkRcpt (only parsing).
Notation RE := mkRelem (only parsing).
Notation LR := mkLogr (only parsing).
Notation LB := mkLbatch (only parsing).
Notation TR := mkTracer (only parsing).
Notation TE := mkTelem (only parsing).
Notation HR := mkHreply (only parsing).
Notation W := mkWorld (only parsing).
Notation P := mkPlan (only parsing).
