(* Correspondence entry points for C09.  [CDecl]: the ABI JSON the harness
   generated from a type AST, what Go holds after json.Unmarshal, and the type
   tree Event.ABIType built from it.  [CScan]: a declaration, typed values, the
   harness's own ABI encodings of them, and what one reused Result returned for
   each. *)
From Coq Require Import List NArith ZArith Bool.
From Shovel Require Import Base.Outcome Model.Hex Model.Bint Model.AbiType Model.AbiScan Model.AbiEnc
     Model.AbiParse Model.AbiSig Corr.AbiCase.
Import ListNotations.
Open Scope N_scope.

Inductive case :=
| CDecl (name : bytes) (js : list jty) (e : event) (obs : outcome ot) (ncols : nat)
| CScan (e : event) (indom : bool) (runs : list (aval * bytes * N * scan_obs)).

Definition check (c : case) : bool :=
  match c with
  | CDecl name js e obs ncols =>
      event_eqb (event_of name js) e &&
      match event_type false e, obs with
      | Ok t, Ok o => ot_eqb (obs_of t) o && Nat.eqb (ncols_of t) ncols && aty_eqb t (decl_type js)
                      && sel_okb (ncols_of t) t
      | Panic, Panic => true
      | _, _ => false
      end
  | CScan e indom runs =>
      (* a run is (value, trailing garbage, checksum of the bytes the harness's own
         encoder produced + garbage, observation); the input is rebuilt with the
         model's encoder *)
      match event_type false e with
      | Ok t =>
          let nc := ncols_of t in
          let inputs := map (fun r => let '(v, g, h, o) := r in (enc t v ++ g, o)) runs in
          Bool.eqb (dom t) indom &&
          forallb (fun r => let '(v, g, h, o) := r in
                            let d := enc t v ++ g in
                            has_typeb t v && (hash_bytes d =? h) &&
                            match o with
                            | SO 0 rows _ _ =>
                                negb indom || vrows_eqb (map (vrow d) rows) (rows_spec nc t v)
                            | _ => false
                            end) runs &&
          run_scans nc t (new_result nc) inputs
      | _ => false
      end
  end.

Definition run (cs : list case) : list nat := mismatches check cs.
