(* Executable property predicates over the frames of a replayed case
   (Corr/TaskConf.v).  Each RunC0x.v combines trace conformance with the
   predicates of its property. *)
From Coq Require Import List NArith Bool.
From Shovel Require Import Model.TaskTypes Model.TaskDb Model.Task Model.TaskNode Model.TaskSys
  Corr.TaskCase Corr.TaskConf.
Import ListNotations.
Open Scope N_scope.

Definition frames (c : tcase) : list frame := snd (replay c).

Definition ev_tid (e : event) : option N :=
  match e with EStart t | EOp t _ _ | EEnd t _ => Some t | _ => None end.

Definition pair_db (c : tcfg) (d : db) : db := restrict (t_src c) (t_ig c) d.
Definition pair_eq (c : tcfg) (a b : db) : bool :=
  leqb cursor_eqb (d_curs (pair_db c a)) (d_curs (pair_db c b))
  && leqb trow_eqb (d_rows (pair_db c a)) (d_rows (pair_db c b)).

Definition opt_lt (a b : option N) : bool :=
  match a, b with
  | None, Some _ => true
  | Some x, Some y => x <? y
  | _, _ => false
  end.

(* ---------- C02 ---------- *)
(* TaskInv on every committed state *)
Definition inv_everywhere (fs : list frame) : bool := forallb frame_inv fs.

(* a step that did not converge leaves the previous committed state of its
   pair, or (a committed unwind) a strictly earlier position; a converged step
   a strictly later one.  [starts]: committed database at the task's EStart *)
Fixpoint steps_ok (starts : list (N * (db * bool))) (fs : list frame) : bool :=
  match fs with
  | [] => true
  | f :: r =>
      match f_ev f with
      | EStart tid => steps_ok ((tid, (f_after f, false)) :: starts) r
      | EOp tid Commit (RFail KDropAfter) =>
          (* the transaction is committed although the client saw a failure *)
          match find (fun p => fst p =? tid) starts with
          | Some (_, (d0, _)) => steps_ok ((tid, (d0, true)) :: starts) r
          | None => false
          end
      | EEnd tid out =>
          match find (fun p => fst p =? tid) starts, find_task tid (f_tasks f) with
          | Some (_, (d0, amb)), Some t =>
              let c := k_cfg t in
              (match out with
               | OConverged => match newest_num c (f_after f) with Some _ => true | None => false end
               | _ => amb || pair_eq c d0 (f_after f)
                      || opt_lt (newest_num c (f_after f)) (newest_num c d0)
               end) && steps_ok starts r
          | _, _ => false
          end
      | _ => steps_ok starts r
      end
  end.

(* ---------- C04 ---------- *)
Definition other_curs (c : tcfg) (d : db) : list cursor :=
  filter (fun x => negb (cur_of (t_src c) (t_ig c) x)) (d_curs d).
Definition other_rows (c : tcfg) (d : db) : list trow :=
  filter (fun x => negb (row_of (t_src c) (t_ig c) x)) (d_rows d).
Definition stamped (c : tcfg) (o : io) : bool :=
  match o with
  | CopyRows t rs =>
      (t =? t_tbl c)
      && forallb (fun r => (r_tbl r =? t_tbl c) && (r_src r =? t_src c) && (r_ig r =? t_ig c)) rs
  | InsCursor x _ _ _ => cur_of (t_src c) (t_ig c) x
  | QLatest s i | QPrev s i | DelCursors s i _ => (s =? t_src c) && (i =? t_ig c)
  | DelRows t s i _ => (t =? t_tbl c) && (s =? t_src c) && (i =? t_ig c)
  | QLatestDep s _ => s =? t_src c
  | _ => true
  end.
(* every event of task t leaves everything outside t's pair untouched, and
   every op it issues is keyed / stamped by its own pair *)
Definition frame_ok (f : frame) : bool :=
  match f_ev f with
  | EOp tid o _ =>
      match find_task tid (f_tasks f) with
      | Some t =>
          leqb cursor_eqb (other_curs (k_cfg t) (f_before f)) (other_curs (k_cfg t) (f_after f))
          && leqb trow_eqb (other_rows (k_cfg t) (f_before f)) (other_rows (k_cfg t) (f_after f))
          && stamped (k_cfg t) o
      | None => false
      end
  | _ => true
  end.
Definition isolation (fs : list frame) : bool := forallb frame_ok fs.

(* ---------- C05 ---------- *)
(* the step's dependency reading: (dn, cnt) of the last QLatestDep of task tid *)
Fixpoint deps_ok (reads : list (N * (N * db))) (fs : list frame) : bool :=
  match fs with
  | [] => true
  | f :: r =>
      match f_ev f with
      | EStart tid => deps_ok (filter (fun p => negb (fst p =? tid)) reads) r
      | EOp tid (QLatestDep _ _) (RDep (Some (dn, _, _))) =>
          deps_ok ((tid, (dn, f_before f)) :: filter (fun p => negb (fst p =? tid)) reads) r
      | EOp tid (QLatestDep _ _) _ =>
          deps_ok (filter (fun p => negb (fst p =? tid)) reads) r
      | EOp tid (InsCursor x _ _ _) rep =>
          match find_task tid (f_tasks f) with
          | Some t =>
              match t_deps (k_cfg t) with
              | [] => deps_ok reads r
              | deps =>
                  if is_fail rep then deps_ok reads r else
                  match find (fun p => fst p =? tid) reads with
                  | Some (_, (dn, d)) =>
                      (c_num x <=? dn)
                      && forallb (fun dep =>
                                    match newest (t_src (k_cfg t)) dep (d_curs d) with
                                    | Some (n, _) => c_num x <=? n
                                    | None => false
                                    end) deps
                      && deps_ok reads r
                  | None => false
                  end
              end
          | None => false
          end
      | _ => deps_ok reads r
      end
  end.
Definition dependencies (fs : list frame) : bool := deps_ok [] fs.

(* ---------- C06 ---------- *)
Definition in_range (c : tcfg) (n : N) : bool :=
  (t_start c <=? n) && ((t_stop c =? 0) || (n <=? t_stop c)).
(* for a task that started from an empty pair and start > 0 *)
Definition range_ok (init : db) (f : frame) : bool :=
  forallb (fun t =>
             let c := k_cfg t in
             match d_curs (pair_db c init), d_rows (pair_db c init) with
             | [], [] =>
                 forallb (fun x => in_range c (c_num x)) (d_curs (pair_db c (f_after f)))
                 && forallb (fun x => in_range c (r_bnum x)) (d_rows (pair_db c (f_after f)))
             | _, _ => true
             end) (f_tasks f).
(* Done is returned only with a non-zero stop, by a step that committed nothing
   (the pair is as it was when the step began); if the stop block was recorded
   when the step began the step issued nothing but Begin, QLatest, Rollback;
   otherwise (empty range: no position, start-1 or head-1 already >= stop) only
   reads. *)
Definition quiet_io (o : io) : bool :=
  match o with Begin | QLatest _ _ | Rollback => true | _ => false end.
Definition read_io (o : io) : bool :=
  match o with Begin | QLatest _ _ | Rollback | RHash _ | RLatest _ => true | _ => false end.
Fixpoint done_ok (starts : list (N * db)) (ops : list (N * io)) (fs : list frame) : bool :=
  match fs with
  | [] => true
  | f :: r =>
      match f_ev f with
      | EStart tid => done_ok ((tid, f_after f) :: starts)
                              (filter (fun p => negb (fst p =? tid)) ops) r
      | EOp tid o _ => done_ok starts ((tid, o) :: ops) r
      | EEnd tid ODone =>
          match find (fun p => fst p =? tid) starts, find_task tid (f_tasks f) with
          | Some (_, d0), Some t =>
              let c := k_cfg t in
              let mine := filter (fun p => fst p =? tid) ops in
              (0 <? t_stop c)
              && pair_eq c d0 (f_after f)
              && match newest_num c d0 with
                 | Some n =>
                     if t_stop c <=? n then forallb (fun p => quiet_io (snd p)) mine
                     else true
                 | None => forallb (fun p => read_io (snd p)) mine
                 end
              && done_ok starts ops r
          | _, _ => false
          end
      | _ => done_ok starts ops r
      end
  end.
Definition start_stop (init : db) (fs : list frame) : bool :=
  forallb (range_ok init) fs && done_ok [] [] fs.

(* ---------- C01 / C03: the ghost against the chain versions ---------- *)
Definition final_chain (c : tcase) (tid : N) : option chain :=
  option_map snd (fold_left (fun acc v =>
               if cv_tid v =? tid then
                 match acc with
                 | Some (n, _) => if n <=? cv_ver v then Some (cv_ver v, cv_blocks v) else acc
                 | None => Some (cv_ver v, cv_blocks v)
                 end
               else acc) (tc_chains c) None).

Definition ghost_blocks (g : list gbatch) : list blk := concat (map g_blocks g).
Definition ghost_known (g : list gbatch) : bool :=
  forallb (fun b => match g_blocks b with [] => false | _ => true end) g.

(* batches hash-linked inside and across, numbers contiguous *)
Definition ghost_linked (g : list gbatch) : bool :=
  match ghost_blocks g with
  | [] => true
  | b :: r => linked_from b r
  end.
(* every ghost block is the block the chain has at that number *)
Definition on_chain (hashes : bool) (ch : chain) (bs : list blk) : bool :=
  forallb (fun b => match blk_at ch (b_num b) with
                    | Some x => blk_eqb b (if hashes then x else strip_parent x)
                    | None => false
                    end) bs.

(* C01, growth-only: with every batch known, the indexed blocks are a
   contiguous run of the canonical chain, so (with I2) the table is its projection *)
Definition growth_ok (c : tcase) (fs : list frame) : bool :=
  forallb (fun f =>
    forallb (fun t =>
      match final_chain c (t_id (k_cfg t)) with
      | Some ch =>
          negb (ghost_known (k_ghost t))
          || (ghost_linked (k_ghost t)
              && on_chain (t_hashes (k_cfg t)) ch (ghost_blocks (k_ghost t)))
      | None => true
      end) (f_tasks f)) fs.

(* a converged step moves the position by k, 1 <= k <= batch *)
Fixpoint advance_ok (starts : list (N * db)) (fs : list frame) : bool :=
  match fs with
  | [] => true
  | f :: r =>
      match f_ev f with
      | EStart tid => advance_ok ((tid, f_after f) :: starts) r
      | EEnd tid OConverged =>
          match find (fun p => fst p =? tid) starts, find_task tid (f_tasks f) with
          | Some (_, d0), Some t =>
              let c := k_cfg t in
              match newest_num c d0, newest_num c (f_after f) with
              | Some a, Some b => (a <? b) && (b <=? a + t_batch c) && advance_ok starts r
              | None, Some _ => advance_ok starts r
              | _, _ => false
              end
          | _, _ => false
          end
      | _ => advance_ok starts r
      end
  end.

(* C03: the ghost is hash-linked in every committed state; at the end, if the
   newest cursor is on the final chain, all indexed blocks are *)
Definition linked_everywhere (fs : list frame) : bool :=
  forallb (fun f =>
    forallb (fun t => negb (t_hashes (k_cfg t)) || negb (ghost_known (k_ghost t))
                      || ghost_linked (k_ghost t)) (f_tasks f)) fs.
Definition final_ok (c : tcase) (fs : list frame) : bool :=
  match last fs (Frame 0 ECrash (tc_init c) (tc_init c) []) with
  | f =>
    forallb (fun t =>
      match final_chain c (t_id (k_cfg t)) with
      | Some ch =>
          negb (t_hashes (k_cfg t)) || negb (ghost_known (k_ghost t))
          || match newest (t_src (k_cfg t)) (t_ig (k_cfg t)) (d_curs (f_after f)) with
             | Some (n, h) =>
                 match blk_at ch n with
                 | Some x => negb (b_hash x =? h) || on_chain true ch (ghost_blocks (k_ghost t))
                 | None => true
                 end
             | None => true
             end
      | None => true
      end) (f_tasks f)
  end.
