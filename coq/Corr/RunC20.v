(* Correspondence entry points for C20.
   [CLoad]: a file/database configuration mix given to the real loadTasks
   (through fakepg) and the task list it returned -- recomputed with
   [load_tasks] and compared as multisets.
   [CScen]: a scenario played on a real Manager with real goroutines (the
   driver holds tasks inside a step / a Run inside loadTasks through fakepg's
   gate, stores configurations, calls Restart) and what was observed: did the
   process panic, what did each Restart return, how many times was loadTasks
   run.  The scenario interpreter below plays the same operations on the
   machine of Model/Manager.v (variant Fixed = the code as repaired), letting
   everything that is not held run to quiescence after each operation. *)
From Coq Require Import List NArith Bool Arith PeanoNat.
From Shovel Require Import Base.Outcome Model.Manager.
Import ListNotations.

(* ---------------------------------------------------------------- part (i) *)

Definition task_eqb (a b : task) : bool :=
  bytes_eqb (t_src a) (t_src b) && bytes_eqb (t_ig a) (t_ig b) && bytes_eqb (t_url a) (t_url b)
  && N.eqb (t_chain a) (t_chain b)
  && N.eqb (t_start a) (t_start b) && N.eqb (t_stop a) (t_stop b)
  && N.eqb (t_poll a) (t_poll b) && N.eqb (t_batch a) (t_batch b) && N.eqb (t_conc a) (t_conc b).

Fixpoint remove_first (t : task) (l : list task) : option (list task) :=
  match l with
  | [] => None
  | x :: r => if task_eqb t x then Some r
              else match remove_first t r with Some r' => Some (x :: r') | None => None end
  end.
Fixpoint same_multiset (a b : list task) : bool :=
  match a with
  | [] => match b with [] => true | _ => false end
  | t :: a' => match remove_first t b with Some b' => same_multiset a' b' | None => false end
  end.

Definition mks := Build_source.
Definition mkr := Build_sref.
Definition mki := Build_integration.
Definition mkt := Build_task.

(* ---------------------------------------------------------------- part (ii) *)

Inductive op :=
| OStore (res : option nat)   (* the stored configuration changes: from now on loadTasks yields res *)
| OStart                      (* main: go mgr.Run(ec) *)
| OHoldTasks                  (* every task that enters a step stays inside it *)
| OHoldLoad                   (* a Run that reaches loadTasks stays inside it *)
| ORestart                    (* a goroutine calls Restart: close(tm.restart), go Run *)
| ORelease.                   (* holds lifted; everything runs until nothing is pending *)

Record sim := { st : state; started : bool; hold_t : bool; hold_l : bool; lres : option nat }.

Fixpoint find_index_from {A} (f : A -> bool) (l : list A) (i : nat) : option nat :=
  match l with
  | [] => None
  | x :: r => if f x then Some i else find_index_from f r (S i)
  end.
Definition find_index {A} (f : A -> bool) (l : list A) : option nat := find_index_from f l 0.

Definition can_return (s : state) (k : rst) : bool :=
  match k_pc k with
  | KWaiting r => match nth_error (runs s) r with
                  | Some x => match r_ec x with Some _ => true | None => false end
                  | None => false
                  end
  | _ => false
  end.

(* the next internal step of the system under the current holds; a task that
   would merely loop (channel open, nothing held) is idle *)
Definition next_internal (m : sim) : option action :=
  let s := st m in
  match find_index (fun k => match k_pc k with KCalled => true | _ => false end) (rsts s) with
  | Some k => Some (ARestartClose k)
  | None =>
  match find_index (can_return s) (rsts s) with
  | Some k => Some (ARestartReturn k)
  | None =>
  match lock s with
  | None => match find_index queued (runs s) with Some r => Some (ALock r) | None => None end
  | Some h =>
      match nth_error (runs s) h with
      | Some x =>
          match r_pc x with
          | RLocked | RReplace _ => Some (AReplace h)
          | RLoad => if hold_l m then None else Some (ALoad h (lres m))
          | RSigOk _ | RSigErr => Some (ASignal h)
          | RSpawn _ => Some (ASpawn h)
          | RErrRet => Some (AUnlock h)
          | RWait =>
              if all_exited s h then Some (AUnlock h) else
              let closed_now := is_closed s (cur s) in
              match find_index (fun t => Nat.eqb (g_gen t) h &&
                                  match g_pc t with
                                  | TCheck => closed_now || hold_t m
                                  | TStep => negb (hold_t m)
                                  | TExit => false
                                  end) (tasks s) with
              | Some t => match nth_error (tasks s) t with
                          | Some {| g_pc := TCheck |} => Some (ATaskCheck t)
                          | _ => Some (ATaskStep t false)
                          end
              | None => None
              end
          | _ => None
          end
      | None => None
      end
  end end end.

Definition with_st (m : sim) (s : state) : sim :=
  {| st := s; started := started m; hold_t := hold_t m; hold_l := hold_l m; lres := lres m |}.

Fixpoint quiesce (v : variant) (fuel : nat) (m : sim) : sim :=
  match fuel with
  | O => m
  | S f => if negb (started m) then m else
           match next_internal m with
           | Some a => quiesce v f (with_st m (step v (st m) a))
           | None => m
           end
  end.

Definition fuel0 : nat := 2000.

Definition apply_op (v : variant) (m : sim) (o : op) : sim :=
  match o with
  | OStore res =>
      {| st := step v (st m) AStore; started := started m; hold_t := hold_t m; hold_l := hold_l m; lres := res |}
  | OStart =>
      quiesce v fuel0 {| st := st m; started := true; hold_t := hold_t m; hold_l := hold_l m; lres := lres m |}
  | OHoldTasks =>
      quiesce v fuel0 {| st := st m; started := started m; hold_t := true; hold_l := hold_l m; lres := lres m |}
  | OHoldLoad =>
      quiesce v fuel0 {| st := st m; started := started m; hold_t := hold_t m; hold_l := true; lres := lres m |}
  | ORestart =>
      let k := List.length (rsts (st m)) in
      quiesce v fuel0 (with_st m (step v (step v (st m) ACallRestart) (ARestartClose k)))
  | ORelease =>
      quiesce v fuel0 {| st := st m; started := started m; hold_t := false; hold_l := false; lres := lres m |}
  end.

Definition sim0 : sim := {| st := init; started := false; hold_t := false; hold_l := false; lres := None |}.
Definition play (v : variant) (ops : list op) : sim := fold_left (apply_op v) ops sim0.

(* what a Restart call is seen to do: 0 = returned nil, 1 = returned an error, 2 = never returned *)
Definition rst_obs (k : rst) : nat :=
  match k_pc k with KReturned _ true => 0 | KReturned _ false => 1 | _ => 2 end.
Definition nloads (s : state) : nat :=
  List.length (filter (fun x => match r_lver x with Some _ => true | None => false end) (runs s)).

Inductive case :=
| CLoad (file_srcs db_srcs : list source) (file_igs db_igs : list integration) (res : outcome (list task))
| CScen (ops : list op) (obs_crashed : bool) (obs_rst : list nat) (obs_loads : nat) (obs_overlap : bool).

Definition check (c : case) : bool :=
  match c with
  | CLoad fs ds fi di res =>
      match load_tasks fs ds fi di, res with
      | Ok a, Ok b => same_multiset a b
      | Err, Err => true
      | _, _ => false
      end
  | CScen ops oc orst ol oo =>
      let s := st (play Fixed ops) in
      Bool.eqb (crashed s) oc
      && list_eqb Nat.eqb (map rst_obs (rsts s)) orst
      && Nat.eqb (nloads s) ol
      && negb oo
      && Nat.leb (List.length (live_gens s)) 1
  end.

Definition run (cs : list case) : list nat := mismatches check cs.
