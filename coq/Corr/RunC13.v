(* Correspondence entry points for C13.  [CSig]: type AST, the event Go parsed
   from its JSON, Event.Signature() and numIndexed.  [CGate]: an integration
   (event + its stored signature hash) and a sequence of logs (topics, data)
   pushed through processLog, with the number of rows each contributed
   (0 rows n / 1 error / 2 panic). *)
From Coq Require Import List NArith ZArith Bool.
From Shovel Require Import Base.Outcome Model.Hex Model.Bint Model.AbiType Model.AbiScan Model.AbiEnc
     Model.AbiParse Model.AbiSig Model.Keccak Corr.AbiCase.
Import ListNotations.
Open Scope N_scope.

Inductive gobs := GRows (n : nat) | GErr | GPanic.
Definition gobs_eqb (a b : gobs) : bool :=
  match a, b with
  | GRows n, GRows m => Nat.eqb n m
  | GErr, GErr | GPanic, GPanic => true
  | _, _ => false
  end.

Inductive case :=
| CSig (name : bytes) (js : list jty) (e : event) (sig : bytes) (nidx : nat)
| CGate (e : event) (sighash : bytes) (logs : list (list bytes * bytes * gobs))
| CHash (input digest : bytes).   (* eth.Keccak(input) as observed *)

(* processLog on a declaration whose selected inputs are all non-indexed and
   which has no block data and no filters *)
Fixpoint run_logs (nidx ncols : nat) (t : aty) (sighash : bytes) (s : st)
         (logs : list (list bytes * bytes * gobs)) : bool :=
  match logs with
  | [] => true
  | (topics, data, o) :: rest =>
      match gate nidx sighash topics data with
      | Ok Skip => gobs_eqb o (GRows 0) && run_logs nidx ncols t sighash s rest
      | Ok NoData =>
          gobs_eqb o (if Nat.eqb ncols 0 then GRows 1 else GErr) && run_logs nidx ncols t sighash s rest
      | Ok Decode =>
          match result_scan data ncols t s with
          | SOk s' => gobs_eqb o (GRows (nrows s')) && run_logs nidx ncols t sighash s' rest
          | SErr s' => gobs_eqb o GErr && run_logs nidx ncols t sighash s' rest
          | SPanic => gobs_eqb o GPanic
          | SFuel => false
          end
      | Panic => gobs_eqb o GPanic
      | Err => false
      end
  end.

Definition check (c : case) : bool :=
  match c with
  | CSig name js e sig nidx =>
      event_eqb (event_of name js) e && bytes_eqb (event_sig e) sig && bytes_eqb (canon_sig name js) sig
      && Nat.eqb (num_indexed e) nidx
  | CGate e sighash logs =>
      (* the hash the integration stored at construction is the model's
         Keccak-256 of the model's signature; the gate then runs on that hash *)
      let h := keccak256 (event_sig e) in
      bytes_eqb h sighash &&
      match event_type false e with
      | Ok t => run_logs (num_indexed e) (ncols_of t) t h (new_result (ncols_of t)) logs
      | _ => false
      end
  | CHash input digest => bytes_eqb (keccak256 input) digest
  end.

Definition run (cs : list case) : list nat := mismatches check cs.
