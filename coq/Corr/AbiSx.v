(* S-expression case syntax for the scan cases of C09 and C10 (second, extracted
   evaluator of the thorough tier).  The harness prints one case per line:
     event  (ev #name (inp ...))        inp  (i <indexed 0|1> #type (inp ...) <column 0|1>)
     value  (w #word) | (b #bytes) | (a (value ...)) | (t (value ...))
     obs    (so <kind> ((cell ...) ...) <n> <clen>)   cell (none) | (some (<off> <len>))
     mut    (id) | (trunc n) | (word i k) | (wordv i v) | (raw #bytes)
     C09    (scan event <indom 0|1> ((value #garbage <hash> obs) ...))
     C10    (mal event #base ((mut <hash> obs) ...))
   A line that does not parse counts as a mismatch ([checked]).  The checks are
   exactly Corr/RunC09.check and Corr/RunC10.check. *)
From Coq Require Import String.
From Coq Require Import List NArith ZArith Bool.
From Shovel Require Import Base.Outcome Base.Sx Model.AbiType Model.AbiScan Model.AbiEnc Model.AbiParse
     Corr.AbiCase Corr.RunC09 Corr.RunC10.
Import ListNotations.
Open Scope N_scope.
Open Scope string_scope.

Fixpoint parse_inp (x : sx) : option inp :=
  match x with
  | SL [t; ix; ty; SL cs; col] =>
      if is_tag "i" t then
        let? ix' := sx_bool ix in
        let? ty' := sx_bytes ty in
        let? cs' := all_some ((fix go (l : list sx) : list (option inp) :=
                                 match l with [] => [] | c :: r => parse_inp c :: go r end) cs) in
        let? col' := sx_bool col in
        Some (Inp ix' ty' cs' col')
      else None
  | _ => None
  end.

Definition parse_event (x : sx) : option event :=
  match x with
  | SL [t; nm; ins] =>
      if is_tag "ev" t then
        let? nm' := sx_bytes nm in
        let? ins' := sx_list parse_inp ins in
        Some (mkevent nm' ins')
      else None
  | _ => None
  end.

Fixpoint parse_val (x : sx) : option aval :=
  match x with
  | SL [t; SB b] =>
      if is_tag "w" t then Some (VWord b) else if is_tag "b" t then Some (VBytes b) else None
  | SL [t; SL vs] =>
      let vs' := all_some ((fix go (l : list sx) : list (option aval) :=
                              match l with [] => [] | c :: r => parse_val c :: go r end) vs) in
      if is_tag "a" t then option_map VArr vs'
      else if is_tag "t" t then option_map VTuple vs' else None
  | _ => None
  end.

Definition parse_cell : sx -> option cell := sx_opt (sx_pair sx_N sx_N).

Definition parse_obs (x : sx) : option scan_obs :=
  match x with
  | SL [t; k; rows; n; cl] =>
      if is_tag "so" t then
        let? k' := sx_N k in
        let? rows' := sx_list (sx_list parse_cell) rows in
        let? n' := sx_nat n in
        let? cl' := sx_nat cl in
        Some (SO k' rows' n' cl')
      else None
  | _ => None
  end.

Definition parse_mut (x : sx) : option mut :=
  match x with
  | SL [t] => if is_tag "id" t then Some MId else None
  | SL [t; a] =>
      if is_tag "trunc" t then option_map MTrunc (sx_N a)
      else if is_tag "raw" t then option_map MRaw (sx_bytes a) else None
  | SL [t; a; b] =>
      if is_tag "word" t then let? i := sx_N a in let? k := sx_N b in Some (MWord i k)
      else if is_tag "wordv" t then let? i := sx_N a in let? v := sx_N b in Some (MWordV i v)
      else None
  | _ => None
  end.

Definition parse_run09 (x : sx) : option (aval * bytes * N * scan_obs) :=
  match x with
  | SL [v; g; h; o] =>
      let? v' := parse_val v in let? g' := sx_bytes g in let? h' := sx_N h in let? o' := parse_obs o in
      Some (v', g', h', o')
  | _ => None
  end.

Definition parse_run10 (x : sx) : option (mut * N * scan_obs) :=
  match x with
  | SL [m; h; o] =>
      let? m' := parse_mut m in let? h' := sx_N h in let? o' := parse_obs o in Some (m', h', o')
  | _ => None
  end.

Definition parse09 (x : sx) : option RunC09.case :=
  match x with
  | SL [t; e; d; runs] =>
      if is_tag "scan" t then
        let? e' := parse_event e in let? d' := sx_bool d in let? rs := sx_list parse_run09 runs in
        Some (RunC09.CScan e' d' rs)
      else None
  | _ => None
  end.

Definition parse10 (x : sx) : option RunC10.case :=
  match x with
  | SL [t; e; b; runs] =>
      if is_tag "mal" t then
        let? e' := parse_event e in let? b' := sx_bytes b in let? rs := sx_list parse_run10 runs in
        Some (RunC10.CMal e' b' rs)
      else None
  | _ => None
  end.

Definition check_sx09 : sx -> bool := checked parse09 RunC09.check.
Definition check_sx10 : sx -> bool := checked parse10 RunC10.check.
