(* Correspondence entry points for C10: a declaration and a sequence of
   arbitrary byte strings scanned by ONE decoder instance, with the outcome
   (ok/err/panic), the cells as (offset, length) into the input, Result.Len()
   and len(collection) observed after each call. *)
From Coq Require Import List NArith ZArith Bool.
From Shovel Require Import Base.Outcome Model.Hex Model.Bint Model.AbiType Model.AbiScan Model.AbiEnc
     Model.AbiParse Model.AbiSig Corr.AbiCase.
Import ListNotations.
Open Scope N_scope.

(* inputs are mutations of one valid encoding [base] *)
Inductive mut := MId | MTrunc (n : N) | MWord (i k : N) | MWordV (i v : N) | MRaw (b : bytes).

Definition bval (k len : N) : N :=
  nth (N.to_nat k)
      [0; 1; 31; 32; len - 31; len; len + 1; 2 ^ 31; 2 ^ 32; 2 ^ 63 - 32; 2 ^ 63 - 1; 2 ^ 63;
       2 ^ 64 - 32; 2 ^ 64 - 1; 2 ^ 255] 0.

Definition apply_mut (base : bytes) (m : mut) : bytes :=
  match m with
  | MId => base
  | MTrunc n => firstn (N.to_nat n) base
  | MWord i k =>
      firstn (N.to_nat (32 * i)) base ++ be 32 (bval k (N.of_nat (length base)))
      ++ skipn (N.to_nat (32 * i + 32)) base
  | MWordV i v =>
      firstn (N.to_nat (32 * i)) base ++ be 32 v ++ skipn (N.to_nat (32 * i + 32)) base
  | MRaw b => b
  end.

Inductive case :=
| CMal (e : event) (base : bytes) (runs : list (mut * N * scan_obs)).

(* besides equality with the model: the cells the implementation returned lie
   inside the input and the rows stay below the proved bound *)
Definition obs_safe (t : aty) (d : bytes) (o : scan_obs) : bool :=
  match o with
  | SO 0 rows n _ =>
      forallb (forallb (fun c => match c with
                                 | Some (off, l) => off + l <=? N.of_nat (length d)
                                 | None => true end)) rows
      && (N.of_nat n <=? N.max 1 (cost t (N.of_nat (length d))))
  | SO 1 _ n _ => N.of_nat n <=? cost t (N.of_nat (length d))
  | _ => false
  end.

Definition check (c : case) : bool :=
  match c with
  | CMal e base runs =>
      match event_type false e with
      | Ok t =>
          let nc := ncols_of t in
          let inputs := map (fun r => let '(m, h, o) := r in (apply_mut base m, o)) runs in
          forallb (fun r => let '(m, h, o) := r in hash_bytes (apply_mut base m) =? h) runs &&
          forallb (fun r => obs_safe t (fst r) (snd r)) inputs &&
          run_scans nc t (new_result nc) inputs
      | _ => false
      end
  end.

Definition run (cs : list case) : list nat := mismatches check cs.
