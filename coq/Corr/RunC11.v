(* Correspondence entry point for C11: each case holds what the harness gave
   Integration.Insert (declaration, context, referenced tables, chain) and what
   the fake connection received; [check] recomputes it with Model/Rows.v. *)
From Coq Require Import List NArith.
From Shovel Require Import Base.Outcome Model.RowsCase.
Definition run (cs : list case) : list nat := mismatches check cs.
