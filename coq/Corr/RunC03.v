(* Correspondence entry point for C03.  A case is a recorded run of the real
   shovel.Task (Corr/TaskCase.v).  [check] = trace conformance with the model
   (Corr/TaskConf.v: same op at every position when fed the observed replies,
   same outcome class, same committed database at every snapshot)
   + TaskInv everywhere, the indexed blocks hash-linked in every committed state, and at the end: newest cursor on the final chain implies every indexed block is. *)
From Coq Require Import List NArith Bool.
From Shovel Require Import Base.Outcome Model.TaskTypes Model.TaskDb Model.Task Model.TaskNode
  Model.TaskSys Corr.TaskCase Corr.TaskConf Corr.TaskPred.
Import ListNotations.
Open Scope N_scope.

Definition case := tcase.

Definition check (c : case) : bool :=
  conforms c && (let fs := frames c in inv_everywhere fs && linked_everywhere fs && final_ok c fs).

Definition run (cs : list case) : list nat := mismatches check cs.
