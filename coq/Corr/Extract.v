(* Extraction of the correspondence runners (ExtrOcamlBasic only: bool, option,
   unit, list, prod, sumbool map to OCaml's; N, Z, positive, nat stay inductive). *)
From Coq Require Extraction.
From Coq Require Import ExtrOcamlBasic.
From Shovel Require Import Base.Sx Corr.RunC17.
Extraction Language OCaml.
Extraction "extracted.ml" Base.Sx.sx RunC17.check_sx.
