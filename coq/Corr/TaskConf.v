(* Trace conformance for the task layer (shared by RunC01..RunC06).

   [replay] walks the events of a case.  For every task it keeps the MODEL's
   program (Model/Task.v [converge]) and connection state, and the model's
   committed database.  At every [EOp] the model must be about to issue the
   same operation; database operations are executed on the model database and
   the observed reply must be the one the model database gives (injected
   faults excepted); node replies are fed to the model as observed.  [EEnd]
   must find the model program returned with the same outcome class; [ESnap]
   must equal the model's committed database as a multiset.

   Along the way a ghost is maintained per task: the batches (cursor, rows,
   blocks) whose rows are in the table.  The per-property predicates of
   RunC0x.v are evaluated on the list of frames [replay] returns. *)
From Coq Require Import List NArith Bool.
From Shovel Require Import Model.TaskTypes Model.TaskDb Model.Task Model.TaskNode Model.TaskSys
  Corr.TaskCase.
Import ListNotations.
Open Scope N_scope.

(* ---------- multiset equality ---------- *)
Fixpoint remove1 {A} (e : A -> A -> bool) (x : A) (l : list A) : option (list A) :=
  match l with
  | [] => None
  | y :: r => if e x y then Some r
              else match remove1 e x r with Some r' => Some (y :: r') | None => None end
  end.
Fixpoint perm_eqb {A} (e : A -> A -> bool) (a b : list A) : bool :=
  match a with
  | [] => match b with [] => true | _ => false end
  | x :: a' => match remove1 e x b with Some b' => perm_eqb e a' b' | None => false end
  end.
Definition db_eqb (a b : db) : bool :=
  perm_eqb cursor_eqb (d_curs a) (d_curs b) && perm_eqb trow_eqb (d_rows a) (d_rows b).

(* ---------- ghost ---------- *)
Record gbatch := GB { g_cur : cursor; g_rows : list trow; g_blocks : list blk }.

Definition ghost_del (n : N) (g : list gbatch) : list gbatch :=
  filter (fun b => c_num (g_cur b) <? n) g.

(* ghost of an initial database: one batch per cursor of the pair (ascending),
   holding the rows of the block numbers above the previous cursor *)
Fixpoint ins_cur (c : cursor) (l : list cursor) : list cursor :=
  match l with
  | [] => [c]
  | x :: r => if c_num c <? c_num x then c :: l else x :: ins_cur c r
  end.
Fixpoint ghost_cuts (lo : option N) (cs : list cursor) (rows : list trow) : list gbatch :=
  match cs with
  | [] => []
  | c :: r =>
      GB c (filter (fun x => match lo with Some l => l <? r_bnum x | None => true end
                             && (r_bnum x <=? c_num c)) rows) []
      :: ghost_cuts (Some (c_num c)) r rows
  end.
Definition ghost_of_db (c : tcfg) (d : db) : list gbatch :=
  ghost_cuts None (fold_right ins_cur [] (filter (cur_of (t_src c) (t_ig c)) (d_curs d)))
             (filter (row_of (t_src c) (t_ig c)) (d_rows d)).

(* ---------- per-task replay state ---------- *)
Record cst := CSt {
  k_cfg : tcfg;
  k_prog : option prog;          (* None: idle *)
  k_cs : cstate;
  k_dead : bool;                 (* connection lost during the current step *)
  k_ghost : list gbatch;         (* committed *)
  k_gtx : list gbatch;           (* as seen inside the open transaction *)
  k_last : list blk;             (* blocks accepted by the last load of this step *)
  k_lh : N                       (* local hash the last load was checked against *)
}.

Definition set_prog (t : cst) (p : option prog) : cst :=
  CSt (k_cfg t) p (k_cs t) (k_dead t) (k_ghost t) (k_gtx t) (k_last t) (k_lh t).

(* a frame: the situation after one event *)
Record frame := Frame {
  f_idx : nat;
  f_ev : event;
  f_before : db;                 (* model committed database before the event *)
  f_after : db;                  (* ... after it *)
  f_tasks : list cst             (* after it *)
}.

Inductive verdict :=
| VOk
| VBad (idx : nat) (code : N).
(* codes: 1 unknown task, 2 start while running, 3 op while idle/returned, 4 different op,
   5 reply differs from model database, 6 end while not returned, 7 outcome differs,
   8 snapshot differs, 9 transaction left open at return, 10 QRef reply differs *)

Definition is_drop (r : reply) : bool :=
  match r with RFail KDrop | RFail KDropAfter => true | _ => false end.
Definition injected (r : reply) : bool :=
  match r with RFail KErr | RFail KDrop | RFail KDropAfter | RFail KPanic => true | _ => false end.

(* observed reply [r] against the model database's reply [m] *)
Definition reply_match (m r : reply) : bool :=
  match m, r with
  | RUnit, RUnit => true
  | RUnit, RCount _ => true
  | RCount _, RUnit => true
  | RCount a, RCount b => a =? b
  | RFail KUnique, RFail KUnique => true
  | RCur None, RCur None => true
  | RCur (Some a), RCur (Some b) => pair_eqb a b
  | RDep None, RDep None => true
  | RDep (Some (a, b, c)), RDep (Some (a', b', c')) => (a =? a') && (b =? b') && (c =? c')
  | RNum None, RNum None => true
  | RNum (Some a), RNum (Some b) => a =? b
  | RBool a, RBool b => Bool.eqb a b
  | _, _ => false
  end.

Fixpoint find_task (tid : N) (ts : list cst) : option cst :=
  match ts with
  | [] => None
  | t :: r => if t_id (k_cfg t) =? tid then Some t else find_task tid r
  end.
Fixpoint put_task (t' : cst) (ts : list cst) : list cst :=
  match ts with
  | [] => []
  | t :: r => if t_id (k_cfg t) =? t_id (k_cfg t') then t' :: r else t :: put_task t' r
  end.

(* ghost bookkeeping for one executed model op *)
Definition ghost_op (t : cst) (o : io) (ok : bool) : list gbatch * list gbatch :=
  (* returns (ghost, gtx) *)
  match o with
  | Begin => (k_ghost t, k_ghost t)
  | Commit => if ok then (k_gtx t, k_gtx t) else (k_ghost t, k_ghost t)
  | Rollback => (k_ghost t, k_ghost t)
  | DelCursors _ _ n => if ok then (k_ghost t, ghost_del n (k_gtx t)) else (k_ghost t, k_gtx t)
  | InsCursor c _ _ _ =>
      if ok then (k_ghost t, k_gtx t ++ [GB c (rows_of (k_cfg t) (k_last t)) (k_last t)])
      else (k_ghost t, k_gtx t)
  | _ => (k_ghost t, k_gtx t)
  end.

Definition last_load (t : cst) (o : io) (r : reply) : list blk :=
  match o, r with
  | RGet _, RSegs segs =>
      match merge_segs segs with Some bs => sort_blocks bs | None => k_last t end
  | _, _ => k_last t
  end.

(* one op of task [t] *)
Definition do_op (idx : nat) (d : db) (t : cst) (o : io) (r : reply)
  : verdict * db * cst :=
  match o with
  | QRef tb col x =>
      (* a read the model does not predict; check the answer when it can be *)
      if (col =? 1) && negb (injected r)
         && negb (reply_match (snd (db_step (t_uniq (k_cfg t)) d (k_cs t) o)) r)
      then (VBad idx 10, d, t) else (VOk, d, t)
  | _ =>
  match k_prog t with
  | Some (Op i k) =>
      if negb (io_eqb i o) then (VBad idx 4, d, t) else
      let a := if is_db_op o then (if injected r then AReply r else AAuto) else AReply r in
      let '(d', cs', m) := step_op (t_uniq (k_cfg t)) d (k_cs t) i a in
      if is_db_op o && negb (injected r) && negb (reply_match m r) then (VBad idx 5, d, t) else
      let ok := negb (is_fail m) in
      let '(g, gtx) := ghost_op t o ok in
      (* a KDropAfter on Commit did commit *)
      let g := match o, r with Commit, RFail KDropAfter => k_gtx t | _, _ => g end in
      (VOk, d',
       CSt (k_cfg t) (Some (k m)) cs' (k_dead t || is_drop r) g
           (if is_drop r then g else gtx) (last_load t o r)
           (k_lh t))
  | _ => (VBad idx 3, d, t)
  end
  end.

(* the deferred Rollback never reaches the server on a dead connection *)
Definition skip_dead_rollback (t : cst) : cst :=
  match k_prog t with
  | Some (Op Rollback k) =>
      if k_dead t then CSt (k_cfg t) (Some (k (RFail KDrop))) None true (k_ghost t) (k_ghost t) (k_last t) (k_lh t)
      else t
  | _ => t
  end.

Definition crash_task (t : cst) : cst :=
  CSt (k_cfg t) None None false (k_ghost t) (k_ghost t) [] 0.

(* several task ids may stand for ONE (src, ig) pair: the same task restarted
   with another batch size / concurrency after a crash.  They share the ghost:
   whatever one of them commits is the committed ghost of all of them. *)
Definition same_pair (a b : cst) : bool :=
  (t_src (k_cfg a) =? t_src (k_cfg b)) && (t_ig (k_cfg a) =? t_ig (k_cfg b))
  && negb (t_id (k_cfg a) =? t_id (k_cfg b)).
Definition sync_ghost (t' : cst) (ts : list cst) : list cst :=
  map (fun t => if same_pair t' t
                then CSt (k_cfg t) (k_prog t) (k_cs t) (k_dead t) (k_ghost t') (k_ghost t') (k_last t) (k_lh t)
                else t) ts.

Definition do_event (idx : nat) (d : db) (ts : list cst) (e : event) : verdict * db * list cst :=
  match e with
  | EStart tid =>
      match find_task tid ts with
      | None => (VBad idx 1, d, ts)
      | Some t =>
          match k_prog t with
          | None => (VOk, d, put_task (CSt (k_cfg t) (Some (converge (k_cfg t))) None false
                                           (k_ghost t) (k_ghost t) [] 0) ts)
          | Some _ => (VBad idx 2, d, ts)
          end
      end
  | EOp tid o r =>
      match find_task tid ts with
      | None => (VBad idx 1, d, ts)
      | Some t => let '(v, d', t') := do_op idx d t o r in (v, d', sync_ghost t' (put_task t' ts))
      end
  | EEnd tid out =>
      match find_task tid ts with
      | None => (VBad idx 1, d, ts)
      | Some t =>
          let t := skip_dead_rollback t in
          match k_prog t with
          | Some (Ret o) =>
              if negb (outcome_eqb o out) then (VBad idx 7, d, ts)
              else match k_cs t with
                   | Some _ => (VBad idx 9, d, ts)
                   | None => (VOk, d, put_task (set_prog t None) ts)
                   end
          | _ => (VBad idx 6, d, ts)
          end
      end
  | ESnap s => if db_eqb d s then (VOk, d, ts) else (VBad idx 8, d, ts)
  | ECrash => (VOk, d, map crash_task ts)
  | EVer _ => (VOk, d, ts)
  end.

Fixpoint replay_from (idx : nat) (d : db) (ts : list cst) (es : list event)
  : verdict * list frame :=
  match es with
  | [] => (VOk, [])
  | e :: r =>
      let '(v, d', ts') := do_event idx d ts e in
      match v with
      | VOk => let '(v', fs) := replay_from (S idx) d' ts' r in
               (v', Frame idx e d d' ts' :: fs)
      | _ => (v, [])
      end
  end.

Definition init_tasks (c : tcase) : list cst :=
  map (fun t => CSt t None None false (ghost_of_db t (tc_init c)) (ghost_of_db t (tc_init c)) [] 0)
      (tc_tasks c).

Definition replay (c : tcase) : verdict * list frame :=
  replay_from 0 (tc_init c) (init_tasks c) (tc_events c).

Definition conforms (c : tcase) : bool :=
  match fst (replay c) with VOk => true | _ => false end.

(* ---------- TaskInv as a boolean, on a committed database + ghost ---------- *)
Definition newest_num (c : tcfg) (d : db) : option N :=
  option_map fst (newest (t_src c) (t_ig c) (d_curs d)).

(* I1: no row beyond the position; no position -> no rows; rows in the task's table *)
Definition inv_i1 (c : tcfg) (d : db) : bool :=
  let rows := filter (row_of (t_src c) (t_ig c)) (d_rows d) in
  match newest_num c d with
  | None => match rows with [] => true | _ => false end
  | Some n => forallb (fun r => (r_bnum r <=? n) && (r_tbl r =? t_tbl c)) rows
  end.
(* I2 + I3: the pair's restriction is exactly the rendering of the ghost batches *)
Definition inv_i23 (c : tcfg) (d : db) (g : list gbatch) : bool :=
  perm_eqb cursor_eqb (filter (cur_of (t_src c) (t_ig c)) (d_curs d)) (map g_cur g)
  && perm_eqb trow_eqb (filter (row_of (t_src c) (t_ig c)) (d_rows d)) (concat (map g_rows g)).
(* batch ends: the cursor of a batch with known blocks is its last block; rows lie inside it *)
Definition batch_ok (lo : option N) (b : gbatch) : bool :=
  forallb (fun r => (r_bnum r <=? c_num (g_cur b))
                    && match lo with Some l => l <? r_bnum r | None => true end) (g_rows b)
  && match g_blocks b with
     | [] => true
     | _ => (c_num (g_cur b) =? b_num (last_blk (g_blocks b)))
            && (c_hash (g_cur b) =? b_hash (last_blk (g_blocks b)))
     end.
Fixpoint batches_ok (lo : option N) (g : list gbatch) : bool :=
  match g with
  | [] => true
  | b :: r => batch_ok lo b
              && match lo with Some l => l <? c_num (g_cur b) | None => true end
              && batches_ok (Some (c_num (g_cur b))) r
  end.
Definition task_inv_b (c : tcfg) (d : db) (g : list gbatch) : bool :=
  inv_i1 c d && inv_i23 c d g && batches_ok None g.

(* every task, on the committed database of a frame *)
Definition frame_inv (f : frame) : bool :=
  forallb (fun t => task_inv_b (k_cfg t) (f_after f) (k_ghost t)) (f_tasks f).
