(* The authoritative case format of the task layer (C01..C06).  A case is what
   the Go drivers harness/cmd/c01..c06 print after running the REAL
   shovel.Task against the scripted node and the fake Postgres; the Coq side
   (Corr/TaskConf.v, Corr/RunC0x.v) replays it against the model.
   Prose description: design.d/task-case-format.md.  Definitions only. *)
From Coq Require Import List NArith Bool.
From Shovel Require Export Model.TaskTypes.
Import ListNotations.
Open Scope N_scope.

(* One observation, in the order the harness saw them (global order over all
   tasks; statement granularity). *)
Inductive event :=
| EStart (tid : N)                     (* task [tid] calls Converge *)
| EOp (tid : N) (o : io) (r : reply)   (* an I/O operation of that call with the reply the implementation got *)
| EEnd (tid : N) (out : outcome)       (* Converge returned (or panicked: OPanicked) *)
| ESnap (d : db)                       (* the COMMITTED database right now (all tasks, all tables) *)
| ECrash                               (* process death: every open transaction is discarded, running
                                          steps never return (no EEnd for them) *)
| EVer (v : N).                        (* informational: the node now serves chain version v *)

(* a version of the chain as projected for one task (rows differ per task) *)
Record chainv := ChainV { cv_ver : N; cv_tid : N; cv_blocks : list blk }.

Record tcase := TCase {
  tc_tasks  : list tcfg;     (* every task of the case; t_id unique *)
  tc_init   : db;            (* committed database before the first event *)
  tc_chains : list chainv;   (* chain versions (may be []); the highest cv_ver is the final chain *)
  tc_events : list event
}.

(* ---------- a complete example (single task, batch 2 x conc 2) ----------
   step 1 converges 0 -> 2, step 2 fails at the COPY (injected error), then the
   node switches to version 2 (fork below block 2), step 3 detects the reorg,
   unwinds the whole batch and re-indexes blocks 1..2 of the new version. *)
Definition example_task : tcfg := Task 1 1 2 3 1 0 2 2 [] true true.

Definition example_case : tcase :=
  TCase
    [Task 1 1 2 3 1 0 2 2 [] true true]
    (Db [] [])
    [ChainV 1 1 [Blk 0 100 99 []; Blk 1 101 100 [(1,11)]; Blk 2 102 101 []; Blk 3 103 102 [(1,31);(2,32)]];
     ChainV 2 1 [Blk 0 100 99 []; Blk 1 101 100 [(1,11)]; Blk 2 202 101 [(1,21)]; Blk 3 203 202 []; Blk 4 204 203 [(1,41)]]]
    [EVer 1;
     EStart 1;
     EOp 1 Begin RUnit;
     EOp 1 (QLatest 1 2) (RCur None);
     EOp 1 (RHash 0) (RHashV 100);
     EOp 1 (RLatest 0) (RHead 3 103);
     EOp 1 (RGet [(1,1);(2,1)]) (RSegs [SegOk [Blk 1 101 100 [(1,11)]]; SegOk [Blk 2 102 101 []]]);
     EOp 1 Commit RUnit;
     ESnap (Db [] []);
     EOp 1 Begin RUnit;
     EOp 1 (CopyRows 3 [Row 3 1 2 1 1 11]) (RCount 1);
     EOp 1 (InsCursor (Cur 1 2 2 102) 3 103 2) RUnit;
     EOp 1 Commit RUnit;
     ESnap (Db [Cur 1 2 2 102] [Row 3 1 2 1 1 11]);
     EEnd 1 OConverged;

     EStart 1;
     EOp 1 Begin RUnit;
     EOp 1 (QLatest 1 2) (RCur (Some (2,102)));
     EOp 1 (RLatest 2) (RHead 3 103);
     EOp 1 (RGet [(3,1)]) (RSegs [SegOk [Blk 3 103 102 [(1,31);(2,32)]]]);
     EOp 1 Commit RUnit;
     ESnap (Db [Cur 1 2 2 102] [Row 3 1 2 1 1 11]);
     EOp 1 Begin RUnit;
     EOp 1 (CopyRows 3 [Row 3 1 2 3 1 31; Row 3 1 2 3 2 32]) (RFail KErr);
     EOp 1 Rollback RUnit;
     ESnap (Db [Cur 1 2 2 102] [Row 3 1 2 1 1 11]);
     EEnd 1 OFailed;

     EVer 2;
     EStart 1;
     EOp 1 Begin RUnit;
     EOp 1 (QLatest 1 2) (RCur (Some (2,102)));
     EOp 1 (RLatest 2) (RHead 4 204);
     EOp 1 (RGet [(3,1);(4,1)]) (RSegs [SegOk [Blk 3 203 202 []]; SegOk [Blk 4 204 203 [(1,41)]]]);
     EOp 1 (DelCursors 1 2 2) (RCount 1);
     EOp 1 (QPrev 1 2) (RNum None);
     EOp 1 (DelRows 3 1 2 0) (RCount 1);
     EOp 1 (QLatest 1 2) (RCur None);
     EOp 1 (RHash 0) (RHashV 100);
     EOp 1 (RLatest 0) (RHead 4 204);
     EOp 1 (RGet [(1,1);(2,1)]) (RSegs [SegOk [Blk 1 101 100 [(1,11)]]; SegOk [Blk 2 202 101 [(1,21)]]]);
     EOp 1 Commit RUnit;
     ESnap (Db [] []);
     EOp 1 Begin RUnit;
     EOp 1 (CopyRows 3 [Row 3 1 2 1 1 11; Row 3 1 2 2 1 21]) (RCount 2);
     EOp 1 (InsCursor (Cur 1 2 2 202) 4 204 2) RUnit;
     EOp 1 Commit RUnit;
     ESnap (Db [Cur 1 2 2 202] [Row 3 1 2 1 1 11; Row 3 1 2 2 1 21]);
     EEnd 1 OConverged].

(* two tasks sharing table 3, interleaved at statement granularity: every op
   carries the id of the task (= connection) that issued it *)
Definition example_case2 : tcase :=
  TCase
    [Task 1 1 2 3 1 0 1 1 [] true true; Task 2 1 4 3 1 0 1 1 [2] true true]
    (Db [] [])
    []
    [EStart 1; EStart 2;
     EOp 1 Begin RUnit;
     EOp 2 Begin RUnit;
     EOp 2 (QLatest 1 4) (RCur None);
     EOp 1 (QLatest 1 2) (RCur None);
     EOp 1 (RHash 0) (RHashV 100);
     EOp 2 (RHash 0) (RHashV 100);
     EOp 2 (RLatest 0) (RHead 3 103);
     EOp 2 (QLatestDep 1 [2]) (RDep None);
     EOp 2 Rollback RUnit;
     EEnd 2 ONothingNew;
     EOp 1 (RLatest 0) (RHead 3 103);
     EOp 1 (RGet [(1,1)]) (RSegs [SegOk [Blk 1 101 100 [(1,11)]]]);
     EOp 1 Commit RUnit;
     EOp 1 Begin RUnit;
     EOp 1 (CopyRows 3 [Row 3 1 2 1 1 11]) (RCount 1);
     EOp 1 (InsCursor (Cur 1 2 1 101) 3 103 1) RUnit;
     EStart 2;
     EOp 2 Begin RUnit;
     EOp 2 (QLatest 1 4) (RCur None);
     EOp 2 (RHash 0) (RHashV 100);
     EOp 2 (RLatest 0) (RHead 3 103);
     EOp 2 (QLatestDep 1 [2]) (RDep None);       (* task 1 has not committed yet: read committed *)
     EOp 1 Commit RUnit;
     ESnap (Db [Cur 1 2 1 101] [Row 3 1 2 1 1 11]);
     EEnd 1 OConverged;
     EOp 2 Rollback RUnit;
     EEnd 2 ONothingNew;
     EStart 2;
     EOp 2 Begin RUnit;
     EOp 2 (QLatest 1 4) (RCur None);
     EOp 2 (RHash 0) (RHashV 100);
     EOp 2 (RLatest 0) (RHead 3 103);
     EOp 2 (QLatestDep 1 [2]) (RDep (Some (1,101,1)));
     EOp 2 (RGet [(1,1)]) (RSegs [SegOk [Blk 1 101 100 [(7,17)]]]);
     EOp 2 Commit RUnit;
     EOp 2 Begin RUnit;
     EOp 2 (QRef 3 1 11) (RBool true);
     EOp 2 (CopyRows 3 [Row 3 1 4 1 7 17]) (RCount 1);
     EOp 2 (InsCursor (Cur 1 4 1 101) 1 101 1) RUnit;
     EOp 2 Commit RUnit;
     ESnap (Db [Cur 1 2 1 101; Cur 1 4 1 101] [Row 3 1 2 1 1 11; Row 3 1 4 1 7 17]);
     EEnd 2 OConverged].
