(* Correspondence entry point for C05.  A case is a recorded run of the real
   shovel.Task (Corr/TaskCase.v).  [check] = trace conformance with the model
   (Corr/TaskConf.v: same op at every position when fed the observed replies,
   same outcome class, same committed database at every snapshot)
   + every cursor a dependent task inserts is <= the dependency position it read and <= the committed newest cursor of EVERY dependency at that moment. *)
From Coq Require Import List NArith Bool.
From Shovel Require Import Base.Outcome Model.TaskTypes Model.TaskDb Model.Task Model.TaskNode
  Model.TaskSys Corr.TaskCase Corr.TaskConf Corr.TaskPred.
Import ListNotations.
Open Scope N_scope.

Definition case := tcase.

Definition check (c : case) : bool :=
  conforms c && (let fs := frames c in dependencies fs && inv_everywhere fs).

Definition run (cs : list case) : list nat := mismatches check cs.
