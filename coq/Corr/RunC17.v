(* Correspondence entry points for C17: the harness writes the inputs it gave
   the implementation together with what the implementation returned; [check]
   recomputes each with the model. *)
From Coq Require Import List NArith Bool String.
From Shovel Require Import Base.Outcome Base.Sx Model.Hex Model.Bint.
Import ListNotations.
Open Scope N_scope.

Inductive case :=
| CU64 (tok : bytes) (res : outcome N)
| CByte (tok : bytes) (res : outcome N)
| CSeq (ops : list dop) (res : list (bool * bytes))
| CDecodeHex (s out : bytes)
| CEncodeHex (b out : bytes)
| CBintEnc (pad : option bytes) (n : N) (res : outcome bytes)
| CBintDec (b : bytes) (n : N)
| CDigest (alphabet : bytes) (maxlen : nat) (d : list N).

Definition P : N := 1000000007.

(* enumerate every token of exactly [n] symbols, first symbol major, without
   materialising the list; [pre] is the reversed prefix *)
Fixpoint fold_tokens {A} (f : A -> bytes -> A) (alphabet : bytes) (n : nat)
         (pre : bytes) (acc : A) : A :=
  match n with
  | O => f acc (rev pre)
  | S n' => fold_left (fun a c => fold_tokens f alphabet n' (c :: pre) a) alphabet acc
  end.
Fixpoint fold_upto {A} (f : A -> bytes -> A) (alphabet : bytes) (n : nat) (acc : A) : A :=
  match n with
  | O => fold_tokens f alphabet 0 [] acc
  | S n' => fold_tokens f alphabet n [] (fold_upto f alphabet n' acc)
  end.

Definition hash_bytes (b : bytes) : N := fold_left (fun h x => (h * 257 + x + 1) mod P) b 7.

(* digest state: index, then (ok count, err count, weighted sum) per decoder *)
Record dg := { ix : N; u_ok : N; u_err : N; u_sum : N;
               b_ok : N; b_err : N; b_sum : N;
               y_ok : N; y_err : N; y_sum : N }.
Definition dg0 := {| ix := 0; u_ok := 0; u_err := 0; u_sum := 0; b_ok := 0; b_err := 0; b_sum := 0;
                     y_ok := 0; y_err := 0; y_sum := 0 |}.
Definition dg_step (s : dg) (tok : bytes) : dg :=
  let i := ix s + 1 in
  let w := i mod P in
  let '(uo, ue, us) :=
    match uint64_unmarshal tok with
    | Ok v => (u_ok s + 1, u_err s, (u_sum s + (v mod P + 1) * w) mod P)
    | _ => (u_ok s, u_err s + 1, u_sum s) end in
  let '(bo, be_, bs) :=
    match byte_unmarshal tok with
    | Ok v => (b_ok s + 1, b_err s, (b_sum s + (v mod P + 1) * w) mod P)
    | _ => (b_ok s, b_err s + 1, b_sum s) end in
  let '(yo, ye, ys) :=
    match bytes_unmarshal [] tok with
    | (true, v) => (y_ok s + 1, y_err s, (y_sum s + (hash_bytes v) * w) mod P)
    | (false, _) => (y_ok s, y_err s + 1, y_sum s) end in
  {| ix := i; u_ok := uo; u_err := ue; u_sum := us; b_ok := bo; b_err := be_; b_sum := bs;
     y_ok := yo; y_err := ye; y_sum := ys |}.
Definition digest (alphabet : bytes) (maxlen : nat) : list N :=
  let s := fold_upto dg_step alphabet maxlen dg0 in
  [ix s; u_ok s; u_err s; u_sum s; b_ok s; b_err s; b_sum s; y_ok s; y_err s; y_sum s].

Definition res_eqb (a b : bool * bytes) : bool :=
  Bool.eqb (fst a) (fst b) && bytes_eqb (snd a) (snd b).

Definition check (c : case) : bool :=
  match c with
  | CU64 tok res => outcome_eqb N.eqb (uint64_unmarshal tok) res
  | CByte tok res => outcome_eqb N.eqb (byte_unmarshal tok) res
  | CSeq ops res => list_eqb res_eqb (drun [] ops) res
  | CDecodeHex s out => bytes_eqb (decode_hex s) out
  | CEncodeHex b out => bytes_eqb (encode_hex b) out
  | CBintEnc pad n res => outcome_eqb bytes_eqb (encode pad n) res
  | CBintDec b n => N.eqb (decode64 b) n
  | CDigest a m d => list_eqb N.eqb (digest a m) d
  end.

Definition run (cs : list case) : list nat := mismatches check cs.

(* ---- decoding of the harness's case syntax ---- *)
Open Scope string_scope.
Definition parse_dop (x : sx) : option dop :=
  match x with
  | SL [t; b] =>
      if is_tag "U" t then option_map DUnmarshal (sx_bytes b)
      else if is_tag "W" t then option_map DWrite (sx_bytes b) else None
  | _ => None
  end.
Definition parse (x : sx) : option case :=
  match x with
  | SL [t; a; b] =>
      if is_tag "U64" t then
        let? tok := sx_bytes a in let? r := sx_outcome sx_N b in Some (CU64 tok r)
      else if is_tag "Byte" t then
        let? tok := sx_bytes a in let? r := sx_outcome sx_N b in Some (CByte tok r)
      else if is_tag "Seq" t then
        let? ops := sx_list parse_dop a in
        let? res := sx_list (sx_pair sx_bool sx_bytes) b in Some (CSeq ops res)
      else if is_tag "DecodeHex" t then
        let? s := sx_bytes a in let? o := sx_bytes b in Some (CDecodeHex s o)
      else if is_tag "EncodeHex" t then
        let? s := sx_bytes a in let? o := sx_bytes b in Some (CEncodeHex s o)
      else if is_tag "BintDec" t then
        let? s := sx_bytes a in let? n := sx_N b in Some (CBintDec s n)
      else None
  | SL [t; a; b; c] =>
      if is_tag "BintEnc" t then
        let? pad := sx_opt sx_bytes a in let? n := sx_N b in
        let? r := sx_outcome sx_bytes c in Some (CBintEnc pad n r)
      else if is_tag "Digest" t then
        let? al := sx_bytes a in let? m := sx_nat b in
        let? d := sx_list sx_N c in Some (CDigest al m d)
      else None
  | _ => None
  end.
Definition check_sx : sx -> bool := checked parse check.
