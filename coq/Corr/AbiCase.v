(* Shared by the correspondence runners of C09, C10 and C13: the observation
   types the harness prints and their comparison with the model. *)
From Coq Require Import List NArith ZArith Bool.
From Shovel Require Import Base.Outcome Model.Hex Model.Bint Model.AbiType Model.AbiScan Model.AbiEnc
     Model.AbiParse Model.AbiSig.
Import ListNotations.
Open Scope N_scope.


(* byte constants: case files spell bytes as [x12; x255] (numerals are slow to elaborate) *)
Definition x0 : N := 0.
Definition x1 : N := 1.
Definition x2 : N := 2.
Definition x3 : N := 3.
Definition x4 : N := 4.
Definition x5 : N := 5.
Definition x6 : N := 6.
Definition x7 : N := 7.
Definition x8 : N := 8.
Definition x9 : N := 9.
Definition x10 : N := 10.
Definition x11 : N := 11.
Definition x12 : N := 12.
Definition x13 : N := 13.
Definition x14 : N := 14.
Definition x15 : N := 15.
Definition x16 : N := 16.
Definition x17 : N := 17.
Definition x18 : N := 18.
Definition x19 : N := 19.
Definition x20 : N := 20.
Definition x21 : N := 21.
Definition x22 : N := 22.
Definition x23 : N := 23.
Definition x24 : N := 24.
Definition x25 : N := 25.
Definition x26 : N := 26.
Definition x27 : N := 27.
Definition x28 : N := 28.
Definition x29 : N := 29.
Definition x30 : N := 30.
Definition x31 : N := 31.
Definition x32 : N := 32.
Definition x33 : N := 33.
Definition x34 : N := 34.
Definition x35 : N := 35.
Definition x36 : N := 36.
Definition x37 : N := 37.
Definition x38 : N := 38.
Definition x39 : N := 39.
Definition x40 : N := 40.
Definition x41 : N := 41.
Definition x42 : N := 42.
Definition x43 : N := 43.
Definition x44 : N := 44.
Definition x45 : N := 45.
Definition x46 : N := 46.
Definition x47 : N := 47.
Definition x48 : N := 48.
Definition x49 : N := 49.
Definition x50 : N := 50.
Definition x51 : N := 51.
Definition x52 : N := 52.
Definition x53 : N := 53.
Definition x54 : N := 54.
Definition x55 : N := 55.
Definition x56 : N := 56.
Definition x57 : N := 57.
Definition x58 : N := 58.
Definition x59 : N := 59.
Definition x60 : N := 60.
Definition x61 : N := 61.
Definition x62 : N := 62.
Definition x63 : N := 63.
Definition x64 : N := 64.
Definition x65 : N := 65.
Definition x66 : N := 66.
Definition x67 : N := 67.
Definition x68 : N := 68.
Definition x69 : N := 69.
Definition x70 : N := 70.
Definition x71 : N := 71.
Definition x72 : N := 72.
Definition x73 : N := 73.
Definition x74 : N := 74.
Definition x75 : N := 75.
Definition x76 : N := 76.
Definition x77 : N := 77.
Definition x78 : N := 78.
Definition x79 : N := 79.
Definition x80 : N := 80.
Definition x81 : N := 81.
Definition x82 : N := 82.
Definition x83 : N := 83.
Definition x84 : N := 84.
Definition x85 : N := 85.
Definition x86 : N := 86.
Definition x87 : N := 87.
Definition x88 : N := 88.
Definition x89 : N := 89.
Definition x90 : N := 90.
Definition x91 : N := 91.
Definition x92 : N := 92.
Definition x93 : N := 93.
Definition x94 : N := 94.
Definition x95 : N := 95.
Definition x96 : N := 96.
Definition x97 : N := 97.
Definition x98 : N := 98.
Definition x99 : N := 99.
Definition x100 : N := 100.
Definition x101 : N := 101.
Definition x102 : N := 102.
Definition x103 : N := 103.
Definition x104 : N := 104.
Definition x105 : N := 105.
Definition x106 : N := 106.
Definition x107 : N := 107.
Definition x108 : N := 108.
Definition x109 : N := 109.
Definition x110 : N := 110.
Definition x111 : N := 111.
Definition x112 : N := 112.
Definition x113 : N := 113.
Definition x114 : N := 114.
Definition x115 : N := 115.
Definition x116 : N := 116.
Definition x117 : N := 117.
Definition x118 : N := 118.
Definition x119 : N := 119.
Definition x120 : N := 120.
Definition x121 : N := 121.
Definition x122 : N := 122.
Definition x123 : N := 123.
Definition x124 : N := 124.
Definition x125 : N := 125.
Definition x126 : N := 126.
Definition x127 : N := 127.
Definition x128 : N := 128.
Definition x129 : N := 129.
Definition x130 : N := 130.
Definition x131 : N := 131.
Definition x132 : N := 132.
Definition x133 : N := 133.
Definition x134 : N := 134.
Definition x135 : N := 135.
Definition x136 : N := 136.
Definition x137 : N := 137.
Definition x138 : N := 138.
Definition x139 : N := 139.
Definition x140 : N := 140.
Definition x141 : N := 141.
Definition x142 : N := 142.
Definition x143 : N := 143.
Definition x144 : N := 144.
Definition x145 : N := 145.
Definition x146 : N := 146.
Definition x147 : N := 147.
Definition x148 : N := 148.
Definition x149 : N := 149.
Definition x150 : N := 150.
Definition x151 : N := 151.
Definition x152 : N := 152.
Definition x153 : N := 153.
Definition x154 : N := 154.
Definition x155 : N := 155.
Definition x156 : N := 156.
Definition x157 : N := 157.
Definition x158 : N := 158.
Definition x159 : N := 159.
Definition x160 : N := 160.
Definition x161 : N := 161.
Definition x162 : N := 162.
Definition x163 : N := 163.
Definition x164 : N := 164.
Definition x165 : N := 165.
Definition x166 : N := 166.
Definition x167 : N := 167.
Definition x168 : N := 168.
Definition x169 : N := 169.
Definition x170 : N := 170.
Definition x171 : N := 171.
Definition x172 : N := 172.
Definition x173 : N := 173.
Definition x174 : N := 174.
Definition x175 : N := 175.
Definition x176 : N := 176.
Definition x177 : N := 177.
Definition x178 : N := 178.
Definition x179 : N := 179.
Definition x180 : N := 180.
Definition x181 : N := 181.
Definition x182 : N := 182.
Definition x183 : N := 183.
Definition x184 : N := 184.
Definition x185 : N := 185.
Definition x186 : N := 186.
Definition x187 : N := 187.
Definition x188 : N := 188.
Definition x189 : N := 189.
Definition x190 : N := 190.
Definition x191 : N := 191.
Definition x192 : N := 192.
Definition x193 : N := 193.
Definition x194 : N := 194.
Definition x195 : N := 195.
Definition x196 : N := 196.
Definition x197 : N := 197.
Definition x198 : N := 198.
Definition x199 : N := 199.
Definition x200 : N := 200.
Definition x201 : N := 201.
Definition x202 : N := 202.
Definition x203 : N := 203.
Definition x204 : N := 204.
Definition x205 : N := 205.
Definition x206 : N := 206.
Definition x207 : N := 207.
Definition x208 : N := 208.
Definition x209 : N := 209.
Definition x210 : N := 210.
Definition x211 : N := 211.
Definition x212 : N := 212.
Definition x213 : N := 213.
Definition x214 : N := 214.
Definition x215 : N := 215.
Definition x216 : N := 216.
Definition x217 : N := 217.
Definition x218 : N := 218.
Definition x219 : N := 219.
Definition x220 : N := 220.
Definition x221 : N := 221.
Definition x222 : N := 222.
Definition x223 : N := 223.
Definition x224 : N := 224.
Definition x225 : N := 225.
Definition x226 : N := 226.
Definition x227 : N := 227.
Definition x228 : N := 228.
Definition x229 : N := 229.
Definition x230 : N := 230.
Definition x231 : N := 231.
Definition x232 : N := 232.
Definition x233 : N := 233.
Definition x234 : N := 234.
Definition x235 : N := 235.
Definition x236 : N := 236.
Definition x237 : N := 237.
Definition x238 : N := 238.
Definition x239 : N := 239.
Definition x240 : N := 240.
Definition x241 : N := 241.
Definition x242 : N := 242.
Definition x243 : N := 243.
Definition x244 : N := 244.
Definition x245 : N := 245.
Definition x246 : N := 246.
Definition x247 : N := 247.
Definition x248 : N := 248.
Definition x249 : N := 249.
Definition x250 : N := 250.
Definition x251 : N := 251.
Definition x252 : N := 252.
Definition x253 : N := 253.
Definition x254 : N := 254.
Definition x255 : N := 255.

(* checksum of a byte string (cross-check of the harness's own ABI encoder
   against Model/AbiEnc.enc without printing the bytes twice) *)
Definition HP : N := 1000000007.
Definition hash_bytes (b : bytes) : N := fold_left (fun h x => (h * 257 + x + 1) mod HP) b 7.

(* every field of dig.atype as the implementation holds it *)
Inductive ot := OT (kind : N) (sel : bool) (pos : nat) (static : bool) (size : Z) (len : Z) (kids : list ot).

Fixpoint obs_of (t : aty) : ot :=
  match t with
  | TWord s => OT 115 (is_sel s) (match s with Some p => p | None => O end) true 32 0 []
  | TDyn s => OT 100 (is_sel s) (match s with Some p => p | None => O end) false 0 0 []
  | TArr k e => OT 97 false O (is_static t) (Z.of_N (size t)) (Z.of_N k) [obs_of e]
  | TTuple fs => OT 116 false O (is_static t) (Z.of_N (size t)) 0 (map obs_of fs)
  end.

Fixpoint ot_eqb (a b : ot) : bool :=
  match a, b with
  | OT k s p st sz l ks, OT k' s' p' st' sz' l' ks' =>
      (k =? k') && Bool.eqb s s' && Nat.eqb p p' && Bool.eqb st st' && (sz =? sz')%Z && (l =? l')%Z &&
      (fix go (x y : list ot) : bool :=
         match x, y with
         | [], [] => true
         | u :: x', v :: y' => ot_eqb u v && go x' y'
         | _, _ => false
         end) ks ks'
  end.

Fixpoint inp_eqb (a b : inp) : bool :=
  match a, b with
  | Inp ix ty cs col, Inp ix' ty' cs' col' =>
      Bool.eqb ix ix' && bytes_eqb ty ty' && Bool.eqb col col' &&
      (fix go (x y : list inp) : bool :=
         match x, y with
         | [], [] => true
         | u :: x', v :: y' => inp_eqb u v && go x' y'
         | _, _ => false
         end) cs cs'
  end.
Definition event_eqb (a b : event) : bool :=
  bytes_eqb (ev_name a) (ev_name b) && list_eqb inp_eqb (ev_inputs a) (ev_inputs b).

(* one call of Result.Scan (+ Bytes) as observed: kind 0 ok / 1 err / 2 panic,
   the cells as (offset into the input, length), Result.Len(), len(collection) *)
Inductive scan_obs := SO (kind : N) (rows : list row) (n : nat) (clen : nat).

Definition cell_eqb (a b : cell) : bool :=
  option_eqb (fun x y => (fst x =? fst y) && (snd x =? snd y)) a b.
Definition rows_eqb (a b : list row) : bool := list_eqb (list_eqb cell_eqb) a b.

Definition obs_matches (r : sres) (o : scan_obs) : bool :=
  match r, o with
  | SOk s, SO 0 rows n clen =>
      rows_eqb (rows_out s) rows && Nat.eqb (nrows s) n && Nat.eqb (length (coll s)) clen
  | SErr s, SO 1 _ n clen => Nat.eqb (nrows s) n && Nat.eqb (length (coll s)) clen
  | SPanic, SO 2 _ _ _ => true
  | _, _ => false
  end.

Definition next_state (r : sres) (s : st) : st :=
  match r with SOk s' | SErr s' => s' | _ => s end.

(* a sequence of calls on ONE decoder instance *)
Fixpoint run_scans (ncols : nat) (t : aty) (s : st) (runs : list (bytes * scan_obs)) : bool :=
  match runs with
  | [] => true
  | (d, o) :: rest =>
      let r := result_scan d ncols t s in
      obs_matches r o &&
      match r with
      | SPanic | SFuel => true          (* the harness stops using an instance that panicked *)
      | _ => run_scans ncols t (next_state r s) rest
      end
  end.

Definition vrows_eqb (a b : list (list (option bytes))) : bool :=
  list_eqb (list_eqb (option_eqb bytes_eqb)) a b.
