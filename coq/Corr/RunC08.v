(* Correspondence entry points for C08.  The harness writes, for every case,
   the operations it performed on the implementation together with what the
   implementation returned / what its state was afterwards; [check] replays
   the operations on the model and compares everything. *)
From Coq Require Import List NArith Bool Arith.
From Shovel Require Import Base.Outcome Model.Cache Model.HeadCache Model.LogAttach Model.CGet.
Import ListNotations.
Open Scope N_scope.

(* ---- segment cache, sequential ---- *)
Record cop := mkCop {
  co_key : key;
  co_nocache : bool;
  co_res : fetched N;                (* what the scripted getter returns if called: FOk id, or an error
                                        with the id of the data that come with it (None = nil data) *)
  co_ret : option N;                 (* observed: id of the data returned, None = error *)
  co_asked : bool;                   (* observed: the getter was called *)
  co_dump : list (key * N * bool)    (* observed: segment map afterwards (key, nreads, done) *)
}.

Definition dump_entry_eqb (a b : key * N * bool) : bool :=
  let '(k1, n1, d1) := a in let '(k2, n2, d2) := b in
  key_eqb k1 k2 && (n1 =? n2) && Bool.eqb d1 d2.

Definition model_dump {D} (c : cache D) : list (key * N * bool) :=
  map (fun e => match nth_error (c_heap c) (snd e) with
                | Some sg => (fst e, sg_nreads sg, match sg_data sg with Some _ => true | None => false end)
                | None => (fst e, 0, false)
                end) (c_map c).

Definition same_dump (a b : list (key * N * bool)) : bool :=
  Nat.eqb (length a) (length b) && forallb (fun x => existsb (dump_entry_eqb x) b) a.

Definition optN_eqb := option_eqb N.eqb.

Fixpoint cache_seq (c : cache N) (ops : list cop) : bool :=
  match ops with
  | [] => true
  | o :: r =>
      if co_nocache o then
        optN_eqb (co_ret o) (fetch_value (co_res o)) && co_asked o && same_dump (model_dump c) (co_dump o)
        && cache_seq c r
      else
        match get_f (co_key o) (map (fun e => fst (fst e)) (co_dump o)) (co_res o) c with
        | None => false
        | Some (c1, ret, asked) =>
            optN_eqb ret (co_ret o) && Bool.eqb asked (co_asked o)
            && same_dump (model_dump c1) (co_dump o) && cache_seq c1 r
        end
  end.

(* ---- head cache, NumHash level ---- *)
Record hdump := mkHdump { hd_num : N; hd_hash : bytes; hd_nreads : N; hd_err : bool }.
Definition hdump_eqb (st : head) (d : hdump) : bool :=
  (h_num st =? hd_num d) && bytes_eqb (h_hash st) (hd_hash d)
  && (h_nreads st =? hd_nreads d) && Bool.eqb (h_err st) (hd_err d).

Definition pair_eqb (a b : N * bytes) : bool := (fst a =? fst b) && bytes_eqb (snd a) (snd b).

Definition hit_of (o : hobs) : option (N * bytes) :=
  match o with OHit n h => Some (n, h) | _ => None end.

Fixpoint head_seq (st : head) (ops : list (hop * option (N * bytes) * hdump)) : bool :=
  match ops with
  | [] => true
  | (op, ret, d) :: r =>
      let '(st1, o) := h_step st op in
      option_eqb pair_eqb (hit_of o) ret && hdump_eqb st1 d && head_seq st1 r
  end.

(* ---- Client.Latest, sequential, poller simulated through the hooks ---- *)
Record lobs := mkLobs {
  lo_ret : option (N * bytes);     (* observed result of Latest (None = error / not a Latest) *)
  lo_asked : bool;                 (* the server saw a direct "latest" request *)
  lo_dump : hdump
}.
Fixpoint latest_seq (st : head) (ops : list (lop * lobs)) : bool :=
  match ops with
  | [] => true
  | (op, ob) :: r =>
      let '(st1, o) := l_step st op in
      (match o with
       | None => match lo_ret ob with None => negb (lo_asked ob) | Some _ => false end
       | Some (ret, asked, _) => option_eqb pair_eqb ret (lo_ret ob) && Bool.eqb asked (lo_asked ob)
       end)
      && hdump_eqb st1 (lo_dump ob) && latest_seq st1 r
  end.

(* Client.Latest with the REAL poller (gated server): the poller's requests
   are answered one at a time by the script; [LUpdate]/[LError] are what those
   answers make the poller do.  In addition the driver observes whether the
   call started a poller (a poll request arrived afterwards). *)
Fixpoint poller_seq (st : head) (ops : list (lop * lobs * bool)) : bool :=
  match ops with
  | [] => true
  | (op, ob, started) :: r =>
      let '(st1, o) := l_step st op in
      (match o with
       | None => match lo_ret ob with None => negb (lo_asked ob) | Some _ => false end
       | Some (ret, asked, st_) =>
           option_eqb pair_eqb ret (lo_ret ob) && Bool.eqb asked (lo_asked ob) && Bool.eqb st_ started
       end)
      && hdump_eqb st1 (lo_dump ob) && poller_seq st1 r
  end.

(* Client.Latest with the REAL wsListen goroutine: bursts of announcements are
   observed only after the burst's last message (None = not observed). *)
Fixpoint ws_seq (st : head) (ops : list (lop * option lobs)) : bool :=
  match ops with
  | [] => true
  | (op, None) :: r => ws_seq (fst (l_step st op)) r
  | (op, Some ob) :: r =>
      let '(st1, o) := l_step st op in
      (match o with
       | None => match lo_ret ob with None => negb (lo_asked ob) | Some _ => false end
       | Some (ret, asked, _) => option_eqb pair_eqb ret (lo_ret ob) && Bool.eqb asked (lo_asked ob)
       end)
      && hdump_eqb st1 (lo_dump ob) && ws_seq st1 r
  end.

(* ---- attach operations on one block ---- *)
Definition log_eqb (a b : log) : bool :=
  (l_idx a =? l_idx b) && (l_addr a =? l_addr b) && (l_body a =? l_body b).
Definition tx_eqb (a b : tx) : bool :=
  (t_idx a =? t_idx b) && (t_hash a =? t_hash b) && (t_status a =? t_status b)
  && list_eqb log_eqb (t_logs a) (t_logs b) && list_eqb N.eqb (t_traces a) (t_traces b).
Definition blk_eqb (a b : blk) : bool :=
  (b_num a =? b_num b) && (b_hash a =? b_hash b) && (b_time a =? b_time b)
  && list_eqb tx_eqb (b_txs a) (b_txs b).

(* transactions sorted by index (stable insertion): Go's map iteration makes
   the order in which transactions are CREATED on a header-only block
   arbitrary; the order of logs inside a transaction is compared as it is *)
Fixpoint ins_tx (t : tx) (l : list tx) : list tx :=
  match l with
  | [] => [t]
  | u :: r => if t_idx t <? t_idx u then t :: l else u :: ins_tx t r
  end.
Definition sort_txs (l : list tx) : list tx := fold_left (fun acc t => ins_tx t acc) l [].
Definition canon_blk (b : blk) : blk := mkBlk (b_num b) (b_hash b) (b_time b) (sort_txs (b_txs b)).
Definition blks_eqb (a b : list blk) : bool := list_eqb blk_eqb (map canon_blk a) (map canon_blk b).

(* ---- Client.Get, sequential ---- *)
Record gobs := mkGobs {
  go_res : option (list blk);     (* None = error *)
  go_nbase : N; go_nextra : N; go_ntrace : N   (* requests seen by the server during the call *)
}.
Fixpoint get_seq (ch : chain) (cl : client) (ops : list (gop * gobs)) : bool :=
  match ops with
  | [] => true
  | (op, ob) :: r =>
      match cget ch op cl with
      | None => false
      | Some (cl1, res, nb, nx, nt) =>
          (match res, go_res ob with
           | GErr, None => true
           | GOk bs, Some obs => blks_eqb bs obs
           | _, _ => false
           end)
          && (nb =? go_nbase ob) && (nx =? go_nextra ob) && (nt =? go_ntrace ob) && get_seq ch cl1 r
      end
  end.

(* Client.Get without the hook: the surviving key set after pruneSegments is
   not observed; the ranges of a case have distinct starts, so the prune has no
   choice and the runner computes it: the keys of the (at most) five highest
   starts of the map as it is before pruneSegments. *)
Definition pre_prune {D} (k : key) (c : cache D) : list (key * nat) :=
  let m1 := prune_maxread (c_max c) (c_heap c) (c_map c) in
  match find_key k m1 with Some _ => m1 | None => m1 ++ [(k, length (c_heap c))] end.
Fixpoint ins_key (e : key) (l : list key) : list key :=
  match l with
  | [] => [e]
  | u :: r => if fst u <? fst e then e :: l else u :: ins_key e r
  end.
Definition auto_kept {D} (k : key) (c : cache D) : list key :=
  firstn 5 (fold_left (fun acc e => ins_key (fst e) acc) (pre_prune k c) []).
Definition with_kept (op : gop) (kept : list key) : gop :=
  mkGop (g_base op) (g_extra op) (g_traces op) (g_filter op) (g_key op) kept
        (g_failb op) (g_failx op) (g_failt op).
Fixpoint get_seq_auto (ch : chain) (cl : client) (ops : list (gop * gobs)) : bool :=
  match ops with
  | [] => true
  | (op0, ob) :: r =>
      let op := match g_base op0 with
                | Some b => with_kept op0 (auto_kept (g_key op0) (pick b cl))
                | None => op0
                end in
      match cget ch op cl with
      | None => false
      | Some (cl1, res, nb, nx, nt) =>
          (match res, go_res ob with
           | GErr, None => true
           | GOk bs, Some obs => blks_eqb bs obs
           | _, _ => false
           end)
          && (nb =? go_nbase ob) && (nx =? go_nextra ob) && (nt =? go_ntrace ob) && get_seq_auto ch cl1 r
      end
  end.

(* ---- concurrent runs: only what the theorems promise is checked ---- *)
(* segment cache: every returned id is the id of a successful fetch of the
   same key; a fetch result serves at most maxreads + G - 1 reads *)
Definition conc_cache_ok (mx : N) (G : N) (fetches : list (key * N * bool)) (rets : list (key * option N)) : bool :=
  forallb (fun r => match snd r with
                    | None => true
                    | Some id => existsb (fun f => let '(k, i, ok) := f in key_eqb k (fst r) && (i =? id) && ok) fetches
                    end) rets
  && forallb (fun f => let '(_, i, _) := f in
                N.of_nat (length (filter (fun r => optN_eqb (snd r) (Some i)) rets)) <=? mx + G - 1) fetches.

(* Client.Get: the caller's view of what it got equals the uncached result *)
Definition view_blk (x : extra) (t : bool) (f : list N) (b : blk) : blk :=
  mkBlk (b_num b) (b_hash b) (b_time b)
        (filter (fun t => negb (match t_logs t, t_traces t with [], [] => true | _, _ => false end))
                (map (fun u => mkTx (t_idx u) (t_hash u) 0
                                    (fold_left (fun acc l => if existsb (fun u => l_idx u =? l_idx l) acc then acc
                                                             else acc ++ [l])
                                               (filter (want x f) (t_logs u)) [])
                                    (if t then t_traces u else []))
                     (sort_txs (b_txs b)))).
Fixpoint ins_log (t : log) (l : list log) : list log :=
  match l with
  | [] => [t]
  | u :: r => if l_idx t <? l_idx u then t :: l else u :: ins_log t r
  end.
Definition sort_logs (l : list log) : list log := fold_left (fun acc t => ins_log t acc) l [].
Definition view_canon (x : extra) (t : bool) (f : list N) (b : blk) : blk :=
  let v := view_blk x t f b in
  mkBlk (b_num v) (b_hash v) (b_time v)
        (map (fun u => mkTx (t_idx u) (t_hash u) 0 (sort_logs (t_logs u)) (t_traces u)) (b_txs v)).
Definition view_eqb (x : extra) (t : bool) (f : list N) (a b : list blk) : bool :=
  list_eqb blk_eqb (map (view_canon x t f) a) (map (view_canon x t f) b).

Definition conc_get_ok (ch : chain)
  (calls : list (option kind * extra * bool * list N * key * option (list blk))) : bool :=
  forallb (fun c => let '(b, x, t, f, k, res) := c in
                    match res with
                    | None => true
                    | Some bs => view_eqb x t f bs (uget ch b x t f k)
                    end) calls.

(* two versions of the chain (a reorg): every successful Get has the view of
   the uncached assembly of ONE of them *)
Definition reorg_ok (ch1 ch2 : chain)
  (calls : list (option kind * extra * bool * list N * key * option (list blk))) : bool :=
  forallb (fun c => let '(b, x, t, f, k, res) := c in
                    match res with
                    | None => true
                    | Some bs => view_eqb x t f bs (uget ch1 b x t f k) || view_eqb x t f bs (uget ch2 b x t f k)
                    end) calls.

Inductive case :=
| CCache (mx : N) (ops : list cop)
| CHead (mx : N) (ops : list (hop * option (N * bytes) * hdump))
| CLatest (mx : N) (ops : list (lop * lobs))
| CPoller (mx : N) (ops : list (lop * lobs * bool))
| CWs (mx : N) (ops : list (lop * option lobs))
| CAttach (init : blk) (ops : list aop) (final : blk)
| CGet (mx : N) (ch : list cblock) (ops : list (gop * gobs))
| CGetAuto (mx : N) (ch : list cblock) (ops : list (gop * gobs))
| CReorg (ch1 ch2 : list cblock) (calls : list (option kind * extra * bool * list N * key * option (list blk)))
| CBroken      (* the driver could not run part of its streams: never corresponds *)
| CConcCache (mx : N) (G : N) (fetches : list (key * N * bool)) (rets : list (key * option N))
| CConcGet (ch : list cblock) (calls : list (option kind * extra * bool * list N * key * option (list blk))).

Definition check (c : case) : bool :=
  match c with
  | CCache mx ops => cache_seq (empty_cache mx) ops
  | CHead mx ops => head_seq (head_init mx) ops
  | CLatest mx ops => latest_seq (head_init mx) ops
  | CPoller mx ops => poller_seq (head_init mx) ops
  | CWs mx ops => ws_seq (head_init mx) ops
  | CAttach b ops final => blk_eqb (a_run b ops) final
  | CGet mx ch ops => get_seq (chain_of ch) (new_client mx) ops
  | CGetAuto mx ch ops => get_seq_auto (chain_of ch) (new_client mx) ops
  | CReorg ch1 ch2 calls => reorg_ok (chain_of ch1) (chain_of ch2) calls
  | CBroken => false
  | CConcCache mx G fetches rets => conc_cache_ok mx G fetches rets
  | CConcGet ch calls => conc_get_ok (chain_of ch) calls
  end.

Definition run (cs : list case) : list nat := mismatches check cs.
