(* Correspondence entry point for C06.  A case is a recorded run of the real
   shovel.Task (Corr/TaskCase.v).  [check] = trace conformance with the model
   (Corr/TaskConf.v: same op at every position when fed the observed replies,
   same outcome class, same committed database at every snapshot)
   + rows and cursors within [start, stop] for tasks started from an empty pair, Done only at/after a non-zero stop and with no op besides Begin/QLatest/Rollback. *)
From Coq Require Import List NArith Bool.
From Shovel Require Import Base.Outcome Model.TaskTypes Model.TaskDb Model.Task Model.TaskNode
  Model.TaskSys Corr.TaskCase Corr.TaskConf Corr.TaskPred.
Import ListNotations.
Open Scope N_scope.

Definition case := tcase.

Definition check (c : case) : bool :=
  conforms c && (let fs := frames c in start_stop (tc_init c) fs && inv_everywhere fs).

Definition run (cs : list case) : list nat := mismatches check cs.
