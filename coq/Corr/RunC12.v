(* Correspondence entry point for C12: Insert cases with filters (on the full
   chain and on the chain as filtered by a node applying the pushed-down
   restrictions) and Filter() cases; [check] recomputes them with
   Model/Filter.v, Model/Rows.v, Model/Pushdown.v. *)
From Coq Require Import List NArith.
From Shovel Require Import Base.Outcome Model.RowsCase.
Definition run (cs : list case) : list nat := mismatches check cs.
