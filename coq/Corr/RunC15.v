(* Correspondence entry points for C15.  Each case carries the configuration
   as the implementation decoded it (before validation), Go's classification of
   the non-ASCII code points that occur in it, and what the implementation
   did: accepted or rejected, and — when accepted — every SQL text the fake
   database connection received (Static, as hashes), plus the texts issued by
   Insert on blocks full of marker strings (Dynamic).  [check] recomputes
   acceptance and the exact texts with the model. *)
From Coq Require Import List NArith Bool String.
From Shovel Require Import Base.Outcome Model.Config Model.Sql Model.ConfigGen.
Import ListNotations.
Open Scope N_scope.

Definition ascii_letter (c : N) : bool := ((65 <=? c) && (c <=? 90)) || ((97 <=? c) && (c <=? 122)).
Definition ascii_digit (c : N) : bool := (48 <=? c) && (c <=? 57).
Definition cls := list (N * bool * bool).
Fixpoint lookup_cls (t : cls) (c : N) : bool * bool :=
  match t with
  | [] => (false, false)
  | (c', l, d) :: r => if c =? c' then (l, d) else lookup_cls r c
  end.
Definition mk_uni (t : cls) : uni :=
  {| is_letter := fun c => if c <? 128 then ascii_letter c else fst (lookup_cls t c);
     is_digit := fun c => if c <? 128 then ascii_digit c else snd (lookup_cls t c) |}.

(* texts are compared by the polynomial hash h*33 + c + 1 over their code points
   modulo 2^64 (shift and add: cheap under vm_compute; the harness computes the
   same sum with uint64 arithmetic) *)
Definition mask64 : N := 18446744073709551615.
Definition hash_str (s : str) : N :=
  fold_left (fun h c => N.land (N.shiftl h 5 + h + c + 1) mask64) s 1469598103934665603.

Inductive case :=
| CFile (t : cls) (c : root) (accepted : bool) (static dynamic apps cursor : list N) (deps : list (list str)) (wire : bool)
| CDash (t : cls) (srcs : list str) (g : integ) (accepted : bool) (static dynamic apps : list N) (deps : list (list str))
| CSrc (t : cls) (name : str) (g : integ) (accepted : bool) (static dynamic apps store : list N) (quiet : bool)
| CSafe (t : cls) (s : str) (ok : bool)
| CClass (t : cls).

Definition ver : str := s2r "verif1".

(* what reaches a wpg.Conn (NewTask's own statement goes through the pool) *)
Definition conn_texts (l : list stmt) : list N :=
  map (fun s => hash_str (render s)) (List.filter (fun s => negb (String.eqb (st_site s) "shovel.NewTask")) l).

(* the statements are compared as multisets (sorted): which statement is
   issued, with which exact text, how many times — not in which order *)
Fixpoint ins_sorted (x : N) (l : list N) : list N :=
  match l with
  | [] => [x]
  | y :: r => if x <=? y then x :: l else y :: ins_sorted x r
  end.
Definition sortN (l : list N) : list N := fold_right ins_sorted [] l.
(* NewTask's statement, observed on the wire of the pool (dashboard path) *)
Definition pool_texts (l : list stmt) : list N :=
  map (fun s => hash_str (render s)) (List.filter (fun s => String.eqb (st_site s) "shovel.NewTask") l).
Definition check_texts (model static dynamic : list N) : bool :=
  list_eqb N.eqb (sortN model) (sortN static) && forallb (fun t => existsb (N.eqb t) model) dynamic.

Definition check (c : case) : bool :=
  gen_ok &&
  match c with
  | CFile t c acc st dy apps cur deps wire =>
      match validate_fix (mk_uni t) G c with
      | None => negb acc && is_nil st && is_nil dy && is_nil apps && is_nil cur && is_nil deps
      | Some c' =>
          let model := all_sql_file reserved ver c' in
          acc && check_texts (conn_texts model) st dy
          (* Integration.Dependencies of every integration after ValidateFix, in order *)
          && list_eqb (list_eqb str_eqb) (map ig_deps (integs c')) deps
          (* on the wire of the pool: NewTask's statement for every task when the load
             succeeds (else for some of the references that resolve: map order), and
             only constant cursor statements *)
          (* wire = false: a source URL does not parse, the process exits in loadTasks
             (jrpc2.MustURL) and the configuration is not run against the pool *)
          && (if negb wire then is_nil apps
              else if load_ok (sources c') (integs c')
              then list_eqb N.eqb (sortN (pool_texts model)) (sortN apps)
              else forallb (fun a => existsb (N.eqb a) (pool_texts model)) apps)
          && forallb (fun x => existsb (N.eqb x) (map hash_str cursor_texts)) cur
      end
  | CDash t srcs g acc st dy apps deps =>
      if check_user_input (mk_uni t) (g_checked G) (root_of g)
      then acc && check_texts (conn_texts (all_sql_dash ver srcs g)) st dy
           && list_eqb N.eqb (sortN (pool_texts (all_sql_dash ver srcs g))) (sortN apps)
           (* the stored integration is loaded with the Dependencies it was submitted with *)
           && list_eqb (list_eqb str_eqb) [ig_deps g] deps
      else negb acc && is_nil st && is_nil dy && is_nil apps && is_nil deps
  (* web.SaveSource with [name], an integration that refers to it is already stored:
     stored iff save_source_ok; when rejected NOTHING reaches the database (quiet);
     when stored the tasks of the integration run on the new source; everything the
     database sees on shovel.sources / shovel.integrations is a constant statement *)
  | CSrc t name g acc st dy apps store quiet =>
      forallb (fun x => existsb (N.eqb x) (map hash_str store_texts)) store &&
      if save_source_ok (mk_uni t) name
      then acc && check_texts (conn_texts (all_sql_dash ver [name] g)) st dy
           && list_eqb N.eqb (sortN (pool_texts (all_sql_dash ver [name] g))) (sortN apps)
      else negb acc && quiet && is_nil st && is_nil dy && is_nil apps && is_nil store
  (* wstrings.Safe on one string (invalid bytes arrive as U+FFFD, as Go's range yields them) *)
  | CSafe t s ok => Bool.eqb (safe (mk_uni t) s) ok
  | CClass t =>
      forallb (fun x => match x with (c, l, d) =>
                 if c <? 128 then Bool.eqb l (ascii_letter c) && Bool.eqb d (ascii_digit c) else true end) t
      && forallb (fun m => existsb (fun x => match x with (c, l, d) => (c =? m) && negb l && negb d end) t) metachars
      && forallb (fun c => existsb (fun x => (fst (fst x)) =? c) t) (map N.of_nat (seq 0 128))
  end.

Definition run (cs : list case) : list nat := mismatches check cs.
