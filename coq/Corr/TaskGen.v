(* Model-side case generator: runs the MODEL (any variant) against an honest
   node and prints the events a driver would print.  Used to test the
   conformance checkers without the Go side, and to turn the [_refuted]
   witnesses into cases.  Definitions only. *)
From Coq Require Import List NArith Bool.
From Shovel Require Import Model.TaskTypes Model.TaskDb Model.Task Model.TaskNode Model.TaskSys
  Model.TaskSpec Model.TaskWitness Corr.TaskCase.
Import ListNotations.
Open Scope N_scope.

Definition fault_at (flt : list (nat * fkind)) (i : nat) : option fkind :=
  option_map snd (find (fun p => Nat.eqb (fst p) i) flt).

(* one step; [flt]: op index -> injected fault *)
Fixpoint gen_ops (fuel : nat) (c : tcfg) (ch : chain) (flt : list (nat * fkind))
         (i : nat) (p : prog) (d : db) (cs : cstate) : list event * db :=
  match fuel with
  | O => ([], d)
  | S f =>
      match p with
      | Ret o => ([ESnap d; EEnd (t_id c) o], d)
      | Op io k =>
          let a := match fault_at flt i with
                   | Some kd => AReply (RFail kd)
                   | None => if is_db_op io then AAuto else AReply (honest (t_hashes c) ch io)
                   end in
          let '(d', cs', r) := step_op (t_uniq c) d cs io a in
          let '(es, d'') := gen_ops f c ch flt (S i) (k r) d' cs' in
          (EOp (t_id c) io r ::
           match io with Commit | Rollback => [ESnap d'] | _ => [] end ++ es, d'')
      end
  end.

Definition gen_step (v : variant) (c : tcfg) (ch : chain) (flt : list (nat * fkind)) (d : db)
  : list event * db :=
  let '(es, d') := gen_ops 5000 c ch flt 0 (converge_v v c) d None in
  (EStart (t_id c) :: es, d').

(* a sequence of steps, each against its own chain version and fault plan *)
Fixpoint gen_steps (v : variant) (c : tcfg) (plan : list (chain * list (nat * fkind))) (d : db)
  : list event * db :=
  match plan with
  | [] => ([], d)
  | (ch, flt) :: r =>
      let '(es, d') := gen_step v c ch flt d in
      let '(es', d'') := gen_steps v c r d' in
      (es ++ es', d'')
  end.

Definition gen_case (v : variant) (c : tcfg) (init : db) (chains : list chain)
           (plan : list (chain * list (nat * fkind))) : tcase :=
  TCase [c] init
        (map (fun p => ChainV (N.of_nat (fst p)) (t_id c) (snd p)) (combine (seq 1 (length chains)) chains))
        (fst (gen_steps v c plan init)).
