(* Correspondence entry point for C04.  A case is a recorded run of the real
   shovel.Task (Corr/TaskCase.v).  [check] = trace conformance with the model
   (Corr/TaskConf.v: same op at every position when fed the observed replies,
   same outcome class, same committed database at every snapshot)
   + every op of a task leaves everything outside its (src, ig) pair untouched and is keyed / stamped by that pair; TaskInv of every task everywhere. *)
From Coq Require Import List NArith Bool.
From Shovel Require Import Base.Outcome Model.TaskTypes Model.TaskDb Model.Task Model.TaskNode
  Model.TaskSys Corr.TaskCase Corr.TaskConf Corr.TaskPred.
Import ListNotations.
Open Scope N_scope.

Definition case := tcase.

Definition check (c : case) : bool :=
  conforms c && (let fs := frames c in isolation fs && inv_everywhere fs).

Definition run (cs : list case) : list nat := mismatches check cs.
