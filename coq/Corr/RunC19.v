(* Correspondence entry points for C19.  The harness drives the real
   web.Handler (httptest) and writes, per history, the configuration, the
   password New generated, the instance number, and every request together with
   what the implementation answered; [check] recomputes the answers with the
   model.  [CLoop] ties is_loopback to isLoopback on single address strings
   (the harness states the class of each string).  [CRoute] ties [dispatch]
   over the regenerated route table to net/http's ServeMux. *)
From Coq Require Import List NArith Bool String.
From Shovel Require Import Base.Outcome Model.Authn Gen.Routes.
Import ListNotations.

Inductive case :=
| CHist (c : config) (generated : bytes) (i : nat) (steps : list (request * response))
| CLoop (r : remote) (obs : bool)
(* an unauthenticated request (authn on, public remote, no cookie) for [path]
   sent to a real ServeMux loaded with main.go's registrations: was it
   redirected to /login, did a registered handler run *)
| CRoute (path : string) (redirected ran : bool).

(* short constructor names for the case files *)
Definition mkc := Build_config.
Definition rq := Build_request.
Definition rs := Build_response.

Definition tok_eqb (a b : nat * nat) : bool :=
  Nat.eqb (fst a) (fst b) && Nat.eqb (snd a) (snd b).
Definition response_eqb (a b : response) : bool :=
  Bool.eqb (ran a) (ran b) && N.eqb (status a) (status b)
  && bytes_eqb (location a) (location b)
  && option_eqb tok_eqb (set_cookie a) (set_cookie b).

Definition check (c : case) : bool :=
  match c with
  | CHist cf gen i steps =>
      list_eqb response_eqb
        (snd (run_hist verifies_issued (new cf gen i) (map fst steps)))
        (map snd steps)
  | CLoop r obs => Bool.eqb (is_loopback r) obs
  | CRoute path redirected ran =>
      match dispatch Gen.Routes.routes path with
      | Some r => Bool.eqb redirected (wrapped r) && Bool.eqb ran (negb (wrapped r))
      | None => negb redirected && negb ran
      end
  end.

Definition run (cs : list case) : list nat := mismatches check cs.
