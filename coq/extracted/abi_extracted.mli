
val negb : bool -> bool

type nat =
| O
| S of nat

val option_map : ('a1 -> 'a2) -> 'a1 option -> 'a2 option

val fst : ('a1 * 'a2) -> 'a1

val snd : ('a1 * 'a2) -> 'a2

val length : 'a1 list -> nat

val app : 'a1 list -> 'a1 list -> 'a1 list

type comparison =
| Eq
| Lt
| Gt

val add : nat -> nat -> nat

val sub : nat -> nat -> nat

val eqb : nat -> nat -> bool

val leb : nat -> nat -> bool

val ltb : nat -> nat -> bool

val eqb0 : bool -> bool -> bool

module Nat :
 sig
  val eqb : nat -> nat -> bool
 end

val tl : 'a1 list -> 'a1 list

val nth : nat -> 'a1 list -> 'a1 -> 'a1

val nth_error : 'a1 list -> nat -> 'a1 option

val removelast : 'a1 list -> 'a1 list

val rev : 'a1 list -> 'a1 list

val map : ('a1 -> 'a2) -> 'a1 list -> 'a2 list

val flat_map : ('a1 -> 'a2 list) -> 'a1 list -> 'a2 list

val fold_left : ('a1 -> 'a2 -> 'a1) -> 'a2 list -> 'a1 -> 'a1

val fold_right : ('a2 -> 'a1 -> 'a1) -> 'a1 -> 'a2 list -> 'a1

val existsb : ('a1 -> bool) -> 'a1 list -> bool

val forallb : ('a1 -> bool) -> 'a1 list -> bool

val firstn : nat -> 'a1 list -> 'a1 list

val skipn : nat -> 'a1 list -> 'a1 list

val repeat : 'a1 -> nat -> 'a1 list

type positive =
| XI of positive
| XO of positive
| XH

type n =
| N0
| Npos of positive

type z =
| Z0
| Zpos of positive
| Zneg of positive

module Pos :
 sig
  type mask =
  | IsNul
  | IsPos of positive
  | IsNeg
 end

module Coq_Pos :
 sig
  val succ : positive -> positive

  val add : positive -> positive -> positive

  val add_carry : positive -> positive -> positive

  val pred_double : positive -> positive

  type mask = Pos.mask =
  | IsNul
  | IsPos of positive
  | IsNeg

  val succ_double_mask : mask -> mask

  val double_mask : mask -> mask

  val double_pred_mask : positive -> mask

  val sub_mask : positive -> positive -> mask

  val sub_mask_carry : positive -> positive -> mask

  val mul : positive -> positive -> positive

  val iter : ('a1 -> 'a1) -> 'a1 -> positive -> 'a1

  val pow : positive -> positive -> positive

  val size : positive -> positive

  val compare_cont : comparison -> positive -> positive -> comparison

  val compare : positive -> positive -> comparison

  val eqb : positive -> positive -> bool

  val iter_op : ('a1 -> 'a1 -> 'a1) -> positive -> 'a1 -> 'a1

  val to_nat : positive -> nat

  val of_succ_nat : nat -> positive
 end

module N :
 sig
  val succ_double : n -> n

  val double : n -> n

  val add : n -> n -> n

  val sub : n -> n -> n

  val mul : n -> n -> n

  val compare : n -> n -> comparison

  val eqb : n -> n -> bool

  val leb : n -> n -> bool

  val ltb : n -> n -> bool

  val max : n -> n -> n

  val pow : n -> n -> n

  val log2 : n -> n

  val pos_div_eucl : positive -> n -> n * n

  val div_eucl : n -> n -> n * n

  val div : n -> n -> n

  val modulo : n -> n -> n

  val to_nat : n -> nat

  val of_nat : nat -> n
 end

type ascii =
| Ascii of bool * bool * bool * bool * bool * bool * bool * bool

val n_of_digits : bool list -> n

val n_of_ascii : ascii -> n

module Z :
 sig
  val eqb : z -> z -> bool

  val of_N : n -> z
 end

type string =
| EmptyString
| String of ascii * string

val list_ascii_of_string : string -> ascii list

type 'a outcome =
| Ok of 'a
| Err
| Panic

val bind : 'a1 outcome -> ('a1 -> 'a2 outcome) -> 'a2 outcome

type bytes = n list

val list_eqb : ('a1 -> 'a1 -> bool) -> 'a1 list -> 'a1 list -> bool

val bytes_eqb : n list -> n list -> bool

val option_eqb : ('a1 -> 'a1 -> bool) -> 'a1 option -> 'a1 option -> bool

type sx =
| SA of bytes
| SB of bytes
| SL of sx list

val tag : string -> bytes

val is_tag : string -> sx -> bool

val dec_digits : bytes -> n option

val sx_N : sx -> n option

val sx_nat : sx -> nat option

val sx_bool : sx -> bool option

val sx_bytes : sx -> bytes option

val all_some : 'a1 option list -> 'a1 list option

val sx_list : (sx -> 'a1 option) -> sx -> 'a1 list option

val sx_pair :
  (sx -> 'a1 option) -> (sx -> 'a2 option) -> sx -> ('a1 * 'a2) option

val sx_opt : (sx -> 'a1 option) -> sx -> 'a1 option option

val obind : 'a1 option -> ('a1 -> 'a2 option) -> 'a2 option

val checked : (sx -> 'a1 option) -> ('a1 -> bool) -> sx -> bool

type aty =
| TWord of nat option
| TDyn of nat option
| TArr of n * aty
| TTuple of aty list

val is_static : aty -> bool

val size0 : aty -> n

val is_sel : nat option -> bool

val has_select : aty -> bool

val is_arr : aty -> bool

val selected : aty -> nat list

val ncols_of : aty -> nat

val sel_okb : nat -> aty -> bool

val aty_eqb : aty -> aty -> bool

val no_sel_arr : aty -> bool

val dom : aty -> bool

val two64 : n

val be : nat -> n -> bytes

val decode64 : bytes -> n

type cell = (n * n) option

type row = cell list

type st = { single : row; coll : row list; nrows : nat; iters : n }

type cur =
| CSingle
| CRow of nat

type sres =
| SOk of st
| SErr of st
| SFuel
| SPanic

val set_nth : nat -> 'a1 -> 'a1 list -> 'a1 list

val lift : 'a1 outcome -> st -> ('a1 -> sres) -> sres

val with_single : st -> row -> st

val with_coll : st -> row list -> st

val tick : st -> st

val put : st -> cur -> nat -> (n * n) -> sres

val l : bytes -> n

val blank : nat -> row

val get_row : nat -> st -> (st * cur) option

val slen : bytes -> n -> n

val sfrom : bytes -> n -> n -> n outcome

val srange : bytes -> n -> n -> n -> (n * n) outcome

val word_at : bytes -> n -> n -> n outcome

val step : aty -> n

val fuel0 : bytes -> nat

val arr_body :
  bytes -> nat -> aty -> (st -> cur -> n -> sres) -> n -> cur -> st -> n -> n
  -> sres

val arr_loop :
  bytes -> nat -> aty -> (st -> cur -> n -> sres) -> n -> cur -> nat -> n ->
  n -> n -> n -> st -> sres

val scan : bytes -> nat -> aty -> st -> cur -> n -> sres

val overlay : row -> row -> row

val map_first : nat -> ('a1 -> 'a1) -> 'a1 list -> 'a1 list

val result_scan : bytes -> nat -> aty -> st -> sres

val new_result : nat -> st

val rows_out : st -> row list

val vcell : bytes -> cell -> bytes option

val vrow : bytes -> row -> bytes option list

val cost : aty -> n -> n

type aval =
| VWord of bytes
| VBytes of bytes
| VArr of aval list
| VTuple of aval list

val dyn_ty : aty -> bool

val has_typeb : aty -> aval -> bool

val blen : bytes -> n

val word32 : n -> bytes

val pad32 : bytes -> bytes

type member = bool * bytes

val hsz : member -> n

val hsum : member list -> n

val heads : member list -> n -> bytes

val tails : member list -> bytes

val enc_seq : member list -> bytes

val enc : aty -> aval -> bytes

type cells = (nat * bytes) list

val leaf_cells : aty -> aval -> cells

val elem_rows : aty -> aval -> cells list

type vrowT = bytes option list

val wr : cells -> vrowT -> vrowT

val mkrow : nat -> cells -> vrowT

val overlayv : vrowT -> vrowT -> vrowT

val rows_spec : nat -> aty -> aval -> vrowT list

val str : string -> bytes

val lBR : n

val rBR : n

type inp =
| Inp of bool * bytes * inp list * bool

type event = { ev_name : bytes; ev_inputs : inp list }

val i_indexed : inp -> bool

val has_prefix : bytes -> bytes -> bool

val contains_byte : n -> bytes -> bool

val cut_before : n -> bytes -> bytes

val take_while_ne : n -> bytes -> bytes

val trim_prefix : bytes -> bytes -> bytes

val trim_suffix : bytes -> bytes -> bytes

val atoi : bytes -> n option

val parse_array : bool -> nat -> aty -> bytes -> aty outcome

val leaf_dynamic : bool -> bytes -> bool

val abi_type : bool -> inp -> nat -> (nat * aty) outcome

val event_fields : bool -> inp list -> nat -> aty list outcome

val event_type : bool -> event -> aty outcome

type ename =
| EUint of n
| EInt of n
| EAddress
| EBool
| EBytesN of n
| EFunction
| EBytes
| EString

val digits_fuel : nat -> n -> bytes

val digits : n -> bytes

val ename_str : ename -> bytes

val ename_dynamic : ename -> bool

val dim_str : n -> bytes

val dims_str : n list -> bytes

type jty =
| JElem of bool * ename * bool * n list
| JTuple of bool * jty list * n list

val json_of : jty -> inp

val wrap_dims : n list -> aty -> aty

val aty_of : jty -> nat -> nat * aty

val j_indexed : jty -> bool

val decl_fields : jty list -> nat -> aty list

val decl_type : jty list -> aty

val event_of : bytes -> jty list -> event

val hP : n

val hash_bytes : bytes -> n

type ot =
| OT of n * bool * nat * bool * z * z * ot list

val obs_of : aty -> ot

val ot_eqb : ot -> ot -> bool

val inp_eqb : inp -> inp -> bool

val event_eqb : event -> event -> bool

type scan_obs =
| SO of n * row list * nat * nat

val cell_eqb : cell -> cell -> bool

val rows_eqb : row list -> row list -> bool

val obs_matches : sres -> scan_obs -> bool

val next_state : sres -> st -> st

val run_scans : nat -> aty -> st -> (bytes * scan_obs) list -> bool

val vrows_eqb : bytes option list list -> bytes option list list -> bool

type case =
| CDecl of bytes * jty list * event * ot outcome * nat
| CScan of event * bool * (((aval * bytes) * n) * scan_obs) list

val check : case -> bool

type mut =
| MId
| MTrunc of n
| MWord of n * n
| MWordV of n * n
| MRaw of bytes

val bval : n -> n -> n

val apply_mut : bytes -> mut -> bytes

type case0 =
| CMal of event * bytes * ((mut * n) * scan_obs) list

val obs_safe : aty -> bytes -> scan_obs -> bool

val check0 : case0 -> bool

val parse_inp : sx -> inp option

val parse_event : sx -> event option

val parse_val : sx -> aval option

val parse_cell : sx -> cell option

val parse_obs : sx -> scan_obs option

val parse_mut : sx -> mut option

val parse_run09 : sx -> (((aval * bytes) * n) * scan_obs) option

val parse_run10 : sx -> ((mut * n) * scan_obs) option

val parse09 : sx -> case option

val parse10 : sx -> case0 option

val check_sx09 : sx -> bool

val check_sx10 : sx -> bool
