
(** val negb : bool -> bool **)

let negb = function
| true -> false
| false -> true

type nat =
| O
| S of nat

(** val option_map : ('a1 -> 'a2) -> 'a1 option -> 'a2 option **)

let option_map f = function
| Some a -> Some (f a)
| None -> None

(** val fst : ('a1 * 'a2) -> 'a1 **)

let fst = function
| (x, _) -> x

(** val snd : ('a1 * 'a2) -> 'a2 **)

let snd = function
| (_, y) -> y

(** val length : 'a1 list -> nat **)

let rec length = function
| [] -> O
| _ :: l' -> S (length l')

(** val app : 'a1 list -> 'a1 list -> 'a1 list **)

let rec app l0 m =
  match l0 with
  | [] -> m
  | a :: l1 -> a :: (app l1 m)

type comparison =
| Eq
| Lt
| Gt

module Coq__1 = struct
 (** val add : nat -> nat -> nat **)
 let rec add n0 m =
   match n0 with
   | O -> m
   | S p -> S (add p m)
end
include Coq__1

(** val sub : nat -> nat -> nat **)

let rec sub n0 m =
  match n0 with
  | O -> n0
  | S k -> (match m with
            | O -> n0
            | S l0 -> sub k l0)

(** val eqb : nat -> nat -> bool **)

let rec eqb n0 m =
  match n0 with
  | O -> (match m with
          | O -> true
          | S _ -> false)
  | S n' -> (match m with
             | O -> false
             | S m' -> eqb n' m')

(** val leb : nat -> nat -> bool **)

let rec leb n0 m =
  match n0 with
  | O -> true
  | S n' -> (match m with
             | O -> false
             | S m' -> leb n' m')

(** val ltb : nat -> nat -> bool **)

let ltb n0 m =
  leb (S n0) m

(** val eqb0 : bool -> bool -> bool **)

let eqb0 b1 b2 =
  if b1 then b2 else if b2 then false else true

module Nat =
 struct
  (** val eqb : nat -> nat -> bool **)

  let rec eqb n0 m =
    match n0 with
    | O -> (match m with
            | O -> true
            | S _ -> false)
    | S n' -> (match m with
               | O -> false
               | S m' -> eqb n' m')
 end

(** val tl : 'a1 list -> 'a1 list **)

let tl = function
| [] -> []
| _ :: m -> m

(** val nth : nat -> 'a1 list -> 'a1 -> 'a1 **)

let rec nth n0 l0 default =
  match n0 with
  | O -> (match l0 with
          | [] -> default
          | x :: _ -> x)
  | S m -> (match l0 with
            | [] -> default
            | _ :: t -> nth m t default)

(** val nth_error : 'a1 list -> nat -> 'a1 option **)

let rec nth_error l0 = function
| O -> (match l0 with
        | [] -> None
        | x :: _ -> Some x)
| S n1 -> (match l0 with
           | [] -> None
           | _ :: l1 -> nth_error l1 n1)

(** val removelast : 'a1 list -> 'a1 list **)

let rec removelast = function
| [] -> []
| a :: l1 -> (match l1 with
              | [] -> []
              | _ :: _ -> a :: (removelast l1))

(** val rev : 'a1 list -> 'a1 list **)

let rec rev = function
| [] -> []
| x :: l' -> app (rev l') (x :: [])

(** val map : ('a1 -> 'a2) -> 'a1 list -> 'a2 list **)

let rec map f = function
| [] -> []
| a :: t -> (f a) :: (map f t)

(** val flat_map : ('a1 -> 'a2 list) -> 'a1 list -> 'a2 list **)

let rec flat_map f = function
| [] -> []
| x :: t -> app (f x) (flat_map f t)

(** val fold_left : ('a1 -> 'a2 -> 'a1) -> 'a2 list -> 'a1 -> 'a1 **)

let rec fold_left f l0 a0 =
  match l0 with
  | [] -> a0
  | b :: t -> fold_left f t (f a0 b)

(** val fold_right : ('a2 -> 'a1 -> 'a1) -> 'a1 -> 'a2 list -> 'a1 **)

let rec fold_right f a0 = function
| [] -> a0
| b :: t -> f b (fold_right f a0 t)

(** val existsb : ('a1 -> bool) -> 'a1 list -> bool **)

let rec existsb f = function
| [] -> false
| a :: l1 -> (||) (f a) (existsb f l1)

(** val forallb : ('a1 -> bool) -> 'a1 list -> bool **)

let rec forallb f = function
| [] -> true
| a :: l1 -> (&&) (f a) (forallb f l1)

(** val firstn : nat -> 'a1 list -> 'a1 list **)

let rec firstn n0 l0 =
  match n0 with
  | O -> []
  | S n1 -> (match l0 with
             | [] -> []
             | a :: l1 -> a :: (firstn n1 l1))

(** val skipn : nat -> 'a1 list -> 'a1 list **)

let rec skipn n0 l0 =
  match n0 with
  | O -> l0
  | S n1 -> (match l0 with
             | [] -> []
             | _ :: l1 -> skipn n1 l1)

(** val repeat : 'a1 -> nat -> 'a1 list **)

let rec repeat x = function
| O -> []
| S k -> x :: (repeat x k)

type positive =
| XI of positive
| XO of positive
| XH

type n =
| N0
| Npos of positive

type z =
| Z0
| Zpos of positive
| Zneg of positive

module Pos =
 struct
  type mask =
  | IsNul
  | IsPos of positive
  | IsNeg
 end

module Coq_Pos =
 struct
  (** val succ : positive -> positive **)

  let rec succ = function
  | XI p -> XO (succ p)
  | XO p -> XI p
  | XH -> XO XH

  (** val add : positive -> positive -> positive **)

  let rec add x y =
    match x with
    | XI p ->
      (match y with
       | XI q -> XO (add_carry p q)
       | XO q -> XI (add p q)
       | XH -> XO (succ p))
    | XO p ->
      (match y with
       | XI q -> XI (add p q)
       | XO q -> XO (add p q)
       | XH -> XI p)
    | XH -> (match y with
             | XI q -> XO (succ q)
             | XO q -> XI q
             | XH -> XO XH)

  (** val add_carry : positive -> positive -> positive **)

  and add_carry x y =
    match x with
    | XI p ->
      (match y with
       | XI q -> XI (add_carry p q)
       | XO q -> XO (add_carry p q)
       | XH -> XI (succ p))
    | XO p ->
      (match y with
       | XI q -> XO (add_carry p q)
       | XO q -> XI (add p q)
       | XH -> XO (succ p))
    | XH ->
      (match y with
       | XI q -> XI (succ q)
       | XO q -> XO (succ q)
       | XH -> XI XH)

  (** val pred_double : positive -> positive **)

  let rec pred_double = function
  | XI p -> XI (XO p)
  | XO p -> XI (pred_double p)
  | XH -> XH

  type mask = Pos.mask =
  | IsNul
  | IsPos of positive
  | IsNeg

  (** val succ_double_mask : mask -> mask **)

  let succ_double_mask = function
  | IsNul -> IsPos XH
  | IsPos p -> IsPos (XI p)
  | IsNeg -> IsNeg

  (** val double_mask : mask -> mask **)

  let double_mask = function
  | IsPos p -> IsPos (XO p)
  | x0 -> x0

  (** val double_pred_mask : positive -> mask **)

  let double_pred_mask = function
  | XI p -> IsPos (XO (XO p))
  | XO p -> IsPos (XO (pred_double p))
  | XH -> IsNul

  (** val sub_mask : positive -> positive -> mask **)

  let rec sub_mask x y =
    match x with
    | XI p ->
      (match y with
       | XI q -> double_mask (sub_mask p q)
       | XO q -> succ_double_mask (sub_mask p q)
       | XH -> IsPos (XO p))
    | XO p ->
      (match y with
       | XI q -> succ_double_mask (sub_mask_carry p q)
       | XO q -> double_mask (sub_mask p q)
       | XH -> IsPos (pred_double p))
    | XH -> (match y with
             | XH -> IsNul
             | _ -> IsNeg)

  (** val sub_mask_carry : positive -> positive -> mask **)

  and sub_mask_carry x y =
    match x with
    | XI p ->
      (match y with
       | XI q -> succ_double_mask (sub_mask_carry p q)
       | XO q -> double_mask (sub_mask p q)
       | XH -> IsPos (pred_double p))
    | XO p ->
      (match y with
       | XI q -> double_mask (sub_mask_carry p q)
       | XO q -> succ_double_mask (sub_mask_carry p q)
       | XH -> double_pred_mask p)
    | XH -> IsNeg

  (** val mul : positive -> positive -> positive **)

  let rec mul x y =
    match x with
    | XI p -> add y (XO (mul p y))
    | XO p -> XO (mul p y)
    | XH -> y

  (** val iter : ('a1 -> 'a1) -> 'a1 -> positive -> 'a1 **)

  let rec iter f x = function
  | XI n' -> f (iter f (iter f x n') n')
  | XO n' -> iter f (iter f x n') n'
  | XH -> f x

  (** val pow : positive -> positive -> positive **)

  let pow x =
    iter (mul x) XH

  (** val size : positive -> positive **)

  let rec size = function
  | XI p0 -> succ (size p0)
  | XO p0 -> succ (size p0)
  | XH -> XH

  (** val compare_cont : comparison -> positive -> positive -> comparison **)

  let rec compare_cont r x y =
    match x with
    | XI p ->
      (match y with
       | XI q -> compare_cont r p q
       | XO q -> compare_cont Gt p q
       | XH -> Gt)
    | XO p ->
      (match y with
       | XI q -> compare_cont Lt p q
       | XO q -> compare_cont r p q
       | XH -> Gt)
    | XH -> (match y with
             | XH -> r
             | _ -> Lt)

  (** val compare : positive -> positive -> comparison **)

  let compare =
    compare_cont Eq

  (** val eqb : positive -> positive -> bool **)

  let rec eqb p q =
    match p with
    | XI p0 -> (match q with
                | XI q0 -> eqb p0 q0
                | _ -> false)
    | XO p0 -> (match q with
                | XO q0 -> eqb p0 q0
                | _ -> false)
    | XH -> (match q with
             | XH -> true
             | _ -> false)

  (** val iter_op : ('a1 -> 'a1 -> 'a1) -> positive -> 'a1 -> 'a1 **)

  let rec iter_op op p a =
    match p with
    | XI p0 -> op a (iter_op op p0 (op a a))
    | XO p0 -> iter_op op p0 (op a a)
    | XH -> a

  (** val to_nat : positive -> nat **)

  let to_nat x =
    iter_op Coq__1.add x (S O)

  (** val of_succ_nat : nat -> positive **)

  let rec of_succ_nat = function
  | O -> XH
  | S x -> succ (of_succ_nat x)
 end

module N =
 struct
  (** val succ_double : n -> n **)

  let succ_double = function
  | N0 -> Npos XH
  | Npos p -> Npos (XI p)

  (** val double : n -> n **)

  let double = function
  | N0 -> N0
  | Npos p -> Npos (XO p)

  (** val add : n -> n -> n **)

  let add n0 m =
    match n0 with
    | N0 -> m
    | Npos p -> (match m with
                 | N0 -> n0
                 | Npos q -> Npos (Coq_Pos.add p q))

  (** val sub : n -> n -> n **)

  let sub n0 m =
    match n0 with
    | N0 -> N0
    | Npos n' ->
      (match m with
       | N0 -> n0
       | Npos m' ->
         (match Coq_Pos.sub_mask n' m' with
          | Coq_Pos.IsPos p -> Npos p
          | _ -> N0))

  (** val mul : n -> n -> n **)

  let mul n0 m =
    match n0 with
    | N0 -> N0
    | Npos p -> (match m with
                 | N0 -> N0
                 | Npos q -> Npos (Coq_Pos.mul p q))

  (** val compare : n -> n -> comparison **)

  let compare n0 m =
    match n0 with
    | N0 -> (match m with
             | N0 -> Eq
             | Npos _ -> Lt)
    | Npos n' -> (match m with
                  | N0 -> Gt
                  | Npos m' -> Coq_Pos.compare n' m')

  (** val eqb : n -> n -> bool **)

  let eqb n0 m =
    match n0 with
    | N0 -> (match m with
             | N0 -> true
             | Npos _ -> false)
    | Npos p -> (match m with
                 | N0 -> false
                 | Npos q -> Coq_Pos.eqb p q)

  (** val leb : n -> n -> bool **)

  let leb x y =
    match compare x y with
    | Gt -> false
    | _ -> true

  (** val ltb : n -> n -> bool **)

  let ltb x y =
    match compare x y with
    | Lt -> true
    | _ -> false

  (** val max : n -> n -> n **)

  let max n0 n' =
    match compare n0 n' with
    | Gt -> n0
    | _ -> n'

  (** val pow : n -> n -> n **)

  let pow n0 = function
  | N0 -> Npos XH
  | Npos p0 -> (match n0 with
                | N0 -> N0
                | Npos q -> Npos (Coq_Pos.pow q p0))

  (** val log2 : n -> n **)

  let log2 = function
  | N0 -> N0
  | Npos p0 ->
    (match p0 with
     | XI p -> Npos (Coq_Pos.size p)
     | XO p -> Npos (Coq_Pos.size p)
     | XH -> N0)

  (** val pos_div_eucl : positive -> n -> n * n **)

  let rec pos_div_eucl a b =
    match a with
    | XI a' ->
      let (q, r) = pos_div_eucl a' b in
      let r' = succ_double r in
      if leb b r' then ((succ_double q), (sub r' b)) else ((double q), r')
    | XO a' ->
      let (q, r) = pos_div_eucl a' b in
      let r' = double r in
      if leb b r' then ((succ_double q), (sub r' b)) else ((double q), r')
    | XH ->
      (match b with
       | N0 -> (N0, (Npos XH))
       | Npos p -> (match p with
                    | XH -> ((Npos XH), N0)
                    | _ -> (N0, (Npos XH))))

  (** val div_eucl : n -> n -> n * n **)

  let div_eucl a b =
    match a with
    | N0 -> (N0, N0)
    | Npos na -> (match b with
                  | N0 -> (N0, a)
                  | Npos _ -> pos_div_eucl na b)

  (** val div : n -> n -> n **)

  let div a b =
    fst (div_eucl a b)

  (** val modulo : n -> n -> n **)

  let modulo a b =
    snd (div_eucl a b)

  (** val to_nat : n -> nat **)

  let to_nat = function
  | N0 -> O
  | Npos p -> Coq_Pos.to_nat p

  (** val of_nat : nat -> n **)

  let of_nat = function
  | O -> N0
  | S n' -> Npos (Coq_Pos.of_succ_nat n')
 end

type ascii =
| Ascii of bool * bool * bool * bool * bool * bool * bool * bool

(** val n_of_digits : bool list -> n **)

let rec n_of_digits = function
| [] -> N0
| b :: l' ->
  N.add (if b then Npos XH else N0) (N.mul (Npos (XO XH)) (n_of_digits l'))

(** val n_of_ascii : ascii -> n **)

let n_of_ascii = function
| Ascii (a0, a1, a2, a3, a4, a5, a6, a7) ->
  n_of_digits
    (a0 :: (a1 :: (a2 :: (a3 :: (a4 :: (a5 :: (a6 :: (a7 :: []))))))))

module Z =
 struct
  (** val eqb : z -> z -> bool **)

  let eqb x y =
    match x with
    | Z0 -> (match y with
             | Z0 -> true
             | _ -> false)
    | Zpos p -> (match y with
                 | Zpos q -> Coq_Pos.eqb p q
                 | _ -> false)
    | Zneg p -> (match y with
                 | Zneg q -> Coq_Pos.eqb p q
                 | _ -> false)

  (** val of_N : n -> z **)

  let of_N = function
  | N0 -> Z0
  | Npos p -> Zpos p
 end

type string =
| EmptyString
| String of ascii * string

(** val list_ascii_of_string : string -> ascii list **)

let rec list_ascii_of_string = function
| EmptyString -> []
| String (ch, s0) -> ch :: (list_ascii_of_string s0)

type 'a outcome =
| Ok of 'a
| Err
| Panic

(** val bind : 'a1 outcome -> ('a1 -> 'a2 outcome) -> 'a2 outcome **)

let bind o f =
  match o with
  | Ok a -> f a
  | Err -> Err
  | Panic -> Panic

type bytes = n list

(** val list_eqb : ('a1 -> 'a1 -> bool) -> 'a1 list -> 'a1 list -> bool **)

let rec list_eqb eqb1 a b =
  match a with
  | [] -> (match b with
           | [] -> true
           | _ :: _ -> false)
  | x :: a' ->
    (match b with
     | [] -> false
     | y :: b' -> (&&) (eqb1 x y) (list_eqb eqb1 a' b'))

(** val bytes_eqb : n list -> n list -> bool **)

let bytes_eqb =
  list_eqb N.eqb

(** val option_eqb :
    ('a1 -> 'a1 -> bool) -> 'a1 option -> 'a1 option -> bool **)

let option_eqb eqb1 a b =
  match a with
  | Some x -> (match b with
               | Some y -> eqb1 x y
               | None -> false)
  | None -> (match b with
             | Some _ -> false
             | None -> true)

type sx =
| SA of bytes
| SB of bytes
| SL of sx list

(** val tag : string -> bytes **)

let tag s =
  map n_of_ascii (list_ascii_of_string s)

(** val is_tag : string -> sx -> bool **)

let is_tag s = function
| SA a -> bytes_eqb a (tag s)
| _ -> false

(** val dec_digits : bytes -> n option **)

let dec_digits a =
  fold_left (fun acc c ->
    match acc with
    | Some n0 ->
      if (&&) (N.leb (Npos (XO (XO (XO (XO (XI XH)))))) c)
           (N.leb c (Npos (XI (XO (XO (XI (XI XH)))))))
      then Some
             (N.add (N.mul n0 (Npos (XO (XI (XO XH)))))
               (N.sub c (Npos (XO (XO (XO (XO (XI XH))))))))
      else None
    | None -> None) a (Some N0)

(** val sx_N : sx -> n option **)

let sx_N = function
| SA a -> (match a with
           | [] -> None
           | _ :: _ -> dec_digits a)
| _ -> None

(** val sx_nat : sx -> nat option **)

let sx_nat x =
  option_map N.to_nat (sx_N x)

(** val sx_bool : sx -> bool option **)

let sx_bool x =
  match sx_N x with
  | Some n0 ->
    (match n0 with
     | N0 -> Some false
     | Npos p -> (match p with
                  | XH -> Some true
                  | _ -> None))
  | None -> None

(** val sx_bytes : sx -> bytes option **)

let sx_bytes = function
| SB b -> Some b
| _ -> None

(** val all_some : 'a1 option list -> 'a1 list option **)

let rec all_some = function
| [] -> Some []
| o :: r ->
  (match o with
   | Some x -> option_map (fun x0 -> x :: x0) (all_some r)
   | None -> None)

(** val sx_list : (sx -> 'a1 option) -> sx -> 'a1 list option **)

let sx_list f = function
| SL l0 -> all_some (map f l0)
| _ -> None

(** val sx_pair :
    (sx -> 'a1 option) -> (sx -> 'a2 option) -> sx -> ('a1 * 'a2) option **)

let sx_pair f g = function
| SL l0 ->
  (match l0 with
   | [] -> None
   | a :: l1 ->
     (match l1 with
      | [] -> None
      | b :: l2 ->
        (match l2 with
         | [] ->
           (match f a with
            | Some a' ->
              (match g b with
               | Some b' -> Some (a', b')
               | None -> None)
            | None -> None)
         | _ :: _ -> None)))
| _ -> None

(** val sx_opt : (sx -> 'a1 option) -> sx -> 'a1 option option **)

let sx_opt f = function
| SL l0 ->
  (match l0 with
   | [] -> None
   | t :: l1 ->
     (match l1 with
      | [] ->
        if is_tag (String ((Ascii (false, true, true, true, false, true,
             true, false)), (String ((Ascii (true, true, true, true, false,
             true, true, false)), (String ((Ascii (false, true, true, true,
             false, true, true, false)), (String ((Ascii (true, false, true,
             false, false, true, true, false)), EmptyString)))))))) t
        then Some None
        else None
      | v :: l2 ->
        (match l2 with
         | [] ->
           if is_tag (String ((Ascii (true, true, false, false, true, true,
                true, false)), (String ((Ascii (true, true, true, true,
                false, true, true, false)), (String ((Ascii (true, false,
                true, true, false, true, true, false)), (String ((Ascii
                (true, false, true, false, false, true, true, false)),
                EmptyString)))))))) t
           then option_map (fun x0 -> Some x0) (f v)
           else None
         | _ :: _ -> None)))
| _ -> None

(** val obind : 'a1 option -> ('a1 -> 'a2 option) -> 'a2 option **)

let obind o f =
  match o with
  | Some a -> f a
  | None -> None

(** val checked : (sx -> 'a1 option) -> ('a1 -> bool) -> sx -> bool **)

let checked parse check1 x =
  match parse x with
  | Some c -> check1 c
  | None -> false

type aty =
| TWord of nat option
| TDyn of nat option
| TArr of n * aty
| TTuple of aty list

(** val is_static : aty -> bool **)

let rec is_static = function
| TWord _ -> true
| TDyn _ -> false
| TArr (k, e) -> if N.eqb k N0 then false else is_static e
| TTuple fs -> forallb is_static fs

(** val size0 : aty -> n **)

let rec size0 = function
| TWord _ -> Npos (XO (XO (XO (XO (XO XH)))))
| TDyn _ -> N0
| TArr (k, e) -> N.mul k (size0 e)
| TTuple fs -> fold_right (fun f a -> N.add (size0 f) a) N0 fs

(** val is_sel : nat option -> bool **)

let is_sel = function
| Some _ -> true
| None -> false

(** val has_select : aty -> bool **)

let rec has_select = function
| TWord s -> is_sel s
| TDyn s -> is_sel s
| TArr (_, e) -> has_select e
| TTuple fs -> existsb has_select fs

(** val is_arr : aty -> bool **)

let is_arr = function
| TArr (_, _) -> true
| _ -> false

(** val selected : aty -> nat list **)

let rec selected = function
| TWord s -> (match s with
              | Some p -> p :: []
              | None -> [])
| TDyn s -> (match s with
             | Some p -> p :: []
             | None -> [])
| TArr (_, e) -> selected e
| TTuple fs -> flat_map selected fs

(** val ncols_of : aty -> nat **)

let ncols_of t =
  length (selected t)

(** val sel_okb : nat -> aty -> bool **)

let sel_okb ncols t =
  forallb (fun p -> ltb p ncols) (selected t)

(** val aty_eqb : aty -> aty -> bool **)

let rec aty_eqb a b =
  match a with
  | TWord s -> (match b with
                | TWord s' -> option_eqb eqb s s'
                | _ -> false)
  | TDyn s -> (match b with
               | TDyn s' -> option_eqb eqb s s'
               | _ -> false)
  | TArr (k, e) ->
    (match b with
     | TArr (k', e') -> (&&) (N.eqb k k') (aty_eqb e e')
     | _ -> false)
  | TTuple fs ->
    (match b with
     | TTuple fs' ->
       let rec go l0 l' =
         match l0 with
         | [] -> (match l' with
                  | [] -> true
                  | _ :: _ -> false)
         | x :: r ->
           (match l' with
            | [] -> false
            | y :: r' -> (&&) (aty_eqb x y) (go r r'))
       in go fs fs'
     | _ -> false)

(** val no_sel_arr : aty -> bool **)

let rec no_sel_arr = function
| TArr (_, e) -> negb (has_select e)
| TTuple fs -> forallb no_sel_arr fs
| _ -> true

(** val dom : aty -> bool **)

let rec dom = function
| TArr (_, e) ->
  if has_select e then if is_arr e then dom e else no_sel_arr e else true
| TTuple fs -> forallb dom fs
| _ -> true

(** val two64 : n **)

let two64 =
  Npos (XO (XO (XO (XO (XO (XO (XO (XO (XO (XO (XO (XO (XO (XO (XO (XO (XO
    (XO (XO (XO (XO (XO (XO (XO (XO (XO (XO (XO (XO (XO (XO (XO (XO (XO (XO
    (XO (XO (XO (XO (XO (XO (XO (XO (XO (XO (XO (XO (XO (XO (XO (XO (XO (XO
    (XO (XO (XO (XO (XO (XO (XO (XO (XO (XO (XO
    XH))))))))))))))))))))))))))))))))))))))))))))))))))))))))))))))))

(** val be : nat -> n -> bytes **)

let rec be k n0 =
  match k with
  | O -> []
  | S k' ->
    app (be k' (N.div n0 (Npos (XO (XO (XO (XO (XO (XO (XO (XO XH)))))))))))
      ((N.modulo n0 (Npos (XO (XO (XO (XO (XO (XO (XO (XO XH)))))))))) :: [])

(** val decode64 : bytes -> n **)

let decode64 b =
  fold_left (fun acc x ->
    N.modulo
      (N.add (N.mul acc (Npos (XO (XO (XO (XO (XO (XO (XO (XO XH)))))))))) x)
      two64) b N0

type cell = (n * n) option

type row = cell list

type st = { single : row; coll : row list; nrows : nat; iters : n }

type cur =
| CSingle
| CRow of nat

type sres =
| SOk of st
| SErr of st
| SFuel
| SPanic

(** val set_nth : nat -> 'a1 -> 'a1 list -> 'a1 list **)

let rec set_nth n0 x l0 =
  match n0 with
  | O -> (match l0 with
          | [] -> []
          | _ :: t -> x :: t)
  | S n' -> (match l0 with
             | [] -> []
             | h :: t -> h :: (set_nth n' x t))

(** val lift : 'a1 outcome -> st -> ('a1 -> sres) -> sres **)

let lift o s k =
  match o with
  | Ok a -> k a
  | Err -> SErr s
  | Panic -> SPanic

(** val with_single : st -> row -> st **)

let with_single s r =
  { single = r; coll = s.coll; nrows = s.nrows; iters = s.iters }

(** val with_coll : st -> row list -> st **)

let with_coll s c =
  { single = s.single; coll = c; nrows = s.nrows; iters = s.iters }

(** val tick : st -> st **)

let tick s =
  { single = s.single; coll = s.coll; nrows = s.nrows; iters =
    (N.add s.iters (Npos XH)) }

(** val put : st -> cur -> nat -> (n * n) -> sres **)

let put s c p v =
  match c with
  | CSingle ->
    if ltb p (length s.single)
    then SOk (with_single s (set_nth p (Some v) s.single))
    else SPanic
  | CRow i ->
    (match nth_error s.coll i with
     | Some r ->
       if ltb p (length r)
       then SOk (with_coll s (set_nth i (set_nth p (Some v) r) s.coll))
       else SPanic
     | None -> SPanic)

(** val l : bytes -> n **)

let l d =
  N.of_nat (length d)

(** val blank : nat -> row **)

let blank ncols =
  repeat None ncols

(** val get_row : nat -> st -> (st * cur) option **)

let get_row ncols s =
  let n' = S s.nrows in
  let c1 =
    if leb (length s.coll) n'
    then app s.coll ((blank ncols) :: [])
    else s.coll
  in
  if ltb s.nrows (length c1)
  then Some ({ single = s.single; coll = (set_nth s.nrows (blank ncols) c1);
         nrows = n'; iters = s.iters }, (CRow s.nrows))
  else None

(** val slen : bytes -> n -> n **)

let slen d o =
  N.sub (l d) o

(** val sfrom : bytes -> n -> n -> n outcome **)

let sfrom d o a =
  if N.ltb (slen d o) a then Panic else Ok (N.add o a)

(** val srange : bytes -> n -> n -> n -> (n * n) outcome **)

let srange d o a b =
  if (||) (N.ltb b a) (N.ltb (slen d o) b)
  then Panic
  else Ok ((N.add o a), (N.sub b a))

(** val word_at : bytes -> n -> n -> n outcome **)

let word_at d o a =
  if N.ltb (slen d o) (N.add a (Npos (XO (XO (XO (XO (XO XH)))))))
  then Panic
  else Ok
         (decode64
           (firstn (S (S (S (S (S (S (S (S (S (S (S (S (S (S (S (S (S (S (S
             (S (S (S (S (S (S (S (S (S (S (S (S (S
             O))))))))))))))))))))))))))))))))
             (skipn (N.to_nat (N.add o a)) d)))

(** val step : aty -> n **)

let step e =
  if is_static e then size0 e else Npos (XO (XO (XO (XO (XO XH)))))

(** val fuel0 : bytes -> nat **)

let fuel0 d =
  S (S (length d))

(** val arr_body :
    bytes -> nat -> aty -> (st -> cur -> n -> sres) -> n -> cur -> st -> n ->
    n -> sres **)

let arr_body d ncols e scan_e o c s0 pos start =
  match if is_arr e then Some (s0, c) else get_row ncols s0 with
  | Some p ->
    let (s1, c1) = p in
    if is_static e
    then if N.ltb (slen d o) pos
         then SErr s1
         else lift (sfrom d o pos) s1 (fun sub0 -> scan_e s1 c1 sub0)
    else if N.ltb (slen d o) (N.add pos (Npos (XO (XO (XO (XO (XO XH)))))))
         then SErr s1
         else lift (word_at d o pos) s1 (fun w ->
                if N.ltb (N.sub (slen d o) start) w
                then SErr s1
                else lift (sfrom d o (N.add start w)) s1 (fun sub0 ->
                       scan_e s1 c1 sub0))
  | None -> SPanic

(** val arr_loop :
    bytes -> nat -> aty -> (st -> cur -> n -> sres) -> n -> cur -> nat -> n
    -> n -> n -> n -> st -> sres **)

let rec arr_loop d ncols e scan_e o c fuel i len pos start s0 =
  match fuel with
  | O -> SFuel
  | S fuel' ->
    if N.leb len i
    then SOk s0
    else (match arr_body d ncols e scan_e o c (tick s0) pos start with
          | SOk s1 ->
            arr_loop d ncols e scan_e o c fuel' (N.add i (Npos XH)) len
              (N.add pos (step e)) start s1
          | x -> x)

(** val scan : bytes -> nat -> aty -> st -> cur -> n -> sres **)

let rec scan d ncols t s c o =
  match t with
  | TWord sel ->
    if N.ltb (slen d o) (Npos (XO (XO (XO (XO (XO XH))))))
    then SErr s
    else (match sel with
          | Some p ->
            lift (srange d o N0 (Npos (XO (XO (XO (XO (XO XH))))))) s
              (fun r -> put s c p r)
          | None -> SOk s)
  | TDyn sel ->
    if N.ltb (slen d o) (Npos (XO (XO (XO (XO (XO XH))))))
    then SErr s
    else lift (word_at d o N0) s (fun w ->
           if N.eqb w N0
           then SOk s
           else if N.ltb
                     (N.sub (slen d o) (Npos (XO (XO (XO (XO (XO XH))))))) w
                then SErr s
                else (match sel with
                      | Some p ->
                        lift
                          (srange d o (Npos (XO (XO (XO (XO (XO XH))))))
                            (N.add (Npos (XO (XO (XO (XO (XO XH)))))) w)) s
                          (fun r -> put s c p r)
                      | None -> SOk s))
  | TArr (k, e) ->
    if negb (has_select e)
    then SOk s
    else if N.eqb k N0
         then if N.ltb (slen d o) (Npos (XO (XO (XO (XO (XO XH))))))
              then SErr s
              else lift (word_at d o N0) s (fun w ->
                     if N.ltb
                          (N.div
                            (N.sub (slen d o) (Npos (XO (XO (XO (XO (XO
                              XH))))))) (Npos (XO (XO (XO (XO (XO XH))))))) w
                     then SErr s
                     else arr_loop d ncols e (scan d ncols e) o c (fuel0 d)
                            N0 w (Npos (XO (XO (XO (XO (XO XH)))))) (Npos (XO
                            (XO (XO (XO (XO XH)))))) s)
         else arr_loop d ncols e (scan d ncols e) o c (fuel0 d) N0 k N0 N0 s
  | TTuple fs ->
    if negb (existsb has_select fs)
    then SOk s
    else let rec fields fs0 pos s0 =
           match fs0 with
           | [] -> SOk s0
           | f :: fs' ->
             if is_static f
             then if N.ltb (slen d o) pos
                  then SErr s0
                  else lift (sfrom d o pos) s0 (fun sub0 ->
                         match scan d ncols f s0 c sub0 with
                         | SOk s1 -> fields fs' (N.add pos (size0 f)) s1
                         | x -> x)
             else if N.ltb (slen d o)
                       (N.add pos (Npos (XO (XO (XO (XO (XO XH)))))))
                  then SErr s0
                  else lift (word_at d o pos) s0 (fun w ->
                         if N.ltb (slen d o) w
                         then SErr s0
                         else lift (sfrom d o w) s0 (fun sub0 ->
                                match scan d ncols f s0 c sub0 with
                                | SOk s1 ->
                                  fields fs'
                                    (N.add pos (Npos (XO (XO (XO (XO (XO
                                      XH))))))) s1
                                | x -> x))
         in fields fs N0 s

(** val overlay : row -> row -> row **)

let rec overlay sg r =
  match sg with
  | [] -> r
  | x :: sg' ->
    (match r with
     | [] -> r
     | y :: r' ->
       (match x with
        | Some p -> let (_, l0) = p in if N.ltb N0 l0 then x else y
        | None -> y) :: (overlay sg' r'))

(** val map_first : nat -> ('a1 -> 'a1) -> 'a1 list -> 'a1 list **)

let rec map_first n0 f l0 =
  match n0 with
  | O -> l0
  | S n' -> (match l0 with
             | [] -> l0
             | x :: r -> (f x) :: (map_first n' f r))

(** val result_scan : bytes -> nat -> aty -> st -> sres **)

let result_scan d ncols t s =
  let s0 = { single = (map (fun _ -> None) s.single); coll = s.coll; nrows =
    O; iters = N0 }
  in
  (match scan d ncols t s0 CSingle N0 with
   | SOk s1 ->
     (match if eqb s1.nrows O
            then option_map fst (get_row ncols s1)
            else Some s1 with
      | Some s2 ->
        SOk (with_coll s2 (map_first s2.nrows (overlay s2.single) s2.coll))
      | None -> SPanic)
   | x -> x)

(** val new_result : nat -> st **)

let new_result ncols =
  { single = (repeat None ncols); coll = []; nrows = O; iters = N0 }

(** val rows_out : st -> row list **)

let rows_out s =
  firstn s.nrows s.coll

(** val vcell : bytes -> cell -> bytes option **)

let vcell d = function
| Some p ->
  let (o, l0) = p in Some (firstn (N.to_nat l0) (skipn (N.to_nat o) d))
| None -> None

(** val vrow : bytes -> row -> bytes option list **)

let vrow d r =
  map (vcell d) r

(** val cost : aty -> n -> n **)

let rec cost t len =
  match t with
  | TArr (k, e) ->
    N.mul
      (if N.eqb k N0 then N.div len (Npos (XO (XO (XO (XO (XO XH)))))) else k)
      (N.add (Npos XH) (cost e len))
  | TTuple fs -> fold_right (fun f a -> N.add (cost f len) a) N0 fs
  | _ -> N0

type aval =
| VWord of bytes
| VBytes of bytes
| VArr of aval list
| VTuple of aval list

(** val dyn_ty : aty -> bool **)

let rec dyn_ty = function
| TWord _ -> false
| TDyn _ -> true
| TArr (k, e) -> (||) (N.eqb k N0) (dyn_ty e)
| TTuple fs -> existsb dyn_ty fs

(** val has_typeb : aty -> aval -> bool **)

let rec has_typeb t v =
  match t with
  | TWord _ ->
    (match v with
     | VWord w ->
       eqb (length w) (S (S (S (S (S (S (S (S (S (S (S (S (S (S (S (S (S (S
         (S (S (S (S (S (S (S (S (S (S (S (S (S (S
         O))))))))))))))))))))))))))))))))
     | _ -> false)
  | TDyn _ -> (match v with
               | VBytes _ -> true
               | _ -> false)
  | TArr (k, e) ->
    (match v with
     | VArr vs ->
       (&&) ((||) (N.eqb k N0) (N.eqb (N.of_nat (length vs)) k))
         (forallb (has_typeb e) vs)
     | _ -> false)
  | TTuple fs ->
    (match v with
     | VTuple vs ->
       let rec go fs0 = function
       | [] -> (match fs0 with
                | [] -> true
                | _ :: _ -> false)
       | v0 :: vs' ->
         (match fs0 with
          | [] -> false
          | f :: fs' -> (&&) (has_typeb f v0) (go fs' vs'))
       in go fs vs
     | _ -> false)

(** val blen : bytes -> n **)

let blen b =
  N.of_nat (length b)

(** val word32 : n -> bytes **)

let word32 n0 =
  be (S (S (S (S (S (S (S (S (S (S (S (S (S (S (S (S (S (S (S (S (S (S (S (S
    (S (S (S (S (S (S (S (S O)))))))))))))))))))))))))))))))) n0

(** val pad32 : bytes -> bytes **)

let pad32 b =
  app b
    (repeat N0
      (N.to_nat
        (N.modulo
          (N.sub (Npos (XO (XO (XO (XO (XO XH))))))
            (N.modulo (blen b) (Npos (XO (XO (XO (XO (XO XH)))))))) (Npos (XO
          (XO (XO (XO (XO XH)))))))))

type member = bool * bytes

(** val hsz : member -> n **)

let hsz m =
  if fst m then Npos (XO (XO (XO (XO (XO XH))))) else blen (snd m)

(** val hsum : member list -> n **)

let hsum ms =
  fold_right (fun m a -> N.add (hsz m) a) N0 ms

(** val heads : member list -> n -> bytes **)

let rec heads ms off =
  match ms with
  | [] -> []
  | m :: r ->
    let (b, e) = m in
    if b
    then app (word32 off) (heads r (N.add off (blen e)))
    else app e (heads r off)

(** val tails : member list -> bytes **)

let rec tails = function
| [] -> []
| m :: r -> let (b, e) = m in if b then app e (tails r) else tails r

(** val enc_seq : member list -> bytes **)

let enc_seq ms =
  app (heads ms (hsum ms)) (tails ms)

(** val enc : aty -> aval -> bytes **)

let rec enc t v =
  match t with
  | TWord _ -> (match v with
                | VWord w -> w
                | _ -> [])
  | TDyn _ ->
    (match v with
     | VBytes b -> app (word32 (blen b)) (pad32 b)
     | _ -> [])
  | TArr (k, e) ->
    (match v with
     | VArr vs ->
       app (if N.eqb k N0 then word32 (N.of_nat (length vs)) else [])
         (enc_seq (map (fun v0 -> ((dyn_ty e), (enc e v0))) vs))
     | _ -> [])
  | TTuple fs ->
    (match v with
     | VTuple vs ->
       enc_seq
         (let rec go fs0 = function
          | [] -> []
          | v0 :: vs' ->
            (match fs0 with
             | [] -> []
             | f :: fs' -> ((dyn_ty f), (enc f v0)) :: (go fs' vs'))
          in go fs vs)
     | _ -> [])

type cells = (nat * bytes) list

(** val leaf_cells : aty -> aval -> cells **)

let rec leaf_cells t v =
  match t with
  | TWord sel ->
    (match sel with
     | Some p -> (match v with
                  | VWord w -> (p, w) :: []
                  | _ -> [])
     | None -> [])
  | TDyn sel ->
    (match sel with
     | Some p ->
       (match v with
        | VBytes b -> (match b with
                       | [] -> []
                       | _ :: _ -> (p, b) :: [])
        | _ -> [])
     | None -> [])
  | TArr (_, _) -> []
  | TTuple fs ->
    (match v with
     | VTuple vs ->
       let rec go fs0 = function
       | [] -> []
       | v0 :: vs' ->
         (match fs0 with
          | [] -> []
          | f :: fs' -> app (leaf_cells f v0) (go fs' vs'))
       in go fs vs
     | _ -> [])

(** val elem_rows : aty -> aval -> cells list **)

let rec elem_rows t v =
  match t with
  | TArr (_, e) ->
    (match v with
     | VArr vs ->
       if has_select e
       then if is_arr e
            then flat_map (elem_rows e) vs
            else map (leaf_cells e) vs
       else []
     | _ -> [])
  | TTuple fs ->
    (match v with
     | VTuple vs ->
       let rec go fs0 = function
       | [] -> []
       | v0 :: vs' ->
         (match fs0 with
          | [] -> []
          | f :: fs' -> app (elem_rows f v0) (go fs' vs'))
       in go fs vs
     | _ -> [])
  | _ -> []

type vrowT = bytes option list

(** val wr : cells -> vrowT -> vrowT **)

let wr cs r =
  fold_left (fun r0 pc -> set_nth (fst pc) (Some (snd pc)) r0) cs r

(** val mkrow : nat -> cells -> vrowT **)

let mkrow ncols cs =
  wr cs (repeat None ncols)

(** val overlayv : vrowT -> vrowT -> vrowT **)

let rec overlayv sg r =
  match sg with
  | [] -> r
  | x :: sg' ->
    (match r with
     | [] -> r
     | y :: r' -> (match x with
                   | Some _ -> x
                   | None -> y) :: (overlayv sg' r'))

(** val rows_spec : nat -> aty -> aval -> vrowT list **)

let rows_spec ncols t v =
  let sg = mkrow ncols (leaf_cells t v) in
  let rs = match elem_rows t v with
           | [] -> [] :: []
           | c :: l0 -> c :: l0 in
  map (fun cs -> overlayv sg (mkrow ncols cs)) rs

(** val str : string -> bytes **)

let str s =
  map n_of_ascii (list_ascii_of_string s)

(** val lBR : n **)

let lBR =
  Npos (XI (XI (XO (XI (XI (XO XH))))))

(** val rBR : n **)

let rBR =
  Npos (XI (XO (XI (XI (XI (XO XH))))))

type inp =
| Inp of bool * bytes * inp list * bool

type event = { ev_name : bytes; ev_inputs : inp list }

(** val i_indexed : inp -> bool **)

let i_indexed = function
| Inp (x, _, _, _) -> x

(** val has_prefix : bytes -> bytes -> bool **)

let rec has_prefix p s =
  match p with
  | [] -> true
  | a :: p' ->
    (match s with
     | [] -> false
     | b :: s' -> (&&) (N.eqb a b) (has_prefix p' s'))

(** val contains_byte : n -> bytes -> bool **)

let contains_byte c s =
  existsb (N.eqb c) s

(** val cut_before : n -> bytes -> bytes **)

let rec cut_before c = function
| [] -> []
| x :: r -> if N.eqb x c then [] else x :: (cut_before c r)

(** val take_while_ne : n -> bytes -> bytes **)

let rec take_while_ne c = function
| [] -> []
| x :: r -> if N.eqb x c then [] else x :: (take_while_ne c r)

(** val trim_prefix : bytes -> bytes -> bytes **)

let trim_prefix p s =
  if has_prefix p s then skipn (length p) s else s

(** val trim_suffix : bytes -> bytes -> bytes **)

let trim_suffix p s =
  if has_prefix (rev p) (rev s)
  then firstn (sub (length s) (length p)) s
  else s

(** val atoi : bytes -> n option **)

let atoi s = match s with
| [] -> None
| _ :: _ ->
  fold_left (fun acc c ->
    match acc with
    | Some n0 ->
      if (&&) (N.leb (Npos (XO (XO (XO (XO (XI XH)))))) c)
           (N.leb c (Npos (XI (XO (XO (XI (XI XH)))))))
      then Some
             (N.add (N.mul n0 (Npos (XO (XI (XO XH)))))
               (N.sub c (Npos (XO (XO (XO (XO (XI XH))))))))
      else None
    | None -> None) s (Some N0)

(** val parse_array : bool -> nat -> aty -> bytes -> aty outcome **)

let rec parse_array lg fuel elm s =
  match fuel with
  | O -> Err
  | S fuel' ->
    if negb (contains_byte rBR s)
    then Ok elm
    else (match s with
          | [] ->
            let back = take_while_ne lBR (rev (removelast (tl s))) in
            let num = if lg then back else rev back in
            (match num with
             | [] ->
               bind
                 (parse_array lg fuel' elm
                   (firstn (sub (length s) (S (S O))) s)) (fun e -> Ok (TArr
                 (N0, e)))
             | _ :: _ ->
               (match atoi num with
                | Some k ->
                  bind
                    (parse_array lg fuel' elm
                      (firstn (sub (sub (length s) (length num)) (S (S O))) s))
                    (fun e -> Ok (TArr (k, e)))
                | None -> Panic))
          | _ :: l0 ->
            (match l0 with
             | [] -> Panic
             | _ :: _ ->
               let back = take_while_ne lBR (rev (removelast (tl s))) in
               let num = if lg then back else rev back in
               (match num with
                | [] ->
                  bind
                    (parse_array lg fuel' elm
                      (firstn (sub (length s) (S (S O))) s)) (fun e -> Ok
                    (TArr (N0, e)))
                | _ :: _ ->
                  (match atoi num with
                   | Some k ->
                     bind
                       (parse_array lg fuel' elm
                         (firstn
                           (sub (sub (length s) (length num)) (S (S O))) s))
                       (fun e -> Ok (TArr (k, e)))
                   | None -> Panic))))

(** val leaf_dynamic : bool -> bytes -> bool **)

let leaf_dynamic lg ty =
  if has_prefix
       (str (String ((Ascii (false, true, false, false, false, true, true,
         false)), (String ((Ascii (true, false, false, true, true, true,
         true, false)), (String ((Ascii (false, false, true, false, true,
         true, true, false)), (String ((Ascii (true, false, true, false,
         false, true, true, false)), (String ((Ascii (true, true, false,
         false, true, true, true, false)), EmptyString))))))))))) ty
  then if lg
       then (match trim_suffix (lBR :: [])
                     (trim_prefix
                       (str (String ((Ascii (false, true, false, false,
                         false, true, true, false)), (String ((Ascii (true,
                         false, false, true, true, true, true, false)),
                         (String ((Ascii (false, false, true, false, true,
                         true, true, false)), (String ((Ascii (true, false,
                         true, false, false, true, true, false)), (String
                         ((Ascii (true, true, false, false, true, true, true,
                         false)), EmptyString))))))))))) ty) with
             | [] -> true
             | _ :: _ -> false)
       else list_eqb N.eqb (cut_before lBR ty)
              (str (String ((Ascii (false, true, false, false, false, true,
                true, false)), (String ((Ascii (true, false, false, true,
                true, true, true, false)), (String ((Ascii (false, false,
                true, false, true, true, true, false)), (String ((Ascii
                (true, false, true, false, false, true, true, false)),
                (String ((Ascii (true, true, false, false, true, true, true,
                false)), EmptyString)))))))))))
  else has_prefix
         (str (String ((Ascii (true, true, false, false, true, true, true,
           false)), (String ((Ascii (false, false, true, false, true, true,
           true, false)), (String ((Ascii (false, true, false, false, true,
           true, true, false)), (String ((Ascii (true, false, false, true,
           false, true, true, false)), (String ((Ascii (false, true, true,
           true, false, true, true, false)), (String ((Ascii (true, true,
           true, false, false, true, true, false)), EmptyString)))))))))))))
         ty

(** val abi_type : bool -> inp -> nat -> (nat * aty) outcome **)

let rec abi_type lg i pos =
  let Inp (_, ty, comps, col) = i in
  bind
    (match comps with
     | [] ->
       let sel = if col then Some pos else None in
       Ok ((if col then S pos else pos),
       (if leaf_dynamic lg ty then TDyn sel else TWord sel))
     | _ :: _ ->
       bind
         (let rec go l0 p =
            match l0 with
            | [] -> Ok (p, [])
            | c :: l' ->
              bind (abi_type lg c p) (fun x ->
                bind (go l' (fst x)) (fun y -> Ok ((fst y),
                  ((snd x) :: (snd y)))))
          in go comps pos) (fun r -> Ok ((if col then S (fst r) else fst r),
         (TTuple (snd r))))) (fun pb ->
    bind (parse_array lg (S (length ty)) (snd pb) ty) (fun t -> Ok ((fst pb),
      t)))

(** val event_fields : bool -> inp list -> nat -> aty list outcome **)

let rec event_fields lg l0 pos =
  match l0 with
  | [] -> Ok []
  | i :: l' ->
    if i_indexed i
    then event_fields lg l' pos
    else bind (abi_type lg i pos) (fun x ->
           bind (event_fields lg l' (fst x)) (fun r -> Ok ((snd x) :: r)))

(** val event_type : bool -> event -> aty outcome **)

let event_type lg e =
  bind (event_fields lg e.ev_inputs O) (fun fs -> Ok (TTuple fs))

type ename =
| EUint of n
| EInt of n
| EAddress
| EBool
| EBytesN of n
| EFunction
| EBytes
| EString

(** val digits_fuel : nat -> n -> bytes **)

let rec digits_fuel fuel n0 =
  match fuel with
  | O -> []
  | S f ->
    if N.ltb n0 (Npos (XO (XI (XO XH))))
    then (N.add (Npos (XO (XO (XO (XO (XI XH)))))) n0) :: []
    else app (digits_fuel f (N.div n0 (Npos (XO (XI (XO XH))))))
           ((N.add (Npos (XO (XO (XO (XO (XI XH))))))
              (N.modulo n0 (Npos (XO (XI (XO XH)))))) :: [])

(** val digits : n -> bytes **)

let digits n0 =
  digits_fuel (S (N.to_nat (N.log2 n0))) n0

(** val ename_str : ename -> bytes **)

let ename_str = function
| EUint b ->
  app
    (str (String ((Ascii (true, false, true, false, true, true, true,
      false)), (String ((Ascii (true, false, false, true, false, true, true,
      false)), (String ((Ascii (false, true, true, true, false, true, true,
      false)), (String ((Ascii (false, false, true, false, true, true, true,
      false)), EmptyString))))))))) (digits b)
| EInt b ->
  app
    (str (String ((Ascii (true, false, false, true, false, true, true,
      false)), (String ((Ascii (false, true, true, true, false, true, true,
      false)), (String ((Ascii (false, false, true, false, true, true, true,
      false)), EmptyString))))))) (digits b)
| EAddress ->
  str (String ((Ascii (true, false, false, false, false, true, true, false)),
    (String ((Ascii (false, false, true, false, false, true, true, false)),
    (String ((Ascii (false, false, true, false, false, true, true, false)),
    (String ((Ascii (false, true, false, false, true, true, true, false)),
    (String ((Ascii (true, false, true, false, false, true, true, false)),
    (String ((Ascii (true, true, false, false, true, true, true, false)),
    (String ((Ascii (true, true, false, false, true, true, true, false)),
    EmptyString))))))))))))))
| EBool ->
  str (String ((Ascii (false, true, false, false, false, true, true, false)),
    (String ((Ascii (true, true, true, true, false, true, true, false)),
    (String ((Ascii (true, true, true, true, false, true, true, false)),
    (String ((Ascii (false, false, true, true, false, true, true, false)),
    EmptyString))))))))
| EBytesN k ->
  app
    (str (String ((Ascii (false, true, false, false, false, true, true,
      false)), (String ((Ascii (true, false, false, true, true, true, true,
      false)), (String ((Ascii (false, false, true, false, true, true, true,
      false)), (String ((Ascii (true, false, true, false, false, true, true,
      false)), (String ((Ascii (true, true, false, false, true, true, true,
      false)), EmptyString))))))))))) (digits k)
| EFunction ->
  str (String ((Ascii (false, true, true, false, false, true, true, false)),
    (String ((Ascii (true, false, true, false, true, true, true, false)),
    (String ((Ascii (false, true, true, true, false, true, true, false)),
    (String ((Ascii (true, true, false, false, false, true, true, false)),
    (String ((Ascii (false, false, true, false, true, true, true, false)),
    (String ((Ascii (true, false, false, true, false, true, true, false)),
    (String ((Ascii (true, true, true, true, false, true, true, false)),
    (String ((Ascii (false, true, true, true, false, true, true, false)),
    EmptyString))))))))))))))))
| EBytes ->
  str (String ((Ascii (false, true, false, false, false, true, true, false)),
    (String ((Ascii (true, false, false, true, true, true, true, false)),
    (String ((Ascii (false, false, true, false, true, true, true, false)),
    (String ((Ascii (true, false, true, false, false, true, true, false)),
    (String ((Ascii (true, true, false, false, true, true, true, false)),
    EmptyString))))))))))
| EString ->
  str (String ((Ascii (true, true, false, false, true, true, true, false)),
    (String ((Ascii (false, false, true, false, true, true, true, false)),
    (String ((Ascii (false, true, false, false, true, true, true, false)),
    (String ((Ascii (true, false, false, true, false, true, true, false)),
    (String ((Ascii (false, true, true, true, false, true, true, false)),
    (String ((Ascii (true, true, true, false, false, true, true, false)),
    EmptyString))))))))))))

(** val ename_dynamic : ename -> bool **)

let ename_dynamic = function
| EBytes -> true
| EString -> true
| _ -> false

(** val dim_str : n -> bytes **)

let dim_str k =
  app (lBR :: []) (app (if N.eqb k N0 then [] else digits k) (rBR :: []))

(** val dims_str : n list -> bytes **)

let dims_str ds =
  flat_map dim_str ds

type jty =
| JElem of bool * ename * bool * n list
| JTuple of bool * jty list * n list

(** val json_of : jty -> inp **)

let rec json_of = function
| JElem (ix, n0, sel, ds) ->
  Inp (ix, (app (ename_str n0) (dims_str ds)), [], sel)
| JTuple (ix, cs, ds) ->
  Inp (ix,
    (app
      (str (String ((Ascii (false, false, true, false, true, true, true,
        false)), (String ((Ascii (true, false, true, false, true, true, true,
        false)), (String ((Ascii (false, false, false, false, true, true,
        true, false)), (String ((Ascii (false, false, true, true, false,
        true, true, false)), (String ((Ascii (true, false, true, false,
        false, true, true, false)), EmptyString))))))))))) (dims_str ds)),
    (map json_of cs), false)

(** val wrap_dims : n list -> aty -> aty **)

let wrap_dims ds base =
  fold_left (fun t k -> TArr (k, t)) ds base

(** val aty_of : jty -> nat -> nat * aty **)

let rec aty_of j pos =
  match j with
  | JElem (_, n0, sel, ds) ->
    let s = if sel then Some pos else None in
    ((if sel then S pos else pos),
    (wrap_dims ds (if ename_dynamic n0 then TDyn s else TWord s)))
  | JTuple (_, cs, ds) ->
    let r =
      let rec go l0 p =
        match l0 with
        | [] -> (p, [])
        | c :: l' ->
          let x = aty_of c p in
          let y = go l' (fst x) in ((fst y), ((snd x) :: (snd y)))
      in go cs pos
    in
    ((fst r), (wrap_dims ds (TTuple (snd r))))

(** val j_indexed : jty -> bool **)

let j_indexed = function
| JElem (ix, _, _, _) -> ix
| JTuple (ix, _, _) -> ix

(** val decl_fields : jty list -> nat -> aty list **)

let rec decl_fields js pos =
  match js with
  | [] -> []
  | j :: js' ->
    if j_indexed j
    then decl_fields js' pos
    else let x = aty_of j pos in (snd x) :: (decl_fields js' (fst x))

(** val decl_type : jty list -> aty **)

let decl_type js =
  TTuple (decl_fields js O)

(** val event_of : bytes -> jty list -> event **)

let event_of name js =
  { ev_name = name; ev_inputs = (map json_of js) }

(** val hP : n **)

let hP =
  Npos (XI (XI (XI (XO (XO (XO (XO (XO (XO (XI (XO (XI (XO (XO (XI (XI (XO
    (XI (XO (XI (XI (XO (XO (XI (XI (XI (XO (XI (XI
    XH)))))))))))))))))))))))))))))

(** val hash_bytes : bytes -> n **)

let hash_bytes b =
  fold_left (fun h x ->
    N.modulo
      (N.add
        (N.add (N.mul h (Npos (XI (XO (XO (XO (XO (XO (XO (XO XH)))))))))) x)
        (Npos XH)) hP) b (Npos (XI (XI XH)))

type ot =
| OT of n * bool * nat * bool * z * z * ot list

(** val obs_of : aty -> ot **)

let rec obs_of t = match t with
| TWord s ->
  OT ((Npos (XI (XI (XO (XO (XI (XI XH))))))), (is_sel s),
    (match s with
     | Some p -> p
     | None -> O), true, (Zpos (XO (XO (XO (XO (XO XH)))))), Z0, [])
| TDyn s ->
  OT ((Npos (XO (XO (XI (XO (XO (XI XH))))))), (is_sel s),
    (match s with
     | Some p -> p
     | None -> O), false, Z0, Z0, [])
| TArr (k, e) ->
  OT ((Npos (XI (XO (XO (XO (XO (XI XH))))))), false, O, (is_static t),
    (Z.of_N (size0 t)), (Z.of_N k), ((obs_of e) :: []))
| TTuple fs ->
  OT ((Npos (XO (XO (XI (XO (XI (XI XH))))))), false, O, (is_static t),
    (Z.of_N (size0 t)), Z0, (map obs_of fs))

(** val ot_eqb : ot -> ot -> bool **)

let rec ot_eqb a b =
  let OT (k, s, p, st0, sz, l0, ks) = a in
  let OT (k', s', p', st', sz', l', ks') = b in
  (&&)
    ((&&)
      ((&&)
        ((&&) ((&&) ((&&) (N.eqb k k') (eqb0 s s')) (Nat.eqb p p'))
          (eqb0 st0 st')) (Z.eqb sz sz')) (Z.eqb l0 l'))
    (let rec go x y =
       match x with
       | [] -> (match y with
                | [] -> true
                | _ :: _ -> false)
       | u :: x' ->
         (match y with
          | [] -> false
          | v :: y' -> (&&) (ot_eqb u v) (go x' y'))
     in go ks ks')

(** val inp_eqb : inp -> inp -> bool **)

let rec inp_eqb a b =
  let Inp (ix, ty, cs, col) = a in
  let Inp (ix', ty', cs', col') = b in
  (&&) ((&&) ((&&) (eqb0 ix ix') (bytes_eqb ty ty')) (eqb0 col col'))
    (let rec go x y =
       match x with
       | [] -> (match y with
                | [] -> true
                | _ :: _ -> false)
       | u :: x' ->
         (match y with
          | [] -> false
          | v :: y' -> (&&) (inp_eqb u v) (go x' y'))
     in go cs cs')

(** val event_eqb : event -> event -> bool **)

let event_eqb a b =
  (&&) (bytes_eqb a.ev_name b.ev_name)
    (list_eqb inp_eqb a.ev_inputs b.ev_inputs)

type scan_obs =
| SO of n * row list * nat * nat

(** val cell_eqb : cell -> cell -> bool **)

let cell_eqb a b =
  option_eqb (fun x y ->
    (&&) (N.eqb (fst x) (fst y)) (N.eqb (snd x) (snd y))) a b

(** val rows_eqb : row list -> row list -> bool **)

let rows_eqb a b =
  list_eqb (list_eqb cell_eqb) a b

(** val obs_matches : sres -> scan_obs -> bool **)

let obs_matches r o =
  match r with
  | SOk s ->
    let SO (kind, rows, n0, clen) = o in
    (match kind with
     | N0 ->
       (&&) ((&&) (rows_eqb (rows_out s) rows) (Nat.eqb s.nrows n0))
         (Nat.eqb (length s.coll) clen)
     | Npos _ -> false)
  | SErr s ->
    let SO (kind, _, n0, clen) = o in
    (match kind with
     | N0 -> false
     | Npos p ->
       (match p with
        | XH -> (&&) (Nat.eqb s.nrows n0) (Nat.eqb (length s.coll) clen)
        | _ -> false))
  | SFuel -> false
  | SPanic ->
    let SO (kind, _, _, _) = o in
    (match kind with
     | N0 -> false
     | Npos p ->
       (match p with
        | XO p0 -> (match p0 with
                    | XH -> true
                    | _ -> false)
        | _ -> false))

(** val next_state : sres -> st -> st **)

let next_state r s =
  match r with
  | SOk s' -> s'
  | SErr s' -> s'
  | _ -> s

(** val run_scans : nat -> aty -> st -> (bytes * scan_obs) list -> bool **)

let rec run_scans ncols t s = function
| [] -> true
| p :: rest ->
  let (d, o) = p in
  let r = result_scan d ncols t s in
  (&&) (obs_matches r o)
    (match r with
     | SOk _ -> run_scans ncols t (next_state r s) rest
     | SErr _ -> run_scans ncols t (next_state r s) rest
     | _ -> true)

(** val vrows_eqb :
    bytes option list list -> bytes option list list -> bool **)

let vrows_eqb a b =
  list_eqb (list_eqb (option_eqb bytes_eqb)) a b

type case =
| CDecl of bytes * jty list * event * ot outcome * nat
| CScan of event * bool * (((aval * bytes) * n) * scan_obs) list

(** val check : case -> bool **)

let check = function
| CDecl (name, js, e, obs, ncols) ->
  (&&) (event_eqb (event_of name js) e)
    (match event_type false e with
     | Ok t ->
       (match obs with
        | Ok o ->
          (&&)
            ((&&) ((&&) (ot_eqb (obs_of t) o) (Nat.eqb (ncols_of t) ncols))
              (aty_eqb t (decl_type js))) (sel_okb (ncols_of t) t)
        | _ -> false)
     | Err -> false
     | Panic -> (match obs with
                 | Panic -> true
                 | _ -> false))
| CScan (e, indom, runs) ->
  (match event_type false e with
   | Ok t ->
     let nc = ncols_of t in
     let inputs =
       map (fun r ->
         let (y, o) = r in
         let (y0, _) = y in let (v, g) = y0 in ((app (enc t v) g), o)) runs
     in
     (&&)
       ((&&) (eqb0 (dom t) indom)
         (forallb (fun r ->
           let (y, o) = r in
           let (y0, h) = y in
           let (v, g) = y0 in
           let d = app (enc t v) g in
           (&&) ((&&) (has_typeb t v) (N.eqb (hash_bytes d) h))
             (let SO (kind, rows, _, _) = o in
              (match kind with
               | N0 ->
                 (||) (negb indom)
                   (vrows_eqb (map (vrow d) rows) (rows_spec nc t v))
               | Npos _ -> false))) runs))
       (run_scans nc t (new_result nc) inputs)
   | _ -> false)

type mut =
| MId
| MTrunc of n
| MWord of n * n
| MWordV of n * n
| MRaw of bytes

(** val bval : n -> n -> n **)

let bval k len =
  nth (N.to_nat k) (N0 :: ((Npos XH) :: ((Npos (XI (XI (XI (XI
    XH))))) :: ((Npos (XO (XO (XO (XO (XO
    XH)))))) :: ((N.sub len (Npos (XI (XI (XI (XI XH)))))) :: (len :: (
    (N.add len (Npos XH)) :: ((N.pow (Npos (XO XH)) (Npos (XI (XI (XI (XI
                                XH)))))) :: ((N.pow (Npos (XO XH)) (Npos (XO
                                               (XO (XO (XO (XO XH))))))) :: (
    (N.sub (N.pow (Npos (XO XH)) (Npos (XI (XI (XI (XI (XI XH))))))) (Npos
      (XO (XO (XO (XO (XO XH))))))) :: ((N.sub
                                          (N.pow (Npos (XO XH)) (Npos (XI (XI
                                            (XI (XI (XI XH))))))) (Npos XH)) :: (
    (N.pow (Npos (XO XH)) (Npos (XI (XI (XI (XI (XI XH))))))) :: ((N.sub
                                                                    (N.pow
                                                                    (Npos (XO
                                                                    XH))
                                                                    (Npos (XO
                                                                    (XO (XO
                                                                    (XO (XO
                                                                    (XO
                                                                    XH))))))))
                                                                    (Npos (XO
                                                                    (XO (XO
                                                                    (XO (XO
                                                                    XH))))))) :: (
    (N.sub (N.pow (Npos (XO XH)) (Npos (XO (XO (XO (XO (XO (XO XH))))))))
      (Npos XH)) :: ((N.pow (Npos (XO XH)) (Npos (XI (XI (XI (XI (XI (XI (XI
                       XH))))))))) :: []))))))))))))))) N0

(** val apply_mut : bytes -> mut -> bytes **)

let apply_mut base = function
| MId -> base
| MTrunc n0 -> firstn (N.to_nat n0) base
| MWord (i, k) ->
  app (firstn (N.to_nat (N.mul (Npos (XO (XO (XO (XO (XO XH)))))) i)) base)
    (app
      (be (S (S (S (S (S (S (S (S (S (S (S (S (S (S (S (S (S (S (S (S (S (S
        (S (S (S (S (S (S (S (S (S (S O))))))))))))))))))))))))))))))))
        (bval k (N.of_nat (length base))))
      (skipn
        (N.to_nat
          (N.add (N.mul (Npos (XO (XO (XO (XO (XO XH)))))) i) (Npos (XO (XO
            (XO (XO (XO XH)))))))) base))
| MWordV (i, v) ->
  app (firstn (N.to_nat (N.mul (Npos (XO (XO (XO (XO (XO XH)))))) i)) base)
    (app
      (be (S (S (S (S (S (S (S (S (S (S (S (S (S (S (S (S (S (S (S (S (S (S
        (S (S (S (S (S (S (S (S (S (S O)))))))))))))))))))))))))))))))) v)
      (skipn
        (N.to_nat
          (N.add (N.mul (Npos (XO (XO (XO (XO (XO XH)))))) i) (Npos (XO (XO
            (XO (XO (XO XH)))))))) base))
| MRaw b -> b

type case0 =
| CMal of event * bytes * ((mut * n) * scan_obs) list

(** val obs_safe : aty -> bytes -> scan_obs -> bool **)

let obs_safe t d = function
| SO (kind, rows, n0, _) ->
  (match kind with
   | N0 ->
     (&&)
       (forallb
         (forallb (fun c ->
           match c with
           | Some y ->
             let (off, l0) = y in N.leb (N.add off l0) (N.of_nat (length d))
           | None -> true)) rows)
       (N.leb (N.of_nat n0) (N.max (Npos XH) (cost t (N.of_nat (length d)))))
   | Npos p ->
     (match p with
      | XH -> N.leb (N.of_nat n0) (cost t (N.of_nat (length d)))
      | _ -> false))

(** val check0 : case0 -> bool **)

let check0 = function
| CMal (e, base, runs) ->
  (match event_type false e with
   | Ok t ->
     let nc = ncols_of t in
     let inputs =
       map (fun r ->
         let (y, o) = r in let (m, _) = y in ((apply_mut base m), o)) runs
     in
     (&&)
       ((&&)
         (forallb (fun r ->
           let (y, _) = r in
           let (m, h) = y in N.eqb (hash_bytes (apply_mut base m)) h) runs)
         (forallb (fun r -> obs_safe t (fst r) (snd r)) inputs))
       (run_scans nc t (new_result nc) inputs)
   | _ -> false)

(** val parse_inp : sx -> inp option **)

let rec parse_inp = function
| SL l0 ->
  (match l0 with
   | [] -> None
   | t :: l1 ->
     (match l1 with
      | [] -> None
      | ix :: l2 ->
        (match l2 with
         | [] -> None
         | ty :: l3 ->
           (match l3 with
            | [] -> None
            | s :: l4 ->
              (match s with
               | SL cs ->
                 (match l4 with
                  | [] -> None
                  | col :: l5 ->
                    (match l5 with
                     | [] ->
                       if is_tag (String ((Ascii (true, false, false, true,
                            false, true, true, false)), EmptyString)) t
                       then obind (sx_bool ix) (fun ix' ->
                              obind (sx_bytes ty) (fun ty' ->
                                obind
                                  (all_some
                                    (let rec go = function
                                     | [] -> []
                                     | c :: r -> (parse_inp c) :: (go r)
                                     in go cs)) (fun cs' ->
                                  obind (sx_bool col) (fun col' -> Some (Inp
                                    (ix', ty', cs', col'))))))
                       else None
                     | _ :: _ -> None))
               | _ -> None)))))
| _ -> None

(** val parse_event : sx -> event option **)

let parse_event = function
| SL l0 ->
  (match l0 with
   | [] -> None
   | t :: l1 ->
     (match l1 with
      | [] -> None
      | nm :: l2 ->
        (match l2 with
         | [] -> None
         | ins :: l3 ->
           (match l3 with
            | [] ->
              if is_tag (String ((Ascii (true, false, true, false, false,
                   true, true, false)), (String ((Ascii (false, true, true,
                   false, true, true, true, false)), EmptyString)))) t
              then obind (sx_bytes nm) (fun nm' ->
                     obind (sx_list parse_inp ins) (fun ins' -> Some
                       { ev_name = nm'; ev_inputs = ins' }))
              else None
            | _ :: _ -> None))))
| _ -> None

(** val parse_val : sx -> aval option **)

let rec parse_val = function
| SL l0 ->
  (match l0 with
   | [] -> None
   | t :: l1 ->
     (match l1 with
      | [] -> None
      | s :: l2 ->
        (match s with
         | SA _ -> None
         | SB b ->
           (match l2 with
            | [] ->
              if is_tag (String ((Ascii (true, true, true, false, true, true,
                   true, false)), EmptyString)) t
              then Some (VWord b)
              else if is_tag (String ((Ascii (false, true, false, false,
                        false, true, true, false)), EmptyString)) t
                   then Some (VBytes b)
                   else None
            | _ :: _ -> None)
         | SL vs ->
           (match l2 with
            | [] ->
              let vs' =
                all_some
                  (let rec go = function
                   | [] -> []
                   | c :: r -> (parse_val c) :: (go r)
                   in go vs)
              in
              if is_tag (String ((Ascii (true, false, false, false, false,
                   true, true, false)), EmptyString)) t
              then option_map (fun x0 -> VArr x0) vs'
              else if is_tag (String ((Ascii (false, false, true, false,
                        true, true, true, false)), EmptyString)) t
                   then option_map (fun x0 -> VTuple x0) vs'
                   else None
            | _ :: _ -> None))))
| _ -> None

(** val parse_cell : sx -> cell option **)

let parse_cell =
  sx_opt (sx_pair sx_N sx_N)

(** val parse_obs : sx -> scan_obs option **)

let parse_obs = function
| SL l0 ->
  (match l0 with
   | [] -> None
   | t :: l1 ->
     (match l1 with
      | [] -> None
      | k :: l2 ->
        (match l2 with
         | [] -> None
         | rows :: l3 ->
           (match l3 with
            | [] -> None
            | n0 :: l4 ->
              (match l4 with
               | [] -> None
               | cl :: l5 ->
                 (match l5 with
                  | [] ->
                    if is_tag (String ((Ascii (true, true, false, false,
                         true, true, true, false)), (String ((Ascii (true,
                         true, true, true, false, true, true, false)),
                         EmptyString)))) t
                    then obind (sx_N k) (fun k' ->
                           obind (sx_list (sx_list parse_cell) rows)
                             (fun rows' ->
                             obind (sx_nat n0) (fun n' ->
                               obind (sx_nat cl) (fun cl' -> Some (SO (k',
                                 rows', n', cl'))))))
                    else None
                  | _ :: _ -> None))))))
| _ -> None

(** val parse_mut : sx -> mut option **)

let parse_mut = function
| SL l0 ->
  (match l0 with
   | [] -> None
   | t :: l1 ->
     (match l1 with
      | [] ->
        if is_tag (String ((Ascii (true, false, false, true, false, true,
             true, false)), (String ((Ascii (false, false, true, false,
             false, true, true, false)), EmptyString)))) t
        then Some MId
        else None
      | a :: l2 ->
        (match l2 with
         | [] ->
           if is_tag (String ((Ascii (false, false, true, false, true, true,
                true, false)), (String ((Ascii (false, true, false, false,
                true, true, true, false)), (String ((Ascii (true, false,
                true, false, true, true, true, false)), (String ((Ascii
                (false, true, true, true, false, true, true, false)), (String
                ((Ascii (true, true, false, false, false, true, true,
                false)), EmptyString)))))))))) t
           then option_map (fun x0 -> MTrunc x0) (sx_N a)
           else if is_tag (String ((Ascii (false, true, false, false, true,
                     true, true, false)), (String ((Ascii (true, false,
                     false, false, false, true, true, false)), (String
                     ((Ascii (true, true, true, false, true, true, true,
                     false)), EmptyString)))))) t
                then option_map (fun x0 -> MRaw x0) (sx_bytes a)
                else None
         | b :: l3 ->
           (match l3 with
            | [] ->
              if is_tag (String ((Ascii (true, true, true, false, true, true,
                   true, false)), (String ((Ascii (true, true, true, true,
                   false, true, true, false)), (String ((Ascii (false, true,
                   false, false, true, true, true, false)), (String ((Ascii
                   (false, false, true, false, false, true, true, false)),
                   EmptyString)))))))) t
              then obind (sx_N a) (fun i ->
                     obind (sx_N b) (fun k -> Some (MWord (i, k))))
              else if is_tag (String ((Ascii (true, true, true, false, true,
                        true, true, false)), (String ((Ascii (true, true,
                        true, true, false, true, true, false)), (String
                        ((Ascii (false, true, false, false, true, true, true,
                        false)), (String ((Ascii (false, false, true, false,
                        false, true, true, false)), (String ((Ascii (false,
                        true, true, false, true, true, true, false)),
                        EmptyString)))))))))) t
                   then obind (sx_N a) (fun i ->
                          obind (sx_N b) (fun v -> Some (MWordV (i, v))))
                   else None
            | _ :: _ -> None))))
| _ -> None

(** val parse_run09 : sx -> (((aval * bytes) * n) * scan_obs) option **)

let parse_run09 = function
| SL l0 ->
  (match l0 with
   | [] -> None
   | v :: l1 ->
     (match l1 with
      | [] -> None
      | g :: l2 ->
        (match l2 with
         | [] -> None
         | h :: l3 ->
           (match l3 with
            | [] -> None
            | o :: l4 ->
              (match l4 with
               | [] ->
                 obind (parse_val v) (fun v' ->
                   obind (sx_bytes g) (fun g' ->
                     obind (sx_N h) (fun h' ->
                       obind (parse_obs o) (fun o' -> Some (((v', g'), h'),
                         o')))))
               | _ :: _ -> None)))))
| _ -> None

(** val parse_run10 : sx -> ((mut * n) * scan_obs) option **)

let parse_run10 = function
| SL l0 ->
  (match l0 with
   | [] -> None
   | m :: l1 ->
     (match l1 with
      | [] -> None
      | h :: l2 ->
        (match l2 with
         | [] -> None
         | o :: l3 ->
           (match l3 with
            | [] ->
              obind (parse_mut m) (fun m' ->
                obind (sx_N h) (fun h' ->
                  obind (parse_obs o) (fun o' -> Some ((m', h'), o'))))
            | _ :: _ -> None))))
| _ -> None

(** val parse09 : sx -> case option **)

let parse09 = function
| SL l0 ->
  (match l0 with
   | [] -> None
   | t :: l1 ->
     (match l1 with
      | [] -> None
      | e :: l2 ->
        (match l2 with
         | [] -> None
         | d :: l3 ->
           (match l3 with
            | [] -> None
            | runs :: l4 ->
              (match l4 with
               | [] ->
                 if is_tag (String ((Ascii (true, true, false, false, true,
                      true, true, false)), (String ((Ascii (true, true,
                      false, false, false, true, true, false)), (String
                      ((Ascii (true, false, false, false, false, true, true,
                      false)), (String ((Ascii (false, true, true, true,
                      false, true, true, false)), EmptyString)))))))) t
                 then obind (parse_event e) (fun e' ->
                        obind (sx_bool d) (fun d' ->
                          obind (sx_list parse_run09 runs) (fun rs -> Some
                            (CScan (e', d', rs)))))
                 else None
               | _ :: _ -> None)))))
| _ -> None

(** val parse10 : sx -> case0 option **)

let parse10 = function
| SL l0 ->
  (match l0 with
   | [] -> None
   | t :: l1 ->
     (match l1 with
      | [] -> None
      | e :: l2 ->
        (match l2 with
         | [] -> None
         | b :: l3 ->
           (match l3 with
            | [] -> None
            | runs :: l4 ->
              (match l4 with
               | [] ->
                 if is_tag (String ((Ascii (true, false, true, true, false,
                      true, true, false)), (String ((Ascii (true, false,
                      false, false, false, true, true, false)), (String
                      ((Ascii (false, false, true, true, false, true, true,
                      false)), EmptyString)))))) t
                 then obind (parse_event e) (fun e' ->
                        obind (sx_bytes b) (fun b' ->
                          obind (sx_list parse_run10 runs) (fun rs -> Some
                            (CMal (e', b', rs)))))
                 else None
               | _ :: _ -> None)))))
| _ -> None

(** val check_sx09 : sx -> bool **)

let check_sx09 =
  checked parse09 check

(** val check_sx10 : sx -> bool **)

let check_sx10 =
  checked parse10 check0
