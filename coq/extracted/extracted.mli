
val negb : bool -> bool

type nat =
| O
| S of nat

val option_map : ('a1 -> 'a2) -> 'a1 option -> 'a2 option

val fst : ('a1 * 'a2) -> 'a1

val snd : ('a1 * 'a2) -> 'a2

val length : 'a1 list -> nat

val app : 'a1 list -> 'a1 list -> 'a1 list

type comparison =
| Eq
| Lt
| Gt

val add : nat -> nat -> nat

val sub : nat -> nat -> nat

val leb : nat -> nat -> bool

val ltb : nat -> nat -> bool

val even : nat -> bool

val odd : nat -> bool

val divmod : nat -> nat -> nat -> nat -> nat * nat

val div : nat -> nat -> nat

val eqb : bool -> bool -> bool

val removelast : 'a1 list -> 'a1 list

val rev : 'a1 list -> 'a1 list

val map : ('a1 -> 'a2) -> 'a1 list -> 'a2 list

val flat_map : ('a1 -> 'a2 list) -> 'a1 list -> 'a2 list

val fold_left : ('a1 -> 'a2 -> 'a1) -> 'a2 list -> 'a1 -> 'a1

val firstn : nat -> 'a1 list -> 'a1 list

val skipn : nat -> 'a1 list -> 'a1 list

val repeat : 'a1 -> nat -> 'a1 list

type positive =
| XI of positive
| XO of positive
| XH

type n =
| N0
| Npos of positive

module Pos :
 sig
  type mask =
  | IsNul
  | IsPos of positive
  | IsNeg
 end

module Coq_Pos :
 sig
  val succ : positive -> positive

  val add : positive -> positive -> positive

  val add_carry : positive -> positive -> positive

  val pred_double : positive -> positive

  type mask = Pos.mask =
  | IsNul
  | IsPos of positive
  | IsNeg

  val succ_double_mask : mask -> mask

  val double_mask : mask -> mask

  val double_pred_mask : positive -> mask

  val sub_mask : positive -> positive -> mask

  val sub_mask_carry : positive -> positive -> mask

  val mul : positive -> positive -> positive

  val compare_cont : comparison -> positive -> positive -> comparison

  val compare : positive -> positive -> comparison

  val eqb : positive -> positive -> bool

  val coq_lor : positive -> positive -> positive

  val iter_op : ('a1 -> 'a1 -> 'a1) -> positive -> 'a1 -> 'a1

  val to_nat : positive -> nat

  val of_succ_nat : nat -> positive
 end

module N :
 sig
  val succ_double : n -> n

  val double : n -> n

  val add : n -> n -> n

  val sub : n -> n -> n

  val mul : n -> n -> n

  val compare : n -> n -> comparison

  val eqb : n -> n -> bool

  val leb : n -> n -> bool

  val ltb : n -> n -> bool

  val pos_div_eucl : positive -> n -> n * n

  val div_eucl : n -> n -> n * n

  val div : n -> n -> n

  val modulo : n -> n -> n

  val coq_lor : n -> n -> n

  val to_nat : n -> nat

  val of_nat : nat -> n
 end

type ascii =
| Ascii of bool * bool * bool * bool * bool * bool * bool * bool

val n_of_digits : bool list -> n

val n_of_ascii : ascii -> n

type string =
| EmptyString
| String of ascii * string

val list_ascii_of_string : string -> ascii list

type 'a outcome =
| Ok of 'a
| Err
| Panic

type bytes = n list

val list_eqb : ('a1 -> 'a1 -> bool) -> 'a1 list -> 'a1 list -> bool

val bytes_eqb : n list -> n list -> bool

val outcome_eqb : ('a1 -> 'a1 -> bool) -> 'a1 outcome -> 'a1 outcome -> bool

type sx =
| SA of bytes
| SB of bytes
| SL of sx list

val tag : string -> bytes

val is_tag : string -> sx -> bool

val dec_digits : bytes -> n option

val sx_N : sx -> n option

val sx_nat : sx -> nat option

val sx_bool : sx -> bool option

val sx_bytes : sx -> bytes option

val all_some : 'a1 option list -> 'a1 list option

val sx_list : (sx -> 'a1 option) -> sx -> 'a1 list option

val sx_pair :
  (sx -> 'a1 option) -> (sx -> 'a2 option) -> sx -> ('a1 * 'a2) option

val sx_opt : (sx -> 'a1 option) -> sx -> 'a1 option option

val sx_outcome : (sx -> 'a1 option) -> sx -> 'a1 outcome option

val obind : 'a1 option -> ('a1 -> 'a2 option) -> 'a2 option

val checked : (sx -> 'a1 option) -> ('a1 -> bool) -> sx -> bool

val two64 : n

val nibble : n -> n option

val decode_from : n -> bytes -> n option

val decode : bytes -> n option

val strip : bytes -> bytes

val uint64_unmarshal : bytes -> n outcome

val byte_unmarshal : bytes -> n outcome

val hex_pairs : bytes -> n list * bool

val overwrite : bytes -> bytes -> bytes

val resize : bytes -> nat -> bytes

val bytes_unmarshal : bytes -> bytes -> bool * bytes

val bytes_write : bytes -> bytes -> bytes

type dop =
| DUnmarshal of bytes
| DWrite of bytes

val dstep : bytes -> dop -> bool * bytes

val drun : bytes -> dop list -> (bool * bytes) list

val strip0x : bytes -> bytes

val decode_hex : bytes -> bytes

val hexdigit : n -> n

val encode_hex : bytes -> bytes

val nbytes_fuel : nat -> n -> nat

val nbytes : n -> nat

val size : n -> nat

val be : nat -> n -> bytes

val encode : bytes option -> n -> bytes outcome

val decode64 : bytes -> n

type case =
| CU64 of bytes * n outcome
| CByte of bytes * n outcome
| CSeq of dop list * (bool * bytes) list
| CDecodeHex of bytes * bytes
| CEncodeHex of bytes * bytes
| CBintEnc of bytes option * n * bytes outcome
| CBintDec of bytes * n
| CDigest of bytes * nat * n list

val p : n

val fold_tokens : ('a1 -> bytes -> 'a1) -> bytes -> nat -> bytes -> 'a1 -> 'a1

val fold_upto : ('a1 -> bytes -> 'a1) -> bytes -> nat -> 'a1 -> 'a1

val hash_bytes : bytes -> n

type dg = { ix : n; u_ok : n; u_err : n; u_sum : n; b_ok : n; b_err : 
            n; b_sum : n; y_ok : n; y_err : n; y_sum : n }

val dg0 : dg

val dg_step : dg -> bytes -> dg

val digest : bytes -> nat -> n list

val res_eqb : (bool * bytes) -> (bool * bytes) -> bool

val check : case -> bool

val parse_dop : sx -> dop option

val parse : sx -> case option

val check_sx : sx -> bool
