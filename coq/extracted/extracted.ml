
(** val negb : bool -> bool **)

let negb = function
| true -> false
| false -> true

type nat =
| O
| S of nat

(** val option_map : ('a1 -> 'a2) -> 'a1 option -> 'a2 option **)

let option_map f = function
| Some a -> Some (f a)
| None -> None

(** val fst : ('a1 * 'a2) -> 'a1 **)

let fst = function
| (x, _) -> x

(** val snd : ('a1 * 'a2) -> 'a2 **)

let snd = function
| (_, y) -> y

(** val length : 'a1 list -> nat **)

let rec length = function
| [] -> O
| _ :: l' -> S (length l')

(** val app : 'a1 list -> 'a1 list -> 'a1 list **)

let rec app l m =
  match l with
  | [] -> m
  | a :: l1 -> a :: (app l1 m)

type comparison =
| Eq
| Lt
| Gt

module Coq__1 = struct
 (** val add : nat -> nat -> nat **)
 let rec add n0 m =
   match n0 with
   | O -> m
   | S p0 -> S (add p0 m)
end
include Coq__1

(** val sub : nat -> nat -> nat **)

let rec sub n0 m =
  match n0 with
  | O -> n0
  | S k -> (match m with
            | O -> n0
            | S l -> sub k l)

(** val leb : nat -> nat -> bool **)

let rec leb n0 m =
  match n0 with
  | O -> true
  | S n' -> (match m with
             | O -> false
             | S m' -> leb n' m')

(** val ltb : nat -> nat -> bool **)

let ltb n0 m =
  leb (S n0) m

(** val even : nat -> bool **)

let rec even = function
| O -> true
| S n1 -> (match n1 with
           | O -> false
           | S n' -> even n')

(** val odd : nat -> bool **)

let odd n0 =
  negb (even n0)

(** val divmod : nat -> nat -> nat -> nat -> nat * nat **)

let rec divmod x y q u =
  match x with
  | O -> (q, u)
  | S x' -> (match u with
             | O -> divmod x' y (S q) y
             | S u' -> divmod x' y q u')

(** val div : nat -> nat -> nat **)

let div x y = match y with
| O -> y
| S y' -> fst (divmod x y' O y')

(** val eqb : bool -> bool -> bool **)

let eqb b1 b2 =
  if b1 then b2 else if b2 then false else true

(** val removelast : 'a1 list -> 'a1 list **)

let rec removelast = function
| [] -> []
| a :: l0 -> (match l0 with
              | [] -> []
              | _ :: _ -> a :: (removelast l0))

(** val rev : 'a1 list -> 'a1 list **)

let rec rev = function
| [] -> []
| x :: l' -> app (rev l') (x :: [])

(** val map : ('a1 -> 'a2) -> 'a1 list -> 'a2 list **)

let rec map f = function
| [] -> []
| a :: t -> (f a) :: (map f t)

(** val flat_map : ('a1 -> 'a2 list) -> 'a1 list -> 'a2 list **)

let rec flat_map f = function
| [] -> []
| x :: t -> app (f x) (flat_map f t)

(** val fold_left : ('a1 -> 'a2 -> 'a1) -> 'a2 list -> 'a1 -> 'a1 **)

let rec fold_left f l a0 =
  match l with
  | [] -> a0
  | b :: t -> fold_left f t (f a0 b)

(** val firstn : nat -> 'a1 list -> 'a1 list **)

let rec firstn n0 l =
  match n0 with
  | O -> []
  | S n1 -> (match l with
             | [] -> []
             | a :: l0 -> a :: (firstn n1 l0))

(** val skipn : nat -> 'a1 list -> 'a1 list **)

let rec skipn n0 l =
  match n0 with
  | O -> l
  | S n1 -> (match l with
             | [] -> []
             | _ :: l0 -> skipn n1 l0)

(** val repeat : 'a1 -> nat -> 'a1 list **)

let rec repeat x = function
| O -> []
| S k -> x :: (repeat x k)

type positive =
| XI of positive
| XO of positive
| XH

type n =
| N0
| Npos of positive

module Pos =
 struct
  type mask =
  | IsNul
  | IsPos of positive
  | IsNeg
 end

module Coq_Pos =
 struct
  (** val succ : positive -> positive **)

  let rec succ = function
  | XI p0 -> XO (succ p0)
  | XO p0 -> XI p0
  | XH -> XO XH

  (** val add : positive -> positive -> positive **)

  let rec add x y =
    match x with
    | XI p0 ->
      (match y with
       | XI q -> XO (add_carry p0 q)
       | XO q -> XI (add p0 q)
       | XH -> XO (succ p0))
    | XO p0 ->
      (match y with
       | XI q -> XI (add p0 q)
       | XO q -> XO (add p0 q)
       | XH -> XI p0)
    | XH -> (match y with
             | XI q -> XO (succ q)
             | XO q -> XI q
             | XH -> XO XH)

  (** val add_carry : positive -> positive -> positive **)

  and add_carry x y =
    match x with
    | XI p0 ->
      (match y with
       | XI q -> XI (add_carry p0 q)
       | XO q -> XO (add_carry p0 q)
       | XH -> XI (succ p0))
    | XO p0 ->
      (match y with
       | XI q -> XO (add_carry p0 q)
       | XO q -> XI (add p0 q)
       | XH -> XO (succ p0))
    | XH ->
      (match y with
       | XI q -> XI (succ q)
       | XO q -> XO (succ q)
       | XH -> XI XH)

  (** val pred_double : positive -> positive **)

  let rec pred_double = function
  | XI p0 -> XI (XO p0)
  | XO p0 -> XI (pred_double p0)
  | XH -> XH

  type mask = Pos.mask =
  | IsNul
  | IsPos of positive
  | IsNeg

  (** val succ_double_mask : mask -> mask **)

  let succ_double_mask = function
  | IsNul -> IsPos XH
  | IsPos p0 -> IsPos (XI p0)
  | IsNeg -> IsNeg

  (** val double_mask : mask -> mask **)

  let double_mask = function
  | IsPos p0 -> IsPos (XO p0)
  | x0 -> x0

  (** val double_pred_mask : positive -> mask **)

  let double_pred_mask = function
  | XI p0 -> IsPos (XO (XO p0))
  | XO p0 -> IsPos (XO (pred_double p0))
  | XH -> IsNul

  (** val sub_mask : positive -> positive -> mask **)

  let rec sub_mask x y =
    match x with
    | XI p0 ->
      (match y with
       | XI q -> double_mask (sub_mask p0 q)
       | XO q -> succ_double_mask (sub_mask p0 q)
       | XH -> IsPos (XO p0))
    | XO p0 ->
      (match y with
       | XI q -> succ_double_mask (sub_mask_carry p0 q)
       | XO q -> double_mask (sub_mask p0 q)
       | XH -> IsPos (pred_double p0))
    | XH -> (match y with
             | XH -> IsNul
             | _ -> IsNeg)

  (** val sub_mask_carry : positive -> positive -> mask **)

  and sub_mask_carry x y =
    match x with
    | XI p0 ->
      (match y with
       | XI q -> succ_double_mask (sub_mask_carry p0 q)
       | XO q -> double_mask (sub_mask p0 q)
       | XH -> IsPos (pred_double p0))
    | XO p0 ->
      (match y with
       | XI q -> double_mask (sub_mask_carry p0 q)
       | XO q -> succ_double_mask (sub_mask_carry p0 q)
       | XH -> double_pred_mask p0)
    | XH -> IsNeg

  (** val mul : positive -> positive -> positive **)

  let rec mul x y =
    match x with
    | XI p0 -> add y (XO (mul p0 y))
    | XO p0 -> XO (mul p0 y)
    | XH -> y

  (** val compare_cont : comparison -> positive -> positive -> comparison **)

  let rec compare_cont r x y =
    match x with
    | XI p0 ->
      (match y with
       | XI q -> compare_cont r p0 q
       | XO q -> compare_cont Gt p0 q
       | XH -> Gt)
    | XO p0 ->
      (match y with
       | XI q -> compare_cont Lt p0 q
       | XO q -> compare_cont r p0 q
       | XH -> Gt)
    | XH -> (match y with
             | XH -> r
             | _ -> Lt)

  (** val compare : positive -> positive -> comparison **)

  let compare =
    compare_cont Eq

  (** val eqb : positive -> positive -> bool **)

  let rec eqb p0 q =
    match p0 with
    | XI p1 -> (match q with
                | XI q0 -> eqb p1 q0
                | _ -> false)
    | XO p1 -> (match q with
                | XO q0 -> eqb p1 q0
                | _ -> false)
    | XH -> (match q with
             | XH -> true
             | _ -> false)

  (** val coq_lor : positive -> positive -> positive **)

  let rec coq_lor p0 q =
    match p0 with
    | XI p1 ->
      (match q with
       | XI q0 -> XI (coq_lor p1 q0)
       | XO q0 -> XI (coq_lor p1 q0)
       | XH -> p0)
    | XO p1 ->
      (match q with
       | XI q0 -> XI (coq_lor p1 q0)
       | XO q0 -> XO (coq_lor p1 q0)
       | XH -> XI p1)
    | XH -> (match q with
             | XO q0 -> XI q0
             | _ -> q)

  (** val iter_op : ('a1 -> 'a1 -> 'a1) -> positive -> 'a1 -> 'a1 **)

  let rec iter_op op p0 a =
    match p0 with
    | XI p1 -> op a (iter_op op p1 (op a a))
    | XO p1 -> iter_op op p1 (op a a)
    | XH -> a

  (** val to_nat : positive -> nat **)

  let to_nat x =
    iter_op Coq__1.add x (S O)

  (** val of_succ_nat : nat -> positive **)

  let rec of_succ_nat = function
  | O -> XH
  | S x -> succ (of_succ_nat x)
 end

module N =
 struct
  (** val succ_double : n -> n **)

  let succ_double = function
  | N0 -> Npos XH
  | Npos p0 -> Npos (XI p0)

  (** val double : n -> n **)

  let double = function
  | N0 -> N0
  | Npos p0 -> Npos (XO p0)

  (** val add : n -> n -> n **)

  let add n0 m =
    match n0 with
    | N0 -> m
    | Npos p0 -> (match m with
                  | N0 -> n0
                  | Npos q -> Npos (Coq_Pos.add p0 q))

  (** val sub : n -> n -> n **)

  let sub n0 m =
    match n0 with
    | N0 -> N0
    | Npos n' ->
      (match m with
       | N0 -> n0
       | Npos m' ->
         (match Coq_Pos.sub_mask n' m' with
          | Coq_Pos.IsPos p0 -> Npos p0
          | _ -> N0))

  (** val mul : n -> n -> n **)

  let mul n0 m =
    match n0 with
    | N0 -> N0
    | Npos p0 -> (match m with
                  | N0 -> N0
                  | Npos q -> Npos (Coq_Pos.mul p0 q))

  (** val compare : n -> n -> comparison **)

  let compare n0 m =
    match n0 with
    | N0 -> (match m with
             | N0 -> Eq
             | Npos _ -> Lt)
    | Npos n' -> (match m with
                  | N0 -> Gt
                  | Npos m' -> Coq_Pos.compare n' m')

  (** val eqb : n -> n -> bool **)

  let eqb n0 m =
    match n0 with
    | N0 -> (match m with
             | N0 -> true
             | Npos _ -> false)
    | Npos p0 -> (match m with
                  | N0 -> false
                  | Npos q -> Coq_Pos.eqb p0 q)

  (** val leb : n -> n -> bool **)

  let leb x y =
    match compare x y with
    | Gt -> false
    | _ -> true

  (** val ltb : n -> n -> bool **)

  let ltb x y =
    match compare x y with
    | Lt -> true
    | _ -> false

  (** val pos_div_eucl : positive -> n -> n * n **)

  let rec pos_div_eucl a b =
    match a with
    | XI a' ->
      let (q, r) = pos_div_eucl a' b in
      let r' = succ_double r in
      if leb b r' then ((succ_double q), (sub r' b)) else ((double q), r')
    | XO a' ->
      let (q, r) = pos_div_eucl a' b in
      let r' = double r in
      if leb b r' then ((succ_double q), (sub r' b)) else ((double q), r')
    | XH ->
      (match b with
       | N0 -> (N0, (Npos XH))
       | Npos p0 ->
         (match p0 with
          | XH -> ((Npos XH), N0)
          | _ -> (N0, (Npos XH))))

  (** val div_eucl : n -> n -> n * n **)

  let div_eucl a b =
    match a with
    | N0 -> (N0, N0)
    | Npos na -> (match b with
                  | N0 -> (N0, a)
                  | Npos _ -> pos_div_eucl na b)

  (** val div : n -> n -> n **)

  let div a b =
    fst (div_eucl a b)

  (** val modulo : n -> n -> n **)

  let modulo a b =
    snd (div_eucl a b)

  (** val coq_lor : n -> n -> n **)

  let coq_lor n0 m =
    match n0 with
    | N0 -> m
    | Npos p0 ->
      (match m with
       | N0 -> n0
       | Npos q -> Npos (Coq_Pos.coq_lor p0 q))

  (** val to_nat : n -> nat **)

  let to_nat = function
  | N0 -> O
  | Npos p0 -> Coq_Pos.to_nat p0

  (** val of_nat : nat -> n **)

  let of_nat = function
  | O -> N0
  | S n' -> Npos (Coq_Pos.of_succ_nat n')
 end

type ascii =
| Ascii of bool * bool * bool * bool * bool * bool * bool * bool

(** val n_of_digits : bool list -> n **)

let rec n_of_digits = function
| [] -> N0
| b :: l' ->
  N.add (if b then Npos XH else N0) (N.mul (Npos (XO XH)) (n_of_digits l'))

(** val n_of_ascii : ascii -> n **)

let n_of_ascii = function
| Ascii (a0, a1, a2, a3, a4, a5, a6, a7) ->
  n_of_digits
    (a0 :: (a1 :: (a2 :: (a3 :: (a4 :: (a5 :: (a6 :: (a7 :: []))))))))

type string =
| EmptyString
| String of ascii * string

(** val list_ascii_of_string : string -> ascii list **)

let rec list_ascii_of_string = function
| EmptyString -> []
| String (ch, s0) -> ch :: (list_ascii_of_string s0)

type 'a outcome =
| Ok of 'a
| Err
| Panic

type bytes = n list

(** val list_eqb : ('a1 -> 'a1 -> bool) -> 'a1 list -> 'a1 list -> bool **)

let rec list_eqb eqb0 a b =
  match a with
  | [] -> (match b with
           | [] -> true
           | _ :: _ -> false)
  | x :: a' ->
    (match b with
     | [] -> false
     | y :: b' -> (&&) (eqb0 x y) (list_eqb eqb0 a' b'))

(** val bytes_eqb : n list -> n list -> bool **)

let bytes_eqb =
  list_eqb N.eqb

(** val outcome_eqb :
    ('a1 -> 'a1 -> bool) -> 'a1 outcome -> 'a1 outcome -> bool **)

let outcome_eqb eqb0 a b =
  match a with
  | Ok x -> (match b with
             | Ok y -> eqb0 x y
             | _ -> false)
  | Err -> (match b with
            | Err -> true
            | _ -> false)
  | Panic -> (match b with
              | Panic -> true
              | _ -> false)

type sx =
| SA of bytes
| SB of bytes
| SL of sx list

(** val tag : string -> bytes **)

let tag s =
  map n_of_ascii (list_ascii_of_string s)

(** val is_tag : string -> sx -> bool **)

let is_tag s = function
| SA a -> bytes_eqb a (tag s)
| _ -> false

(** val dec_digits : bytes -> n option **)

let dec_digits a =
  fold_left (fun acc c ->
    match acc with
    | Some n0 ->
      if (&&) (N.leb (Npos (XO (XO (XO (XO (XI XH)))))) c)
           (N.leb c (Npos (XI (XO (XO (XI (XI XH)))))))
      then Some
             (N.add (N.mul n0 (Npos (XO (XI (XO XH)))))
               (N.sub c (Npos (XO (XO (XO (XO (XI XH))))))))
      else None
    | None -> None) a (Some N0)

(** val sx_N : sx -> n option **)

let sx_N = function
| SA a -> (match a with
           | [] -> None
           | _ :: _ -> dec_digits a)
| _ -> None

(** val sx_nat : sx -> nat option **)

let sx_nat x =
  option_map N.to_nat (sx_N x)

(** val sx_bool : sx -> bool option **)

let sx_bool x =
  match sx_N x with
  | Some n0 ->
    (match n0 with
     | N0 -> Some false
     | Npos p0 -> (match p0 with
                   | XH -> Some true
                   | _ -> None))
  | None -> None

(** val sx_bytes : sx -> bytes option **)

let sx_bytes = function
| SB b -> Some b
| _ -> None

(** val all_some : 'a1 option list -> 'a1 list option **)

let rec all_some = function
| [] -> Some []
| o :: r ->
  (match o with
   | Some x -> option_map (fun x0 -> x :: x0) (all_some r)
   | None -> None)

(** val sx_list : (sx -> 'a1 option) -> sx -> 'a1 list option **)

let sx_list f = function
| SL l -> all_some (map f l)
| _ -> None

(** val sx_pair :
    (sx -> 'a1 option) -> (sx -> 'a2 option) -> sx -> ('a1 * 'a2) option **)

let sx_pair f g = function
| SL l ->
  (match l with
   | [] -> None
   | a :: l0 ->
     (match l0 with
      | [] -> None
      | b :: l1 ->
        (match l1 with
         | [] ->
           (match f a with
            | Some a' ->
              (match g b with
               | Some b' -> Some (a', b')
               | None -> None)
            | None -> None)
         | _ :: _ -> None)))
| _ -> None

(** val sx_opt : (sx -> 'a1 option) -> sx -> 'a1 option option **)

let sx_opt f = function
| SL l ->
  (match l with
   | [] -> None
   | t :: l0 ->
     (match l0 with
      | [] ->
        if is_tag (String ((Ascii (false, true, true, true, false, true,
             true, false)), (String ((Ascii (true, true, true, true, false,
             true, true, false)), (String ((Ascii (false, true, true, true,
             false, true, true, false)), (String ((Ascii (true, false, true,
             false, false, true, true, false)), EmptyString)))))))) t
        then Some None
        else None
      | v :: l1 ->
        (match l1 with
         | [] ->
           if is_tag (String ((Ascii (true, true, false, false, true, true,
                true, false)), (String ((Ascii (true, true, true, true,
                false, true, true, false)), (String ((Ascii (true, false,
                true, true, false, true, true, false)), (String ((Ascii
                (true, false, true, false, false, true, true, false)),
                EmptyString)))))))) t
           then option_map (fun x0 -> Some x0) (f v)
           else None
         | _ :: _ -> None)))
| _ -> None

(** val sx_outcome : (sx -> 'a1 option) -> sx -> 'a1 outcome option **)

let sx_outcome f = function
| SL l ->
  (match l with
   | [] -> None
   | t :: l0 ->
     (match l0 with
      | [] ->
        if is_tag (String ((Ascii (true, false, true, false, false, true,
             true, false)), (String ((Ascii (false, true, false, false, true,
             true, true, false)), (String ((Ascii (false, true, false, false,
             true, true, true, false)), EmptyString)))))) t
        then Some Err
        else if is_tag (String ((Ascii (false, false, false, false, true,
                  true, true, false)), (String ((Ascii (true, false, false,
                  false, false, true, true, false)), (String ((Ascii (false,
                  true, true, true, false, true, true, false)), (String
                  ((Ascii (true, false, false, true, false, true, true,
                  false)), (String ((Ascii (true, true, false, false, false,
                  true, true, false)), EmptyString)))))))))) t
             then Some Panic
             else None
      | v :: l1 ->
        (match l1 with
         | [] ->
           if is_tag (String ((Ascii (true, true, true, true, false, true,
                true, false)), (String ((Ascii (true, true, false, true,
                false, true, true, false)), EmptyString)))) t
           then option_map (fun x0 -> Ok x0) (f v)
           else None
         | _ :: _ -> None)))
| _ -> None

(** val obind : 'a1 option -> ('a1 -> 'a2 option) -> 'a2 option **)

let obind o f =
  match o with
  | Some a -> f a
  | None -> None

(** val checked : (sx -> 'a1 option) -> ('a1 -> bool) -> sx -> bool **)

let checked parse0 check0 x =
  match parse0 x with
  | Some c -> check0 c
  | None -> false

(** val two64 : n **)

let two64 =
  Npos (XO (XO (XO (XO (XO (XO (XO (XO (XO (XO (XO (XO (XO (XO (XO (XO (XO
    (XO (XO (XO (XO (XO (XO (XO (XO (XO (XO (XO (XO (XO (XO (XO (XO (XO (XO
    (XO (XO (XO (XO (XO (XO (XO (XO (XO (XO (XO (XO (XO (XO (XO (XO (XO (XO
    (XO (XO (XO (XO (XO (XO (XO (XO (XO (XO (XO
    XH))))))))))))))))))))))))))))))))))))))))))))))))))))))))))))))))

(** val nibble : n -> n option **)

let nibble c =
  if (&&) (N.leb (Npos (XO (XO (XO (XO (XI XH)))))) c)
       (N.leb c (Npos (XI (XO (XO (XI (XI XH)))))))
  then Some (N.sub c (Npos (XO (XO (XO (XO (XI XH)))))))
  else if (&&) (N.leb (Npos (XI (XO (XO (XO (XO (XI XH))))))) c)
            (N.leb c (Npos (XO (XI (XI (XO (XO (XI XH))))))))
       then Some
              (N.add (N.sub c (Npos (XI (XO (XO (XO (XO (XI XH)))))))) (Npos
                (XO (XI (XO XH)))))
       else if (&&) (N.leb (Npos (XI (XO (XO (XO (XO (XO XH))))))) c)
                 (N.leb c (Npos (XO (XI (XI (XO (XO (XO XH))))))))
            then Some
                   (N.add (N.sub c (Npos (XI (XO (XO (XO (XO (XO XH))))))))
                     (Npos (XO (XI (XO XH)))))
            else None

(** val decode_from : n -> bytes -> n option **)

let rec decode_from res = function
| [] -> Some res
| c :: r ->
  (match nibble c with
   | Some n0 ->
     if N.leb (Npos (XO (XO (XO (XO (XO (XO (XO (XO (XO (XO (XO (XO (XO (XO
          (XO (XO (XO (XO (XO (XO (XO (XO (XO (XO (XO (XO (XO (XO (XO (XO (XO
          (XO (XO (XO (XO (XO (XO (XO (XO (XO (XO (XO (XO (XO (XO (XO (XO (XO
          (XO (XO (XO (XO (XO (XO (XO (XO (XO (XO (XO (XO
          XH))))))))))))))))))))))))))))))))))))))))))))))))))))))))))))) res
     then None
     else decode_from
            (N.coq_lor (N.mul res (Npos (XO (XO (XO (XO XH)))))) n0) r
   | None -> None)

(** val decode : bytes -> n option **)

let decode b =
  decode_from N0 b

(** val strip : bytes -> bytes **)

let strip tok =
  skipn (S (S (S O))) (removelast tok)

(** val uint64_unmarshal : bytes -> n outcome **)

let uint64_unmarshal tok =
  if N.ltb (N.of_nat (length tok)) (Npos (XO (XO XH)))
  then Err
  else (match decode (strip tok) with
        | Some n0 -> Ok n0
        | None -> Err)

(** val byte_unmarshal : bytes -> n outcome **)

let byte_unmarshal tok =
  if N.ltb (N.of_nat (length tok)) (Npos (XO (XO XH)))
  then Err
  else (match decode (strip tok) with
        | Some n0 ->
          Ok (N.modulo n0 (Npos (XO (XO (XO (XO (XO (XO (XO (XO XH))))))))))
        | None -> Err)

(** val hex_pairs : bytes -> n list * bool **)

let rec hex_pairs = function
| [] -> ([], true)
| p0 :: l ->
  (match l with
   | [] -> ([], false)
   | q :: r ->
     (match nibble p0 with
      | Some a ->
        (match nibble q with
         | Some b ->
           let (l0, ok) = hex_pairs r in
           (((N.add (N.mul a (Npos (XO (XO (XO (XO XH)))))) b) :: l0), ok)
         | None -> ([], false))
      | None -> ([], false)))

(** val overwrite : bytes -> bytes -> bytes **)

let rec overwrite dst = function
| [] -> dst
| x :: w' -> (match dst with
              | [] -> []
              | _ :: d' -> x :: (overwrite d' w'))

(** val resize : bytes -> nat -> bytes **)

let resize hb n0 =
  app (firstn n0 hb) (repeat N0 (sub n0 (length hb)))

(** val bytes_unmarshal : bytes -> bytes -> bool * bytes **)

let bytes_unmarshal hb tok =
  if N.ltb (N.of_nat (length tok)) (Npos (XO (XO XH)))
  then (false, hb)
  else let data = strip tok in
       let n0 = div (length data) (S (S O)) in
       let (w, ok) = hex_pairs data in (ok, (overwrite (resize hb n0) w))

(** val bytes_write : bytes -> bytes -> bytes **)

let bytes_write hb p0 =
  overwrite (resize hb (length p0)) p0

type dop =
| DUnmarshal of bytes
| DWrite of bytes

(** val dstep : bytes -> dop -> bool * bytes **)

let dstep hb = function
| DUnmarshal tok -> bytes_unmarshal hb tok
| DWrite p0 -> (true, (bytes_write hb p0))

(** val drun : bytes -> dop list -> (bool * bytes) list **)

let rec drun hb = function
| [] -> []
| o :: r -> let res = dstep hb o in res :: (drun (snd res) r)

(** val strip0x : bytes -> bytes **)

let strip0x s = match s with
| [] -> s
| n0 :: l ->
  (match n0 with
   | N0 -> s
   | Npos p0 ->
     (match p0 with
      | XO p1 ->
        (match p1 with
         | XO p2 ->
           (match p2 with
            | XO p3 ->
              (match p3 with
               | XO p4 ->
                 (match p4 with
                  | XI p5 ->
                    (match p5 with
                     | XH ->
                       (match l with
                        | [] -> s
                        | x :: r ->
                          if (||)
                               (N.eqb x (Npos (XO (XO (XO (XI (XI (XI
                                 XH))))))))
                               (N.eqb x (Npos (XO (XO (XO (XI (XI (XO
                                 XH))))))))
                          then r
                          else s)
                     | _ -> s)
                  | _ -> s)
               | _ -> s)
            | _ -> s)
         | _ -> s)
      | _ -> s))

(** val decode_hex : bytes -> bytes **)

let decode_hex s =
  let s0 = strip0x s in
  let s1 =
    if odd (length s0) then (Npos (XO (XO (XO (XO (XI XH)))))) :: s0 else s0
  in
  fst (hex_pairs s1)

(** val hexdigit : n -> n **)

let hexdigit n0 =
  if N.ltb n0 (Npos (XO (XI (XO XH))))
  then N.add (Npos (XO (XO (XO (XO (XI XH)))))) n0
  else N.add (Npos (XI (XO (XO (XO (XO (XI XH)))))))
         (N.sub n0 (Npos (XO (XI (XO XH)))))

(** val encode_hex : bytes -> bytes **)

let encode_hex b =
  (Npos (XO (XO (XO (XO (XI XH)))))) :: ((Npos (XO (XO (XO (XI (XI (XI
    XH))))))) :: (flat_map (fun x ->
                   (hexdigit (N.div x (Npos (XO (XO (XO (XO XH))))))) :: (
                   (hexdigit (N.modulo x (Npos (XO (XO (XO (XO XH))))))) :: []))
                   b))

(** val nbytes_fuel : nat -> n -> nat **)

let rec nbytes_fuel fuel n0 =
  match fuel with
  | O -> O
  | S f ->
    if N.eqb n0 N0
    then O
    else S
           (nbytes_fuel f
             (N.div n0 (Npos (XO (XO (XO (XO (XO (XO (XO (XO XH)))))))))))

(** val nbytes : n -> nat **)

let nbytes n0 =
  nbytes_fuel (S (S (S (S (S (S (S (S O)))))))) n0

(** val size : n -> nat **)

let size n0 =
  if N.eqb n0 N0 then S O else nbytes n0

(** val be : nat -> n -> bytes **)

let rec be k n0 =
  match k with
  | O -> []
  | S k' ->
    app (be k' (N.div n0 (Npos (XO (XO (XO (XO (XO (XO (XO (XO XH)))))))))))
      ((N.modulo n0 (Npos (XO (XO (XO (XO (XO (XO (XO (XO XH)))))))))) :: [])

(** val encode : bytes option -> n -> bytes outcome **)

let encode b n0 =
  let buf = match b with
            | Some b0 -> b0
            | None -> repeat N0 (size n0) in
  if ltb (length buf) (size n0)
  then Panic
  else Ok
         (app (firstn (sub (length buf) (nbytes n0)) buf) (be (nbytes n0) n0))

(** val decode64 : bytes -> n **)

let decode64 b =
  fold_left (fun acc x ->
    N.modulo
      (N.add (N.mul acc (Npos (XO (XO (XO (XO (XO (XO (XO (XO XH)))))))))) x)
      two64) b N0

type case =
| CU64 of bytes * n outcome
| CByte of bytes * n outcome
| CSeq of dop list * (bool * bytes) list
| CDecodeHex of bytes * bytes
| CEncodeHex of bytes * bytes
| CBintEnc of bytes option * n * bytes outcome
| CBintDec of bytes * n
| CDigest of bytes * nat * n list

(** val p : n **)

let p =
  Npos (XI (XI (XI (XO (XO (XO (XO (XO (XO (XI (XO (XI (XO (XO (XI (XI (XO
    (XI (XO (XI (XI (XO (XO (XI (XI (XI (XO (XI (XI
    XH)))))))))))))))))))))))))))))

(** val fold_tokens :
    ('a1 -> bytes -> 'a1) -> bytes -> nat -> bytes -> 'a1 -> 'a1 **)

let rec fold_tokens f alphabet n0 pre acc =
  match n0 with
  | O -> f acc (rev pre)
  | S n' ->
    fold_left (fun a c -> fold_tokens f alphabet n' (c :: pre) a) alphabet acc

(** val fold_upto : ('a1 -> bytes -> 'a1) -> bytes -> nat -> 'a1 -> 'a1 **)

let rec fold_upto f alphabet n0 acc =
  match n0 with
  | O -> fold_tokens f alphabet O [] acc
  | S n' -> fold_tokens f alphabet n0 [] (fold_upto f alphabet n' acc)

(** val hash_bytes : bytes -> n **)

let hash_bytes b =
  fold_left (fun h x ->
    N.modulo
      (N.add
        (N.add (N.mul h (Npos (XI (XO (XO (XO (XO (XO (XO (XO XH)))))))))) x)
        (Npos XH)) p) b (Npos (XI (XI XH)))

type dg = { ix : n; u_ok : n; u_err : n; u_sum : n; b_ok : n; b_err : 
            n; b_sum : n; y_ok : n; y_err : n; y_sum : n }

(** val dg0 : dg **)

let dg0 =
  { ix = N0; u_ok = N0; u_err = N0; u_sum = N0; b_ok = N0; b_err = N0;
    b_sum = N0; y_ok = N0; y_err = N0; y_sum = N0 }

(** val dg_step : dg -> bytes -> dg **)

let dg_step s tok =
  let i = N.add s.ix (Npos XH) in
  let w = N.modulo i p in
  (match uint64_unmarshal tok with
   | Ok v ->
     let p0 = ((N.add s.u_ok (Npos XH)), s.u_err) in
     let us =
       N.modulo (N.add s.u_sum (N.mul (N.add (N.modulo v p) (Npos XH)) w)) p
     in
     let (uo, ue) = p0 in
     (match byte_unmarshal tok with
      | Ok v0 ->
        let p1 = ((N.add s.b_ok (Npos XH)), s.b_err) in
        let bs =
          N.modulo
            (N.add s.b_sum (N.mul (N.add (N.modulo v0 p) (Npos XH)) w)) p
        in
        let (bo, be_) = p1 in
        let (b, v1) = bytes_unmarshal [] tok in
        if b
        then let p2 = ((N.add s.y_ok (Npos XH)), s.y_err) in
             let ys = N.modulo (N.add s.y_sum (N.mul (hash_bytes v1) w)) p in
             let (yo, ye) = p2 in
             { ix = i; u_ok = uo; u_err = ue; u_sum = us; b_ok = bo; b_err =
             be_; b_sum = bs; y_ok = yo; y_err = ye; y_sum = ys }
        else let p2 = (s.y_ok, (N.add s.y_err (Npos XH))) in
             let ys = s.y_sum in
             let (yo, ye) = p2 in
             { ix = i; u_ok = uo; u_err = ue; u_sum = us; b_ok = bo; b_err =
             be_; b_sum = bs; y_ok = yo; y_err = ye; y_sum = ys }
      | _ ->
        let p1 = (s.b_ok, (N.add s.b_err (Npos XH))) in
        let bs = s.b_sum in
        let (bo, be_) = p1 in
        let (b, v0) = bytes_unmarshal [] tok in
        if b
        then let p2 = ((N.add s.y_ok (Npos XH)), s.y_err) in
             let ys = N.modulo (N.add s.y_sum (N.mul (hash_bytes v0) w)) p in
             let (yo, ye) = p2 in
             { ix = i; u_ok = uo; u_err = ue; u_sum = us; b_ok = bo; b_err =
             be_; b_sum = bs; y_ok = yo; y_err = ye; y_sum = ys }
        else let p2 = (s.y_ok, (N.add s.y_err (Npos XH))) in
             let ys = s.y_sum in
             let (yo, ye) = p2 in
             { ix = i; u_ok = uo; u_err = ue; u_sum = us; b_ok = bo; b_err =
             be_; b_sum = bs; y_ok = yo; y_err = ye; y_sum = ys })
   | _ ->
     let p0 = (s.u_ok, (N.add s.u_err (Npos XH))) in
     let us = s.u_sum in
     let (uo, ue) = p0 in
     (match byte_unmarshal tok with
      | Ok v ->
        let p1 = ((N.add s.b_ok (Npos XH)), s.b_err) in
        let bs =
          N.modulo (N.add s.b_sum (N.mul (N.add (N.modulo v p) (Npos XH)) w))
            p
        in
        let (bo, be_) = p1 in
        let (b, v0) = bytes_unmarshal [] tok in
        if b
        then let p2 = ((N.add s.y_ok (Npos XH)), s.y_err) in
             let ys = N.modulo (N.add s.y_sum (N.mul (hash_bytes v0) w)) p in
             let (yo, ye) = p2 in
             { ix = i; u_ok = uo; u_err = ue; u_sum = us; b_ok = bo; b_err =
             be_; b_sum = bs; y_ok = yo; y_err = ye; y_sum = ys }
        else let p2 = (s.y_ok, (N.add s.y_err (Npos XH))) in
             let ys = s.y_sum in
             let (yo, ye) = p2 in
             { ix = i; u_ok = uo; u_err = ue; u_sum = us; b_ok = bo; b_err =
             be_; b_sum = bs; y_ok = yo; y_err = ye; y_sum = ys }
      | _ ->
        let p1 = (s.b_ok, (N.add s.b_err (Npos XH))) in
        let bs = s.b_sum in
        let (bo, be_) = p1 in
        let (b, v) = bytes_unmarshal [] tok in
        if b
        then let p2 = ((N.add s.y_ok (Npos XH)), s.y_err) in
             let ys = N.modulo (N.add s.y_sum (N.mul (hash_bytes v) w)) p in
             let (yo, ye) = p2 in
             { ix = i; u_ok = uo; u_err = ue; u_sum = us; b_ok = bo; b_err =
             be_; b_sum = bs; y_ok = yo; y_err = ye; y_sum = ys }
        else let p2 = (s.y_ok, (N.add s.y_err (Npos XH))) in
             let ys = s.y_sum in
             let (yo, ye) = p2 in
             { ix = i; u_ok = uo; u_err = ue; u_sum = us; b_ok = bo; b_err =
             be_; b_sum = bs; y_ok = yo; y_err = ye; y_sum = ys }))

(** val digest : bytes -> nat -> n list **)

let digest alphabet maxlen =
  let s = fold_upto dg_step alphabet maxlen dg0 in
  s.ix :: (s.u_ok :: (s.u_err :: (s.u_sum :: (s.b_ok :: (s.b_err :: (s.b_sum :: (s.y_ok :: (s.y_err :: (s.y_sum :: [])))))))))

(** val res_eqb : (bool * bytes) -> (bool * bytes) -> bool **)

let res_eqb a b =
  (&&) (eqb (fst a) (fst b)) (bytes_eqb (snd a) (snd b))

(** val check : case -> bool **)

let check = function
| CU64 (tok, res) -> outcome_eqb N.eqb (uint64_unmarshal tok) res
| CByte (tok, res) -> outcome_eqb N.eqb (byte_unmarshal tok) res
| CSeq (ops, res) -> list_eqb res_eqb (drun [] ops) res
| CDecodeHex (s, out) -> bytes_eqb (decode_hex s) out
| CEncodeHex (b, out) -> bytes_eqb (encode_hex b) out
| CBintEnc (pad, n0, res) -> outcome_eqb bytes_eqb (encode pad n0) res
| CBintDec (b, n0) -> N.eqb (decode64 b) n0
| CDigest (a, m, d) -> list_eqb N.eqb (digest a m) d

(** val parse_dop : sx -> dop option **)

let parse_dop = function
| SL l ->
  (match l with
   | [] -> None
   | t :: l0 ->
     (match l0 with
      | [] -> None
      | b :: l1 ->
        (match l1 with
         | [] ->
           if is_tag (String ((Ascii (true, false, true, false, true, false,
                true, false)), EmptyString)) t
           then option_map (fun x0 -> DUnmarshal x0) (sx_bytes b)
           else if is_tag (String ((Ascii (true, true, true, false, true,
                     false, true, false)), EmptyString)) t
                then option_map (fun x0 -> DWrite x0) (sx_bytes b)
                else None
         | _ :: _ -> None)))
| _ -> None

(** val parse : sx -> case option **)

let parse = function
| SL l ->
  (match l with
   | [] -> None
   | t :: l0 ->
     (match l0 with
      | [] -> None
      | a :: l1 ->
        (match l1 with
         | [] -> None
         | b :: l2 ->
           (match l2 with
            | [] ->
              if is_tag (String ((Ascii (true, false, true, false, true,
                   false, true, false)), (String ((Ascii (false, true, true,
                   false, true, true, false, false)), (String ((Ascii (false,
                   false, true, false, true, true, false, false)),
                   EmptyString)))))) t
              then obind (sx_bytes a) (fun tok ->
                     obind (sx_outcome sx_N b) (fun r -> Some (CU64 (tok, r))))
              else if is_tag (String ((Ascii (false, true, false, false,
                        false, false, true, false)), (String ((Ascii (true,
                        false, false, true, true, true, true, false)),
                        (String ((Ascii (false, false, true, false, true,
                        true, true, false)), (String ((Ascii (true, false,
                        true, false, false, true, true, false)),
                        EmptyString)))))))) t
                   then obind (sx_bytes a) (fun tok ->
                          obind (sx_outcome sx_N b) (fun r -> Some (CByte
                            (tok, r))))
                   else if is_tag (String ((Ascii (true, true, false, false,
                             true, false, true, false)), (String ((Ascii
                             (true, false, true, false, false, true, true,
                             false)), (String ((Ascii (true, false, false,
                             false, true, true, true, false)),
                             EmptyString)))))) t
                        then obind (sx_list parse_dop a) (fun ops ->
                               obind (sx_list (sx_pair sx_bool sx_bytes) b)
                                 (fun res -> Some (CSeq (ops, res))))
                        else if is_tag (String ((Ascii (false, false, true,
                                  false, false, false, true, false)), (String
                                  ((Ascii (true, false, true, false, false,
                                  true, true, false)), (String ((Ascii (true,
                                  true, false, false, false, true, true,
                                  false)), (String ((Ascii (true, true, true,
                                  true, false, true, true, false)), (String
                                  ((Ascii (false, false, true, false, false,
                                  true, true, false)), (String ((Ascii (true,
                                  false, true, false, false, true, true,
                                  false)), (String ((Ascii (false, false,
                                  false, true, false, false, true, false)),
                                  (String ((Ascii (true, false, true, false,
                                  false, true, true, false)), (String ((Ascii
                                  (false, false, false, true, true, true,
                                  true, false)),
                                  EmptyString)))))))))))))))))) t
                             then obind (sx_bytes a) (fun s ->
                                    obind (sx_bytes b) (fun o -> Some
                                      (CDecodeHex (s, o))))
                             else if is_tag (String ((Ascii (true, false,
                                       true, false, false, false, true,
                                       false)), (String ((Ascii (false, true,
                                       true, true, false, true, true,
                                       false)), (String ((Ascii (true, true,
                                       false, false, false, true, true,
                                       false)), (String ((Ascii (true, true,
                                       true, true, false, true, true,
                                       false)), (String ((Ascii (false,
                                       false, true, false, false, true, true,
                                       false)), (String ((Ascii (true, false,
                                       true, false, false, true, true,
                                       false)), (String ((Ascii (false,
                                       false, false, true, false, false,
                                       true, false)), (String ((Ascii (true,
                                       false, true, false, false, true, true,
                                       false)), (String ((Ascii (false,
                                       false, false, true, true, true, true,
                                       false)), EmptyString))))))))))))))))))
                                       t
                                  then obind (sx_bytes a) (fun s ->
                                         obind (sx_bytes b) (fun o -> Some
                                           (CEncodeHex (s, o))))
                                  else if is_tag (String ((Ascii (false,
                                            true, false, false, false, false,
                                            true, false)), (String ((Ascii
                                            (true, false, false, true, false,
                                            true, true, false)), (String
                                            ((Ascii (false, true, true, true,
                                            false, true, true, false)),
                                            (String ((Ascii (false, false,
                                            true, false, true, true, true,
                                            false)), (String ((Ascii (false,
                                            false, true, false, false, false,
                                            true, false)), (String ((Ascii
                                            (true, false, true, false, false,
                                            true, true, false)), (String
                                            ((Ascii (true, true, false,
                                            false, false, true, true,
                                            false)),
                                            EmptyString)))))))))))))) t
                                       then obind (sx_bytes a) (fun s ->
                                              obind (sx_N b) (fun n0 -> Some
                                                (CBintDec (s, n0))))
                                       else None
            | c :: l3 ->
              (match l3 with
               | [] ->
                 if is_tag (String ((Ascii (false, true, false, false, false,
                      false, true, false)), (String ((Ascii (true, false,
                      false, true, false, true, true, false)), (String
                      ((Ascii (false, true, true, true, false, true, true,
                      false)), (String ((Ascii (false, false, true, false,
                      true, true, true, false)), (String ((Ascii (true,
                      false, true, false, false, false, true, false)),
                      (String ((Ascii (false, true, true, true, false, true,
                      true, false)), (String ((Ascii (true, true, false,
                      false, false, true, true, false)),
                      EmptyString)))))))))))))) t
                 then obind (sx_opt sx_bytes a) (fun pad ->
                        obind (sx_N b) (fun n0 ->
                          obind (sx_outcome sx_bytes c) (fun r -> Some
                            (CBintEnc (pad, n0, r)))))
                 else if is_tag (String ((Ascii (false, false, true, false,
                           false, false, true, false)), (String ((Ascii
                           (true, false, false, true, false, true, true,
                           false)), (String ((Ascii (true, true, true, false,
                           false, true, true, false)), (String ((Ascii (true,
                           false, true, false, false, true, true, false)),
                           (String ((Ascii (true, true, false, false, true,
                           true, true, false)), (String ((Ascii (false,
                           false, true, false, true, true, true, false)),
                           EmptyString)))))))))))) t
                      then obind (sx_bytes a) (fun al ->
                             obind (sx_nat b) (fun m ->
                               obind (sx_list sx_N c) (fun d -> Some (CDigest
                                 (al, m, d)))))
                      else None
               | _ :: _ -> None)))))
| _ -> None

(** val check_sx : sx -> bool **)

let check_sx =
  checked parse check
