(* Driver of the extracted C09 / C10 scan-case checkers (thorough tier, second
   evaluator).  Reads one s-expression case per line from stdin (syntax: see
   coq/Corr/AbiSx.v; atoms are printable tokens, #<hex> is a raw byte string),
   runs Abi_extracted.check_sx09 / check_sx10 and prints "FAIL <index>" for every
   case the model disagrees with, then "DONE <cases> <failures>". *)
module E = Abi_extracted

let rec pos_of_int (i : int) : E.positive =
  if i = 1 then E.XH else if i land 1 = 1 then E.XI (pos_of_int (i lsr 1)) else E.XO (pos_of_int (i lsr 1))
let n_of_int (i : int) : E.n = if i = 0 then E.N0 else E.Npos (pos_of_int i)
let byte_tab : E.n array = Array.init 256 n_of_int

let hexval c =
  match c with
  | '0' .. '9' -> Char.code c - 48
  | 'a' .. 'f' -> Char.code c - 87
  | 'A' .. 'F' -> Char.code c - 55
  | _ -> failwith "hex"

exception Parse of string

(* parser over one line; returns the sx and the next position *)
let parse_line (s : string) : E.sx =
  let len = String.length s in
  let rec skip i = if i < len && (s.[i] = ' ' || s.[i] = '\t' || s.[i] = '\r') then skip (i + 1) else i in
  let rec item i =
    let i = skip i in
    if i >= len then raise (Parse "eof")
    else if s.[i] = '(' then begin
      let rec items i acc =
        let i = skip i in
        if i >= len then raise (Parse "unclosed")
        else if s.[i] = ')' then (E.SL (List.rev acc), i + 1)
        else let (x, j) = item i in items j (x :: acc)
      in items (i + 1) []
    end
    else if s.[i] = '#' then begin
      let j = ref (i + 1) in
      while !j < len && s.[!j] <> ' ' && s.[!j] <> ')' && s.[!j] <> '(' do incr j done;
      let n = (!j - i - 1) / 2 in
      let rec build k acc =
        if k < 0 then acc
        else build (k - 1) (byte_tab.(hexval s.[i + 1 + 2 * k] * 16 + hexval s.[i + 2 + 2 * k]) :: acc) in
      (E.SB (build (n - 1) []), !j)
    end
    else begin
      let j = ref i in
      while !j < len && s.[!j] <> ' ' && s.[!j] <> ')' && s.[!j] <> '(' do incr j done;
      let rec build k acc = if k < i then acc else build (k - 1) (byte_tab.(Char.code s.[k]) :: acc) in
      (E.SA (build (!j - 1) []), !j)
    end
  in
  fst (item 0)

let () =
  let check =
    match Sys.argv with
    | [| _; "c09" |] -> E.check_sx09
    | [| _; "c10" |] -> E.check_sx10
    | _ -> prerr_endline "usage: abi_run c09|c10 < cases"; exit 2 in
  let n = ref 0 and bad = ref 0 in
  (try
     while true do
       let line = input_line stdin in
       if String.length line > 0 then begin
         let ok = (try check (parse_line line) with Parse _ | Failure _ | Invalid_argument _ -> false) in
         if not ok then begin incr bad; Printf.printf "FAIL %d\n" !n end;
         incr n
       end
     done
   with End_of_file -> ());
  Printf.printf "DONE %d %d\n" !n !bad
