(* C10 — decoding arbitrary log data never panics, over-reads or runs unbounded.
   Only property theorems: each is closed by [exact] of a lemma from Proofs/ and
   followed by [Print Assumptions].

   [result_scan D ncols t s] is Result.Scan of the REPAIRED code on the input
   [D] by a decoder of type [t] whose previous state is [s]; its outcomes are
   [SOk s'] (rows = [rows_out s'], cells as (offset, length) into [D]),
   [SErr s'] (error return; [s'] is the state reached), [SPanic] (a Go slice or
   index expression out of range), [SFuel] (model fuel exhausted).
   Quantification: EVERY byte list, EVERY type tree whose selected positions
   address columns of the row ([sel_ok]; [decl_types_sel_ok]: true of every
   declaration), EVERY state a decoder can be in ([st_ok]; preserved). *)
From Coq Require Import List NArith Bool.
From Shovel Require Import Base.Outcome Model.Hex Model.Bint Model.AbiType Model.AbiScan Model.AbiEnc
     Model.AbiParse Model.AbiLegacy Proofs.AbiScanP Proofs.AbiParseP Proofs.AbiLegacyP.
Import ListNotations.
Open Scope N_scope.

Theorem scan_no_panic : forall D ncols t s,
  sel_ok ncols t -> st_ok ncols s -> result_scan D ncols t s <> SPanic.
Proof. exact scan_no_panic_l. Qed.
Print Assumptions scan_no_panic.

(* loop fuel |D| + 2 is never exhausted: the model's totalisation is invisible *)
Theorem scan_total : forall D ncols t s,
  sel_ok ncols t -> st_ok ncols s -> result_scan D ncols t s <> SFuel.
Proof. exact scan_total_l. Qed.
Print Assumptions scan_total.

(* every returned cell is a non-empty sub-range of the input *)
Theorem scan_cells_in_bounds : forall D ncols t s s',
  sel_ok ncols t -> st_ok ncols s -> result_scan D ncols t s = SOk s' ->
  forall r o l, In r (rows_out s') -> In (Some (o, l)) r -> o + l <= N.of_nat (length D) /\ 0 < l.
Proof. exact scan_cells_in_bounds_l. Qed.
Print Assumptions scan_cells_in_bounds.

(* loop iterations, rows handed out and the growth of the reused row
   collection are bounded by [cost t |D|] — a function of the type and of the
   LENGTH of the input only (polynomial in |D|/32 of degree = array nesting
   depth), on success and on the error path alike *)
Theorem scan_cost_bound : forall D ncols t s s',
  sel_ok ncols t -> st_ok ncols s ->
  result_scan D ncols t s = SOk s' \/ result_scan D ncols t s = SErr s' ->
  iters s' <= cost t (N.of_nat (length D)) /\
  N.of_nat (nrows s') <= N.max 1 (cost t (N.of_nat (length D))) /\
  (length (coll s') <= Nat.max (length (coll s)) (S (nrows s')))%nat.
Proof. exact scan_cost_bound_l. Qed.
Print Assumptions scan_cost_bound.

(* whatever a call returns, the decoder is left in a state the theorems apply to again *)
Theorem scan_state_reusable : forall D ncols t s s',
  sel_ok ncols t -> st_ok ncols s ->
  result_scan D ncols t s = SOk s' \/ result_scan D ncols t s = SErr s' -> st_ok ncols s'.
Proof. exact scan_state_reusable_l. Qed.
Print Assumptions scan_state_reusable.

(* the hypotheses hold of what NewResult(Event.ABIType()) builds from any declaration *)
Theorem decl_types_sel_ok : forall js, sel_ok (ncols_of (decl_type js)) (decl_type js).
Proof. exact decl_type_sel_ok. Qed.
Print Assumptions decl_types_sel_ok.

Theorem fresh_decoder_ok : forall ncols, st_ok ncols (new_result ncols).
Proof. exact new_result_ok. Qed.
Print Assumptions fresh_decoder_ok.

(* the code before fixes/C10-scan-unsigned-bounds.diff: the full statement is false *)
Theorem legacy_scan_no_panic_refuted :
  ~ (forall D ncols t s, sel_ok ncols t -> st_ok ncols s -> legacy_result_scan D ncols t s <> SPanic).
Proof. exact legacy_scan_no_panic_refuted_l. Qed.
Print Assumptions legacy_scan_no_panic_refuted.

(* non-vacuity: a declaration with nested arrays, a hostile input that is
   answered with an error, a well-formed one that is decoded *)
Example ex_hostile :
  exists s, result_scan (word32 32 ++ word32 (2 ^ 63)) 1 t_bytes (new_result 1) = SErr s.
Proof. eexists. vm_compute. reflexivity. Qed.
Example ex_decoded :
  exists s, result_scan (word32 32 ++ word32 2 ++ pad32 [104; 105]) 1 t_bytes (new_result 1) = SOk s
            /\ rows_out s = [[Some (64, 2)]].
Proof. eexists. vm_compute. split; reflexivity. Qed.
