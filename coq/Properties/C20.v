(* C20 — the manager runs exactly the configured tasks, one runner each, across
   restarts.  Only property theorems here, each closed by [exact] of a lemma
   from Proofs/Manager*.v and followed by [Print Assumptions]; [Example]s show
   non-vacuity.

   The model (Model/Manager.v) is the code WITH the two repairs proposed in
   fixes/C20-restart-double-close.diff and fixes/C20-duplicate-source-ref.diff;
   the behaviour of the code as found is kept as [Legacy] / [legacy_*]
   definitions, with the [_refuted] theorems below documenting the witnesses. *)
From Coq Require Import List NArith Bool Arith.
From Shovel Require Import Base.Outcome Model.Manager
  Proofs.ManagerLoadP Proofs.ManagerRunP Proofs.ManagerRunP2 Proofs.ManagerRunP3 Proofs.ManagerRunP4
  Proofs.ManagerRunP5 Proofs.BridgeManagerTaskP Corr.RunC20.
From Shovel Require Model.TaskTypes.
Import ListNotations.

(* ================= (i) which tasks ================= *)

(* The task list is exactly: one task per enabled integration of the merged
   configuration and per source it references, carrying that source's chain
   id / poll duration / batch size / concurrency (NewTask's defaults 1 where
   the source sets none) and the reference's start and stop; no (source,
   integration) pair occurs twice; the count is the number of references of
   the enabled integrations.  All file/database mixes. *)
Theorem load_tasks_exact : forall fs ds fi di ts,
  load_tasks fs ds fi di = Ok ts ->
  (forall t, In t ts <->
     exists ig r sc, In ig (all_integrations di fi) /\ i_enabled ig = true /\ In r (i_refs ig)
                     /\ lookup s_name (r_name r) (all_sources ds fs) = Some sc /\ t = mk_task ig r sc)
  /\ NoDup (map pair_of ts)
  /\ List.length ts = list_sum (map (fun ig => List.length (i_refs ig)) (filter i_enabled (all_integrations di fi))).
Proof. exact load_tasks_exact_l. Qed.
Print Assumptions load_tasks_exact.

(* the merged configuration: a name resolves to the LAST file entry of that
   name, else to the last database row of that name; names are unique in the
   merged maps; membership = being what the name resolves to *)
Theorem file_overrides_db : forall fs ds fi di,
  (forall n, lookup i_name n (all_integrations di fi) =
             match find_last i_name n fi with Some x => Some x | None => find_last i_name n di end)
  /\ (forall n, lookup s_name n (all_sources ds fs) =
             match find_last s_name n fs with Some x => Some x | None => find_last s_name n ds end)
  /\ NoDup (map i_name (all_integrations di fi)) /\ NoDup (map s_name (all_sources ds fs))
  /\ (forall ig, In ig (all_integrations di fi) <-> lookup i_name (i_name ig) (all_integrations di fi) = Some ig).
Proof. exact file_overrides_db_l. Qed.
Print Assumptions file_overrides_db.

(* a reference of an enabled integration to a source that neither the file
   nor the database defines is a startup error, never a silently missing task *)
Theorem unknown_source_is_error : forall fs ds fi di ig r,
  In ig (all_integrations di fi) -> i_enabled ig = true -> In r (i_refs ig) ->
  lookup s_name (r_name r) (all_sources ds fs) = None ->
  load_tasks fs ds fi di = Err.
Proof. exact unknown_source_is_error_l. Qed.
Print Assumptions unknown_source_is_error.

(* and those are the only startup errors: some enabled integration has an
   unknown reference or references one source twice *)
Theorem load_tasks_error_iff : forall fs ds fi di,
  load_tasks fs ds fi di = Err <->
  exists ig, In ig (all_integrations di fi) /\ i_enabled ig = true /\ ~ ig_ok (all_sources ds fs) ig.
Proof. exact load_tasks_error_iff_l. Qed.
Print Assumptions load_tasks_error_iff.

Theorem load_tasks_never_panics : forall fs ds fi di, load_tasks fs ds fi di <> Panic.
Proof. exact load_tasks_no_panic_l. Qed.
Print Assumptions load_tasks_never_panics.

(* the code as found: "one runner per pair" fails when an integration lists
   the same source twice (two tasks, two runners for one pair) *)
Theorem legacy_one_runner_per_pair_refuted :
  ~ (forall fs ds fi di ts, legacy_load_tasks fs ds fi di = Ok ts -> NoDup (map pair_of ts)).
Proof. exact legacy_one_runner_per_pair_refuted_l. Qed.
Print Assumptions legacy_one_runner_per_pair_refuted.

(* ================= (ii) Run / Restart / runTask ================= *)

(* Over ALL schedules (any number of Restart calls at any moment, loads that
   fail, tasks that finish by themselves; both variants): every task that has
   not returned belongs to the Run that owns tm.running and sits in wg.Wait();
   any two such tasks are of the same generation. *)
Theorem generations_exclusive : forall v sched,
  let s := exec v init sched in
  (forall t g, nth_error (tasks s) t = Some g -> live g = true ->
     lock s = Some (g_gen g)
     /\ exists x, nth_error (runs s) (g_gen g) = Some x /\ r_pc x = RWait)
  /\ (forall t1 g1 t2 g2, nth_error (tasks s) t1 = Some g1 -> nth_error (tasks s) t2 = Some g2 ->
        live g1 = true -> live g2 = true -> g_gen g1 = g_gen g2).
Proof. exact generations_exclusive_l. Qed.
Print Assumptions generations_exclusive.

(* a new generation is loaded and started only after every runner of every
   other generation has returned *)
Theorem load_only_after_previous_returned : forall v sched r x,
  let s := exec v init sched in
  nth_error (runs s) r = Some x -> holding (r_pc x) = true -> r_pc x <> RWait ->
  forall t g, nth_error (tasks s) t = Some g -> live g = false.
Proof. exact load_only_after_previous_returned_l. Qed.
Print Assumptions load_only_after_previous_returned.

(* When Restart has returned: the Run it started called loadTasks on a stored
   configuration at least as new as the one present when Restart was called
   (newly stored integrations are picked up); every task started before
   Restart closed the channel has returned; and whatever task runs now was
   loaded from a configuration at least that new. *)
Theorem restart_return_implies_reloaded : forall v sched k r ok kv,
  let s := exec v init sched in
  nth_error (rsts s) k = Some {| k_pc := KReturned r ok; k_ver := kv |} ->
  exists x w, nth_error (runs s) r = Some x /\ r_ec x = Some ok
    /\ r_lver x = Some w /\ kv <= w
    /\ (forall t g, t < r_nt x -> nth_error (tasks s) t = Some g -> live g = false)
    /\ (forall t g, nth_error (tasks s) t = Some g -> live g = true ->
          exists y w', nth_error (runs s) (g_gen g) = Some y /\ r_lver y = Some w' /\ kv <= w').
Proof. exact restart_return_implies_reloaded_l. Qed.
Print Assumptions restart_return_implies_reloaded.

(* the repaired manager never panics, whatever the schedule *)
Theorem restart_never_crashes : forall sched, crashed (exec Fixed init sched) = false.
Proof. exact restart_never_crashes_l. Qed.
Print Assumptions restart_never_crashes.

(* the code as found does: a second Restart while the Run of the first still
   waits for the lock (witness: sched_two_restarts) *)
Theorem legacy_restart_never_crashes_refuted :
  ~ (forall sched, crashed (exec Legacy init sched) = false).
Proof. exact legacy_restart_never_crashes_refuted_l. Qed.
Print Assumptions legacy_restart_never_crashes_refuted.

(* ... and even with strictly sequential calls: a Restart that failed to load
   leaves the closed channel in place, the next Restart panics *)
Theorem legacy_sequential_restart_crashes :
  crashed (exec Legacy init sched_restart_after_failed_restart) = true.
Proof. exact legacy_sequential_restart_crashes_l. Qed.
Print Assumptions legacy_sequential_restart_crashes.

(* strongest true statement about the code as found: it panics only in
   Restart, and only by closing a channel an earlier Restart closed and no Run
   has replaced yet *)
Theorem legacy_crash_only_by_double_close : forall s a,
  crashed s = false -> crashed (step Legacy s a) = true ->
  exists k kv, a = ARestartClose k /\ nth_error (rsts s) k = Some {| k_pc := KCalled; k_ver := kv |}
               /\ is_closed s (cur s) = true.
Proof. exact ManagerRunP2.legacy_crash_only_by_double_close. Qed.
Print Assumptions legacy_crash_only_by_double_close.

(* repaired code, all schedules: a Run started by Restart never queues behind
   a generation whose restart channel is open -- the request is never lost *)
Theorem restart_signal_never_lost : forall sched, signal_kept Fixed (exec Fixed init sched) = true.
Proof. exact restart_signal_never_lost_l. Qed.
Print Assumptions restart_signal_never_lost.

(* the code as found loses it when Restart arrives while the first Run is
   still loading (witness: sched_restart_during_first_load): Restart blocks
   until some later Restart *)
Theorem legacy_restart_signal_lost_refuted :
  ~ (forall sched, signal_kept Legacy (exec Legacy init sched) = true).
Proof. exact legacy_signal_lost_l. Qed.
Print Assumptions legacy_restart_signal_lost_refuted.

(* Repaired code: from EVERY reachable state there is a continuation without
   outside help ([internal]: no further Restart call, no change of the stored
   configuration, no task finishing by itself) after which every Restart call
   has returned.  (Possibility, not fairness: the scheduler is not modelled.) *)
Theorem restart_can_always_complete : forall sched,
  exists cont, Forall internal cont /\ all_returned (exec Fixed (exec Fixed init sched) cont) = true.
Proof. exact restart_can_always_complete_l. Qed.
Print Assumptions restart_can_always_complete.

(* The code as found: after sched_restart_during_first_load NO continuation
   without outside help lets the Restart call return -- it hangs for ever. *)
Theorem legacy_lost_restart_hangs : forall cont,
  Forall internal cont ->
  let s := exec Legacy (exec Legacy init sched_restart_during_first_load) cont in
  exists kv, nth_error (rsts s) 0 = Some {| k_pc := KWaiting 1; k_ver := kv |}.
Proof. exact legacy_lost_restart_hangs_l. Qed.
Print Assumptions legacy_lost_restart_hangs.

(* Repaired code, all schedules: the restart channel of the generation that
   owns the lock is closed exactly while a Run started by Restart is queued
   behind it ([nq] counts those Runs). *)
Theorem channel_closed_only_if_queued : forall sched h x,
  let s := exec Fixed init sched in
  lock s = Some h -> nth_error (runs s) h = Some x -> owns_channel Fixed (r_pc x) = true ->
  (is_closed s (cur s) = true <-> 0 < nq s).
Proof. exact channel_closed_only_if_queued_l. Qed.
Print Assumptions channel_closed_only_if_queued.

(* Hence the generation a completed Restart leaves behind really RUNS: once
   every Restart call has returned, the owning generation's channel is open and
   a runner that reaches its select goes on into Converge.  (tm.waiting is
   given back by every Run that took the lock, also when its loadTasks fails;
   a Run that kept it would make every later generation start with a closed
   channel: loaded, announced, and not running.) *)
Theorem loaded_generation_runs : forall sched h x,
  let s := exec Fixed init sched in
  all_returned s = true ->
  lock s = Some h -> nth_error (runs s) h = Some x -> owns_channel Fixed (r_pc x) = true ->
  is_closed s (cur s) = false
  /\ forall t g, nth_error (tasks s) t = Some g -> g_pc g = TCheck ->
       nth_error (tasks (step Fixed s (ATaskCheck t))) t = Some {| g_gen := g_gen g; g_pc := TStep |}.
Proof. exact loaded_generation_runs_l. Qed.
Print Assumptions loaded_generation_runs.

(* ================= bridge to the task layer (C01..C06) ================= *)
(* The multi-task theorems of Properties/C04.v ([system_frame],
   [other_tasks_preserve_inv], [system_invariant]) assume a list of task
   configurations with NoDup (map pair_of cfgs) and one runner per
   configuration.  See Proofs/BridgeManagerTaskP.v for how a TaskSys schedule
   corresponds to the interleaving of the runners of the live generation. *)

(* (1) In the vocabulary of TaskTypes (names read as ids through ANY injective
   [enc]; the fields loadTasks does not decide supplied by any [rest]): the
   configurations loadTasks returns have pairwise distinct (t_src, t_ig).
   [tl_pair] unfolds to TaskSpec.pair_of. *)
Theorem loaded_tasks_have_distinct_pairs : forall enc rest fs ds fi di ts,
  injective enc ->
  load_tasks fs ds fi di = Ok ts ->
  NoDup (map tl_pair (map (to_tcfg enc rest) ts)).
Proof. exact loaded_tasks_have_distinct_pairs_l. Qed.
Print Assumptions loaded_tasks_have_distinct_pairs.

(* ... and carry batch size and concurrency >= 1 (the task layer's cfg_ok) *)
Theorem loaded_tasks_batch_conc_pos : forall fs ds fi di ts t,
  load_tasks fs ds fi di = Ok ts -> In t ts -> (1 <= t_batch t /\ 1 <= t_conc t)%N.
Proof. exact loaded_tasks_batch_conc_pos_l. Qed.
Print Assumptions loaded_tasks_batch_conc_pos.

(* the runners started from one loadTasks result (the j-th runner drives the
   j-th task) drive pairwise distinct pairs *)
Theorem spawned_runners_distinct : forall fs ds fi di ts j1 j2 t1 t2,
  load_tasks fs ds fi di = Ok ts ->
  nth_error ts j1 = Some t1 -> nth_error ts j2 = Some t2 -> j1 <> j2 ->
  pair_of t1 <> pair_of t2.
Proof. exact spawned_runners_distinct_l. Qed.
Print Assumptions spawned_runners_distinct.

(* (2) ALL schedules, both variants, any labelling of the runners by the pair
   they drive in which the runners of ONE generation have distinct labels
   (discharged by [spawned_runners_distinct]): two distinct live runners never
   drive the same pair, ACROSS generations -- at most one live runner per
   (source, integration) pair, always. *)
Theorem one_runner_per_pair_always : forall {P : Type} (label : nat -> P) v sched,
  let s := exec v init sched in
  (forall t1 t2 g1 g2, nth_error (tasks s) t1 = Some g1 -> nth_error (tasks s) t2 = Some g2 ->
     g_gen g1 = g_gen g2 -> t1 <> t2 -> label t1 <> label t2) ->
  forall t1 t2 g1 g2, nth_error (tasks s) t1 = Some g1 -> nth_error (tasks s) t2 = Some g2 ->
    live g1 = true -> live g2 = true -> label t1 = label t2 -> t1 = t2.
Proof. exact @one_runner_per_pair_always_l. Qed.
Print Assumptions one_runner_per_pair_always.

(* ================= non-vacuity ================= *)

(* file overrides database, disabled skipped, defaults 1, several sources *)
Example ex_load :
  let src n c p k b := {| s_name := [n]; s_url := [c]; s_chain := c; s_poll := p; s_conc := k; s_batch := b |} in
  let ref n a z := {| r_name := [n]; r_start := a; r_stop := z |} in
  load_tasks [src 1 10 5 2 8]%N [src 1 99 0 0 0; src 2 20 0 0 0]%N
             [ {| i_name := [7]%N; i_enabled := true; i_refs := [ref 1 100 0; ref 2 0 50]%N |} ]
             [ {| i_name := [7]%N; i_enabled := true; i_refs := [ref 2 1 1]%N |};
               {| i_name := [8]%N; i_enabled := false; i_refs := [ref 9 0 0]%N |} ]
  = Ok [ {| t_src := [1]; t_ig := [7]; t_url := [10]; t_chain := 10; t_start := 100; t_stop := 0; t_poll := 5; t_batch := 8; t_conc := 2 |};
         {| t_src := [2]; t_ig := [7]; t_url := [20]; t_chain := 20; t_start := 0; t_stop := 50; t_poll := 0; t_batch := 1; t_conc := 1 |} ]%N.
Proof. vm_compute. reflexivity. Qed.

(* two Restarts while a task is inside a step: the repaired manager reloads
   for both, both return nil, three loads in all; the code as found panics *)
Example ex_two_restarts :
  let ops := [OStore (Some 1); OStart; OHoldTasks; ORestart; ORestart; ORelease] in
  (let s := st (play Fixed ops) in
   crashed s = false /\ map rst_obs (rsts s) = [0; 0] /\ nloads s = 3 /\ live_gens s = [2])
  /\ crashed (st (play Legacy ops)) = true.
Proof. vm_compute. repeat split. Qed.

(* Restart while the first Run is loading: returns nil in the repaired code,
   never returns in the code as found *)
Example ex_restart_during_first_load :
  let ops := [OStore (Some 1); OHoldLoad; OStart; ORestart; ORelease] in
  map rst_obs (rsts (st (play Fixed ops))) = [0]
  /\ map rst_obs (rsts (st (play Legacy ops))) = [2].
Proof. vm_compute. split; reflexivity. Qed.

(* a failed reload, then a repaired configuration *)
Example ex_failed_then_good :
  let ops := [OStore (Some 1); OStart; OStore None; ORestart; OStore (Some 2); ORestart] in
  (let s := st (play Fixed ops) in map rst_obs (rsts s) = [1; 0] /\ crashed s = false
     /\ is_closed s (cur s) = false /\ live_gens s = [2])
  /\ crashed (st (play Legacy ops)) = true.
Proof. vm_compute. repeat split. Qed.
