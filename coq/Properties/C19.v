(* C19 — dashboard pages that change configuration require authentication.
   Only property theorems here, each closed by [exact] of a lemma from
   Proofs/AuthnP.v and followed by [Print Assumptions]; [Example]s show that
   the hypotheses are satisfiable and the statements are not vacuous.

   [verifies h c] stands for "session.Get accepts cookie c at handler h".  The
   one assumption, a premise of every theorem that needs it, is
     session_crypto verifies :=
       forall h c, verifies h c = true <-> token_of h c
   (a cookie is accepted iff it is an unexpired session that THIS handler
   instance issued: filippo.io/age + kr/session, trusted). *)
From Coq Require Import List NArith Bool String.
From Shovel Require Import Base.Outcome Model.Authn Proofs.AuthnP Gen.Routes.
Import ListNotations.

(* The wrapped handler runs iff authentication is disabled, or the request
   comes from a loopback address while loopback authentication is not
   enforced, or the cookie is a session issued by this instance.  All
   switches, passwords, remotes, cookies, methods, guesses. *)
Theorem authn_serves_iff : forall verifies, session_crypto verifies ->
  forall h r,
    ran (authn verifies h r) = true <->
    (disable_authn (conf h) = true
     \/ (enable_loopback_authn (conf h) = false /\ is_loopback (rem r) = true)
     \/ token_of h (cook r)).
Proof. exact authn_serves_iff_l. Qed.
Print Assumptions authn_serves_iff.

(* ... otherwise: 303 to /login, the wrapped handler does not run, no cookie *)
Theorem authn_redirects_else : forall verifies, session_crypto verifies ->
  forall h r,
    ~ (disable_authn (conf h) = true
       \/ (enable_loopback_authn (conf h) = false /\ is_loopback (rem r) = true)
       \/ token_of h (cook r)) ->
    authn verifies h r = redirect_login
    /\ ran (authn verifies h r) = false /\ status (authn verifies h r) = 303%N
    /\ location (authn verifies h r) = loc_login /\ set_cookie (authn verifies h r) = None.
Proof. exact authn_redirects_else_l. Qed.
Print Assumptions authn_redirects_else.

(* which remotes count as loopback: "host:port" with host 127.0.0.0/8, ::1 or
   an IPv4-mapped 127.x; a zone, a host name, a missing port, an empty or
   malformed address never do *)
Theorem loopback_classes : forall r,
  is_loopback r = true <->
  exists h, r = RHostPort h /\ (h = HLoop4 \/ h = HLoop4Net \/ h = HLoop6 \/ h = HLoopMapped).
Proof. exact is_loopback_iff. Qed.
Print Assumptions loopback_classes.

(* Invariant over ANY request history of a freshly created handler: every
   session in the issued set was put there by a POST /login of this history
   whose password equals the handler's (configured or generated), and the
   response to that very request carried it. *)
Theorem issued_only_by_correct_password : forall verifies,
  forall c gen i reqs h' resps,
    run_hist verifies (new c gen i) reqs = (h', resps) ->
    forall n, In n (issued h') ->
      exists k r o, nth_error reqs k = Some r /\ nth_error resps k = Some o
                    /\ correct_login (new c gen i) r /\ set_cookie o = Some (i, n).
Proof. exact issued_only_by_correct_password_l. Qed.
Print Assumptions issued_only_by_correct_password.

(* a request whose password is not exactly the handler's (wrong, empty,
   prefix, password+NUL, unparseable form; any method, remote, cookie, target)
   issues nothing and sets no cookie *)
Theorem wrong_password_never_issues : forall verifies h r,
  guess r <> Some (password h) ->
  issued (fst (step verifies h r)) = issued h /\ set_cookie (snd (step verifies h r)) = None.
Proof. exact wrong_password_never_issues_l. Qed.
Print Assumptions wrong_password_never_issues.

(* the only response that carries a session cookie is the one to a correct
   login; in particular no protected response does *)
Theorem set_cookie_only_by_correct_login : forall verifies h r t,
  set_cookie (snd (step verifies h r)) = Some t ->
  correct_login h r /\ t = (inst h, List.length (issued h)) /\ ran (snd (step verifies h r)) = false.
Proof. exact AuthnP.set_cookie_only_by_correct_login. Qed.
Print Assumptions set_cookie_only_by_correct_login.

(* a session minted by another process/instance (even one configured with the
   same password) is rejected *)
Theorem other_instance_cookie_rejected : forall verifies, session_crypto verifies ->
  forall h r i n,
    i <> inst h -> cook r = CTok i n ->
    disable_authn (conf h) = false ->
    (enable_loopback_authn (conf h) = true \/ is_loopback (rem r) = false) ->
    authn verifies h r = redirect_login.
Proof. exact other_instance_cookie_rejected_l. Qed.
Print Assumptions other_instance_cookie_rejected.

Theorem invalid_cookie_rejected : forall verifies, session_crypto verifies ->
  forall h r,
    (cook r = CNone \/ cook r = CGarbage \/ exists i, cook r = CExpired i) ->
    disable_authn (conf h) = false ->
    (enable_loopback_authn (conf h) = true \/ is_loopback (rem r) = false) ->
    authn verifies h r = redirect_login.
Proof. exact invalid_cookie_rejected_l. Qed.
Print Assumptions invalid_cookie_rejected.

(* The property's first sentence end to end, over ANY history [pre ++ r :: post]
   sent to a freshly created handler: a protected request r is served only if
   authentication is disabled, or r is loopback and loopback authentication is
   not enforced, or r's cookie was set by the response to an EARLIER
   correct-password POST /login of the same history to the same instance;
   otherwise the answer is the redirect to /login and the handler did not run. *)
Theorem served_only_if_authenticated : forall verifies, session_crypto verifies ->
  forall c gen i pre r post h' resps,
    tgt r = TProtected ->
    run_hist verifies (new c gen i) (pre ++ r :: post) = (h', resps) ->
    forall o, nth_error resps (List.length pre) = Some o ->
    (ran o = true ->
       disable_authn c = true
       \/ (enable_loopback_authn c = false /\ is_loopback (rem r) = true)
       \/ exists n j rj oj, cook r = CTok i n /\ j < List.length pre
            /\ nth_error pre j = Some rj /\ nth_error resps j = Some oj
            /\ correct_login (new c gen i) rj /\ set_cookie oj = Some (i, n))
    /\ (ran o = false -> o = redirect_login).
Proof. exact served_only_if_authenticated_l. Qed.
Print Assumptions served_only_if_authenticated.

(* ---- the route table (regenerated from cmd/shovel/main.go on every run) ---- *)

(* soundness of the checker, for ANY table: whatever path is requested, if the
   mux hands it to a mutating handler (or to what is registered under one of
   the five patterns) that registration went through Authn; and each of the
   five patterns dispatches to its handler, wrapped *)
Theorem routes_checker_sound : forall rs,
  check_routes rs = true ->
  (forall path r, dispatch rs path = Some r ->
     (In (hname r) mutating \/ In (pattern r) (map fst required)) -> wrapped r = true)
  /\ (forall p hn, In (p, hn) required ->
        exists r, dispatch rs p = Some r /\ hname r = hn /\ wrapped r = true).
Proof. exact routes_checker_sound_l. Qed.
Print Assumptions routes_checker_sound.

(* the instance: the table main.go has NOW passes the checker *)
Theorem routes_of_main_go_ok : check_routes Gen.Routes.routes = true.
Proof. vm_compute. reflexivity. Qed.
Print Assumptions routes_of_main_go_ok.

Corollary mutating_routes_require_authn :
  (forall path r, dispatch Gen.Routes.routes path = Some r ->
     (In (hname r) mutating \/ In (pattern r) (map fst required)) -> wrapped r = true)
  /\ (forall p hn, In (p, hn) required ->
        exists r, dispatch Gen.Routes.routes p = Some r /\ hname r = hn /\ wrapped r = true).
Proof. exact (routes_checker_sound _ routes_of_main_go_ok). Qed.
Print Assumptions mutating_routes_require_authn.

(* ---- the handler chain between the server and the mux (regenerated) ---- *)

(* soundness of the chain checker, for ANY chain: every wrapper may rewrite
   exactly the parts of the request it writes before calling the inner handler;
   if no wrapper writes RemoteAddr, the headers, or the whole request, then the
   request that reaches the mux -- the one Authn decides on -- has the peer
   address and the cookies of the request the server received *)
Theorem chain_checker_sound : forall ws r r',
  check_chain ws = true -> chain_sem ws r r' ->
  r' "RemoteAddr"%string = r "RemoteAddr"%string /\ r' "Header"%string = r "Header"%string.
Proof. exact chain_checker_sound_l. Qed.
Print Assumptions chain_checker_sound.

(* the instance: the chain main.go has NOW (e.g. log(true, mux)) passes *)
Theorem chain_of_main_go_ok : check_chain Gen.Routes.chain = true.
Proof. vm_compute. reflexivity. Qed.
Print Assumptions chain_of_main_go_ok.

(* ---- non-vacuity ---- *)

(* the assumption is satisfiable: the instance used by the correspondence run *)
Example session_crypto_sat : session_crypto verifies_issued.
Proof. exact verifies_issued_spec. Qed.

(* a history: wrong password -> 401; right password -> 303 "/" + session (0,0);
   that session -> served; another instance's session -> redirect; no cookie
   from loopback with loopback authn enforced -> redirect *)
Example ex_history :
  let c := {| disable_authn := false; enable_loopback_authn := true; root_password := [112; 119]%N |} in
  let pub := RHostPort HPublic in
  snd (run_hist verifies_issued (new c [] 0)
     [ {| tgt := TLogin; rmeth := MPost; rem := pub; cook := CNone; guess := Some [112]%N |};
       {| tgt := TLogin; rmeth := MPost; rem := pub; cook := CNone; guess := Some [112; 119]%N |};
       {| tgt := TProtected; rmeth := MPost; rem := pub; cook := CTok 0 0; guess := None |};
       {| tgt := TProtected; rmeth := MPost; rem := pub; cook := CTok 1 0; guess := None |};
       {| tgt := TProtected; rmeth := MGet; rem := RHostPort HLoop4; cook := CNone; guess := None |} ])
  = [ plain 401%N;
      {| ran := false; status := 303%N; location := loc_root; set_cookie := Some (0, 0) |};
      served; redirect_login; redirect_login ].
Proof. vm_compute. reflexivity. Qed.

(* a generated password is used when none is configured *)
Example ex_generated :
  password (new {| disable_authn := false; enable_loopback_authn := false; root_password := [] |} [97; 98]%N 0)
  = [97; 98]%N.
Proof. reflexivity. Qed.

(* the chain checker rejects a wrapper that rewrites the peer address *)
Example ex_chain_bad :
  check_chain [{| wname := "log"; writes_before := ["RemoteAddr"] |}] = false.
Proof. reflexivity. Qed.

(* the checker rejects a table with an unwrapped mutating route *)
Example ex_routes_bad :
  check_routes ({| pattern := "/save-source2"; hname := "SaveSource"; wrapped := false |} :: Gen.Routes.routes) = false.
Proof. vm_compute. reflexivity. Qed.
