(* C08 -- source-side caches are transparent: same data, bounded reuse, no
   cached errors, announced heads only.  Only property theorems here, each
   closed by [exact] of a lemma from Proofs/, each followed by
   [Print Assumptions]; [Example]s show that the hypotheses are satisfiable.

   Vocabulary (Model/Cache.v): a run of the segment cache is a list of events
   [ELookup k kept] (some caller finishes the first critical section of
   cache.get for key k; [kept] is pruneSegments' choice) and [ERead sid res]
   (some caller performs the second critical section on the segment [sid] it
   was handed; [res] is the source's answer IF asked, None = the fetch fails),
   in ANY order: [run] accepts exactly the event lists in which every READ is
   performed by a caller that holds that segment.  Observations:
   [OLookup k sid created], [ORead sid k ret asked]. *)
From Coq Require Import List NArith Bool Arith.
From Shovel Require Import Base.Outcome
  Model.Cache Model.HeadCache Model.LogAttach Model.CGet
  Proofs.CacheP Proofs.HeadCacheP Proofs.LogAttachP Proofs.CGetP Proofs.CGetSeqP.
Import ListNotations.
Open Scope N_scope.

(* ------------------------------------------------------------------ *)
(* Segment cache                                                       *)
(* ------------------------------------------------------------------ *)

(* Any interleaving, any failures: data served for key k is the result of a
   SUCCESSFUL fetch (asked = true, returned Some d) made on the same segment at
   or before that moment. *)
Theorem cache_read_is_fetch : forall (D : Type) mx (tr : list (ev D)) s os,
  run (init_sys mx) tr = Some (s, os) ->
  forall os1 os2 sid k d a, os = os1 ++ ORead sid k (Some d) a :: os2 ->
    In (ORead sid k (Some d) true) (os1 ++ [ORead sid k (Some d) a]).
Proof. exact @read_is_fetch. Qed.
Print Assumptions cache_read_is_fetch.

(* ... the segment handed out for key k is only ever read as a segment of key
   k, and when the source is asked the caller gets exactly its answer *)
Theorem cache_segment_key : forall (D : Type) mx (tr : list (ev D)) s os,
  run (init_sys mx) tr = Some (s, os) ->
  forall k sid cr k' r a, In (OLookup k sid cr) os -> In (ORead sid k' r a) os -> k = k'.
Proof. exact @segment_key_stable. Qed.
Print Assumptions cache_segment_key.

Theorem cache_asked_returns_answer : forall (D : Type) (s : sys D) sid res s' sid' k ret,
  step s (ERead sid res) = Some (s', ORead sid' k ret true) -> ret = res /\ sid' = sid.
Proof. exact @asked_ret_is_res. Qed.
Print Assumptions cache_asked_returns_answer.

(* ... hence, against an unchanging honest source F, every caller gets F k *)
Theorem cache_transparent : forall (D : Type) (F : key -> D) mx (tr : list (ev D)) s os,
  run (init_sys mx) tr = Some (s, os) ->
  (forall sid k d, In (ORead sid k (Some d) true) os -> d = F k) ->
  forall sid k d a, In (ORead sid k (Some d) a) os -> d = F k.
Proof. exact @transparent. Qed.
Print Assumptions cache_transparent.

(* A failed fetch is never stored: whatever a segment holds was returned by a
   successful fetch on it; an error result means the source was asked, failed,
   and the segment is still unfilled -- and an unfilled segment asks the source
   again on its next read. *)
Theorem cache_never_stores_error : forall (D : Type) mx (tr : list (ev D)) s os,
  run (init_sys mx) tr = Some (s, os) ->
  forall sid sg d, nth_error (c_heap (sy_cache s)) sid = Some sg -> sg_data sg = Some d ->
    In (ORead sid (sg_key sg) (Some d) true) os.
Proof. exact @stored_is_fetched. Qed.
Print Assumptions cache_never_stores_error.

Theorem cache_error_not_stored : forall (D : Type) (s : sys D) sid res s' sid' k a,
  step s (ERead sid res) = Some (s', ORead sid' k None a) ->
  a = true /\ res = None
  /\ exists sg, nth_error (c_heap (sy_cache s')) sid = Some sg /\ sg_data sg = None.
Proof. exact @error_not_stored. Qed.
Print Assumptions cache_error_not_stored.

(* The getter may return data TOGETHER with an error (Client.blocks/headers
   return the rejected blocks when validate fails): such data are dropped --
   the caller gets the error, the segment stays unfilled, and neither depends
   on what came with the error.  Together with [cache_read_is_fetch] (served
   data were returned with err = nil): a rejected reply is never served. *)
Theorem cache_rejected_data_dropped : forall (D : Type) (c : cache D) sid sg junk,
  nth_error (c_heap c) sid = Some sg -> sg_data sg = None ->
  exists c', read_f sid (FErr junk) c = Some (c', None, true)
    /\ nth_error (c_heap c') sid = Some (mkSeg (sg_key sg) (sg_nreads sg + 1) None)
    /\ read_f sid (FErr junk) c = read_f sid (FErr None) c.
Proof. exact @rejected_dropped. Qed.
Print Assumptions cache_rejected_data_dropped.

Theorem cache_unfilled_asks_again : forall (D : Type) (c : cache D) sid sg res,
  nth_error (c_heap c) sid = Some sg -> sg_data sg = None ->
  exists c', read sid res c = Some (c', res, true)
    /\ nth_error (c_heap c') sid = Some (mkSeg (sg_key sg) (sg_nreads sg + 1) res).
Proof. exact @read_unfilled. Qed.
Print Assumptions cache_unfilled_asks_again.

(* Bounded reuse.  A lookup hands out an EXISTING segment only while fewer than
   maxreads reads have been counted on it; with at most B callers between
   their two critical sections no segment ever performs more than
   maxreads + B - 1 reads (B = 1, a sequential client: maxreads).  Since a
   segment is filled at most once, this bounds the reads served per fetch.
   The bound is tight: [ex_bound_tight] below. *)
Theorem cache_lookup_hit_fresh : forall (D : Type) k kept (c c' : cache D) sid,
  lookup k kept c = Some (c', sid, false) ->
  In (k, sid) (c_map c) /\ seg_nreads (c_heap c) sid < c_max c.
Proof. exact @lookup_hit_fresh. Qed.
Print Assumptions cache_lookup_hit_fresh.

Theorem cache_reads_bounded : forall (D : Type) mx B (tr : list (ev D)) s os,
  1 <= mx ->
  run (init_sys mx) tr = Some (s, os) -> pend_bounded B (init_sys mx) tr ->
  forall sid, (reads_of sid os <= N.to_nat mx + B - 1)%nat.
Proof. exact @reads_bounded. Qed.
Print Assumptions cache_reads_bounded.

Theorem cache_reads_bounded_sequential : forall (D : Type) mx (ops : list (key * list key * option D)) c outs,
  1 <= mx ->
  seq_run (empty_cache mx) ops = Some (c, outs) ->
  forall sid, seg_nreads (c_heap c) sid <= mx.
Proof. exact @seq_reads_bounded. Qed.
Print Assumptions cache_reads_bounded_sequential.

(* At most 5 segments after every lookup (and at every moment of every run);
   pruneSegments deletes nothing while there are at most 5, and never deletes
   an entry whose start is above that of an entry it keeps. *)
Theorem cache_size_bounded : forall (D : Type) k kept (c c' : cache D) sid cr,
  lookup k kept c = Some (c', sid, cr) -> (length (c_map c') <= 5)%nat.
Proof. exact @size_bounded. Qed.
Print Assumptions cache_size_bounded.

Theorem cache_size_bounded_always : forall (D : Type) mx (tr : list (ev D)) s os,
  run (init_sys mx) tr = Some (s, os) -> (length (c_map (sy_cache s)) <= 5)%nat.
Proof. exact @size_bounded_always. Qed.
Print Assumptions cache_size_bounded_always.

Theorem cache_prune_keeps_highest : forall kept m m',
  prune_segments kept m = Some m' ->
  (length m' <= prune_size)%nat
  /\ (forall e, In e m' -> In e m)
  /\ (forall e e', In e m -> ~ In e m' -> In e' m' -> start_of e <= start_of e')
  /\ ((length m <= prune_size)%nat -> m' = m)
  /\ (NoDup (map fst m) -> NoDup (map fst m')).
Proof. exact prune_segments_spec. Qed.
Print Assumptions cache_prune_keeps_highest.

(* The model never blocks: in every reachable state a caller can enter (some
   legal choice of pruneSegments exists for every key) and every caller
   between its two steps can perform its READ.  So the statements above are
   about all histories, not about an empty set of them. *)
Theorem cache_never_stuck : forall (D : Type) mx (tr : list (ev D)) s os,
  run (init_sys mx) tr = Some (s, os) ->
  (forall k, exists kept s' o, step s (ELookup k kept) = Some (s', o))
  /\ (forall sid res, In sid (sy_pend s) -> exists s' o, step s (ERead sid res) = Some (s', o)).
Proof. exact @never_stuck. Qed.
Print Assumptions cache_never_stuck.

(* ------------------------------------------------------------------ *)
(* Attaching logs to shared blocks                                     *)
(* ------------------------------------------------------------------ *)

(* Any order and any repetition of Logs.Add-style attach operations and trace
   attachments ([adds_only]: everything but receipts) (by any callers) on a well-formed block: no transaction index twice, no log index
   twice in a transaction, nothing that was there is lost, nothing appears
   that nobody attached, every attached index is present. *)
Theorem attach_union_nodup : forall ops b,
  wf_blk b -> forallb adds_only ops = true ->
  let b' := a_run b ops in
  wf_blk b'
  /\ forall i,
       NoDup (idxs (logs_of b' i))
    /\ (forall x, In x (logs_of b i) -> In x (logs_of b' i))
    /\ (forall x, In x (logs_of b' i) ->
          In x (logs_of b i) \/ exists op, In op ops /\ op_tx op = i /\ In x (op_logs op))
    /\ (forall op x, In op ops -> op_tx op = i -> In x (op_logs op) ->
          In (l_idx x) (idxs (logs_of b' i))).
Proof. exact attach_union. Qed.
Print Assumptions attach_union_nodup.

(* ... and when an index always names the same log (unchanging chain), every
   attached log itself is present *)
Theorem attach_none_lost : forall ops b i,
  wf_blk b -> forallb adds_only ops = true ->
  (forall x y, (In x (logs_of b i) \/ exists op, In op ops /\ op_tx op = i /\ In x (op_logs op)) ->
               (In y (logs_of b i) \/ exists op, In op ops /\ op_tx op = i /\ In y (op_logs op)) ->
               l_idx x = l_idx y -> x = y) ->
  forall op x, In op ops -> op_tx op = i -> In x (op_logs op) -> In x (logs_of (a_run b ops) i).
Proof. exact attach_union_consistent. Qed.
Print Assumptions attach_none_lost.

(* With receipts (which REPLACE a transaction's logs by all its logs) mixed in,
   against one unchanging block whose transaction i has the logs [full i]:
   every transaction's logs stay a duplicate-free part of [full i] that
   contains everything any caller attached.  This is about the REPAIRED
   receipts() (fixes/C08-receipts-block-lock.diff), where a receipt is
   attached atomically under the block lock like a logs() group. *)
Theorem attach_honest_with_receipts : forall (full : N -> list log),
  (forall i, NoDup (idxs (full i))) ->
  forall ops b,
  wf_blk b -> (forall i, incl (logs_of b i) (full i)) -> Forall (honest full) ops ->
  let b' := a_run b ops in
  wf_blk b'
  /\ forall i,
       NoDup (idxs (logs_of b' i))
    /\ incl (logs_of b' i) (full i)
    /\ incl (logs_of b i) (logs_of b' i)
    /\ (forall op, In op ops -> op_tx op = i -> incl (op_logs op) (logs_of b' i)).
Proof. exact attach_honest. Qed.
Print Assumptions attach_honest_with_receipts.

(* The code before the repair: receipts() without the block lock performs
   `tx.Logs = make(n)` and `copy(tx.Logs, logs)` as two steps between which a
   logs() group of another caller can run.  The statement "no log index twice"
   is then false; the witness is replayed on the implementation by the
   stress-rl stream of the driver. *)
Theorem legacy_receipt_refuted :
  ~ (forall ops, NoDup (idxs (logs_of (legacy_run (mkBlk 7 0 0 []) ops) 0))).
Proof. exact legacy_receipt_dup. Qed.
Print Assumptions legacy_receipt_refuted.

(* Trace actions are REPLACED, not merged: after any operations a transaction
   carries the trace actions of the LAST trace attachment it received (its
   initial ones if it received none); other operations leave them alone.
   Against one unchanging block (every trace attachment to transaction i
   carries [ftr i]) it therefore carries [ftr i] or nothing -- nothing only if
   no trace attachment named it. *)
Theorem attach_traces_last_wins : forall j ops cur,
  let r := fold_left (trace_sem j) ops cur in
  (forall bh th tas, ~ In (ATraces bh j th tas) ops) /\ r = cur
  \/ exists bh th tas, In (ATraces bh j th tas) ops /\ r = tas.
Proof. exact trace_sem_last. Qed.
Print Assumptions attach_traces_last_wins.

Theorem attach_traces_honest : forall (ftr : N -> list N) ops b j,
  (forall bh i th tas, In (ATraces bh i th tas) ops -> tas = ftr i) ->
  (traces_of b j = ftr j \/ traces_of b j = []) ->
  traces_of (a_run b ops) j = ftr j
  \/ (traces_of (a_run b ops) j = [] /\ forall bh th tas, ~ In (ATraces bh j th tas) ops).
Proof. exact traces_honest. Qed.
Print Assumptions attach_traces_honest.

(* traces() before fixes/C08-traces-publish-complete.diff published the new
   slice of trace actions empty (`make`) and filled it in place: in between, a
   caller that already holds the shared block sees trace actions that are not
   the transaction's.  Replayed on the implementation by the stress-tr stream. *)
Theorem legacy_traces_refuted :
  exists ops, traces_of (legacy_run (mkBlk 7 0 0 [mkTx 0 9 0 [] [41; 42]]) ops) 0 <> [41; 42]
              /\ ops = [LTMake 0 2].
Proof. exact legacy_traces_visible_incomplete. Qed.
Print Assumptions legacy_traces_refuted.

(* ------------------------------------------------------------------ *)
(* Composition: cached Get = uncached Get on the caller's filter       *)
(* ------------------------------------------------------------------ *)

(* Any interleaving of LOOKUP / READ / attach steps of any number of callers
   on one cache (headers or blocks), any fetch failures, honest unchanging
   chain: for every filled segment and every caller (extra request x, address
   filter f) all of whose own attach operations have been performed on it, at
   that moment and at every later moment, each block of the segment and the
   block an uncached client returns for the same request agree on number,
   hash, time, -- per transaction -- on the set of logs the caller asked
   for, without a duplicate index on either side, and (plans with traces,
   t = true) on the trace actions of every transaction. *)
Theorem cached_get_equiv_uncached : forall ch b mx s tr,
  chain_wf ch -> greach ch b mx s tr ->
  forall sid sg bs x t f,
    nth_error (c_heap (sy_cache s)) sid = Some sg -> sg_data sg = Some bs ->
    (forall n op, In n (krange (sg_key sg)) -> In op (caller_ops ch x t f n) -> In (GAttach sid n op) tr) ->
    Forall2 (same_view x t f) bs (uget ch (Some b) x t f (sg_key sg)).
Proof. exact cached_equiv_uncached. Qed.
Print Assumptions cached_get_equiv_uncached.

(* The sequential caching client [cget] (the function the correspondence run
   compares with Client.Get) IS a run of that system that extends any
   reachable history: LOOKUP, READ whose answer -- if any -- is the chain's
   blocks of the key, then the caller's attach operations up to the point
   where the call stops (a Get that fails half way leaves what it attached in
   the shared segment), all of them honest; a successful result is the data of
   the segment it was handed, all the caller's operations have been performed,
   and it has the view of the uncached result. *)
Theorem cget_is_fine_grained_run : forall ch mx op cl cl' r nb nx nt b tr,
  chain_wf ch -> g_base op = Some b ->
  greach ch b mx (mkSys (pick b cl) []) tr ->
  cget ch op cl = Some (cl', r, nb, nx, nt) ->
  exists sid evs,
    grun (mkSys (pick b cl) []) evs = Some (mkSys (pick b cl') [])
    /\ greach ch b mx (mkSys (pick b cl') []) (tr ++ evs)
    /\ (forall sid' d, In (GCache (ERead sid' (Some d))) evs -> d = fresh ch (Some b) (g_key op))
    /\ (forall sid' n o, In (GAttach sid' n o) evs -> sid' = sid /\ In n (krange (g_key op)) /\ op_ok ch n o)
    /\ forall bs, r = GOk bs ->
         (exists sg, nth_error (c_heap (pick b cl')) sid = Some sg /\ sg_data sg = Some bs)
         /\ (forall n o, In n (krange (g_key op)) ->
               In o (caller_ops ch (g_extra op) (g_traces op) (g_filter op) n) -> In (GAttach sid n o) evs)
         /\ Forall2 (same_view (g_extra op) (g_traces op) (g_filter op)) bs
                    (uget ch (Some b) (g_extra op) (g_traces op) (g_filter op) (g_key op)).
Proof. exact cget_extends. Qed.
Print Assumptions cget_is_fine_grained_run.

(* Hence, for the sequential caching client and EVERY sequence of Gets (any
   plans, filters, ranges, failures, eviction choices): every successful
   result gives the caller the view of the uncached result (for plans that use
   no cache: is the uncached result). *)
Theorem cached_client_transparent : forall ch mx ops cl outs,
  chain_wf ch -> cget_run ch (new_client mx) ops = Some (cl, outs) ->
  Forall2 (fun op out => transparent_result ch op (fst (fst (fst out)))) ops outs.
Proof. exact cget_run_transparent. Qed.
Print Assumptions cached_client_transparent.

(* ------------------------------------------------------------------ *)
(* Head cache                                                          *)
(* ------------------------------------------------------------------ *)

(* Any interleaving of announcements (in any order, with repeats and
   regressions), poller failures and reads: a hit returns a pair that an
   earlier announcement carried (hashes are 32 bytes, as get() always hands
   out 32 bytes). *)
Theorem head_pair_announced : forall mx ops1 n,
  (forall m h, In (HUpdate m h) ops1 -> length h = 32%nat) ->
  forall st' m h, h_step (fst (h_run (head_init mx) ops1)) (HGet n) = (st', OHit m h) ->
  In (HUpdate m h) ops1.
Proof. exact pair_announced. Qed.
Print Assumptions head_pair_announced.

(* the same for whole Latest calls of a sequential client, counting the
   answers to its own direct requests as announcements *)
Theorem head_latest_announced : forall mx ops1 n src st' m h asked started,
  (forall p, In p (l_announced ops1) -> length (snd p) = 32%nat) ->
  h_latest n src (fst (l_run (head_init mx) ops1)) = (st', Some (m, h), asked, started) ->
  In (m, h) (l_announced (ops1 ++ [LLatest n src])).
Proof. exact latest_pair_announced. Qed.
Print Assumptions head_latest_announced.

(* a hit needs: no pending poller error, floor <> 0, cached number >= floor,
   fewer than maxreads reads counted; it counts one read *)
Theorem head_hit_conditions : forall st n st' m h,
  h_step st (HGet n) = (st', OHit m h) ->
  h_err st = false /\ n <> 0 /\ n <= m /\ m = h_num st /\ h = pad32 (h_hash st)
  /\ h_nreads st < h_max st /\ h_nreads st' = h_nreads st + 1
  /\ h_num st' = h_num st /\ h_hash st' = h_hash st.
Proof. exact hit_conditions. Qed.
Print Assumptions head_hit_conditions.

(* from ANY state and for ANY operations: hits <= maxreads * (1 + number of
   times the cache was told something new: an advancing announcement or a
   poller failure); in particular at most maxreads hits between two such
   occasions.  Repeats and regressions do not count: they leave the cache
   untouched. *)
Theorem head_hits_bounded : forall st ops st' os,
  h_run st ops = (st', os) -> count is_reset os = 0 -> count is_hit os <= h_max st.
Proof. exact hits_bounded. Qed.
Print Assumptions head_hits_bounded.

Theorem head_hits_bounded_general : forall st ops st' os,
  h_run st ops = (st', os) -> count is_hit os <= h_max st * (1 + count is_reset os).
Proof. exact hits_bounded_general. Qed.
Print Assumptions head_hits_bounded_general.

Theorem head_stale_update_ignored : forall st n h,
  n <= h_num st -> h_step st (HUpdate n h) = (st, OIgnored).
Proof. exact stale_update_ignored. Qed.
Print Assumptions head_stale_update_ignored.

(* a poller error forces the next call to the source (and re-arms the poller) *)
Theorem head_error_forces_fetch : forall st n src,
  let '(st', r, asked, _) := h_latest n src (fst (h_step st HError)) in
  asked = true /\ r = src /\ h_once st' = false.
Proof. exact error_forces_fetch. Qed.
Print Assumptions head_error_forces_fetch.

(* two hits with no expiry in between: the number does not go back, and the
   same number comes with the same hash *)
Theorem head_hits_monotone : forall st n1 st1 m1 h1 ops st2 os n2 st3 m2 h2,
  h_step st (HGet n1) = (st1, OHit m1 h1) ->
  h_run st1 ops = (st2, os) -> count is_expired os = 0 ->
  h_step st2 (HGet n2) = (st3, OHit m2 h2) ->
  m1 <= m2 /\ (m1 = m2 -> h1 = h2).
Proof. exact hits_monotone. Qed.
Print Assumptions head_hits_monotone.

(* ------------------------------------------------------------------ *)
(* Non-vacuity                                                         *)
(* ------------------------------------------------------------------ *)

(* a run exists in which one fetch serves a second caller, a failed fetch is
   followed by a new fetch, and maxreads forces a new segment *)
Example ex_run :
  exists s, run (init_sys 2)
      [ELookup (10, 1) []; ERead 0 None;            (* fetch fails: error *)
       ELookup (10, 1) []; ERead 0 (Some 7);        (* same segment asks again: 7 *)
       ELookup (10, 1) []; ERead 1 (Some 8)]        (* 2 reads counted: new segment *)
    = Some (s, [OLookup (10, 1) 0 true; ORead 0 (10, 1) None true;
                OLookup (10, 1) 0 false; ORead 0 (10, 1) (Some 7) true;
                OLookup (10, 1) 1 true; ORead 1 (10, 1) (Some 8) true]).
Proof. eexists. vm_compute. reflexivity. Qed.

(* the concurrent bound maxreads + B - 1 is reached: maxreads 1, two callers
   between their steps, two reads on one segment *)
Example ex_bound_tight :
  exists s os, run (init_sys 1) [ELookup (10, 1) []; ELookup (10, 1) []; ERead 0 (Some 7); ERead 0 None]
               = Some (s, os) /\ reads_of 0 os = 2%nat.
Proof. eexists. eexists. vm_compute. split; reflexivity. Qed.

(* pruning to the five highest starts, with a tie left to the choice *)
Example ex_prune :
  prune_segments [(20,1); (30,1); (40,1); (50,1); (10,2)]
                 [((10,1),0%nat); ((10,2),1%nat); ((20,1),2%nat); ((30,1),3%nat); ((40,1),4%nat); ((50,1),5%nat)]
  = Some [((10,2),1%nat); ((20,1),2%nat); ((30,1),3%nat); ((40,1),4%nat); ((50,1),5%nat)]
  /\ prune_segments [(10,1); (10,2); (20,1); (30,1); (40,1)]
                 [((10,1),0%nat); ((10,2),1%nat); ((20,1),2%nat); ((30,1),3%nat); ((40,1),4%nat); ((50,1),5%nat)]
  = None.
Proof. split; vm_compute; reflexivity. Qed.

(* a head cache history with a hit, an expiry and an error *)
Example ex_head :
  snd (h_run (head_init 1) [HUpdate 5 (repeat 1 32); HGet 3; HGet 3; HUpdate 4 (repeat 2 32); HGet 3; HError; HGet 3])
  = [OAdvanced; OHit 5 (repeat 1 32); OExpired; OAdvanced; OHit 4 (repeat 2 32); OErrored; OErrCleared].
Proof. vm_compute. reflexivity. Qed.

(* a chain, two callers with different filters on one cached range: the
   hypotheses of the composition theorem are satisfiable *)
Definition ex_chain : chain :=
  chain_of [mkCB 100 1000 [mkCtx 0 900 [mkLog 0 1 50; mkLog 1 2 51] [70; 71]; mkCtx 2 901 [mkLog 2 1 52] []]].
Example ex_chain_wf : chain_wf ex_chain.
Proof.
  intros n. unfold ex_chain, chain_of.
  destruct (N.to_nat n) as [|[|m]]; simpl; split;
    repeat (constructor; simpl; try (intros [H|H]; try discriminate; try contradiction)); try tauto;
    intros t Ht; repeat (destruct Ht as [<-|Ht]; [repeat (constructor; simpl; try (intros [H|H]; try discriminate; try contradiction); try tauto)|]);
    try contradiction.
Qed.

(* three Gets of two callers with different address filters on one cached
   header range: the second is served from the cache (0 base requests) and
   sees the first caller's logs too; the hypotheses of
   [cached_client_transparent] hold and its conclusion is not trivial *)
Example ex_cget :
  let opA := mkGop (Some KHeaders) XLogs false [1] (0, 1) [] false false None in
  let opB := mkGop (Some KHeaders) XLogs true [2] (0, 1) [] false false None in
  match cget_run ex_chain (new_client 3) [opA; opB; opA] with
  | Some (_, [(GOk _, 1, 1, 0); (GOk [b2], 0, 1, 1); (GOk [b3], 0, 1, 0)]) =>
      logs_of b2 0 = [mkLog 0 1 50; mkLog 1 2 51]
      /\ filter (want XLogs [2]) (logs_of b2 0) = [mkLog 1 2 51]
      /\ traces_of b2 0 = [70; 71] /\ traces_of b3 0 = [70; 71]
  | _ => False
  end.
Proof. vm_compute. repeat split; reflexivity. Qed.

(* a trace plan over a block without traces fails (traces() treats an empty
   reply as an error), also through the cache *)
Example ex_cget_trace_fails :
  match cget_run (chain_of [mkCB 100 1000 []]) (new_client 3)
                 [mkGop (Some KHeaders) XNone true [] (0, 1) [] false false None] with
  | Some (_, [(GErr, 1, 0, 1)]) => True
  | _ => False
  end.
Proof. vm_compute. exact I. Qed.

(* ------------------------------------------------------------------ *)
(* Composition with C07 (builder "client"): ANY source                 *)
(* ------------------------------------------------------------------ *)
(* From here on the vocabulary is Model/Client.v / ClientSpec.v (blocks with
   byte-string hashes, decoded reply families [world], the repaired
   [fetch_blocks] / [attach], C07's [attach_faithful], [linked], [seqN]) and
   Model/CacheClient.v: the caching client whose block getter is
   [fetch_blocks repaired] on [w_blocks] and whose header getter is the same on
   [w_headers], every call seeing its own -- arbitrary, possibly corrupted --
   reply family. *)
From Shovel Require Import Model.Client Model.ClientSpec Model.CacheClient Proofs.ClientP Proofs.C07P Proofs.CacheClientP.

(* What the composition assumes about the getter, as statements: a reply the
   getter rejects gives the cache nothing to store (and by
   [cache_rejected_data_dropped] the blocks that come back with the error are
   irrelevant); what it stores was accepted by blocks()/headers(). *)
Theorem cached_getter_rejects : forall s l r,
  (forall bs, fetch_blocks repaired s l r <> Ok bs) -> fetch_value (getter_outcome s l r) = None.
Proof. exact getter_rejected. Qed.
Print Assumptions cached_getter_rejects.

Theorem cached_getter_accepts : forall s l r bs,
  fetch_value (getter_outcome s l r) = Some bs -> fetch_blocks repaired s l r = Ok bs.
Proof. exact getter_accepted. Qed.
Print Assumptions cached_getter_accepts.

(* The attach phase on cached blocks runs in place and keeps what it attached
   when it fails half way; it SUCCEEDS exactly when Client.v's attach does,
   with the same result: caching does not weaken a single check of C07 ... *)
Theorem cached_attach_is_uncached_attach : forall p s l w bs bs',
  attach repaired p s l w bs = Ok bs' <-> attach_p p s l w bs = (bs', true).
Proof. exact attach_p_spec. Qed.
Print Assumptions cached_attach_is_uncached_attach.

(* ... and however far a failing attach phase gets, it leaves number, hash,
   parent and header payload of every block of the shared segment alone *)
Theorem cached_partial_attach_keeps_headers : forall p s l w bs bs' ok,
  numbered s bs -> hashes_known bs -> attach_p p s l w bs = (bs', ok) -> map hdr bs' = map hdr bs.
Proof. exact attach_p_hdr. Qed.
Print Assumptions cached_partial_attach_keeps_headers.

(* For every sequence of Gets through the caching client (any plans, ranges,
   eviction choices) against ANY source: each successful result satisfies
   C07's post-conditions ([validated], Model/CacheClient.v): exactly the
   requested numbers; hash-linked with every hash known when headers or blocks
   are fetched; the attach replies of THIS call passed the same checks as
   without a cache and did to the base blocks exactly what C07's
   [attach_faithful] says; and the base blocks are, header by header, those of
   a reply that passed blocks()/headers() validation in this call or an
   earlier one.  (The second component of each pair is the list of reply
   families seen up to and including that call.) *)
Theorem cached_get_validated : forall mx ops cl outs,
  ccrun (new_cclient mx) ops = Some (cl, outs) ->
  Forall2 (fun op_ws out => forall bs, out = Ok bs -> validated (fst op_ws) (snd op_ws) bs)
          (combine ops (worlds_upto [] ops)) outs.
Proof. exact ccrun_validated. Qed.
Print Assumptions cached_get_validated.

(* non-vacuity: C07's honest replies, twice through the caching client: the
   second call is served from the cache and both results are C07's *)
Example ex_cached_honest :
  let op := mkCcop pl_hr 5 2 honest_hr [] in
  match ccrun (new_cclient 3) [op; op] with
  | Some (_, [Ok a; Ok b]) => Client.get pl_hr 5 2 honest_hr = Ok a /\ a = b
  | _ => False
  end.
Proof. vm_compute. split; reflexivity. Qed.

(* ------------------------------------------------------------------ *)
(* Bridge cache -> task: what a task receives THROUGH the caches       *)
(* satisfies the premises of the task layer (C01..C06)                 *)
(* ------------------------------------------------------------------ *)
(* Vocabulary: Model/BridgeCacheTask.v.  [cached_result mx ops i op bs]: the
   i-th Get of a run [ccrun (new_cclient mx) ops] of the caching client -- ANY
   sequence of Gets (plans, ranges, reply families, eviction choices), so the
   i-th call starts in any sequentially reachable state of the two caches --
   was [op] and handed out [bs].  Blocks are mapped to the task model's blocks
   by the mapping of the client->task bridge of Properties/C01.v
   ([BridgeClientTaskP.abs hid rowsf]).  [cch] is the canonical chain as the
   node holds it (client-level blocks); [canon hid rowsf cch] its task-level
   image; [world_on cch w]: every block with a hash in the blocks/headers
   replies of [w] is the block of ONE version v (a prefix of cch) at its own
   number -- failures, nulls, short batches are unconstrained. *)
From Shovel Require Proofs.BridgeClientTaskP Proofs.BridgeCacheTaskP.
From Shovel Require Import Model.TaskTypes Model.TaskDb Model.Task Model.TaskNode Model.TaskSys
  Model.TaskSpec Model.BridgeCacheTask.

(* (1) [reply_ok] for RGet answered through the cache: a segment handed out
   for request (start, limit) is numbered as requested -- by
   [cached_get_validated] -- whatever the source answered in this call or the
   earlier call that filled the segment *)
Theorem cached_partition_numbered : forall hid rowsf mx ops i op bs,
  cached_result mx ops i op bs ->
  seg_numbered (cc_s op, cc_l op) (SegOk (map (BridgeClientTaskP.abs hid rowsf) bs)).
Proof. exact BridgeCacheTaskP.cached_seg_numbered. Qed.
Print Assumptions cached_partition_numbered.

Theorem cached_load_reply_ok : forall hid rowsf ps rs,
  Forall2 (cache_answer hid rowsf) ps rs -> reply_ok (RGet ps) (RSegs rs).
Proof. exact BridgeCacheTaskP.cached_reply_ok. Qed.
Print Assumptions cached_load_reply_ok.

(* ... and, when the plan fetches headers or blocks, internally hash-linked
   with every hash known (the premise of the reorg theorems of C03) *)
Theorem cached_partition_linked : forall hid rowsf mx ops i op bs,
  (forall h, hid h = 0 <-> h = []) ->
  cached_result mx ops i op bs -> fetches (cc_plan op) = true ->
  chain_ok (map (BridgeClientTaskP.abs hid rowsf) bs) = true
  /\ Forall (fun b => TaskTypes.b_hash b <> 0) (map (BridgeClientTaskP.abs hid rowsf) bs).
Proof. exact BridgeCacheTaskP.cached_seg_linked. Qed.
Print Assumptions cached_partition_linked.

(* (2) growth.  The node answers every call from a version that is a prefix
   of canon (a different one for every call).  By [cached_get_validated]
   ALONE: every segment handed out lies inside canon and carries, block by
   block, canon's number, hash and parent -- also when it was fetched by an
   earlier call from a SHORTER version and is served from the cache now. *)
Theorem cached_growth_headers : forall hid rowsf cch mx ops i op bs,
  Forall (fun o => world_on cch (cc_world o)) ops ->
  cached_result mx ops i op bs -> fetches (cc_plan op) = true ->
  cc_s op + cc_l op <= height (canon hid rowsf cch)
  /\ Forall2 (fun x y => TaskTypes.b_num x = TaskTypes.b_num y /\ TaskTypes.b_hash x = TaskTypes.b_hash y
                         /\ TaskTypes.b_parent x = TaskTypes.b_parent y)
             (map (BridgeClientTaskP.abs hid rowsf) bs) (segment (canon hid rowsf cch) (cc_s op) (cc_l op)).
Proof. exact BridgeCacheTaskP.cached_growth_headers. Qed.
Print Assumptions cached_growth_headers.

(* The caches carry ANY invariant J of segment contents that every call keeps
   ([op_keeps]: what its getter accepts has J; its attach phase, however far
   it gets, takes J to J): what a call is handed is what its own accepted
   attach replies make of a J-base with canon's headers.  Hence [canon_seg]
   -- the RGet clause of [growth_reply] -- under the rows premise
   [rows_canon]: the rows the task derives from that are canon's rows.
   The rows premise is NOT implied by the cache / client layers (the attach
   replies of Model/Client.v carry no filter and the shared segment
   accumulates what other callers attached): see the refutation below. *)
Theorem cached_growth_canon_seg : forall hid rowsf cch J mx ops i op bs,
  Forall (fun o => world_on cch (cc_world o)) ops -> Forall (op_keeps J) ops ->
  rows_canon rowsf cch J op ->
  cached_result mx ops i op bs -> fetches (cc_plan op) = true ->
  canon_seg true (canon hid rowsf cch) (cc_s op, cc_l op) (SegOk (map (BridgeClientTaskP.abs hid rowsf) bs)).
Proof. exact BridgeCacheTaskP.cached_canon_seg. Qed.
Print Assumptions cached_growth_canon_seg.

Theorem cached_load_growth_reply : forall hid rowsf cch J ps rs,
  Forall2 (growth_cache_answer hid rowsf cch J) ps rs ->
  growth_reply true (canon hid rowsf cch) (RGet ps) (RSegs rs).
Proof. exact BridgeCacheTaskP.cached_growth_reply. Qed.
Print Assumptions cached_load_growth_reply.

(* without a rows premise the statement is false: a node honest about headers
   whose receipts reply to the second reader drops a log *)
Theorem cached_growth_unconditional_refuted : ~ cached_growth_unconditional_full.
Proof. exact BridgeCacheTaskP.growth_needs_rows_premise. Qed.
Print Assumptions cached_growth_unconditional_refuted.

(* the task theorems also assume [wf_chain canon] and [height canon < nmax]:
   the image of a well-formed client-level chain is well-formed, same height *)
Theorem cached_canon_wf : forall hid rowsf cch,
  (forall h, hid h = 0 <-> h = []) -> cchain_wf cch ->
  wf_chain (canon hid rowsf cch) /\ height (canon hid rowsf cch) = N.of_nat (length cch).
Proof. exact BridgeCacheTaskP.canon_wf. Qed.
Print Assumptions cached_canon_wf.

(* (3) head cache.  A whole Latest call of a sequential client, hit or miss
   path, after any history of announcements, poller failures and Latest calls
   (by [head_latest_announced]): if everything the source announced or
   answered directly is a block of canon (32-byte hashes), the answer
   satisfies the RLatest clause of [growth_reply]; and [reply_ok]'s n < nmax
   when canon is no longer than nmax. *)
Theorem head_latest_growth_reply : forall hid rowsf cch hs mx ops1 n src st' m h asked started,
  hashes32 cch ->
  (forall p, In p (l_announced (ops1 ++ [LLatest n src])) -> head_on cch p) ->
  h_latest n src (fst (l_run (head_init mx) ops1)) = (st', Some (m, h), asked, started) ->
  growth_reply hs (canon hid rowsf cch) (RLatest n) (RHead m (hid h))
  /\ (N.of_nat (length cch) <= nmax -> reply_ok (RLatest n) (RHead m (hid h))).
Proof. exact BridgeCacheTaskP.head_latest_on_canon. Qed.
Print Assumptions head_latest_growth_reply.

(* ... a hit under ANY interleaving of announcements, failures and reads (by
   [head_pair_announced]); on the miss path the caller gets the source's
   direct answer whatever the cache holds *)
Theorem head_hit_growth_reply : forall hid rowsf cch hs mx ops1 n st' m h,
  hashes32 cch ->
  (forall m' h', In (HUpdate m' h') ops1 -> head_on cch (m', h')) ->
  h_step (fst (h_run (head_init mx) ops1)) (HGet n) = (st', OHit m h) ->
  growth_reply hs (canon hid rowsf cch) (RLatest n) (RHead m (hid h))
  /\ (N.of_nat (length cch) <= nmax -> reply_ok (RLatest n) (RHead m (hid h))).
Proof. exact BridgeCacheTaskP.head_hit_on_canon. Qed.
Print Assumptions head_hit_growth_reply.

Theorem head_miss_is_source : forall n src st st' r asked started,
  h_latest n src st = (st', r, asked, started) -> asked = true -> r = src.
Proof. exact BridgeCacheTaskP.head_miss_is_source. Qed.
Print Assumptions head_miss_is_source.

(* non-vacuity.  Canonical chain of 4 blocks, block 2 with one transaction and
   two logs; plan headers + receipts; request (1, 2).  Reader 1 is answered
   from the version of height 3; reader 2 asks later and is SERVED FROM THE
   CACHE: its own headers reply is a transport failure (uncached, its Get
   fails).  Both mapped results are numbered as requested and ARE the segment
   of canon, rows included. *)
Example ex_two_readers_through_cache :
  match ccrun (new_cclient 3) [ex_op1; ex_op2] with
  | Some (_, [Ok a; Ok b]) =>
      Client.get (cc_plan ex_op2) 1 2 (cc_world ex_op2) = Err
      /\ seg_numbered (1, 2) (SegOk (map (BridgeClientTaskP.abs ex_hid ex_rowsf) b))
      /\ canon_seg true (canon ex_hid ex_rowsf ex_cch) (1, 2) (SegOk (map (BridgeClientTaskP.abs ex_hid ex_rowsf) a))
      /\ canon_seg true (canon ex_hid ex_rowsf ex_cch) (1, 2) (SegOk (map (BridgeClientTaskP.abs ex_hid ex_rowsf) b))
      /\ map TaskTypes.b_rows (map (BridgeClientTaskP.abs ex_hid ex_rowsf) b) = [[]; [(0, 7); (1, 8)]]
  | _ => False
  end.
Proof. vm_compute. repeat split; try reflexivity; intros H; discriminate H. Qed.

(* the premises of the growth theorems are satisfiable (headers-only plan,
   J = "no transaction attached", two readers of one segment), the example
   chains are well-formed *)
Example ex_growth_hypotheses_satisfiable :
  Forall (fun o => world_on ex_cch (cc_world o)) [ex_op_h; ex_op_h]
  /\ Forall (op_keeps ex_J) [ex_op_h; ex_op_h]
  /\ rows_canon ex_rowsf ex_cch ex_J ex_op_h
  /\ (exists bs, cached_result 3 [ex_op_h; ex_op_h] 1 ex_op_h bs)
  /\ fetches (cc_plan ex_op_h) = true
  /\ cchain_wf ex_cch /\ cchain_wf ex_cch32 /\ hashes32 ex_cch32.
Proof. exact BridgeCacheTaskP.ex_growth_hyps. Qed.

(* head cache: the poller announces block 2 of a chain with 32-byte hashes;
   Latest(1) hits; then Latest(3) misses and gets the source's block 3 *)
Example ex_head_through_cache :
  h_latest 1 None (fst (l_run (head_init 3) [LUpdate 2 (ex_h32 2)])) = (fst (l_run (head_init 3) ex_head_ops), Some (2, ex_h32 2), false, true)
  /\ (let '(_, r, asked, _) := h_latest 3 (Some (3, ex_h32 3)) (fst (l_run (head_init 3) ex_head_ops)) in
      r = Some (3, ex_h32 3) /\ asked = true)
  /\ forall p, In p (l_announced (ex_head_ops ++ [LLatest 3 (Some (3, ex_h32 3))])) -> head_on ex_cch32 p.
Proof.
  split; [vm_compute; reflexivity|]. split; [vm_compute; split; reflexivity|].
  intros p Hp. vm_compute in Hp. destruct Hp as [<-|[<-|[]]]; eexists; split; vm_compute; reflexivity.
Qed.

(* ------------------------------------------------------------------ *)
(* Bridge cached client -> row builder                                 *)
(* ------------------------------------------------------------------ *)
(* Model/BridgeCacheRows.v, Proofs/BridgeCacheRowsP.v.  The two premises
   [cached_growth_canon_seg] left open -- [Forall (op_keeps J) ops] and
   [rows_canon rowsf cch J op] -- from assumptions on the NODE only:
   [world_on] (headers) and [CR.attach_on] (items: every transaction of a
   blocks reply, every receipt, log and trace in the replies is an item of
   canon's block of the number it names; the receipts / eth_getLogs reply of
   the request is complete for the request's filter [want], and may carry any
   further canon logs).  J := [CR.Jit cch]: numbered, hashes known, every
   attached transaction / log / trace is canon's ([CR.blk_sub]), logs of a
   transaction without duplicate index in ARRIVAL order (Logs.Add appends).
   The row function is any function of [CR.log_view keep b]: header, and per
   transaction (index, hash) the logs passing [keep] (the declaration's
   gate), in index order. *)
From Shovel Require Proofs.BridgeCacheRowsP.
From Shovel Require Import Model.BridgeCacheRows.

(* (2) every call answered by a node honest about items keeps the invariant:
   what its getter accepts has it, and its attach phase -- receipts, logs,
   traces, however far it gets -- takes it to itself *)
Theorem honest_node_keeps_items_invariant : forall cch op,
  CR.citems_wf cch -> CR.items_on cch (cc_world op) -> op_keeps (CR.Jit cch) op.
Proof. exact BridgeCacheRowsP.B.op_keeps_Jit. Qed.
Print Assumptions honest_node_keeps_items_invariant.

(* ... so the premises [world_on] / [op_keeps] of the cache->task bridge hold
   for a whole history of calls *)
Theorem honest_history_discharges_invariant_premise : forall cch (wantf : ccop -> Client.log -> bool) ops,
  CR.citems_wf cch ->
  Forall (fun o => world_on cch (cc_world o)
                   /\ CR.attach_on cch (wantf o) (cc_s o) (cc_l o) (cc_world o)) ops ->
  Forall (fun o => world_on cch (cc_world o)) ops /\ Forall (op_keeps (CR.Jit cch)) ops.
Proof. exact BridgeCacheRowsP.honest_ops. Qed.
Print Assumptions honest_history_discharges_invariant_premise.

(* an accepted attach of an honest node on ANY J-base with canon's headers --
   whatever other callers attached to the shared segment before -- leaves,
   block by block, canon's header, only canon's items, and every canon log
   passing [keep]; premise: the request's own filter accepts every such log
   and the plan requests receipts or logs *)
Theorem honest_attach_serves_canon_logs : forall cch,
  CR.citems_wf cch -> forall keep want p s l w,
  CR.items_on cch w -> CR.items_all cch want s l w ->
  (forall lg, keep lg = true -> want lg = true) ->
  use_receipts p || use_logs p = true ->
  forall base bs, CR.Jit cch s l base -> map nhp base = map nhp (cseg cch s l) ->
  Client.attach Client.repaired p s l w base = Ok bs ->
  Forall2 (CR.served keep) (cseg cch s l) bs.
Proof. exact BridgeCacheRowsP.B.attach_served. Qed.
Print Assumptions honest_attach_serves_canon_logs.

(* ... and the view of a served block is the view of canon's block *)
Theorem served_block_view_is_canon_view : forall keep cb b,
  (NoDup (map Client.t_idx (Client.b_txs cb))
   /\ forall c, In c (Client.b_txs cb) -> NoDup (map Client.l_idx (Client.t_logs c))) ->
  CR.served keep cb b -> CR.log_view keep b = CR.log_view keep cb.
Proof. exact BridgeCacheRowsP.B.served_view. Qed.
Print Assumptions served_block_view_is_canon_view.

(* (3) the rows premise, for every row function of the view *)
Theorem cached_rows_canon_honest_node : forall cch keep want F op,
  CR.citems_wf cch -> CR.attach_on cch want (cc_s op) (cc_l op) (cc_world op) ->
  (forall lg, keep lg = true -> want lg = true) ->
  use_receipts (cc_plan op) || use_logs (cc_plan op) = true ->
  rows_canon (CR.view_rowsf keep F) cch (CR.Jit cch) op.
Proof. exact BridgeCacheRowsP.B.rows_canon_honest. Qed.
Print Assumptions cached_rows_canon_honest_node.

(* (4) growth through the cache from assumptions on the node only *)
Theorem cached_growth_canon_seg_honest_node : forall hid keep F cch wantf mx ops i op bs,
  CR.citems_wf cch ->
  Forall (fun o => world_on cch (cc_world o)
                   /\ CR.attach_on cch (wantf o) (cc_s o) (cc_l o) (cc_world o)) ops ->
  (forall lg, keep lg = true -> wantf op lg = true) ->
  use_receipts (cc_plan op) || use_logs (cc_plan op) = true ->
  cached_result mx ops i op bs -> fetches (cc_plan op) = true ->
  canon_seg true (canon hid (CR.view_rowsf keep F) cch) (cc_s op, cc_l op)
            (SegOk (map (BridgeClientTaskP.abs hid (CR.view_rowsf keep F)) bs)).
Proof. exact BridgeCacheRowsP.cached_canon_seg_honest. Qed.
Print Assumptions cached_growth_canon_seg_honest_node.

Theorem cached_growth_reply_honest_node : forall hid keep F cch wantf ps rs,
  CR.citems_wf cch ->
  Forall2 (CR.honest_cache_answer hid keep F cch wantf) ps rs ->
  growth_reply true (canon hid (CR.view_rowsf keep F) cch) (RGet ps) (RSegs rs).
Proof. exact BridgeCacheRowsP.cached_growth_reply_honest. Qed.
Print Assumptions cached_growth_reply_honest_node.

(* necessity.  A row function of the delivered block AS IT IS does not satisfy
   the rows premise even for an honest node: Logs.Add keeps arrival order *)
Theorem cached_rows_raw_refuted : ~ CR.rows_canon_raw_full.
Proof. exact BridgeCacheRowsP.X.raw_rows_refuted. Qed.
Print Assumptions cached_rows_raw_refuted.

(* ... and without [keep -> want] (the request's filter accepts no fewer logs
   than the rows depend on) the premise fails: the node may withhold them *)
Theorem cached_rows_filter_cover_needed : ~ CR.rows_canon_any_keep_full.
Proof. exact BridgeCacheRowsP.X.filter_cover_needed. Qed.
Print Assumptions cached_rows_filter_cover_needed.

(* C11's builder.  [C11V.c11_rowsf rd d c dbs keep] -- BridgeRowsTask.rowsf_of
   on the view -- is a row function of the form above (by definition), so (3)
   and (4) hold for it.  What restricting to the view loses: nothing that
   Insert looks at.  C13 [insert_ignores_undeclared_logs] on client-level
   blocks: logs of other events, attached by other integrations ... *)
Theorem c11_insert_ignores_foreign_attached_logs : forall rd ed c dbs bs,
  Rows.insert Rows.fixed (BridgeGateRows.decl_of ed) c dbs
    (map (C11V.conv rd) (map (C11V.restrict (C11V.gate_keep rd ed)) bs))
  = Rows.insert Rows.fixed (BridgeGateRows.decl_of ed) c dbs (map (C11V.conv rd) bs).
Proof. exact BridgeCacheRowsP.V.c11_gate_restriction. Qed.
Print Assumptions c11_insert_ignores_foreign_attached_logs.

(* ... and C12 [pushdown_loses_none]: canon logs that the declaration's own
   eth_getLogs restrictions (keep := want := address / topic pushdown) withhold *)
Theorem c11_insert_ignores_withheld_logs : forall rd d c dbs bs rows,
  Rows.indexing Rows.fixed d = Rows.IxLog -> wf_bytes (Rows.d_sighash d) ->
  (forall b t lg, In b bs -> In t (Client.b_txs b) -> In lg (Client.t_logs t) ->
     length (Filter.ob (Rows.l_addr (C11V.rd_log rd lg))) = 20%nat) ->
  Rows.insert Rows.fixed d c dbs (map (C11V.conv rd) bs) = Ok rows ->
  Rows.insert Rows.fixed d c dbs (map (C11V.conv rd) (map (C11V.restrict (C11V.push_keep rd d)) bs)) = Ok rows.
Proof. exact BridgeCacheRowsP.V.c11_pushdown_restriction. Qed.
Print Assumptions c11_insert_ignores_withheld_logs.

(* non-vacuity.  Plan headers + eth_getLogs, request (1, 2) of the chain
   [ex_cch] (block 2: one transaction with log 0, payload 7, and log 1,
   payload 8).  Integration B (logs with payload 8) reads first, integration
   A (payload 7) second and is SERVED B's CACHED SEGMENT (its own headers
   reply is a transport failure; uncached, its Get fails): A's block 2 carries
   B's log 1 BEFORE its own log 0.  The raw rows differ from canon's in order
   and content; A's rows of the view are canon's, and so are B's. *)
Example ex_two_integrations_one_cached_segment :
  match ccrun (new_cclient 3) [EX.opB; EX.opA] with
  | Some (_, [Ok a; Ok b]) =>
      Client.get (cc_plan EX.opA) 1 2 (cc_world EX.opA) = Err
      /\ map (fun x => map Client.t_logs (Client.b_txs x)) b
         = [[]; [[Client.mkLog 1 [8]; Client.mkLog 0 [7]]]]
      /\ map ex_rowsf b = [[]; [(1, 8); (0, 7)]]
      /\ map ex_rowsf (cseg ex_cch 1 2) = [[]; [(0, 7); (1, 8)]]
      /\ map (CR.view_rowsf EX.keepA ex_rowsf) b = [[]; [(0, 7)]]
      /\ map (CR.view_rowsf EX.keepA ex_rowsf) (cseg ex_cch 1 2) = [[]; [(0, 7)]]
      /\ map (CR.view_rowsf EX.keepB ex_rowsf) a = map (CR.view_rowsf EX.keepB ex_rowsf) (cseg ex_cch 1 2)
      /\ canon_seg true (canon ex_hid (CR.view_rowsf EX.keepA ex_rowsf) ex_cch) (1, 2)
                   (SegOk (map (BridgeClientTaskP.abs ex_hid (CR.view_rowsf EX.keepA ex_rowsf)) b))
  | _ => False
  end.
Proof. vm_compute. repeat split; try reflexivity; intros H; discriminate H. Qed.

(* the premises of [cached_growth_canon_seg_honest_node] hold for that run *)
Example ex_honest_node_hypotheses_satisfiable :
  CR.citems_wf ex_cch
  /\ Forall (fun o => world_on ex_cch (cc_world o)
                      /\ CR.attach_on ex_cch (EX.ex_wantf o) (cc_s o) (cc_l o) (cc_world o)) [EX.opB; EX.opA]
  /\ (forall lg, EX.keepA lg = true -> EX.ex_wantf EX.opA lg = true)
  /\ use_receipts (cc_plan EX.opA) || use_logs (cc_plan EX.opA) = true
  /\ (exists bs, cached_result 3 [EX.opB; EX.opA] 1 EX.opA bs)
  /\ fetches (cc_plan EX.opA) = true.
Proof. exact BridgeCacheRowsP.X.ex_honest_hyps. Qed.
