(* C16 — generated schema fits the data: required columns, shared-table
   union through migration, unique key.  Only property theorems here, each
   closed by [exact] of a lemma from Proofs/, each followed by
   [Print Assumptions]; [Example]s are obligations on the regenerated tables
   and non-vacuity witnesses; the two [_refuted] theorems document where the
   full statement fails on the code as it is (known findings). *)
From Coq Require Import List NArith Bool String.
From Shovel Require Import Base.Outcome Model.Config Model.Sql Model.Schema Model.ConfigGen
  Proofs.ConfigP Proofs.SchemaP Proofs.SchemaKeyP Proofs.SchemaDdlP Proofs.C16P Proofs.SchemaE2EP.
Import ListNotations.
Open Scope N_scope.

(* ---- obligations on the regenerated tables ---- *)
Example gen_required_wellformed : gen_ok = true.
Proof. vm_compute. reflexivity. Qed.
(* the candidate key columns are the seven identity fields the row model knows *)
Example gen_possible_known :
  forallb (fun k => mem k [n_ig_name; n_src_name; n_block_num; n_tx_idx; n_log_idx; n_abi_idx; n_trace_idx])
          (g_possible G) = true
  /\ forallb (fun k => mem k (g_possible G)) [n_ig_name; n_src_name; n_block_num; n_tx_idx] = true.
Proof. vm_compute. split; reflexivity. Qed.
(* every candidate key column is one of the fields AddRequiredFields can add *)
Example gen_possible_required : forallb (fun k => mem k (req_names G)) (g_possible G) = true.
Proof. vm_compute. reflexivity. Qed.

(* ---- the schema contains every written column ---- *)
(* Whatever the database contained before (any catalog: narrower tables, other
   tables, other indexes), whatever integrations are migrated before and after
   (any list, any position: tables shared by several integrations get the
   union through `alter table add column`), when config.Migrate succeeds every
   column that setCols makes an integration write exists in its table.
   [plain_names]: the names are spelled in lower case (or are reserved words,
   which quote() double-quotes), so that DDL and the quoted COPY identifiers
   name the same column. *)
Theorem written_columns_exist : forall res cat0 igs cat g x,
  migrate_all res cat0 igs = Some cat -> In g igs ->
  validate_col_refs g = true -> plain_names res g = true ->
  In x (written_columns g) -> In x (table_cols cat (t_name (ig_table g))).
Proof. exact written_columns_exist_lemma. Qed.
Print Assumptions written_columns_exist.

(* migration never loses a column *)
Theorem migration_monotone : forall res igs cat cat',
  migrate_all res cat igs = Some cat' -> forall n x, In x (table_cols cat n) -> In x (table_cols cat' n).
Proof. exact migrate_all_le. Qed.
Print Assumptions migration_monotone.

(* config.DDL (the schema printed by -print-schema): one table per name, and it
   holds the declared columns of EVERY integration that uses the name *)
Theorem ddl_union_has_columns : forall igs g, In g igs ->
  exists t, In t (ddl_tables igs []) /\ t_name t = t_name (ig_table g) /\
            forall c, In c (col_names (ig_table g)) -> In c (col_names t).
Proof. exact ddl_union_lemma. Qed.
Print Assumptions ddl_union_has_columns.

(* ---- identity columns are added automatically ---- *)
(* For every accepted integration: each add(name, type) whose guard holds
   yields a column and a block field of that name; nothing of the declaration
   is lost; the key is generated from the candidate columns present (unless
   the user gave one). *)
Theorem identity_columns_added : forall G g g', fix_one G g = Some g' ->
  validate_col_refs g' = true /\ ig_inputs g' = ig_inputs g /\ ig_notif g' = ig_notif g /\
  ig_name g' = ig_name g /\ t_name (ig_table g') = t_name (ig_table g) /\
  (forall x, has_col x (ig_table g) = true -> has_col x (ig_table g') = true) /\
  (forall x, In x (col_names (ig_table g')) ->
             In x (col_names (ig_table g)) \/ In x (map (fun rf => snd (fst rf)) (g_required G))) /\
  (forall gd n t, In (gd, n, t) (g_required G) -> guard_holds gd g = true ->
                  has_col n (ig_table g') = true /\ has_bd n g' = true) /\
  (is_nil (t_unique (ig_table g)) = true ->
   t_unique (ig_table g') = (if is_nil (generated_key (g_possible G) g') then []
                             else [generated_key (g_possible G) g'])).
Proof. exact fix_one_spec. Qed.
Print Assumptions identity_columns_added.

(* ---- validation rejects dangling references ---- *)
Theorem accepted_references_resolve : forall G g g', fix_one G g = Some g' ->
  (forall i, In i (selected (ig_inputs g)) -> In (i_col i) (col_names (ig_table g'))) /\
  (forall b, In b (ig_block g) -> bd_col b <> [] /\ In (bd_col b) (col_names (ig_table g'))) /\
  (forall n, In n (ig_notif g) -> In n (col_names (ig_table g'))).
Proof. exact accepted_refs. Qed.
Print Assumptions accepted_references_resolve.

Theorem validate_rejects_missing : forall G g,
  (exists i, In i (selected (ig_inputs g)) /\ ~ In (i_col i) (col_names (ig_table g)) /\ ~ In (i_col i) (req_names G)) \/
  (exists b, In b (ig_block g) /\ (bd_col b = [] \/
             (~ In (bd_col b) (col_names (ig_table g)) /\ ~ In (bd_col b) (req_names G)))) \/
  (exists n, In n (ig_notif g) /\ ~ In n (col_names (ig_table g)) /\ ~ In n (req_names G)) ->
  fix_one G g = None.
Proof. exact missing_rejected. Qed.
Print Assumptions validate_rejects_missing.

(* every integration of a configuration accepted by ValidateFix went through fix_one *)
Theorem accepted_integrations_fixed : forall U G c c' g', validate_fix U G c = Some c' ->
  In g' (integs c') -> exists g, fix_one G g = Some g'.
Proof. exact validate_fix_In. Qed.
Print Assumptions accepted_integrations_fixed.

(* ---- the unique key ---- *)
(* [identity_plain possible u g]: every column of the key u is written by the
   block field of the same name and by nothing else, and the key has log_idx /
   abi_idx / trace_action_idx exactly for integrations whose rows have them —
   true of every integration whose identity fields were added automatically
   (Example [plain_standard]).  [wf_blocks]: block numbers, transaction
   indices per block, log indices and trace addresses per transaction are
   pairwise different.
   Any two rows at different positions of Insert's output do not conflict on
   the key (conflict = no NULL part and equal). *)
Theorem key_separates_rows : forall possible u g src,
  identity_plain possible u g = true ->
  forall bs cs d i j, wf_blocks g bs = true -> emit g bs = Some cs ->
  (i < List.length cs)%nat -> (j < List.length cs)%nat -> i <> j ->
  conflict (key u (row_of g src (nth i cs d))) (key u (row_of g src (nth j cs d))) = false.
Proof. exact key_separates_lemma. Qed.
Print Assumptions key_separates_rows.

(* every emitted row has a key without NULL part: the same row again conflicts *)
Theorem reinsert_collides : forall possible u g src,
  identity_plain possible u g = true ->
  forall bs cs c, emit g bs = Some cs -> In c cs ->
  conflict (key u (row_of g src c)) (key u (row_of g src c)) = true.
Proof. exact reinsert_collides_lemma. Qed.
Print Assumptions reinsert_collides.

(* tables shared by integrations that have the SAME key: rows of different
   integrations never conflict (the key contains ig_name) *)
Theorem shared_table_same_key : forall possible u g1 g2 src1 src2 c1 c2,
  identity_plain possible u g1 = true -> identity_plain possible u g2 = true ->
  In n_ig_name u -> ig_name g1 <> ig_name g2 ->
  conflict (key u (row_of g1 src1 c1)) (key u (row_of g2 src2 c2)) = false.
Proof. exact cross_no_conflict. Qed.
Print Assumptions shared_table_same_key.

(* ---- end to end, on the domain where it is true ---- *)
(* [plain_domain res possible g]: g passed ValidateColRefs, its names are plain,
   its key is the generated one, it is in the plain-identity domain and no two
   of its fields write the same column.  [KeyInv tn u cat0]: in the
   pre-existing catalog every unique index on g's table has the columns u and
   the name u_<table> is not taken by anything else (true of a database without
   indexes on the table, and of one left by an earlier run of the same
   configuration).  [compat]: every integration of the configuration either
   uses another table or declares the same key — g does not share its table
   with an integration of a different key.

   (a) After ANY successful migration (any pre-existing catalog with narrower or
   other tables, any order) the catalog holds g's table with every written
   column, a unique index on it with EXACTLY the generated key, and no unique
   index on it with other columns. *)
Theorem migrated_catalog_has_key_and_columns : forall res possible cat0 igs cat g,
  migrate_all res cat0 igs = Some cat -> In g igs -> plain_domain res possible g ->
  KeyInv (t_name (ig_table g)) (generated_key possible g) cat0 ->
  Forall (fun g' => compat res (t_name (ig_table g)) (generated_key possible g) (ig_table g')) igs ->
  (exists t, find_table cat (t_name (ig_table g)) = Some t /\
             forall x, In x (written_columns g) -> In x (pt_cols t)) /\
  (exists ix, In ix (cat_indexes cat) /\ ix_unique ix = true /\ ix_table ix = t_name (ig_table g) /\
              ix_cols ix = generated_key possible g) /\
  (forall ix, In ix (cat_indexes cat) -> ix_unique ix = true -> ix_table ix = t_name (ig_table g) ->
              ix_cols ix = generated_key possible g).
Proof. exact migrated_catalog. Qed.
Print Assumptions migrated_catalog_has_key_and_columns.

(* (b) own table: for every well-formed block list the COPY of the emitted rows
   into the (so far empty) table is accepted with all rows, and the COPY of the
   same blocks again is rejected by the unique index — the database is left
   as after the first *)
Theorem insert_twice_own_table : forall res possible cat0 igs cat g src bs cs d,
  migrate_all res cat0 igs = Some cat -> In g igs -> plain_domain res possible g ->
  KeyInv (t_name (ig_table g)) (generated_key possible g) cat0 ->
  Forall (fun g' => compat res (t_name (ig_table g)) (generated_key possible g) (ig_table g')) igs ->
  wf_blocks g bs = true -> emit g bs = Some cs ->
  rows_of d (t_name (ig_table g)) = [] ->
  insert cat d g src bs
    = (CopyOk (List.length cs), put_rows d (t_name (ig_table g)) (map (row_of g src) cs)) /\
  (cs <> [] -> insert cat (put_rows d (t_name (ig_table g)) (map (row_of g src) cs)) g src bs
               = (CopyDup, put_rows d (t_name (ig_table g)) (map (row_of g src) cs))).
Proof. exact insert_twice_own_lemma. Qed.
Print Assumptions insert_twice_own_table.

(* the same when the table already holds the rows another integration with the
   SAME key emitted for well-formed blocks (shared table, same shape) *)
Theorem insert_twice_shared_same_key : forall res possible cat0 igs cat g src bs cs d g2 src2 bs2 cs2,
  migrate_all res cat0 igs = Some cat -> In g igs -> plain_domain res possible g ->
  KeyInv (t_name (ig_table g)) (generated_key possible g) cat0 ->
  Forall (fun g' => compat res (t_name (ig_table g)) (generated_key possible g) (ig_table g')) igs ->
  wf_blocks g bs = true -> emit g bs = Some cs ->
  identity_plain possible (generated_key possible g) g2 = true ->
  In n_ig_name (generated_key possible g) -> ig_name g <> ig_name g2 ->
  wf_blocks g2 bs2 = true -> emit g2 bs2 = Some cs2 ->
  rows_of d (t_name (ig_table g)) = map (row_of g2 src2) cs2 ->
  insert cat d g src bs
    = (CopyOk (List.length cs),
       put_rows d (t_name (ig_table g)) (map (row_of g2 src2) cs2 ++ map (row_of g src) cs)) /\
  (cs <> [] ->
   insert cat (put_rows d (t_name (ig_table g)) (map (row_of g2 src2) cs2 ++ map (row_of g src) cs)) g src bs
     = (CopyDup, put_rows d (t_name (ig_table g)) (map (row_of g2 src2) cs2 ++ map (row_of g src) cs))).
Proof. exact insert_twice_shared_lemma. Qed.
Print Assumptions insert_twice_shared_same_key.

(* ---- where the full statement fails (replayed on the implementation by the driver) ---- *)
Definition U16 : uni :=
  {| is_letter := fun c => ((65 <=? c) && (c <=? 90)) || ((97 <=? c) && (c <=? 122));
     is_digit := fun c => (48 <=? c) && (c <=? 57) |}.
Definition col (n t : string) := {| c_name := s2r n; c_type := s2r t |}.
Definition bd (n c : string) := {| bd_name := s2r n; bd_col := s2r c; bd_flt := no_filter |}.
Definition mk_ig (name tname : string) (cols : list column) (bl : list blockdata) (ins : list input) : integ :=
  {| ig_name := s2r name; ig_enabled := true; ig_sources := [s2r "main"];
     ig_table := {| t_name := s2r tname; t_cols := cols; t_unique := []; t_index := [] |};
     ig_agg := []; ig_notif := []; ig_block := bl; ig_inputs := ins; ig_deps := [] |}.
Definition mk_root (igs : list integ) : root := {| sources := [s2r "main"]; integs := igs |}.
Definition empty_cat : catalog := {| cat_tables := []; cat_indexes := [] |}.
Definition two_logs : list ablock :=
  [{| b_num := 5; b_txs := [{| x_idx := 0; x_logs := [{| l_idx := 3; l_match := true; l_rows := 0 |};
                                                      {| l_idx := 4; l_match := true; l_rows := 0 |}];
                               x_traces := [] |}] |}].
Definition x_input : input := Input true (s2r "x") (s2r "xc") no_filter [].

(* the end-to-end statement: after validation and migration into an empty
   database, the first COPY of the rows of well-formed blocks succeeds and a
   second COPY of the same rows hits the unique index *)
Definition insert_twice_full : Prop :=
  forall c c' cat g src bs,
    validate_fix U16 G c = Some c' -> migrate_all reserved empty_cat (integs c') = Some cat ->
    In g (integs c') -> wf_blocks g bs = true ->
    exists n d1, insert cat [] g src bs = (CopyOk n, d1) /\
                 (n <> O -> fst (insert cat d1 g src bs) = CopyDup).

(* (a) a table shared by integrations of different shape: only the first
   integration's key is created under the index name u_<table>; two different
   rows of the log-shaped integration (two logs of one transaction) collide *)
Definition shared_cfg : root :=
  mk_root [mk_ig "txs" "t" [col "h" "bytea"] [bd "tx_hash" "h"] [];
           mk_ig "logs" "t" [col "xc" "bytea"] [] [x_input]].
Theorem shared_table_different_shape_refuted : ~ insert_twice_full.
Proof.
  intros H.
  destruct (validate_fix U16 G shared_cfg) as [c'|] eqn:Ev; [|vm_compute in Ev; discriminate].
  destruct (migrate_all reserved empty_cat (integs c')) as [cat|] eqn:Em;
    [|vm_compute in Ev; inversion Ev; subst c'; vm_compute in Em; discriminate].
  assert (Hin : In (nth 1 (integs c') dummy_ig) (integs c')).
  { vm_compute in Ev. inversion Ev; subst c'. right. left. reflexivity. }
  destruct (H shared_cfg c' cat _ (s2r "main") two_logs Ev Em Hin) as [n [d1 [H1 _]]].
  - vm_compute in Ev. inversion Ev; subst c'. vm_compute. reflexivity.
  - vm_compute in Ev. inversion Ev; subst c'. vm_compute in Em. inversion Em; subst cat.
    vm_compute in H1. discriminate.
Qed.
Print Assumptions shared_table_different_shape_refuted.

(* (b) an identity field supplied by the user under another column name
   (log_idx -> column li): AddRequiredFields still adds the COLUMN log_idx,
   nothing writes it, the generated key contains a column that is always NULL
   and a re-insert of the same block does not collide *)
Definition remap_cfg : root :=
  mk_root [mk_ig "a" "t" [col "xc" "bytea"; col "li" "int"] [bd "log_idx" "li"] [x_input]].
Theorem remapped_identity_refuted : ~ insert_twice_full.
Proof.
  intros H.
  destruct (validate_fix U16 G remap_cfg) as [c'|] eqn:Ev; [|vm_compute in Ev; discriminate].
  destruct (migrate_all reserved empty_cat (integs c')) as [cat|] eqn:Em;
    [|vm_compute in Ev; inversion Ev; subst c'; vm_compute in Em; discriminate].
  assert (Hin : In (nth 0 (integs c') dummy_ig) (integs c')).
  { vm_compute in Ev. inversion Ev; subst c'. left. reflexivity. }
  destruct (H remap_cfg c' cat _ (s2r "main") two_logs Ev Em Hin) as [n [d1 [H1 H2]]].
  - vm_compute in Ev. inversion Ev; subst c'. vm_compute. reflexivity.
  - vm_compute in Ev. inversion Ev; subst c'. vm_compute in Em. inversion Em; subst cat.
    vm_compute in H1. inversion H1; subst n d1. specialize (H2 ltac:(discriminate)).
    vm_compute in H2. discriminate.
Qed.
Print Assumptions remapped_identity_refuted.

(* (c) repaired (fixes/C16-migrate-columns-before-indexes.diff): the old
   statement order of Table.Migrate created the indexes before the missing
   columns were added; a table that exists with fewer columns (or is shared
   with an integration migrated earlier) and an index on a new column made
   the migration fail.  Witness: table t(a) exists, the integration declares
   t(a, b) with an index on b. *)
Definition narrow_cat : catalog :=
  {| cat_tables := [{| pt_name := s2r "t"; pt_cols := [s2r "a"] |}]; cat_indexes := [] |}.
Definition wide_table : table :=
  {| t_name := s2r "t"; t_cols := [col "a" "int"; col "b" "int"]; t_unique := []; t_index := [[s2r "b"]] |}.
Theorem legacy_migrate_order_refuted :
  legacy_migrate_table reserved narrow_cat wide_table = None /\
  exists cat, migrate_table reserved narrow_cat wide_table = Some cat /\
              In (s2r "b") (table_cols cat (s2r "t")).
Proof.
  split; [vm_compute; reflexivity|]. eexists. split; [vm_compute; reflexivity|]. vm_compute. auto.
Qed.
Print Assumptions legacy_migrate_order_refuted.

(* ---- non-vacuity: a standard integration is in the plain-identity domain,
   its first insert succeeds and the second collides ---- *)
Definition std_cfg : root := mk_root [mk_ig "logs" "t" [col "xc" "bytea"] [] [x_input]].
Example plain_standard :
  match validate_fix U16 G std_cfg with
  | Some c' =>
      let g := nth 0 (integs c') dummy_ig in
      identity_plain (g_possible G) (generated_key (g_possible G) g) g = true /\
      plain_names reserved g = true /\ wf_blocks g two_logs = true /\
      match migrate_all reserved empty_cat (integs c') with
      | Some cat => let r1 := insert cat [] g (s2r "main") two_logs in
                    fst r1 = CopyOk 2 /\ fst (insert cat (snd r1) g (s2r "main") two_logs) = CopyDup
      | None => False
      end
  | None => False
  end.
Proof. vm_compute. repeat split; reflexivity. Qed.

(* the premises of the end-to-end theorems are satisfiable: the standard
   integration on an empty database *)
Example plain_domain_standard :
  match validate_fix U16 G std_cfg with
  | Some c' =>
      let g := nth 0 (integs c') dummy_ig in
      plain_domain reserved (g_possible G) g /\
      KeyInv (t_name (ig_table g)) (generated_key (g_possible G) g) empty_cat /\
      Forall (fun g' => compat reserved (t_name (ig_table g)) (generated_key (g_possible G) g) (ig_table g')) (integs c')
  | None => False
  end.
Proof.
  vm_compute. split; [repeat split|]. split; [intros ix []|].
  constructor; [|constructor]. right. constructor; [reflexivity|constructor].
Qed.

(* ================================================================== *)
(* ---- Bridge unique key <-> rows ----
   The unique index that ValidateFix GENERATES (AddRequiredFields, then
   AddUniqueIndex; the user gave no key) is the identity key of the rows the
   row builder of C11 writes (Model/Rows.v) and of the task model
   (Model/BridgeRowsTask.v: [ikey]; "same (block number, ikey) within a pair"
   is the task layer's unique-index collision).  Definitions:
   Model/BridgeKey.v; proofs: Proofs/BridgeKeyP.v.
   [same_decl g' d]: the Config-level integration g' and the Rows-level
   declaration d agree on name, table column names, per top-level input
   (indexed?, column; no components -- Rows.v's domain), per block field
   (name, column); ABI types, filters and signature hash are free.
   [user_plain g] (decidable; NOT implied by ValidateFix -- known findings):
   on the declaration as the user wrote it, a block field named like an
   identity field is bound to the column of that name, nothing else is bound to
   an identity column, and an identity column / field is declared only where
   AddRequiredFields adds it anyway. *)
From Shovel Require Model.Filter Model.Rows Model.BridgeRowsTask Model.TaskTypes Model.TaskSpec
  Proofs.BridgeKeyP.
From Shovel Require Import Model.BridgeKey.

(* obligation on the regenerated tables: the add(name, type) calls with their
   guards and the candidate key columns are the ones this bridge is proved for *)
Example gen_tables_standard : g_required G = std_required /\ g_possible G = id_names.
Proof. exact BridgeKeyP.gen_tables_standard. Qed.

(* (1) the generated unique index is exactly the identity key: ig_name,
   src_name, block_num, tx_idx, then log_idx when an input is selected, abi_idx
   when a NON-INDEXED input is selected, trace_action_idx when a block field is
   named trace_* ([identity_key], read off the ROWS-level declaration); every
   one of these columns is a table column written by the block-data entry of
   the same name at exactly one position of the COPY column list
   ([key_written]); by indexing mode ([mode_table]): tx -> the four; log ->
   + log_idx (+ abi_idx); trace -> + trace_action_idx, and a trace integration
   that also selects inputs emits no rows at all *)
Theorem default_unique_is_identity_key : forall g g' d,
  user_plain g = true -> t_unique (ig_table g) = [] ->
  fix_one G g = Some g' -> same_decl g' d ->
  t_unique (ig_table g') = [identity_key d]
  /\ generated_key (g_possible G) g' = identity_key d
  /\ key_written d (identity_key d)
  /\ mode_table d.
Proof. exact BridgeKeyP.default_unique_is_identity_key_lemma. Qed.
Print Assumptions default_unique_is_identity_key.

(* (2) for rows C11 speaks about ([declared_row]: what Rows.insert emits, by
   BridgeRowsTaskP.kinsert_declared), of one declaration under two contexts:
   the projection of the stored row to the unique-index columns
   ([uproj]: [None] = column not written = NULL) IS the list of identity cells
   of (integration, source, block number, ikey) -- no part is NULL;
   the same item again (same source, block number, ikey) has the same
   projection (collision); and in a well-formed block ([wf_items]; when no
   non-indexed input is selected a log decodes to at most one row:
   [single_row_scans], not implied by Rows.v where the decoding is a given;
   same source and number = same block) equal projections come from equal
   (source, block number, ikey) only (no false collision) *)
Theorem unique_projection_injective : forall d u c c' dbs dbs' b b' k k' gr gr',
  key_written d u ->
  BridgeRowsTask.declared_row d c dbs b k gr -> BridgeRowsTask.declared_row d c' dbs' b' k' gr' ->
  uproj d u gr = key_cells (Rows.d_name d) (Rows.c_src c) (Rows.b_num b) k u
  /\ Forall not_null (uproj d u gr)
  /\ (Rows.c_src c = Rows.c_src c' -> Rows.b_num b = Rows.b_num b' -> k = k' ->
      uproj d u gr = uproj d u gr')
  /\ (BridgeRowsTask.wf_items b -> single_row_scans d b ->
      (Rows.c_src c = Rows.c_src c' -> Rows.b_num b = Rows.b_num b' -> b = b') ->
      uproj d u gr = uproj d u gr' ->
      Rows.c_src c = Rows.c_src c' /\ Rows.b_num b = Rows.b_num b' /\ k = k').
Proof. exact BridgeKeyP.unique_projection_injective_lemma. Qed.
Print Assumptions unique_projection_injective.

(* (1) + (2) + the rows->task bridge of C01: in every state of a growth history
   of the task model over the instantiated chain, two stored rows of the pair
   collide in the task model's sense (same block number and same key) exactly
   when their C11 rows agree on the columns of the unique index the
   configuration generated -- and no such column is NULL *)
Theorem configured_index_is_task_key : forall g g' dcl ctx dbs rbs (c : TaskTypes.tcfg) (d : TaskTypes.db),
  user_plain g = true -> t_unique (ig_table g) = [] ->
  fix_one G g = Some g' -> same_decl g' dcl ->
  BridgeRowsTask.rows_chain_wf rbs -> Forall BridgeRowsTask.wf_items rbs ->
  Forall (single_row_scans dcl) rbs ->
  BridgeRowsTask.inserts_ok dcl ctx dbs rbs -> N.of_nat (List.length rbs) < TaskSpec.nmax ->
  TaskSpec.TaskInvG c (BridgeRowsTask.inst_chain dcl ctx dbs rbs) d ->
  exists u, t_unique (ig_table g') = [u] /\
  forall r r', In r (TaskTypes.d_rows (TaskSpec.pv c d)) -> In r' (TaskTypes.d_rows (TaskSpec.pv c d)) ->
  exists gr gr',
    TaskTypes.r_val r = BridgeRowsTask.enc_row gr /\ TaskTypes.r_val r' = BridgeRowsTask.enc_row gr'
    /\ Forall not_null (uproj dcl u gr) /\ Forall not_null (uproj dcl u gr')
    /\ (uproj dcl u gr = uproj dcl u gr'
        <-> TaskTypes.r_bnum r = TaskTypes.r_bnum r' /\ TaskTypes.r_key r = TaskTypes.r_key r').
Proof. exact BridgeKeyP.configured_index_is_task_key_lemma. Qed.
Print Assumptions configured_index_is_task_key.

(* (3) where the preconditions fail.
   (a) known finding C16-remapped-identity-field ({name: log_idx, column: li}):
   without [user_plain] the generated key contains a column (log_idx) that no
   block-data entry writes -- [written_by_field] fails, the column is NULL in
   every row, and two DIFFERENT rows are emitted all the same *)
Theorem remapped_identity_key_refuted : ~ generated_key_written_unconditional.
Proof. exact BridgeKeyP.remapped_identity_key_refuted_lemma. Qed.
Print Assumptions remapped_identity_key_refuted.
Example remapped_key_column_null :
  user_plain remap_ig = false
  /\ t_unique (ig_table remap_fixed) = [[kn_ig; kn_src; kn_block; kn_tx; kn_log]]
  /\ (forall gr, col_value remap_decl kn_log gr = None)
  /\ exists gr1 gr2, BridgeRowsTask.kinsert remap_decl erc_ctx [] two_block
       = Outcome.Ok [(BridgeRowsTask.Key 0 (Some 0) (Some 0%nat) None, gr1);
                     (BridgeRowsTask.Key 0 (Some 0) (Some 1%nat) None, gr2)].
Proof. exact BridgeKeyP.remapped_key_column_null_lemma. Qed.

(* (b) [single_row_scans] is needed: one indexed selected input (key without
   abi_idx), a log whose given decoding has two rows: two rows with different
   ikeys (abi_idx 0 and 1) and the same projection *)
Theorem single_row_scans_needed_refuted : ~ projection_injective_unconditional.
Proof. exact BridgeKeyP.single_row_scans_needed_refuted_lemma. Qed.
Print Assumptions single_row_scans_needed_refuted.

(* non-vacuity: ERC-20 Transfer(address indexed from, address indexed to,
   uint256 value), columns f, t, v, no user block field, run through the
   Config model (fix_one over the regenerated tables) and through the Rows
   model (log data decoded by the ABI model of C09/C10): the premises of the
   theorems hold; the generated index is (ig_name, src_name, block_num,
   tx_idx, log_idx, abi_idx); the one emitted row has key (tx 2, log 5, abi 0)
   and its projection to the index is ("erc20", "main", 1, 2, 5, 0) *)
Example erc20_bridge_hypotheses :
  user_plain erc_ig = true /\ t_unique (ig_table erc_ig) = []
  /\ fix_one G erc_ig = Some erc_fixed /\ same_decl erc_fixed erc_decl
  /\ BridgeRowsTask.wf_items erc_block /\ single_row_scans erc_decl erc_block.
Proof. exact BridgeKeyP.erc_hyps. Qed.
Example erc20_bridge_run :
  t_unique (ig_table erc_fixed) = [[kn_ig; kn_src; kn_block; kn_tx; kn_log; kn_abi]]
  /\ identity_key erc_decl = [kn_ig; kn_src; kn_block; kn_tx; kn_log; kn_abi]
  /\ Rows.copy_columns erc_decl
     = [Filter.s2b "f"; Filter.s2b "t"; Filter.s2b "v"; kn_ig; kn_src; kn_block; kn_tx; kn_log; kn_abi]
  /\ exists gr,
       BridgeRowsTask.kinsert erc_decl erc_ctx [] erc_block
         = Outcome.Ok [(BridgeRowsTask.Key 2 (Some 5) (Some 0%nat) None, gr)]
       /\ Rows.insert Rows.fixed erc_decl erc_ctx [] [erc_block] = Outcome.Ok [gr]
       /\ gr = [Filter.VBytes (Some (repeat 0 19 ++ [10])); Filter.VBytes (Some (repeat 0 19 ++ [11]));
                Filter.VU256 1000; Filter.VStr (Filter.s2b "erc20"); Filter.VStr (Filter.s2b "main");
                Filter.VU64 1; Filter.VU64 2; Filter.VU64 5; Filter.VInt Z0]
       /\ uproj erc_decl (identity_key erc_decl) gr
          = [Some (Filter.VStr (Filter.s2b "erc20")); Some (Filter.VStr (Filter.s2b "main"));
             Some (Filter.VU64 1); Some (Filter.VU64 2); Some (Filter.VU64 5); Some (Filter.VInt Z0)].
Proof. exact BridgeKeyP.erc_run. Qed.
