(* C16 — generated schema fits the data: required columns, shared-table
   union through migration, unique key.  Only property theorems here, each
   closed by [exact] of a lemma from Proofs/, each followed by
   [Print Assumptions]; [Example]s are obligations on the regenerated tables
   and non-vacuity witnesses; the two [_refuted] theorems document where the
   full statement fails on the code as it is (known findings). *)
From Coq Require Import List NArith Bool String.
From Shovel Require Import Base.Outcome Model.Config Model.Sql Model.Schema Model.ConfigGen
  Proofs.ConfigP Proofs.SchemaP Proofs.SchemaKeyP Proofs.SchemaDdlP Proofs.C16P Proofs.SchemaE2EP.
Import ListNotations.
Open Scope N_scope.

(* ---- obligations on the regenerated tables ---- *)
Example gen_required_wellformed : gen_ok = true.
Proof. vm_compute. reflexivity. Qed.
(* the candidate key columns are the seven identity fields the row model knows *)
Example gen_possible_known :
  forallb (fun k => mem k [n_ig_name; n_src_name; n_block_num; n_tx_idx; n_log_idx; n_abi_idx; n_trace_idx])
          (g_possible G) = true
  /\ forallb (fun k => mem k (g_possible G)) [n_ig_name; n_src_name; n_block_num; n_tx_idx] = true.
Proof. vm_compute. split; reflexivity. Qed.
(* every candidate key column is one of the fields AddRequiredFields can add *)
Example gen_possible_required : forallb (fun k => mem k (req_names G)) (g_possible G) = true.
Proof. vm_compute. reflexivity. Qed.

(* ---- the schema contains every written column ---- *)
(* Whatever the database contained before (any catalog: narrower tables, other
   tables, other indexes), whatever integrations are migrated before and after
   (any list, any position: tables shared by several integrations get the
   union through `alter table add column`), when config.Migrate succeeds every
   column that setCols makes an integration write exists in its table.
   [plain_names]: the names are spelled in lower case (or are reserved words,
   which quote() double-quotes), so that DDL and the quoted COPY identifiers
   name the same column. *)
Theorem written_columns_exist : forall res cat0 igs cat g x,
  migrate_all res cat0 igs = Some cat -> In g igs ->
  validate_col_refs g = true -> plain_names res g = true ->
  In x (written_columns g) -> In x (table_cols cat (t_name (ig_table g))).
Proof. exact written_columns_exist_lemma. Qed.
Print Assumptions written_columns_exist.

(* migration never loses a column *)
Theorem migration_monotone : forall res igs cat cat',
  migrate_all res cat igs = Some cat' -> forall n x, In x (table_cols cat n) -> In x (table_cols cat' n).
Proof. exact migrate_all_le. Qed.
Print Assumptions migration_monotone.

(* config.DDL (the schema printed by -print-schema): one table per name, and it
   holds the declared columns of EVERY integration that uses the name *)
Theorem ddl_union_has_columns : forall igs g, In g igs ->
  exists t, In t (ddl_tables igs []) /\ t_name t = t_name (ig_table g) /\
            forall c, In c (col_names (ig_table g)) -> In c (col_names t).
Proof. exact ddl_union_lemma. Qed.
Print Assumptions ddl_union_has_columns.

(* ---- identity columns are added automatically ---- *)
(* For every accepted integration: each add(name, type) whose guard holds
   yields a column and a block field of that name; nothing of the declaration
   is lost; the key is generated from the candidate columns present (unless
   the user gave one). *)
Theorem identity_columns_added : forall G g g', fix_one G g = Some g' ->
  validate_col_refs g' = true /\ ig_inputs g' = ig_inputs g /\ ig_notif g' = ig_notif g /\
  ig_name g' = ig_name g /\ t_name (ig_table g') = t_name (ig_table g) /\
  (forall x, has_col x (ig_table g) = true -> has_col x (ig_table g') = true) /\
  (forall x, In x (col_names (ig_table g')) ->
             In x (col_names (ig_table g)) \/ In x (map (fun rf => snd (fst rf)) (g_required G))) /\
  (forall gd n t, In (gd, n, t) (g_required G) -> guard_holds gd g = true ->
                  has_col n (ig_table g') = true /\ has_bd n g' = true) /\
  (is_nil (t_unique (ig_table g)) = true ->
   t_unique (ig_table g') = (if is_nil (generated_key (g_possible G) g') then []
                             else [generated_key (g_possible G) g'])).
Proof. exact fix_one_spec. Qed.
Print Assumptions identity_columns_added.

(* ---- validation rejects dangling references ---- *)
Theorem accepted_references_resolve : forall G g g', fix_one G g = Some g' ->
  (forall i, In i (selected (ig_inputs g)) -> In (i_col i) (col_names (ig_table g'))) /\
  (forall b, In b (ig_block g) -> bd_col b <> [] /\ In (bd_col b) (col_names (ig_table g'))) /\
  (forall n, In n (ig_notif g) -> In n (col_names (ig_table g'))).
Proof. exact accepted_refs. Qed.
Print Assumptions accepted_references_resolve.

Theorem validate_rejects_missing : forall G g,
  (exists i, In i (selected (ig_inputs g)) /\ ~ In (i_col i) (col_names (ig_table g)) /\ ~ In (i_col i) (req_names G)) \/
  (exists b, In b (ig_block g) /\ (bd_col b = [] \/
             (~ In (bd_col b) (col_names (ig_table g)) /\ ~ In (bd_col b) (req_names G)))) \/
  (exists n, In n (ig_notif g) /\ ~ In n (col_names (ig_table g)) /\ ~ In n (req_names G)) ->
  fix_one G g = None.
Proof. exact missing_rejected. Qed.
Print Assumptions validate_rejects_missing.

(* every integration of a configuration accepted by ValidateFix went through fix_one *)
Theorem accepted_integrations_fixed : forall U G c c' g', validate_fix U G c = Some c' ->
  In g' (integs c') -> exists g, fix_one G g = Some g'.
Proof. exact validate_fix_In. Qed.
Print Assumptions accepted_integrations_fixed.

(* ---- the unique key ---- *)
(* [identity_plain possible u g]: every column of the key u is written by the
   block field of the same name and by nothing else, and the key has log_idx /
   abi_idx / trace_action_idx exactly for integrations whose rows have them —
   true of every integration whose identity fields were added automatically
   (Example [plain_standard]).  [wf_blocks]: block numbers, transaction
   indices per block, log indices and trace addresses per transaction are
   pairwise different.
   Any two rows at different positions of Insert's output do not conflict on
   the key (conflict = no NULL part and equal). *)
Theorem key_separates_rows : forall possible u g src,
  identity_plain possible u g = true ->
  forall bs cs d i j, wf_blocks g bs = true -> emit g bs = Some cs ->
  (i < List.length cs)%nat -> (j < List.length cs)%nat -> i <> j ->
  conflict (key u (row_of g src (nth i cs d))) (key u (row_of g src (nth j cs d))) = false.
Proof. exact key_separates_lemma. Qed.
Print Assumptions key_separates_rows.

(* every emitted row has a key without NULL part: the same row again conflicts *)
Theorem reinsert_collides : forall possible u g src,
  identity_plain possible u g = true ->
  forall bs cs c, emit g bs = Some cs -> In c cs ->
  conflict (key u (row_of g src c)) (key u (row_of g src c)) = true.
Proof. exact reinsert_collides_lemma. Qed.
Print Assumptions reinsert_collides.

(* tables shared by integrations that have the SAME key: rows of different
   integrations never conflict (the key contains ig_name) *)
Theorem shared_table_same_key : forall possible u g1 g2 src1 src2 c1 c2,
  identity_plain possible u g1 = true -> identity_plain possible u g2 = true ->
  In n_ig_name u -> ig_name g1 <> ig_name g2 ->
  conflict (key u (row_of g1 src1 c1)) (key u (row_of g2 src2 c2)) = false.
Proof. exact cross_no_conflict. Qed.
Print Assumptions shared_table_same_key.

(* ---- end to end, on the domain where it is true ---- *)
(* [plain_domain res possible g]: g passed ValidateColRefs, its names are plain,
   its key is the generated one, it is in the plain-identity domain and no two
   of its fields write the same column.  [KeyInv tn u cat0]: in the
   pre-existing catalog every unique index on g's table has the columns u and
   the name u_<table> is not taken by anything else (true of a database without
   indexes on the table, and of one left by an earlier run of the same
   configuration).  [compat]: every integration of the configuration either
   uses another table or declares the same key — g does not share its table
   with an integration of a different key.

   (a) After ANY successful migration (any pre-existing catalog with narrower or
   other tables, any order) the catalog holds g's table with every written
   column, a unique index on it with EXACTLY the generated key, and no unique
   index on it with other columns. *)
Theorem migrated_catalog_has_key_and_columns : forall res possible cat0 igs cat g,
  migrate_all res cat0 igs = Some cat -> In g igs -> plain_domain res possible g ->
  KeyInv (t_name (ig_table g)) (generated_key possible g) cat0 ->
  Forall (fun g' => compat res (t_name (ig_table g)) (generated_key possible g) (ig_table g')) igs ->
  (exists t, find_table cat (t_name (ig_table g)) = Some t /\
             forall x, In x (written_columns g) -> In x (pt_cols t)) /\
  (exists ix, In ix (cat_indexes cat) /\ ix_unique ix = true /\ ix_table ix = t_name (ig_table g) /\
              ix_cols ix = generated_key possible g) /\
  (forall ix, In ix (cat_indexes cat) -> ix_unique ix = true -> ix_table ix = t_name (ig_table g) ->
              ix_cols ix = generated_key possible g).
Proof. exact migrated_catalog. Qed.
Print Assumptions migrated_catalog_has_key_and_columns.

(* (b) own table: for every well-formed block list the COPY of the emitted rows
   into the (so far empty) table is accepted with all rows, and the COPY of the
   same blocks again is rejected by the unique index — the database is left
   as after the first *)
Theorem insert_twice_own_table : forall res possible cat0 igs cat g src bs cs d,
  migrate_all res cat0 igs = Some cat -> In g igs -> plain_domain res possible g ->
  KeyInv (t_name (ig_table g)) (generated_key possible g) cat0 ->
  Forall (fun g' => compat res (t_name (ig_table g)) (generated_key possible g) (ig_table g')) igs ->
  wf_blocks g bs = true -> emit g bs = Some cs ->
  rows_of d (t_name (ig_table g)) = [] ->
  insert cat d g src bs
    = (CopyOk (List.length cs), put_rows d (t_name (ig_table g)) (map (row_of g src) cs)) /\
  (cs <> [] -> insert cat (put_rows d (t_name (ig_table g)) (map (row_of g src) cs)) g src bs
               = (CopyDup, put_rows d (t_name (ig_table g)) (map (row_of g src) cs))).
Proof. exact insert_twice_own_lemma. Qed.
Print Assumptions insert_twice_own_table.

(* the same when the table already holds the rows another integration with the
   SAME key emitted for well-formed blocks (shared table, same shape) *)
Theorem insert_twice_shared_same_key : forall res possible cat0 igs cat g src bs cs d g2 src2 bs2 cs2,
  migrate_all res cat0 igs = Some cat -> In g igs -> plain_domain res possible g ->
  KeyInv (t_name (ig_table g)) (generated_key possible g) cat0 ->
  Forall (fun g' => compat res (t_name (ig_table g)) (generated_key possible g) (ig_table g')) igs ->
  wf_blocks g bs = true -> emit g bs = Some cs ->
  identity_plain possible (generated_key possible g) g2 = true ->
  In n_ig_name (generated_key possible g) -> ig_name g <> ig_name g2 ->
  wf_blocks g2 bs2 = true -> emit g2 bs2 = Some cs2 ->
  rows_of d (t_name (ig_table g)) = map (row_of g2 src2) cs2 ->
  insert cat d g src bs
    = (CopyOk (List.length cs),
       put_rows d (t_name (ig_table g)) (map (row_of g2 src2) cs2 ++ map (row_of g src) cs)) /\
  (cs <> [] ->
   insert cat (put_rows d (t_name (ig_table g)) (map (row_of g2 src2) cs2 ++ map (row_of g src) cs)) g src bs
     = (CopyDup, put_rows d (t_name (ig_table g)) (map (row_of g2 src2) cs2 ++ map (row_of g src) cs))).
Proof. exact insert_twice_shared_lemma. Qed.
Print Assumptions insert_twice_shared_same_key.

(* ---- where the full statement fails (replayed on the implementation by the driver) ---- *)
Definition U16 : uni :=
  {| is_letter := fun c => ((65 <=? c) && (c <=? 90)) || ((97 <=? c) && (c <=? 122));
     is_digit := fun c => (48 <=? c) && (c <=? 57) |}.
Definition col (n t : string) := {| c_name := s2r n; c_type := s2r t |}.
Definition bd (n c : string) := {| bd_name := s2r n; bd_col := s2r c; bd_flt := no_filter |}.
Definition mk_ig (name tname : string) (cols : list column) (bl : list blockdata) (ins : list input) : integ :=
  {| ig_name := s2r name; ig_enabled := true; ig_sources := [s2r "main"];
     ig_table := {| t_name := s2r tname; t_cols := cols; t_unique := []; t_index := [] |};
     ig_agg := []; ig_notif := []; ig_block := bl; ig_inputs := ins; ig_deps := [] |}.
Definition mk_root (igs : list integ) : root := {| sources := [s2r "main"]; integs := igs |}.
Definition empty_cat : catalog := {| cat_tables := []; cat_indexes := [] |}.
Definition two_logs : list ablock :=
  [{| b_num := 5; b_txs := [{| x_idx := 0; x_logs := [{| l_idx := 3; l_match := true; l_rows := 0 |};
                                                      {| l_idx := 4; l_match := true; l_rows := 0 |}];
                               x_traces := [] |}] |}].
Definition x_input : input := Input true (s2r "x") (s2r "xc") no_filter [].

(* the end-to-end statement: after validation and migration into an empty
   database, the first COPY of the rows of well-formed blocks succeeds and a
   second COPY of the same rows hits the unique index *)
Definition insert_twice_full : Prop :=
  forall c c' cat g src bs,
    validate_fix U16 G c = Some c' -> migrate_all reserved empty_cat (integs c') = Some cat ->
    In g (integs c') -> wf_blocks g bs = true ->
    exists n d1, insert cat [] g src bs = (CopyOk n, d1) /\
                 (n <> O -> fst (insert cat d1 g src bs) = CopyDup).

(* (a) a table shared by integrations of different shape: only the first
   integration's key is created under the index name u_<table>; two different
   rows of the log-shaped integration (two logs of one transaction) collide *)
Definition shared_cfg : root :=
  mk_root [mk_ig "txs" "t" [col "h" "bytea"] [bd "tx_hash" "h"] [];
           mk_ig "logs" "t" [col "xc" "bytea"] [] [x_input]].
Theorem shared_table_different_shape_refuted : ~ insert_twice_full.
Proof.
  intros H.
  destruct (validate_fix U16 G shared_cfg) as [c'|] eqn:Ev; [|vm_compute in Ev; discriminate].
  destruct (migrate_all reserved empty_cat (integs c')) as [cat|] eqn:Em;
    [|vm_compute in Ev; inversion Ev; subst c'; vm_compute in Em; discriminate].
  assert (Hin : In (nth 1 (integs c') dummy_ig) (integs c')).
  { vm_compute in Ev. inversion Ev; subst c'. right. left. reflexivity. }
  destruct (H shared_cfg c' cat _ (s2r "main") two_logs Ev Em Hin) as [n [d1 [H1 _]]].
  - vm_compute in Ev. inversion Ev; subst c'. vm_compute. reflexivity.
  - vm_compute in Ev. inversion Ev; subst c'. vm_compute in Em. inversion Em; subst cat.
    vm_compute in H1. discriminate.
Qed.
Print Assumptions shared_table_different_shape_refuted.

(* (b) an identity field supplied by the user under another column name
   (log_idx -> column li): AddRequiredFields still adds the COLUMN log_idx,
   nothing writes it, the generated key contains a column that is always NULL
   and a re-insert of the same block does not collide *)
Definition remap_cfg : root :=
  mk_root [mk_ig "a" "t" [col "xc" "bytea"; col "li" "int"] [bd "log_idx" "li"] [x_input]].
Theorem remapped_identity_refuted : ~ insert_twice_full.
Proof.
  intros H.
  destruct (validate_fix U16 G remap_cfg) as [c'|] eqn:Ev; [|vm_compute in Ev; discriminate].
  destruct (migrate_all reserved empty_cat (integs c')) as [cat|] eqn:Em;
    [|vm_compute in Ev; inversion Ev; subst c'; vm_compute in Em; discriminate].
  assert (Hin : In (nth 0 (integs c') dummy_ig) (integs c')).
  { vm_compute in Ev. inversion Ev; subst c'. left. reflexivity. }
  destruct (H remap_cfg c' cat _ (s2r "main") two_logs Ev Em Hin) as [n [d1 [H1 H2]]].
  - vm_compute in Ev. inversion Ev; subst c'. vm_compute. reflexivity.
  - vm_compute in Ev. inversion Ev; subst c'. vm_compute in Em. inversion Em; subst cat.
    vm_compute in H1. inversion H1; subst n d1. specialize (H2 ltac:(discriminate)).
    vm_compute in H2. discriminate.
Qed.
Print Assumptions remapped_identity_refuted.

(* (c) repaired (fixes/C16-migrate-columns-before-indexes.diff): the old
   statement order of Table.Migrate created the indexes before the missing
   columns were added; a table that exists with fewer columns (or is shared
   with an integration migrated earlier) and an index on a new column made
   the migration fail.  Witness: table t(a) exists, the integration declares
   t(a, b) with an index on b. *)
Definition narrow_cat : catalog :=
  {| cat_tables := [{| pt_name := s2r "t"; pt_cols := [s2r "a"] |}]; cat_indexes := [] |}.
Definition wide_table : table :=
  {| t_name := s2r "t"; t_cols := [col "a" "int"; col "b" "int"]; t_unique := []; t_index := [[s2r "b"]] |}.
Theorem legacy_migrate_order_refuted :
  legacy_migrate_table reserved narrow_cat wide_table = None /\
  exists cat, migrate_table reserved narrow_cat wide_table = Some cat /\
              In (s2r "b") (table_cols cat (s2r "t")).
Proof.
  split; [vm_compute; reflexivity|]. eexists. split; [vm_compute; reflexivity|]. vm_compute. auto.
Qed.
Print Assumptions legacy_migrate_order_refuted.

(* ---- non-vacuity: a standard integration is in the plain-identity domain,
   its first insert succeeds and the second collides ---- *)
Definition std_cfg : root := mk_root [mk_ig "logs" "t" [col "xc" "bytea"] [] [x_input]].
Example plain_standard :
  match validate_fix U16 G std_cfg with
  | Some c' =>
      let g := nth 0 (integs c') dummy_ig in
      identity_plain (g_possible G) (generated_key (g_possible G) g) g = true /\
      plain_names reserved g = true /\ wf_blocks g two_logs = true /\
      match migrate_all reserved empty_cat (integs c') with
      | Some cat => let r1 := insert cat [] g (s2r "main") two_logs in
                    fst r1 = CopyOk 2 /\ fst (insert cat (snd r1) g (s2r "main") two_logs) = CopyDup
      | None => False
      end
  | None => False
  end.
Proof. vm_compute. repeat split; reflexivity. Qed.

(* the premises of the end-to-end theorems are satisfiable: the standard
   integration on an empty database *)
Example plain_domain_standard :
  match validate_fix U16 G std_cfg with
  | Some c' =>
      let g := nth 0 (integs c') dummy_ig in
      plain_domain reserved (g_possible G) g /\
      KeyInv (t_name (ig_table g)) (generated_key (g_possible G) g) empty_cat /\
      Forall (fun g' => compat reserved (t_name (ig_table g)) (generated_key (g_possible G) g) (ig_table g')) (integs c')
  | None => False
  end.
Proof.
  vm_compute. split; [repeat split|]. split; [intros ix []|].
  constructor; [|constructor]. right. constructor; [reflexivity|constructor].
Qed.
