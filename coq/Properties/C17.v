(* C17 — wire codecs are exact and total.  Only property theorems here, each
   closed by [exact] of a lemma from Proofs/, each followed by
   [Print Assumptions]; [Example]s show that the hypotheses are satisfiable. *)
From Coq Require Import List NArith Bool.
From Shovel Require Import Base.Outcome Model.Hex Model.Bint Proofs.HexP Proofs.BintP Proofs.C17P.
Import ListNotations.
Open Scope N_scope.

(* Every 64-bit quantity, every spelling (any number of digits incl. leading
   zeros, either letter case: [spells c d] is [nibble c = Some d]), any framing
   bytes around it: the decoded value is exactly the value of the digits. *)
Theorem uint64_decode_exact : forall a b c z cs ds,
  Forall2 spells cs ds -> val ds < two64 ->
  uint64_unmarshal (frame a b c cs z) = Ok (val ds).
Proof. exact uint64_exact. Qed.
Print Assumptions uint64_decode_exact.

Theorem byte_decode_exact : forall a b c z cs ds,
  Forall2 spells cs ds -> val ds < two64 ->
  byte_unmarshal (frame a b c cs z) = Ok (val ds mod 256).
Proof. exact byte_exact. Qed.
Print Assumptions byte_decode_exact.

(* a non-hex character anywhere in the digits is an error *)
Theorem uint64_rejects_nonhex : forall a b c z cs,
  Exists (fun x => nibble x = None) cs ->
  uint64_unmarshal (frame a b c cs z) = Err /\ byte_unmarshal (frame a b c cs z) = Err.
Proof. exact uint64_nonhex. Qed.
Print Assumptions uint64_rejects_nonhex.

(* a hex string whose value does not fit 64 bits is an error, never a wrapped value *)
Theorem uint64_rejects_overflow : forall a b c z cs ds,
  Forall2 spells cs ds -> two64 <= val ds ->
  uint64_unmarshal (frame a b c cs z) = Err.
Proof. exact uint64_overflow. Qed.
Print Assumptions uint64_rejects_overflow.

(* the spellings quantified over really are the 22 hex characters *)
Theorem spellings_are_hex_chars : forall d,
  d < 16 ->
  (d < 10 -> spells (digit_char d) d) /\
  (10 <= d -> spells (lower_char d) d /\ spells (upper_char d) d).
Proof.
  intros d Hd. split; [intros; apply nibble_digit; assumption|].
  intros H. split; [apply nibble_lower | apply nibble_upper]; split; assumption.
Qed.
Print Assumptions spellings_are_hex_chars.

(* byte strings of any length, either case, into a destination with ANY
   previous contents [hb]: exactly the encoded bytes (nothing of [hb] left) *)
Theorem bytes_decode_exact : forall hb a b c z ps bs,
  Forall2 spells_byte ps bs -> wf_bytes bs ->
  bytes_unmarshal hb (frame a b c (flat ps) z) = (true, bs).
Proof. exact bytes_exact. Qed.
Print Assumptions bytes_decode_exact.

Theorem bytes_rejects_nonhex : forall hb a b c z cs,
  Exists (fun x => nibble x = None) cs ->
  fst (bytes_unmarshal hb (frame a b c cs z)) = false.
Proof. exact bytes_nonhex. Qed.
Print Assumptions bytes_rejects_nonhex.

Theorem bytes_rejects_odd : forall hb a b c z cs,
  Nat.odd (length cs) = true ->
  fst (bytes_unmarshal hb (frame a b c cs z)) = false.
Proof. exact bytes_odd. Qed.
Print Assumptions bytes_rejects_odd.

(* totality: no token of any length and content makes a decoder panic; tokens
   shorter than 4 bytes are errors and leave the destination alone.
   (bytes_unmarshal returns a pair, it has no panic outcome by type; the
   correspondence run is what shows the implementation has none either.) *)
Theorem unmarshal_total : forall tok,
  uint64_unmarshal tok <> Panic /\ byte_unmarshal tok <> Panic.
Proof. exact unmarshal_never_panics. Qed.
Print Assumptions unmarshal_total.

Theorem short_tokens_rejected : forall tok, (length tok < 4)%nat ->
  uint64_unmarshal tok = Err /\ byte_unmarshal tok = Err /\
  forall hb, bytes_unmarshal hb tok = (false, hb).
Proof. exact short_token. Qed.
Print Assumptions short_tokens_rejected.

(* any sequence of decodes/writes into one destination, from any initial
   contents: every successful operation leaves exactly what the same operation
   leaves in a fresh destination *)
Theorem bytes_reuse_clean : forall ops hb,
  Forall2 (fun o r => fst r = true -> dstep [] o = r) ops (drun hb ops).
Proof. exact drun_history_free. Qed.
Print Assumptions bytes_reuse_clean.

(* big-endian integers: every 64-bit value, every pad width that is large
   enough (no upper limit), and the unpadded form *)
Theorem bint_roundtrip_padded : forall n w,
  n < two64 -> (size n <= w)%nat ->
  exists b, encode (Some (repeat 0 w)) n = Ok b /\ length b = w /\ wf_bytes b /\ decode64 b = n
            /\ b = repeat 0 (w - nbytes n) ++ be (nbytes n) n.
Proof. exact encode_padded_roundtrip. Qed.
Print Assumptions bint_roundtrip_padded.

Theorem bint_roundtrip_nil : forall n,
  n < two64 -> exists b, encode None n = Ok b /\ length b = size n /\ decode64 b = n.
Proof. exact encode_nil_roundtrip. Qed.
Print Assumptions bint_roundtrip_nil.

Theorem decode_hex_encode_hex : forall b, wf_bytes b -> decode_hex (encode_hex b) = b.
Proof. exact decode_hex_encode_hex_l. Qed.
Print Assumptions decode_hex_encode_hex.

(* non-vacuity: "0xFf" framed by quotes spells 255; "0xdeadBEEF" spells 4 bytes *)
Example ex_u64 : uint64_unmarshal (frame 34 48 120 [70; 102] 34) = Ok 255
  /\ Forall2 spells [70; 102] [15; 15] /\ val [15; 15] < two64.
Proof. repeat split; repeat constructor. Qed.
Example ex_bytes : Forall2 spells_byte [(100,101);(65,68)] [222; 173] /\ wf_bytes [222; 173].
Proof. split; repeat constructor. Qed.
