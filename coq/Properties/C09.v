(* C09 — ABI event data is decoded exactly for every type shape.
   Only property theorems (closed by [exact]), [Print Assumptions], examples.

   [json_of]/[event_of] print a type AST as the ABI JSON a Solidity compiler
   emits; [event_type false] is Event.ABIType (REPAIRED parser) on it;
   [decl_type] is the decoder type the JSON denotes.  [enc] is the Solidity ABI
   head/tail encoding, [result_scan] is Result.Scan (REPAIRED), [vrows] the
   bytes its cells alias, [rows_spec] the row rule stated on values. *)
From Coq Require Import String.
From Coq Require Import List NArith Bool.
From Shovel Require Import Base.Outcome Model.Hex Model.Bint Model.AbiType Model.AbiScan Model.AbiEnc
     Model.AbiParse Model.AbiSig Proofs.AbiScanP Proofs.AbiEncP Proofs.AbiParseP Proofs.AbiLegacyP.
Import ListNotations.
Open Scope N_scope.

(* every declaration: any elementary names, T[k] for EVERY k >= 1 and T[] in
   any number and order of suffixes, bytes vs bytesN, bytes[], string[], tuples
   of any width and depth, arrays of tuples, any choice of selected leaves *)
Theorem abi_type_of_print : forall name js,
  forallb wf_jty js = true ->
  event_type false (event_of name js) = Ok (decl_type js).
Proof. exact abi_type_of_print_l. Qed.
Print Assumptions abi_type_of_print.

(* every type in the domain of the row rule, every well-typed value (empty
   arrays and strings included), every trailing garbage, every previous state
   of the decoder: the decoded cells are exactly the encoded bytes, arranged
   as the row rule prescribes *)
Theorem scan_enc_exact : forall ncols t v rest s,
  has_type t v -> dom t = true -> sel_ok ncols t -> st_ok ncols s ->
  N.of_nat (length (enc t v ++ rest)) < 2 ^ 63 ->
  exists s', result_scan (enc t v ++ rest) ncols t s = SOk s' /\
             vrows (enc t v ++ rest) s' = rows_spec ncols t v.
Proof. exact scan_enc_exact_l. Qed.
Print Assumptions scan_enc_exact.

(* one decoder instance used repeatedly: after ANY history of inputs (valid,
   malformed, failing) the next valid encoding is decoded exactly *)
Theorem scan_reuse : forall ncols t v rest history,
  has_type t v -> dom t = true -> sel_ok ncols t ->
  N.of_nat (length (enc t v ++ rest)) < 2 ^ 63 ->
  exists s', result_scan (enc t v ++ rest) ncols t (after_scans ncols t (new_result ncols) history) = SOk s' /\
             vrows (enc t v ++ rest) s' = rows_spec ncols t v.
Proof. exact scan_reuse_l. Qed.
Print Assumptions scan_reuse.

(* scalars once, one row per element of the selected innermost arrays in
   order, one row when there is none; every row has ncols cells *)
Theorem rows_spec_shape : forall ncols t v,
  length (rows_spec ncols t v) = Nat.max 1 (length (elem_rows t v)) /\
  Forall (fun r => length r = ncols) (rows_spec ncols t v).
Proof. exact rows_spec_shape_l. Qed.
Print Assumptions rows_spec_shape.

(* the encoder's notion of static/dynamic (Solidity's) and the decoder's
   (hasStatic, sizeof) agree on every type and value *)
Theorem static_agrees : forall t, is_static t = negb (dyn_ty t).
Proof. exact is_static_dyn. Qed.
Print Assumptions static_agrees.

Theorem static_size_agrees : forall t v, dyn_ty t = false -> has_type t v -> blen (enc t v) = size t.
Proof. exact static_size. Qed.
Print Assumptions static_size_agrees.

(* the parser before fixes/C09-parsearray-digit-order.diff and
   fixes/C09-bytes-array-dynamic.diff: the full statement is false *)
Theorem legacy_abi_type_of_print_refuted :
  ~ (forall name js, forallb wf_jty js = true -> event_type true (event_of name js) = Ok (decl_type js)).
Proof. exact legacy_abi_type_of_print_refuted_l. Qed.
Print Assumptions legacy_abi_type_of_print_refuted.

(* non-vacuity: event E(uint256 a, string s, uint256[] xs, (uint256, bytes)[] ts)
   with a, s, xs and the bytes member selected *)
Definition ex_t : aty :=
  TTuple [TWord (Some 0%nat); TDyn (Some 1%nat); TArr 0 (TWord (Some 2%nat));
          TArr 0 (TTuple [TWord None; TDyn (Some 3%nat)])].
Definition ex_v : aval :=
  VTuple [VWord (word32 7); VBytes [104; 105]; VArr [VWord (word32 1); VWord (word32 2)];
          VArr [VTuple [VWord (word32 9); VBytes [65; 66; 67]]; VTuple [VWord (word32 10); VBytes []]]].
Example ex_hyps : has_typeb ex_t ex_v = true /\ dom ex_t = true /\ sel_okb 4 ex_t = true.
Proof. vm_compute. repeat split. Qed.
Example ex_rows :
  rows_spec 4 ex_t ex_v =
  [[Some (word32 7); Some [104; 105]; Some (word32 1); None];
   [Some (word32 7); Some [104; 105]; Some (word32 2); None];
   [Some (word32 7); Some [104; 105]; None; Some [65; 66; 67]];
   [Some (word32 7); Some [104; 105]; None; None]].
Proof. vm_compute. reflexivity. Qed.
Example ex_decl :
  event_type false (event_of (str "E") [JElem false (EUint 256) true [12; 0]; JElem false EBytes true [0]])
  = Ok (TTuple [TArr 0 (TArr 12 (TWord (Some 0%nat))); TArr 0 (TDyn (Some 1%nat))]).
Proof. vm_compute. reflexivity. Qed.

(* ======================= Bridge decoder -> key =======================
   How many rows Result.Scan hands out, derived from Model/AbiScan.v
   (Model/BridgeScanRows.v, Proofs/BridgeScanRowsP.v), and the discharge of
   the premise [single_row_scans] of the bridge unique key <-> rows
   (Properties/C16.v) for chains whose decodings are the decoder model's. *)
From Shovel Require Import Model.BridgeScanRows Proofs.BridgeScanRowsP.
From Shovel Require Model.Rows Model.RowsAbi Model.BridgeRowsTask Model.BridgeKey Proofs.BridgeKeyP
     Model.Config Model.ConfigGen Model.TaskTypes Model.TaskSpec Model.Filter.

(* (1) the row-count law, for EVERY type, EVERY input, every decoder state and
   current row: a scan that returns without error has created exactly
   [row_count D t o] rows -- a function of the type and of the length words the
   decoder reads from the data, not of the state; Result.Scan then hands out
   max(1, row_count) rows (Len() = number of rows of Bytes()); exactly one
   when no selected leaf lies under an array *)
Theorem scan_row_count : forall D ncols t,
  (forall s c o s', scan D ncols t s c o = SOk s' -> nrows s' = (nrows s + row_count D t o)%nat)
  /\ (forall s s', result_scan D ncols t s = SOk s' ->
        nrows s' = Nat.max 1 (row_count D t 0)
        /\ length (vrows D s') = Nat.max 1 (row_count D t 0)
        /\ (no_sel_arr t = true -> length (vrows D s') = 1%nat)).
Proof. exact scan_row_count_l. Qed.
Print Assumptions scan_row_count.

(* the formula [row_count] implements, shape by shape: nothing selected under
   an array: 0; an array with nothing selected below it: 0 (not walked); an
   array of non-arrays without further selected arrays inside: its element
   count; an array of arrays: the SUM of its elements' counts (no row of its
   own); an array of non-arrays in general: per element 1 + the element's own
   count (a selected array inside a tuple that is an array element adds
   FURTHER rows: sum, not product); tuple fields add up ([row_count] itself) *)
Theorem row_count_shapes : forall D,
  (forall t o, no_sel_arr t = true -> row_count D t o = O)
  /\ (forall k e o, has_select e = false -> row_count D (TArr k e) o = O)
  /\ (forall k e o, has_select e = true -> is_arr e = false -> no_sel_arr e = true ->
        row_count D (TArr k e) o = N.to_nat (arr_len D k o))
  /\ (forall k e o, has_select e = true -> is_arr e = true ->
        row_count D (TArr k e) o
        = nsum (N.to_nat (arr_len D k o)) 0 (fun i => row_count D e (elem_off D e o (arr_hd k) i)))
  /\ (forall k e o, has_select e = true -> is_arr e = false ->
        row_count D (TArr k e) o
        = nsum (N.to_nat (arr_len D k o)) 0 (fun i => S (row_count D e (elem_off D e o (arr_hd k) i)))).
Proof. exact row_count_shapes_l. Qed.
Print Assumptions row_count_shapes.

(* on the bytes of the encoding of a well-typed value, anywhere in the data,
   for EVERY type (outside [dom] too): the count is [val_rows], the same sum
   over the VALUE's arrays *)
Theorem row_count_of_encoding : forall D o t v,
  has_type t v -> AbiScan.L D < 2 ^ 63 ->
  (exists pre post, D = pre ++ enc t v ++ post /\ N.of_nat (length pre) = o) ->
  row_count D t o = val_rows t v.
Proof. exact row_count_of_encoding_l. Qed.
Print Assumptions row_count_of_encoding.

(* ... so a Result.Scan of an encoding that returns without error hands out
   max(1, val_rows) rows (success is a premise here; [scan_enc_exact] proves
   it on [dom]); on [dom] that is the number of rows of [rows_spec] *)
Theorem scan_enc_row_count : forall ncols t v rest s s',
  has_type t v -> N.of_nat (length (enc t v ++ rest)) < 2 ^ 63 ->
  result_scan (enc t v ++ rest) ncols t s = SOk s' ->
  length (vrows (enc t v ++ rest) s') = Nat.max 1 (val_rows t v).
Proof. exact scan_enc_row_count_l. Qed.
Print Assumptions scan_enc_row_count.

Theorem val_rows_on_domain : forall t v, dom t = true -> val_rows t v = length (elem_rows t v).
Proof. exact val_rows_elem_rows. Qed.
Print Assumptions val_rows_on_domain.

(* (2) a declaration (Rows.decl: top-level inputs without components) none of
   whose NON-INDEXED inputs is selected -- the case in which the generated
   unique key has no abi_idx column: whatever the types of the unselected data
   inputs (arrays of any nesting included) and whatever the log data, once
   Event.ABIType succeeds Result.Scan succeeds and hands out exactly one row
   (without cells); so every successful decoding has exactly one row.
   (A log with empty data is not scanned at all: Rows.process_log.) *)
Theorem no_selected_data_input_one_row : forall d data,
  BridgeKey.has_data d = false ->
  (forall t, RowsAbi.abi_ty d = Ok t -> RowsAbi.scan_rows d data = Ok [[]])
  /\ (forall srows, RowsAbi.scan_rows d data = Ok srows -> length srows = 1%nat).
Proof. exact no_selected_data_input_one_row_full. Qed.
Print Assumptions no_selected_data_input_one_row.

(* ... hence the premise of the key bridge holds on every chain whose
   decodings are the decoder model's, for every declaration and every chain *)
Theorem chain_with_scan_single_row_scans : forall d blocks,
  Forall (BridgeKey.single_row_scans d) (RowsAbi.chain_with_scan d blocks).
Proof. exact chain_with_scan_single_row_scans_l. Qed.
Print Assumptions chain_with_scan_single_row_scans.

(* (3) the main theorem of the bridge unique key <-> rows
   (C16.configured_index_is_task_key) WITHOUT the decoder premise, the
   well-formedness premises stated on the chain as the node serves it *)
Theorem configured_index_is_task_key_decoded :
  forall g g' dcl ctx dbs blocks (c : TaskTypes.tcfg) (d : TaskTypes.db),
  BridgeKey.user_plain g = true -> Config.t_unique (Config.ig_table g) = [] ->
  Config.fix_one ConfigGen.G g = Some g' -> BridgeKey.same_decl g' dcl ->
  BridgeRowsTask.rows_chain_wf blocks -> Forall BridgeRowsTask.wf_items blocks ->
  BridgeRowsTask.inserts_ok dcl ctx dbs (RowsAbi.chain_with_scan dcl blocks) ->
  N.of_nat (List.length blocks) < TaskSpec.nmax ->
  TaskSpec.TaskInvG c (BridgeRowsTask.inst_chain dcl ctx dbs (RowsAbi.chain_with_scan dcl blocks)) d ->
  exists u, Config.t_unique (Config.ig_table g') = [u] /\
  forall r r', In r (TaskTypes.d_rows (TaskSpec.pv c d)) -> In r' (TaskTypes.d_rows (TaskSpec.pv c d)) ->
  exists gr gr',
    TaskTypes.r_val r = BridgeRowsTask.enc_row gr /\ TaskTypes.r_val r' = BridgeRowsTask.enc_row gr'
    /\ Forall BridgeKey.not_null (BridgeKey.uproj dcl u gr) /\ Forall BridgeKey.not_null (BridgeKey.uproj dcl u gr')
    /\ (BridgeKey.uproj dcl u gr = BridgeKey.uproj dcl u gr'
        <-> TaskTypes.r_bnum r = TaskTypes.r_bnum r' /\ TaskTypes.r_key r = TaskTypes.r_key r').
Proof. exact configured_index_is_task_key_decoded_l. Qed.
Print Assumptions configured_index_is_task_key_decoded.

(* non-vacuity.  Transfer(address indexed from, address indexed to, uint256
   value) with only from, to selected: no abi_idx in the generated key, the
   data word decodes to ONE row, two such logs of one transaction give two
   rows with different log_idx *)
Example transfer_indexed_only_one_row :
  BridgeKey.user_plain tri_ig = true
  /\ Config.t_unique (Config.ig_table tri_fixed)
     = [[BridgeKey.kn_ig; BridgeKey.kn_src; BridgeKey.kn_block; BridgeKey.kn_tx; BridgeKey.kn_log]]
  /\ BridgeKey.has_data tri_decl = false
  /\ RowsAbi.abi_ty tri_decl = Ok (TTuple [TWord None])
  /\ RowsAbi.scan_rows tri_decl tri_data = Ok [[]]
  /\ option_map (fun b => match BridgeRowsTask.kinsert tri_decl BridgeKey.erc_ctx [] b with
                          | Ok l => map fst l | _ => [] end)
                (nth_error (RowsAbi.chain_with_scan tri_decl tri_blocks) 0)
     = Some [BridgeRowsTask.Key 2 (Some 5) (Some 0%nat) None; BridgeRowsTask.Key 2 (Some 6) (Some 0%nat) None].
Proof. vm_compute. repeat split. Qed.

(* the shape one might suspect -- E(address indexed a, uint256[] xs), only [a]
   selected, xs = [1; 2; 3] in the data (160 bytes): ONE row, not three: the
   guard `if !t.hasSelect() { return nil }` of the event tuple returns before
   the array is walked; the same array SELECTED gives three *)
Example unselected_array_one_row :
  BridgeKey.has_data sus_decl = false
  /\ RowsAbi.abi_ty sus_decl = Ok (TTuple [TArr 0 (TWord None)])
  /\ length sus_data = 160%nat
  /\ RowsAbi.scan_rows sus_decl sus_data = Ok [[]]
  /\ row_count sus_data (TTuple [TArr 0 (TWord None)]) 0 = 0%nat
  /\ row_count sus_data (TTuple [TArr 0 (TWord (Some 0%nat))]) 0 = 3%nat.
Proof. vm_compute. repeat split. Qed.

(* nesting: N(uint256[][] m, (uint256 a, uint256[] ys)[] ts, uint256[] zs),
   m = [[1,2],[],[3]], ts = [(4,[5,6]),(7,[])], zs = [8,9]:
   (2+0+1) + ((1+2)+(1+0)) + 2 = 9 rows -- a type outside [dom] *)
Example nested_row_count :
  has_typeb nest_t nest_v = true /\ dom nest_t = false
  /\ val_rows nest_t nest_v = 9%nat
  /\ row_count (enc nest_t nest_v) nest_t 0 = 9%nat
  /\ match result_scan (enc nest_t nest_v) 4 nest_t (new_result 4) with
     | SOk s => length (vrows (enc nest_t nest_v) s) = 9%nat
     | _ => False
     end.
Proof. vm_compute. repeat split. Qed.
