(* C09 — ABI event data is decoded exactly for every type shape.
   Only property theorems (closed by [exact]), [Print Assumptions], examples.

   [json_of]/[event_of] print a type AST as the ABI JSON a Solidity compiler
   emits; [event_type false] is Event.ABIType (REPAIRED parser) on it;
   [decl_type] is the decoder type the JSON denotes.  [enc] is the Solidity ABI
   head/tail encoding, [result_scan] is Result.Scan (REPAIRED), [vrows] the
   bytes its cells alias, [rows_spec] the row rule stated on values. *)
From Coq Require Import String.
From Coq Require Import List NArith Bool.
From Shovel Require Import Base.Outcome Model.Hex Model.Bint Model.AbiType Model.AbiScan Model.AbiEnc
     Model.AbiParse Model.AbiSig Proofs.AbiScanP Proofs.AbiEncP Proofs.AbiParseP Proofs.AbiLegacyP.
Import ListNotations.
Open Scope N_scope.

(* every declaration: any elementary names, T[k] for EVERY k >= 1 and T[] in
   any number and order of suffixes, bytes vs bytesN, bytes[], string[], tuples
   of any width and depth, arrays of tuples, any choice of selected leaves *)
Theorem abi_type_of_print : forall name js,
  forallb wf_jty js = true ->
  event_type false (event_of name js) = Ok (decl_type js).
Proof. exact abi_type_of_print_l. Qed.
Print Assumptions abi_type_of_print.

(* every type in the domain of the row rule, every well-typed value (empty
   arrays and strings included), every trailing garbage, every previous state
   of the decoder: the decoded cells are exactly the encoded bytes, arranged
   as the row rule prescribes *)
Theorem scan_enc_exact : forall ncols t v rest s,
  has_type t v -> dom t = true -> sel_ok ncols t -> st_ok ncols s ->
  N.of_nat (length (enc t v ++ rest)) < 2 ^ 63 ->
  exists s', result_scan (enc t v ++ rest) ncols t s = SOk s' /\
             vrows (enc t v ++ rest) s' = rows_spec ncols t v.
Proof. exact scan_enc_exact_l. Qed.
Print Assumptions scan_enc_exact.

(* one decoder instance used repeatedly: after ANY history of inputs (valid,
   malformed, failing) the next valid encoding is decoded exactly *)
Theorem scan_reuse : forall ncols t v rest history,
  has_type t v -> dom t = true -> sel_ok ncols t ->
  N.of_nat (length (enc t v ++ rest)) < 2 ^ 63 ->
  exists s', result_scan (enc t v ++ rest) ncols t (after_scans ncols t (new_result ncols) history) = SOk s' /\
             vrows (enc t v ++ rest) s' = rows_spec ncols t v.
Proof. exact scan_reuse_l. Qed.
Print Assumptions scan_reuse.

(* scalars once, one row per element of the selected innermost arrays in
   order, one row when there is none; every row has ncols cells *)
Theorem rows_spec_shape : forall ncols t v,
  length (rows_spec ncols t v) = Nat.max 1 (length (elem_rows t v)) /\
  Forall (fun r => length r = ncols) (rows_spec ncols t v).
Proof. exact rows_spec_shape_l. Qed.
Print Assumptions rows_spec_shape.

(* the encoder's notion of static/dynamic (Solidity's) and the decoder's
   (hasStatic, sizeof) agree on every type and value *)
Theorem static_agrees : forall t, is_static t = negb (dyn_ty t).
Proof. exact is_static_dyn. Qed.
Print Assumptions static_agrees.

Theorem static_size_agrees : forall t v, dyn_ty t = false -> has_type t v -> blen (enc t v) = size t.
Proof. exact static_size. Qed.
Print Assumptions static_size_agrees.

(* the parser before fixes/C09-parsearray-digit-order.diff and
   fixes/C09-bytes-array-dynamic.diff: the full statement is false *)
Theorem legacy_abi_type_of_print_refuted :
  ~ (forall name js, forallb wf_jty js = true -> event_type true (event_of name js) = Ok (decl_type js)).
Proof. exact legacy_abi_type_of_print_refuted_l. Qed.
Print Assumptions legacy_abi_type_of_print_refuted.

(* non-vacuity: event E(uint256 a, string s, uint256[] xs, (uint256, bytes)[] ts)
   with a, s, xs and the bytes member selected *)
Definition ex_t : aty :=
  TTuple [TWord (Some 0%nat); TDyn (Some 1%nat); TArr 0 (TWord (Some 2%nat));
          TArr 0 (TTuple [TWord None; TDyn (Some 3%nat)])].
Definition ex_v : aval :=
  VTuple [VWord (word32 7); VBytes [104; 105]; VArr [VWord (word32 1); VWord (word32 2)];
          VArr [VTuple [VWord (word32 9); VBytes [65; 66; 67]]; VTuple [VWord (word32 10); VBytes []]]].
Example ex_hyps : has_typeb ex_t ex_v = true /\ dom ex_t = true /\ sel_okb 4 ex_t = true.
Proof. vm_compute. repeat split. Qed.
Example ex_rows :
  rows_spec 4 ex_t ex_v =
  [[Some (word32 7); Some [104; 105]; Some (word32 1); None];
   [Some (word32 7); Some [104; 105]; Some (word32 2); None];
   [Some (word32 7); Some [104; 105]; None; Some [65; 66; 67]];
   [Some (word32 7); Some [104; 105]; None; None]].
Proof. vm_compute. reflexivity. Qed.
Example ex_decl :
  event_type false (event_of (str "E") [JElem false (EUint 256) true [12; 0]; JElem false EBytes true [0]])
  = Ok (TTuple [TArr 0 (TArr 12 (TWord (Some 0%nat))); TArr 0 (TDyn (Some 1%nat))]).
Proof. vm_compute. reflexivity. Qed.
