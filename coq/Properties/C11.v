(* C11 — each column receives the value of the field it names, with the
   documented typing.  Only property theorems here, each closed by [exact] of a
   lemma from Proofs/, each followed by [Print Assumptions].

   Model: Model/Rows.v (dig.go setCols/setIndexing/Insert/processLog/processTx/
   logWithCtx.get/dbtype/negInt as repaired by fixes/C11-*.diff; [fixed]) over
   Model/Filter.v.  ABI decoding of the log data is a given ([l_scan]); inputs
   are the event's top-level inputs.  [process_log] is one call of processLog,
   [insert] the rows Insert hands to COPY. *)
From Coq Require Import String Ascii List NArith ZArith Bool.
From Shovel Require Import Base.Outcome Model.Hex Model.Filter Model.Rows
     Proofs.FilterP Proofs.RowsP Proofs.C11P.
From Shovel Require Model.AbiType Model.AbiScan Model.AbiEnc Model.AbiParse Model.RowsAbi Proofs.RowsAbiP.
Import ListNotations.
Open Scope N_scope.

(* An indexed input declared after the inputs [pre] (selected or not, indexed
   or not, any number) and bound to a column: in every emitted row that column
   (position = number of selected inputs before it) holds the typed value of
   topic 1 + (number of indexed inputs among [pre]) -- its own topic, whatever
   else is selected.  Logs with and without data. *)
Theorem indexed_input_from_own_topic : forall d dbs e l rows r pre inp post,
  process_log fixed d dbs e l = Ok rows -> In r rows ->
  d_inputs d = pre ++ inp :: post -> selected inp = true -> i_indexed inp = true ->
  exists tp, nth_error (l_topics l) (1 + count i_indexed pre) = Some tp /\
             nth_error r (count selected pre) = Some (dbtype fixed (i_type inp) (Some tp)).
Proof. exact indexed_input_l. Qed.
Print Assumptions indexed_input_from_own_topic.

(* A non-indexed selected input: its column holds the typed value of its own
   cell (ordinal among the selected non-indexed inputs) of the decoded row the
   emitted row was built from. *)
Theorem data_input_from_scan_row : forall d dbs e l rows r pre inp post,
  process_log fixed d dbs e l = Ok rows -> In r rows ->
  d_inputs d = pre ++ inp :: post -> selected inp = true -> i_indexed inp = false ->
  exists srows i srow c,
    l_scan l = Ok srows /\ nth_error srows i = Some srow /\
    nth_error srow (count is_data pre) = Some c /\
    nth_error r (count selected pre) = Some (dbtype fixed (i_type inp) c).
Proof. exact data_input_l. Qed.
Print Assumptions data_input_from_scan_row.

(* One candidate row per decoded row (array element), in order; the emitted
   rows are the accepted candidates in that order; candidate number i -- counted
   from zero -- carries i in every abi_idx column. *)
Theorem abi_idx_counts_from_zero : forall d dbs e l rows,
  process_log fixed d dbs e l = Ok rows -> gate d l = true -> l_data l <> [] ->
  exists srows cands,
    l_scan l = Ok srows /\ length cands = length srows /\ rows = concat (map emit cands) /\
    forall i c, nth_error cands i = Some c ->
      forall k bd, nth_error (d_block d) k = Some bd -> bd_name bd = s2b "abi_idx" ->
        nth_error (fst c) (num_selected d + k) = Some (VInt (Z.of_nat i)).
Proof. exact abi_idx_l. Qed.
Print Assumptions abi_idx_counts_from_zero.

(* Block-data columns: every row that Insert emits was built for one log /
   transaction / trace action of the given blocks, and each column bound to a
   field name holds that field of THAT item's block, transaction, log, trace
   action (28 names, [field_of]); columns in declaration order after the
   selected inputs. *)
Theorem block_field_of_enclosing_item_log : forall d c dbs blocks rows r,
  indexing fixed d = IxLog -> insert fixed d c dbs blocks = Ok rows -> In r rows ->
  exists b t l, In b blocks /\ In t (b_txs b) /\ In l (t_logs t) /\
    enclosing_fields d c b t (Some l) None (num_selected d) r.
Proof. exact block_field_log. Qed.
Print Assumptions block_field_of_enclosing_item_log.

Theorem block_field_of_enclosing_item_tx : forall d c dbs blocks rows r,
  indexing fixed d = IxTx -> insert fixed d c dbs blocks = Ok rows -> In r rows ->
  exists b t, In b blocks /\ In t (b_txs b) /\ enclosing_fields d c b t None None 0 r.
Proof. exact block_field_tx. Qed.
Print Assumptions block_field_of_enclosing_item_tx.

Theorem block_field_of_enclosing_item_trace : forall d c dbs blocks rows r,
  indexing fixed d = IxTrace -> insert fixed d c dbs blocks = Ok rows -> In r rows ->
  exists b t a, In b blocks /\ In t (b_txs b) /\ In a (t_traces t) /\
    enclosing_fields d c b t None (Some a) 0 r.
Proof. exact block_field_trace. Qed.
Print Assumptions block_field_of_enclosing_item_trace.

(* the string switch of logWithCtx.get is the table [field_of] *)
Theorem get_field_table : forall f c d b t l a,
  get_field (mk_env c d b t l a) (s2b (field_name f)) =
  match field_of f c (d_name d) b t l a with Some v => Ok v | None => Panic end.
Proof. exact get_field_field_of. Qed.
Print Assumptions get_field_table.

(* The combined statement: every emitted row is, column by column, what the
   declaration says ([row_spec]: every selected input's column, every
   block-data column, and nothing else: length = #selected + #block data). *)
Theorem row_cells_spec : forall d dbs e l rows r,
  process_log fixed d dbs e l = Ok rows -> In r rows ->
  gate d l = true /\
  ((l_data l <> [] /\ exists srows i srow, l_scan l = Ok srows /\ nth_error srows i = Some srow
                                           /\ row_spec d e l (Some i) srow r)
   \/ (l_data l = [] /\ row_spec d e l None [] r)).
Proof. exact process_log_row_spec. Qed.
Print Assumptions row_cells_spec.

Theorem tx_row_cells_spec : forall d dbs e rows r,
  process_tx d dbs e = Ok rows -> In r rows ->
  num_selected d = 0%nat /\ length r = num_bd d /\
  forall k bd, nth_error (d_block d) k = Some bd ->
    nth_error r k = spec_block_cell bd e None /\ spec_block_cell bd e None <> None.
Proof. exact process_tx_row_spec. Qed.
Print Assumptions tx_row_cells_spec.

(* the column names given to COPY are the declared ones, in the same order as the cells *)
Theorem copy_columns_in_declaration_order : forall d,
  (forall i, In i (d_inputs d) -> selected i = true -> In (i_column i) (d_table_cols d)) ->
  (forall bd, In bd (d_block d) -> In (bd_column bd) (d_table_cols d)) ->
  copy_columns d = map i_column (filter selected (d_inputs d)) ++ map bd_column (d_block d).
Proof. exact copy_columns_l. Qed.
Print Assumptions copy_columns_in_declaration_order.

(* ---- typing ([cell_of]: what COPY receives; [word_of_N]/[word_of_Z]: the
   32-byte ABI word) ---- *)

(* uintN and arrays of it, every N: exact decimal of the unsigned word *)
Theorem typing_uint_exact : forall rest v, v < two256 ->
  cell_of (dbtype fixed (s2b "uint" ++ rest) (Some (word_of_N v))) = CInt (Z.of_N v).
Proof. exact typing_uint_l. Qed.
Print Assumptions typing_uint_exact.

(* intN and arrays of it: the signed value of the 256-bit two's complement word *)
Theorem typing_int_twos_complement : forall rest z,
  (- Z.of_N two255 <= z < Z.of_N two255)%Z ->
  cell_of (dbtype fixed (s2b "int" ++ rest) (Some (word_of_Z z))) = CInt z.
Proof. exact dbtype_int. Qed.
Print Assumptions typing_int_twos_complement.

(* every width w = 1..256 (8, 16, ..., 256 in particular) and every value of
   that width: the w-bit two's complement pattern, sign-extended to the word as
   the ABI prescribes, is stored as the signed value *)
Theorem typing_int_all_widths : forall rest w z,
  0 < w <= 256 -> (- 2 ^ (Z.of_N w - 1) <= z < 2 ^ (Z.of_N w - 1))%Z ->
  cell_of (dbtype fixed (s2b "int" ++ rest)
                  (Some (word_of_N (sign_extend w (Z.to_N (z mod 2 ^ Z.of_N w)))))) = CInt z.
Proof. exact typing_int_width. Qed.
Print Assumptions typing_int_all_widths.

Theorem typing_address : forall rest a, length a = 20%nat ->
  dbtype fixed (s2b "address" ++ rest) (Some (repeat 0 12 ++ a)) = VBytes (Some a).
Proof. exact dbtype_address. Qed.
Print Assumptions typing_address.

Theorem typing_bool : forall b : bool,
  dbtype fixed (s2b "bool") (Some (word_of_N (if b then 1 else 0))) = VBool b /\
  (forall k, dbtype fixed (s2b "bool" ++ 91 :: k) (Some (word_of_N (if b then 1 else 0))) = VBool b).
Proof. exact dbtype_bool. Qed.
Print Assumptions typing_bool.

Theorem typing_string : forall s,
  dbtype fixed (s2b "string") (Some s) = VStr s /\ dbtype fixed (s2b "string") None = VStr [] /\
  (forall k, dbtype fixed (s2b "string" ++ 91 :: k) (Some s) = VStr s).
Proof. exact dbtype_string. Qed.
Print Assumptions typing_string.

Theorem typing_bytes : forall s,
  dbtype fixed (s2b "bytes") (Some s) = VBytes (Some s) /\
  dbtype fixed (s2b "bytes") None = VBytes (Some []) /\
  (forall k, dbtype fixed (s2b "bytes" ++ 91 :: k) (Some s) = VBytes (Some s)).
Proof. exact dbtype_bytes. Qed.
Print Assumptions typing_bytes.

Theorem typing_bytesN : forall d c rest, c <> 91 ->
  dbtype fixed (s2b "bytes" ++ c :: rest) d = VBytes d.
Proof. exact dbtype_bytesN. Qed.
Print Assumptions typing_bytesN.

(* ---- the code before the repairs (witnesses replayed by the harness) ---- *)

(* C11's topic statement fails for the unrepaired counter: event (a indexed
   unselected, b indexed selected), b's column receives a's topic *)
Theorem legacy_topic_refuted : ~ topic_statement legacy_topic.
Proof. exact legacy_topic_refuted_l. Qed.
Print Assumptions legacy_topic_refuted.

Theorem legacy_topic_refuted_nodata :
  insert_cells legacy_topic w_decl w_ctx [] [w_block] = Ok [[CInt 1]]
  /\ insert_cells fixed w_decl w_ctx [] [w_block] = Ok [[CInt 2]].
Proof. exact legacy_topic_witness. Qed.
Print Assumptions legacy_topic_refuted_nodata.

(* bool[] elements were stored as the raw word *)
Theorem legacy_dbtype_refuted :
  dbtype legacy (s2b "bool[]") (Some (word_of_N 1)) = VBytes (Some (word_of_N 1))
  /\ dbtype fixed (s2b "bool[]") (Some (word_of_N 1)) = VBool true.
Proof. exact legacy_dbtype_witness. Qed.
Print Assumptions legacy_dbtype_refuted.

(* a trace field bound to a column not named trace_*: nil dereference *)
Theorem legacy_trace_refuted :
  insert_cells {| lg_topic := false; lg_dbtype := false; lg_trace := true |} w_decl_trace w_ctx [] [w_block] = Panic
  /\ insert_cells fixed w_decl_trace w_ctx [] [w_block] = Ok [[CBytes [9]]].
Proof. exact legacy_trace_witness. Qed.
Print Assumptions legacy_trace_refuted.

(* ---- non-vacuity ---- *)
Example ex_row : exists rows, process_log fixed w_decl []
    (mk_env w_ctx w_decl w_block w_tx (Some w_log_data) None) w_log_data = Ok rows /\ rows <> [].
Proof. eexists. split; [vm_compute; reflexivity|discriminate]. Qed.
Example ex_int8 : cell_of (dbtype fixed (s2b "int8")
    (Some (word_of_N (sign_extend 8 (Z.to_N ((-128) mod 2 ^ 8)))))) = CInt (-128).
Proof. vm_compute. reflexivity. Qed.
Example ex_int256_min : cell_of (dbtype fixed (s2b "int256") (Some (word_of_Z (- Z.of_N two255)))) = CInt (- Z.of_N two255).
Proof. vm_compute. reflexivity. Qed.

(* ---- composed with the decoder model of C09/C10 (Model/RowsAbi.v) ----------
   [with_scan d l] is the log with its decoded rows computed by the ABI model:
   Event.ABIType (Model/AbiParse.v) on the declaration's type strings, then
   Result.Scan (Model/AbiScan.v) on the log's data.  [tin] is an input whose
   type string is the print of an elementary name with array suffixes; [enc]
   is the independent Solidity ABI encoding of Model/AbiEnc.v. *)
Import Model.AbiType Model.AbiScan Model.AbiEnc Model.AbiParse Model.RowsAbi Proofs.RowsAbiP.

(* From VALUES to CELLS.  Declaration: any number and order of inputs, indexed
   or not, selected or not, of any elementary type with any array suffixes --
   restricted ([e2e_dom]) to: every SELECTED non-indexed input is a scalar, except
   at most one, which is a one-level array T[] or T[k]; no tuple components.
   Log: topics pass the gate, data = enc(values) followed by anything.  Then
   processLog (decoder inside the model) builds one candidate row per element of
   the selected array (one if it is empty or there is none), emits the accepted
   ones in order, and candidate i holds, column by column ([row_spec_v]): for a
   data input the typed value of ITS OWN VALUE (element i of the array), taken
   from the values, not from bytes; for an indexed input its own topic; for
   block data the enclosing item's field; abi_idx = i. *)
Theorem log_rows_end_to_end : forall d xs vs rest dbs e l rows,
  d_inputs d = map tin_input xs -> e2e_dom xs false = true ->
  Forall2 has_type (decl_fields (map tin_jty xs) 0) vs ->
  l_data l = enc (tins_type xs) (VTuple vs) ++ rest -> l_data l <> [] ->
  N.of_nat (length (l_data l)) < 2 ^ 63 ->
  gate d l = true ->
  process_log fixed d dbs e (with_scan d l) = Ok rows ->
  exists cands,
    length cands = arr_rows xs vs /\ rows = concat (map emit cands) /\
    forall i c, nth_error cands i = Some c -> row_spec_v d xs vs e l i (fst c).
Proof. exact end_to_end. Qed.
Print Assumptions log_rows_end_to_end.

(* for EVERY elementary-based declaration (no domain restriction): the decoder
   type the model derives is the one the declaration denotes, it is in the
   domain of C09's row rule, and the model's decoding of a well-formed encoding
   is the row rule on the values *)
Theorem declared_type_parsed : forall d xs,
  d_inputs d = map tin_input xs -> abi_ty d = Ok (tins_type xs) /\ dom (tins_type xs) = true.
Proof. intros d xs E. split; [exact (abi_ty_tins d xs E)|exact (dom_tins xs)]. Qed.
Print Assumptions declared_type_parsed.

Theorem model_decodes_encodings : forall d xs v rest,
  d_inputs d = map tin_input xs -> has_type (tins_type xs) v ->
  N.of_nat (length (enc (tins_type xs) v ++ rest)) < 2 ^ 63 ->
  scan_rows d (enc (tins_type xs) v ++ rest) = Ok (rows_spec (count tin_data xs) (tins_type xs) v).
Proof. exact scan_rows_enc. Qed.
Print Assumptions model_decodes_encodings.

(* end to end: E(uint256 indexed a [no column], uint8 indexed b, uint16[] xs, string s), all but a
   selected; values xs = [7; 300], s = "hi"; trailing garbage after the encoding *)
Definition ex_tins : list tin :=
  [ {| tn_indexed := true; tn_name := EUint 256; tn_dims := []; tn_column := []; tn_filter := no_filter |};
    {| tn_indexed := true; tn_name := EUint 8; tn_dims := []; tn_column := s2b "b"; tn_filter := no_filter |};
    {| tn_indexed := false; tn_name := EUint 16; tn_dims := [0]; tn_column := s2b "xs"; tn_filter := no_filter |};
    {| tn_indexed := false; tn_name := EString; tn_dims := []; tn_column := s2b "s"; tn_filter := no_filter |} ].
Definition ex_vals : list aval := [VArr [VWord (word_of_N 7); VWord (word_of_N 300)]; AbiEnc.VBytes [104; 105]].
Definition ex_decl : decl :=
  {| d_name := s2b "ig"; d_inputs := map tin_input ex_tins;
     d_block := [{| bd_name := s2b "abi_idx"; bd_column := s2b "abi_idx"; bd_filter := no_filter |}];
     d_table_cols := [s2b "b"; s2b "xs"; s2b "s"; s2b "abi_idx"]; d_agg := []; d_sighash := [7] |}.
Definition ex_log : logr :=
  {| l_idx := 0; l_addr := Some []; l_topics := [[7]; word_of_N 1; word_of_N 2];
     l_data := enc (tins_type ex_tins) (VTuple ex_vals) ++ [1; 2; 3]; l_scan := Panic |}.
Example ex_end_to_end :
  e2e_dom ex_tins false = true /\ gate ex_decl ex_log = true /\
  process_log fixed ex_decl [] (mk_env w_ctx ex_decl w_block w_tx (Some ex_log) None) (with_scan ex_decl ex_log)
  = Ok [[VU256 2; VU256 7; VStr [104; 105]; VInt 0]; [VU256 2; VU256 300; VStr [104; 105]; VInt 1]].
Proof. repeat split; vm_compute; reflexivity. Qed.
