(* C01 -- every block in range is indexed exactly once (growth-only
   histories).  [canon] is the canonical chain all versions are prefixes of;
   [growth_reply hs canon] (Model/TaskSpec.v): every delivered partition is
   the requested segment of canon, every hash / head answer is a block of
   canon (whatever version answered).  All theorems hold for EVERY
   batch >= 1 and concurrency >= 1, through the partition arithmetic of
   Task.load ([partitions_tile]). *)
From Coq Require Import List NArith Bool.
From Shovel Require Import Base.Outcome.
From Shovel Require Model.Client Model.ClientSpec Proofs.BridgeClientTaskP.
From Shovel Require Import Model.TaskTypes Model.TaskDb Model.Task Model.TaskNode Model.TaskSys
  Model.TaskSpec Model.TaskWitness Proofs.TaskArithP Proofs.TaskLegacyP Proofs.C01P Proofs.TaskLiveP.
Import ListNotations.
Open Scope N_scope.

(* the partitions of a load tile [start, start+limit) exactly: contiguous,
   non-empty pieces -- batch < concurrency and non-divisible pairs included *)
Theorem load_partitions_tile : forall c start limit,
  cfg_ok c -> 1 <= limit -> limit <= t_batch c -> start < two63 ->
  tiles start (start + limit) (partitions repaired c start limit).
Proof. exact partitions_tile. Qed.
Print Assumptions load_partitions_tile.

(* one step, any replies of a growing chain, any faults: a success appends
   exactly the next k blocks of canon, 1 <= k <= batch, after the position;
   nothing is ever unwound; everything outside the pair is untouched *)
Theorem step_advances_exactly : forall c canon,
  cfg_ok c -> wf_chain canon -> height canon < nmax -> forall g d s,
  pv c d = render c g -> wf_ghost c g -> Forall (on_chain (t_hashes c) canon) (concat g) ->
  trace_sat (growth_reply (t_hashes c) canon) (step c s d) ->
  r_out (step c s d) = Fin OConverged ->
  exists ln lh k,
    TaskInvP.pos_of c (HPg canon) (HDg canon) g ln lh /\ 1 <= k /\ k <= t_batch c
    /\ ln + k < height canon
    /\ pv c (r_db (step c s d)) = render c (g ++ [view (t_hashes c) (segment canon (ln + 1) k)])
    /\ outside c (r_db (step c s d)) = outside c d.
Proof. exact growth_converged. Qed.
Print Assumptions step_advances_exactly.

(* a step that does not report success leaves the pair untouched *)
Theorem step_failed_unchanged : forall c canon,
  cfg_ok c -> wf_chain canon -> height canon < nmax -> forall g d s,
  pv c d = render c g -> wf_ghost c g -> Forall (on_chain (t_hashes c) canon) (concat g) ->
  trace_sat (growth_reply (t_hashes c) canon) (step c s d) ->
  forall o, (forall i r, growth_reply (t_hashes c) canon i r -> r <> RFail KDropAfter) ->
  r_out (step c s d) = Fin o -> o <> OConverged -> pv c (r_db (step c s d)) = pv c d.
Proof. exact growth_not_converged. Qed.
Print Assumptions step_failed_unchanged.

(* invariant over whole runs (any interleaving of steps with growth, any
   faults, crashes, restarts): the indexed blocks are blocks of canon ... *)
Theorem growth_invariant : forall c canon,
  cfg_ok c -> wf_chain canon -> height canon < nmax -> forall ss d,
  TaskInvG c canon d -> runs_sat (growth_reply (t_hashes c) canon) c ss d ->
  Forall (TaskInvG c canon) (run_dbs c ss d) /\ TaskInvG c canon (run_end c ss d).
Proof. exact growth_runs. Qed.
Print Assumptions growth_invariant.

(* ... hence the table is exactly the projection of the contiguous run of
   canon that ends at the recorded position: each block's rows once, nothing
   else *)
Theorem growth_table_is_projection : forall c canon, height canon < nmax -> forall d,
  TaskInvG c canon d ->
  (d_rows (pv c d) = [] /\ d_curs (pv c d) = [])
  \/ exists m k n h,
       d_rows (pv c d) = rows_of c (view (t_hashes c) (segment canon m k))
       /\ 1 <= k /\ m + k <= height canon
       /\ newest (t_src c) (t_ig c) (d_curs d) = Some (n, h) /\ n + 1 = m + k.
Proof. exact growth_projection. Qed.
Print Assumptions growth_table_is_projection.

(* LIVENESS, fault-free steps against an honest node serving [ch] (integration
   without filter references; row keys distinct inside a block).  [at_pos c g
   ln]: ln is the recorded position, or start-1 when nothing is recorded and a
   start is configured.  [hstepf c ch d]: the database after one such step. *)

(* growth_progress: if the position is below the target min(head, stop) the
   step converges and appends exactly the next delta = min(target-ln, batch)
   >= 1 blocks -- for every batch x concurrency *)
Theorem growth_progress : forall c ch,
  cfg_ok c -> wf_chain ch -> height ch < nmax -> t_deps c = [] ->
  (forall b, In b ch -> NoDup (map fst (b_rows b))) ->
  forall g d ln x,
  pv c d = render c g -> wf_ghost c g -> Forall (on_chain (t_hashes c) ch) (concat g) ->
  blk_at ch ln = Some x -> at_pos c g ln -> ln < clip c (top ch) ->
  let x1 := exec_honest 400 (t_uniq c) (t_hashes c) ch (converge c) d None in
  let delta := delta_of c ln (clip c (top ch)) in
  r_out x1 = Fin OConverged /\ r_cs x1 = None /\ 1 <= delta
  /\ pv c (r_db x1) = render c (g ++ [view (t_hashes c) (segment ch (ln + 1) delta)])
  /\ outside c (r_db x1) = outside c d
  /\ wf_ghost c (g ++ [view (t_hashes c) (segment ch (ln + 1) delta)])
  /\ Forall (on_chain (t_hashes c) ch) (concat (g ++ [view (t_hashes c) (segment ch (ln + 1) delta)]))
  /\ exists h, gpos (g ++ [view (t_hashes c) (segment ch (ln + 1) delta)]) = Some (ln + delta, h).
Proof. exact progress_lemma. Qed.
Print Assumptions growth_progress.

(* growth_reaches_head: at most target-ln fault-free steps bring the recorded
   position to the target, with all indexed blocks on the chain (hence, by
   growth_table_is_projection, the table = projection up to the target) *)
Theorem growth_reaches_head : forall c ch,
  cfg_ok c -> wf_chain ch -> height ch < nmax -> t_deps c = [] ->
  (forall b, In b ch -> NoDup (map fst (b_rows b))) ->
  forall g d ln x,
  pv c d = render c g -> wf_ghost c g -> Forall (on_chain (t_hashes c) ch) (concat g) ->
  blk_at ch ln = Some x -> at_pos c g ln -> ln < clip c (height ch - 1) ->
  exists n g', (1 <= n <= N.to_nat (clip c (height ch - 1) - ln))%nat
    /\ pv c (iter (hstepf c ch) n d) = render c g' /\ wf_ghost c g'
    /\ Forall (on_chain (t_hashes c) ch) (concat g')
    /\ (exists h, gpos g' = Some (clip c (height ch - 1), h))
    /\ outside c (iter (hstepf c ch) n d) = outside c d.
Proof. exact reach_lemma. Qed.
Print Assumptions growth_reaches_head.

(* BRIDGE to the client model (Model/Client.v, C07).  The theorems above
   assume [reply_ok]: every delivered partition of a load is numbered as
   requested.  For every partition answered by the modelled jrpc2 client this
   is a THEOREM: whenever [Client.get p s l w] returns [Ok bs] -- for every
   plan, range and family of replies [w] -- the abstraction of [bs] to the task
   model's blocks ([abs hid rowsf]: numbers kept, hashes mapped to ids by any
   [hid] sending exactly the empty hash to 0, everything else of a block
   reduced to the rows [rowsf] the integration derives from it) satisfies
   [seg_numbered (s, l)] (by C07 get_ok_exact_numbers), hence a load all of
   whose partitions are answered by the client (or fail) satisfies [reply_ok]. *)
Theorem client_partition_numbered : forall hid rowsf p s l w bs,
  Client.get p s l w = Ok bs ->
  seg_numbered (s, l) (SegOk (map (BridgeClientTaskP.abs hid rowsf) bs)).
Proof. exact BridgeClientTaskP.get_seg_numbered. Qed.
Print Assumptions client_partition_numbered.

Theorem client_load_reply_ok : forall hid rowsf ps rs,
  Forall2 (BridgeClientTaskP.client_answer hid rowsf) ps rs -> reply_ok (RGet ps) (RSegs rs).
Proof. exact BridgeClientTaskP.client_reply_ok. Qed.
Print Assumptions client_load_reply_ok.

(* The pinned arithmetic part = batch/conc: batch 1 x concurrency 4 yields no
   partition and the step panics on blocks[0]. *)
Theorem legacy_batch_lt_conc_refuted :
  r_out (w1_run legacy) = Fin OPanicked /\ r_out (w1_run repaired) = Fin OConverged.
Proof. exact legacy_batch_lt_conc_panics. Qed.
Print Assumptions legacy_batch_lt_conc_refuted.

Theorem legacy_partitions_refuted :
  partitions legacy (Task 1 1 2 3 1 0 1 4 [] true true) 1 1 = []
  /\ partitions repaired (Task 1 1 2 3 1 0 1 4 [] true true) 1 1 = [(1,1)].
Proof. exact legacy_partitions_both. Qed.
Print Assumptions legacy_partitions_refuted.

Example c01_cfg_ok : cfg_ok (wcfg 1 4) /\ cfg_ok (wcfg 10 3).
Proof. exact (conj (proj1 cfg_ok_examples) (proj1 (proj2 cfg_ok_examples))). Qed.
