(* C01 -- every block in range is indexed exactly once (growth-only
   histories).  [canon] is the canonical chain all versions are prefixes of;
   [growth_reply hs canon] (Model/TaskSpec.v): every delivered partition is
   the requested segment of canon, every hash / head answer is a block of
   canon (whatever version answered).  All theorems hold for EVERY
   batch >= 1 and concurrency >= 1, through the partition arithmetic of
   Task.load ([partitions_tile]). *)
From Coq Require Import List NArith Bool.
From Shovel Require Import Base.Outcome.
From Shovel Require Model.Client Model.ClientSpec Proofs.BridgeClientTaskP.
From Shovel Require Import Model.TaskTypes Model.TaskDb Model.Task Model.TaskNode Model.TaskSys
  Model.TaskSpec Model.TaskWitness Proofs.TaskArithP Proofs.TaskLegacyP Proofs.C01P Proofs.TaskLiveP.
Import ListNotations.
Open Scope N_scope.

(* the partitions of a load tile [start, start+limit) exactly: contiguous,
   non-empty pieces -- batch < concurrency and non-divisible pairs included *)
Theorem load_partitions_tile : forall c start limit,
  cfg_ok c -> 1 <= limit -> limit <= t_batch c -> start < two63 ->
  tiles start (start + limit) (partitions repaired c start limit).
Proof. exact partitions_tile. Qed.
Print Assumptions load_partitions_tile.

(* one step, any replies of a growing chain, any faults: a success appends
   exactly the next k blocks of canon, 1 <= k <= batch, after the position;
   nothing is ever unwound; everything outside the pair is untouched *)
Theorem step_advances_exactly : forall c canon,
  cfg_ok c -> wf_chain canon -> height canon < nmax -> forall g d s,
  pv c d = render c g -> wf_ghost c g -> Forall (on_chain (t_hashes c) canon) (concat g) ->
  trace_sat (growth_reply (t_hashes c) canon) (step c s d) ->
  r_out (step c s d) = Fin OConverged ->
  exists ln lh k,
    TaskInvP.pos_of c (HPg canon) (HDg canon) g ln lh /\ 1 <= k /\ k <= t_batch c
    /\ ln + k < height canon
    /\ pv c (r_db (step c s d)) = render c (g ++ [view (t_hashes c) (segment canon (ln + 1) k)])
    /\ outside c (r_db (step c s d)) = outside c d.
Proof. exact growth_converged. Qed.
Print Assumptions step_advances_exactly.

(* a step that does not report success leaves the pair untouched *)
Theorem step_failed_unchanged : forall c canon,
  cfg_ok c -> wf_chain canon -> height canon < nmax -> forall g d s,
  pv c d = render c g -> wf_ghost c g -> Forall (on_chain (t_hashes c) canon) (concat g) ->
  trace_sat (growth_reply (t_hashes c) canon) (step c s d) ->
  forall o, (forall i r, growth_reply (t_hashes c) canon i r -> r <> RFail KDropAfter) ->
  r_out (step c s d) = Fin o -> o <> OConverged -> pv c (r_db (step c s d)) = pv c d.
Proof. exact growth_not_converged. Qed.
Print Assumptions step_failed_unchanged.

(* invariant over whole runs (any interleaving of steps with growth, any
   faults, crashes, restarts): the indexed blocks are blocks of canon ... *)
Theorem growth_invariant : forall c canon,
  cfg_ok c -> wf_chain canon -> height canon < nmax -> forall ss d,
  TaskInvG c canon d -> runs_sat (growth_reply (t_hashes c) canon) c ss d ->
  Forall (TaskInvG c canon) (run_dbs c ss d) /\ TaskInvG c canon (run_end c ss d).
Proof. exact growth_runs. Qed.
Print Assumptions growth_invariant.

(* ... hence the table is exactly the projection of the contiguous run of
   canon that ends at the recorded position: each block's rows once, nothing
   else *)
Theorem growth_table_is_projection : forall c canon, height canon < nmax -> forall d,
  TaskInvG c canon d ->
  (d_rows (pv c d) = [] /\ d_curs (pv c d) = [])
  \/ exists m k n h,
       d_rows (pv c d) = rows_of c (view (t_hashes c) (segment canon m k))
       /\ 1 <= k /\ m + k <= height canon
       /\ newest (t_src c) (t_ig c) (d_curs d) = Some (n, h) /\ n + 1 = m + k.
Proof. exact growth_projection. Qed.
Print Assumptions growth_table_is_projection.

(* LIVENESS, fault-free steps against an honest node serving [ch] (integration
   without filter references; row keys distinct inside a block).  [at_pos c g
   ln]: ln is the recorded position, or start-1 when nothing is recorded and a
   start is configured.  [hstepf c ch d]: the database after one such step. *)

(* growth_progress: if the position is below the target min(head, stop) the
   step converges and appends exactly the next delta = min(target-ln, batch)
   >= 1 blocks -- for every batch x concurrency *)
Theorem growth_progress : forall c ch,
  cfg_ok c -> wf_chain ch -> height ch < nmax -> t_deps c = [] ->
  (forall b, In b ch -> NoDup (map fst (b_rows b))) ->
  forall g d ln x,
  pv c d = render c g -> wf_ghost c g -> Forall (on_chain (t_hashes c) ch) (concat g) ->
  blk_at ch ln = Some x -> at_pos c g ln -> ln < clip c (top ch) ->
  let x1 := exec_honest 400 (t_uniq c) (t_hashes c) ch (converge c) d None in
  let delta := delta_of c ln (clip c (top ch)) in
  r_out x1 = Fin OConverged /\ r_cs x1 = None /\ 1 <= delta
  /\ pv c (r_db x1) = render c (g ++ [view (t_hashes c) (segment ch (ln + 1) delta)])
  /\ outside c (r_db x1) = outside c d
  /\ wf_ghost c (g ++ [view (t_hashes c) (segment ch (ln + 1) delta)])
  /\ Forall (on_chain (t_hashes c) ch) (concat (g ++ [view (t_hashes c) (segment ch (ln + 1) delta)]))
  /\ exists h, gpos (g ++ [view (t_hashes c) (segment ch (ln + 1) delta)]) = Some (ln + delta, h).
Proof. exact progress_lemma. Qed.
Print Assumptions growth_progress.

(* growth_reaches_head: at most target-ln fault-free steps bring the recorded
   position to the target, with all indexed blocks on the chain (hence, by
   growth_table_is_projection, the table = projection up to the target) *)
Theorem growth_reaches_head : forall c ch,
  cfg_ok c -> wf_chain ch -> height ch < nmax -> t_deps c = [] ->
  (forall b, In b ch -> NoDup (map fst (b_rows b))) ->
  forall g d ln x,
  pv c d = render c g -> wf_ghost c g -> Forall (on_chain (t_hashes c) ch) (concat g) ->
  blk_at ch ln = Some x -> at_pos c g ln -> ln < clip c (height ch - 1) ->
  exists n g', (1 <= n <= N.to_nat (clip c (height ch - 1) - ln))%nat
    /\ pv c (iter (hstepf c ch) n d) = render c g' /\ wf_ghost c g'
    /\ Forall (on_chain (t_hashes c) ch) (concat g')
    /\ (exists h, gpos g' = Some (clip c (height ch - 1), h))
    /\ outside c (iter (hstepf c ch) n d) = outside c d.
Proof. exact reach_lemma. Qed.
Print Assumptions growth_reaches_head.

(* BRIDGE to the client model (Model/Client.v, C07).  The theorems above
   assume [reply_ok]: every delivered partition of a load is numbered as
   requested.  For every partition answered by the modelled jrpc2 client this
   is a THEOREM: whenever [Client.get p s l w] returns [Ok bs] -- for every
   plan, range and family of replies [w] -- the abstraction of [bs] to the task
   model's blocks ([abs hid rowsf]: numbers kept, hashes mapped to ids by any
   [hid] sending exactly the empty hash to 0, everything else of a block
   reduced to the rows [rowsf] the integration derives from it) satisfies
   [seg_numbered (s, l)] (by C07 get_ok_exact_numbers), hence a load all of
   whose partitions are answered by the client (or fail) satisfies [reply_ok]. *)
Theorem client_partition_numbered : forall hid rowsf p s l w bs,
  Client.get p s l w = Ok bs ->
  seg_numbered (s, l) (SegOk (map (BridgeClientTaskP.abs hid rowsf) bs)).
Proof. exact BridgeClientTaskP.get_seg_numbered. Qed.
Print Assumptions client_partition_numbered.

Theorem client_load_reply_ok : forall hid rowsf ps rs,
  Forall2 (BridgeClientTaskP.client_answer hid rowsf) ps rs -> reply_ok (RGet ps) (RSegs rs).
Proof. exact BridgeClientTaskP.client_reply_ok. Qed.
Print Assumptions client_load_reply_ok.

(* The pinned arithmetic part = batch/conc: batch 1 x concurrency 4 yields no
   partition and the step panics on blocks[0]. *)
Theorem legacy_batch_lt_conc_refuted :
  r_out (w1_run legacy) = Fin OPanicked /\ r_out (w1_run repaired) = Fin OConverged.
Proof. exact legacy_batch_lt_conc_panics. Qed.
Print Assumptions legacy_batch_lt_conc_refuted.

Theorem legacy_partitions_refuted :
  partitions legacy (Task 1 1 2 3 1 0 1 4 [] true true) 1 1 = []
  /\ partitions repaired (Task 1 1 2 3 1 0 1 4 [] true true) 1 1 = [(1,1)].
Proof. exact legacy_partitions_both. Qed.
Print Assumptions legacy_partitions_refuted.

(* BRIDGE rows -> task (Model/BridgeRowsTask.v, Proofs/BridgeRowsTaskP.v).
   Above, a block's rows are ABSTRACT ([b_rows]: (key, val) numbers).  Here
   they are INSTANTIATED by the row builder of C11 (Model/Rows.v) for a
   declared integration [dcl] (context [ctx], referenced tables [dbs]):
   [inst_chain dcl ctx dbs rbs] is the task-level chain of the rows-level
   canonical chain [rbs : list Rows.blockr]; a block's rows are the rows
   [kinsert] emits for it -- Rows.insert with every row tagged by its identity
   key (tx_idx, log_idx, abi_idx, trace_action_idx) -- encoded into numbers by
   the injective [enc_key] / [enc_row]; hashes become ids by the injective [hid]. *)
From Shovel Require Model.Filter Model.Rows Proofs.BridgeRowsTaskP.
From Shovel Require Import Model.BridgeRowsTask.

(* equality of task-level keys / values / hash ids is equality of identity
   keys / of C11 rows (cell by cell) / of hashes; id 0 is exactly the empty hash *)
Theorem bridge_encodings_injective :
  (forall x y, enc_key x = enc_key y -> x = y)
  /\ (forall x y : list Filter.gval, enc_row x = enc_row y -> x = y)
  /\ (forall a b, hid a = hid b -> a = b)
  /\ (forall h, hid h = 0 <-> h = []).
Proof. exact BridgeRowsTaskP.encodings_injective. Qed.
Print Assumptions bridge_encodings_injective.

(* the tags change nothing: forgetting the keys, the keyed builder returns
   exactly what Integration.Insert (C11's [insert]) returns on that block --
   same rows, same order, same error / panic; and Insert over a batch is the
   concatenation of the per-block Inserts *)
Theorem bridge_keyed_builder_is_insert :
  (forall d c dbs b, omap (map snd) (kinsert d c dbs b) = Rows.insert Rows.fixed d c dbs [b])
  /\ (forall d c dbs bs, Rows.insert Rows.fixed d c dbs bs
                         = Rows.concatM (fun b => Rows.insert Rows.fixed d c dbs [b]) bs).
Proof. exact BridgeRowsTaskP.keyed_builder_is_insert. Qed.
Print Assumptions bridge_keyed_builder_is_insert.

(* a rows-level chain numbered from 0 with non-empty hashes instantiates to a
   well-formed task-level chain of the same height and numbers *)
Theorem bridge_chain_wf : forall dcl ctx dbs rbs,
  rows_chain_wf rbs ->
  wf_chain (inst_chain dcl ctx dbs rbs) /\ height (inst_chain dcl ctx dbs rbs) = N.of_nat (length rbs)
  /\ map b_num (inst_chain dcl ctx dbs rbs) = map Rows.b_num rbs.
Proof. exact BridgeRowsTaskP.inst_chain_ok. Qed.
Print Assumptions bridge_chain_wf.

(* (2) the side condition of the liveness theorems, PROVED for the
   instantiation under the exact precondition on the rows-level blocks
   [wf_items]: distinct transaction indices in a block, distinct log indices
   and distinct trace-action indices inside a transaction.  Every instantiated
   block is the instantiation of a block of the chain and carries its number
   (the task model stamps it on every row: [r_bnum]). *)
Theorem declared_rows_keys_distinct : forall dcl ctx dbs rbs parent x,
  Forall wf_items rbs -> In x (inst_from dcl ctx dbs parent rbs) ->
  NoDup (map fst (b_rows x))
  /\ exists b q, In b rbs /\ x = inst_blk dcl ctx dbs q b /\ b_num x = Rows.b_num b.
Proof. exact BridgeRowsTaskP.inst_keys_distinct. Qed.
Print Assumptions declared_rows_keys_distinct.

(* ... and the precondition is needed: one transaction with two matching logs
   of the same log index gives two rows with one key *)
Theorem declared_rows_keys_unconditional_refuted : ~ keys_distinct_unconditional.
Proof. exact BridgeRowsTaskP.keys_unconditional_refuted. Qed.
Print Assumptions declared_rows_keys_unconditional_refuted.

(* (1) growth_table_is_projection for the instantiated chain.  If Insert
   returns Ok on every block of the chain ([inserts_ok]; otherwise the step
   fails and nothing is stored) then, in every state satisfying the growth
   invariant, the pair's table rows are, in block order, exactly the keyed
   rows the declared row builder emits for each block of the indexed range
   [m, m+k) -- each stamped with table, source, integration and the block's
   number -- and nothing else; their values are, in order, the encodings of
   the rows ONE Integration.Insert over the blocks of the range returns. *)
Theorem growth_table_is_declared_projection : forall dcl ctx dbs rbs c d,
  inserts_ok dcl ctx dbs rbs -> N.of_nat (length rbs) < nmax ->
  TaskInvG c (inst_chain dcl ctx dbs rbs) d ->
  (d_rows (pv c d) = [] /\ d_curs (pv c d) = [])
  \/ exists m k n h rows,
       1 <= k /\ m + k <= N.of_nat (length rbs)
       /\ newest (t_src c) (t_ig c) (d_curs d) = Some (n, h) /\ n + 1 = m + k
       /\ d_rows (pv c d) = concat (map (declared_rows c dcl ctx dbs) (rsegment rbs m k))
       /\ Rows.insert Rows.fixed dcl ctx dbs (rsegment rbs m k) = Ok rows
       /\ map r_val (d_rows (pv c d)) = map enc_row rows.
Proof. exact BridgeRowsTaskP.declared_projection. Qed.
Print Assumptions growth_table_is_declared_projection.

(* ... hence every stored row is a row C11's theorems speak about
   ([declared_row], which is C11's row_cells_spec / tx_row_cells_spec /
   block_field_of_enclosing_item_log/tx/trace for the very item named by the
   row's identity key): it was built from a log / transaction / trace action
   of a block [b] of the chain, its block number is [b]'s, its key holds that
   item's indices, every selected input's column holds the typed topic / the
   typed decoded value ([Rows.row_spec]), every block-data column holds the
   named field of the enclosing block, transaction, log, trace action
   ([Rows.enclosing_fields]), and there are no other columns. *)
Theorem stored_rows_are_declared_rows : forall dcl ctx dbs rbs c d,
  inserts_ok dcl ctx dbs rbs -> N.of_nat (length rbs) < nmax ->
  TaskInvG c (inst_chain dcl ctx dbs rbs) d ->
  forall r, In r (d_rows (pv c d)) ->
  exists b k gr, In b rbs /\ r = trow_of c (Rows.b_num b) (k, gr) /\ declared_row dcl ctx dbs b k gr.
Proof. exact BridgeRowsTaskP.stored_row_declared. Qed.
Print Assumptions stored_rows_are_declared_rows.

(* the identity key and the stamped block number are what the columns of the
   table's generated unique index hold, whenever the declaration binds them
   (block_num, tx_idx, log_idx, trace_action_idx, abi_idx: the entries
   AddRequiredFields adds): the model's key is the database's key *)
Theorem stored_rows_key_columns : forall dcl ctx dbs b k gr,
  declared_row dcl ctx dbs b k gr -> key_columns dcl b k gr.
Proof. exact BridgeRowsTaskP.declared_row_key_columns. Qed.
Print Assumptions stored_rows_key_columns.

(* growth_reaches_head composed with (1) and (2): fault-free steps against an
   honest node serving the instantiated chain of a well-formed rows-level
   chain bring the position to the target min(head, stop), and the table then
   is the declared projection of the blocks [m, target] *)
Theorem declared_growth_reaches_head : forall dcl ctx dbs rbs c,
  cfg_ok c -> rows_chain_wf rbs -> Forall wf_items rbs -> inserts_ok dcl ctx dbs rbs ->
  N.of_nat (length rbs) < nmax -> t_deps c = [] ->
  forall g d ln x,
  pv c d = render c g -> wf_ghost c g ->
  Forall (on_chain (t_hashes c) (inst_chain dcl ctx dbs rbs)) (concat g) ->
  blk_at (inst_chain dcl ctx dbs rbs) ln = Some x -> at_pos c g ln ->
  ln < clip c (N.of_nat (length rbs) - 1) ->
  exists n m k h rows,
    (1 <= n <= N.to_nat (clip c (N.of_nat (length rbs) - 1) - ln))%nat
    /\ 1 <= k /\ m + k = clip c (N.of_nat (length rbs) - 1) + 1
    /\ newest (t_src c) (t_ig c) (d_curs (iter (hstepf c (inst_chain dcl ctx dbs rbs)) n d))
       = Some (clip c (N.of_nat (length rbs) - 1), h)
    /\ d_rows (pv c (iter (hstepf c (inst_chain dcl ctx dbs rbs)) n d))
       = concat (map (declared_rows c dcl ctx dbs) (rsegment rbs m k))
    /\ Rows.insert Rows.fixed dcl ctx dbs (rsegment rbs m k) = Ok rows
    /\ map r_val (d_rows (pv c (iter (hstepf c (inst_chain dcl ctx dbs rbs)) n d))) = map enc_row rows
    /\ outside c (iter (hstepf c (inst_chain dcl ctx dbs rbs)) n d) = outside c d.
Proof. exact BridgeRowsTaskP.declared_reaches_head. Qed.
Print Assumptions declared_growth_reaches_head.

Example c01_cfg_ok : cfg_ok (wcfg 1 4) /\ cfg_ok (wcfg 10 3).
Proof. exact (conj (proj1 cfg_ok_examples) (proj1 (proj2 cfg_ok_examples))). Qed.

(* (3) the bridge is not vacuous.  Event E(uint256 indexed a, uint256 v), both
   selected, block data block_num, tx_idx, log_idx, abi_idx; chain: block 0
   empty, block 1 = tx 0 with log 0 (a = 5, v = 9), block 2 = tx 3 with log 4
   (a = 6, v = 10); the logs carry ABI-encoded data decoded by the model of
   C09/C10.  The hypotheses of the theorems hold; two fault-free steps of the
   executable task model (batch 1) from the empty database store exactly the
   two expected C11 rows under their identity keys, and one Insert over blocks
   1..2 returns exactly these rows. *)
Example bridge_hypotheses_satisfiable :
  cfg_ok (ex_task 1 1) /\ rows_chain_wf ex_rchain /\ Forall wf_items ex_rchain
  /\ inserts_ok ex_decl ex_ctx [] ex_rchain.
Proof. exact BridgeRowsTaskP.ex_hyps. Qed.
Example bridge_run :
  let c := ex_task 1 1 in
  let d := iter (hstepf c ex_chain) 2 (Db [] []) in
  d_rows d =
    [ trow_of c 1 (Key 0 (Some 0) (Some 0%nat) None,
        [Filter.VU256 5; Filter.VU256 9; Filter.VU64 1; Filter.VU64 0; Filter.VU64 0; Filter.VInt Z0]);
      trow_of c 2 (Key 3 (Some 4) (Some 0%nat) None,
        [Filter.VU256 6; Filter.VU256 10; Filter.VU64 2; Filter.VU64 3; Filter.VU64 4; Filter.VInt Z0]) ]
  /\ d_curs d = [Cur 1 2 1 (hid [2]); Cur 1 2 2 (hid [3])]
  /\ Rows.insert Rows.fixed ex_decl ex_ctx [] (rsegment ex_rchain 1 2)
     = Ok [ [Filter.VU256 5; Filter.VU256 9; Filter.VU64 1; Filter.VU64 0; Filter.VU64 0; Filter.VInt Z0];
            [Filter.VU256 6; Filter.VU256 10; Filter.VU64 2; Filter.VU64 3; Filter.VU64 4; Filter.VInt Z0] ].
Proof. vm_compute. repeat split; reflexivity. Qed.
(* batch 5 x concurrency 3: one step, same table *)
Example bridge_run_one_step :
  d_rows (iter (hstepf (ex_task 5 3) ex_chain) 1 (Db [] []))
  = d_rows (iter (hstepf (ex_task 1 1) ex_chain) 2 (Db [] [])).
Proof. vm_compute. reflexivity. Qed.
(* without [wf_items] (duplicate log index): the COPY violates the unique
   index, the step fails and stores nothing *)
Example bridge_duplicate_keys_step_fails :
  let x := exec_honest 400 true true (inst_chain ex_decl ex_ctx [] ex_bad_rchain)
                       (converge (ex_task 1 1)) (Db [] []) None in
  r_out x = Fin OFailed /\ r_db x = Db [] [].
Proof. exact BridgeRowsTaskP.dup_keys_step_fails. Qed.
