(* C05 -- an integration with filter references never runs ahead of what it
   references.  Model: Model/Task.v [after_dep] (latestDependency with the
   repair: the reading counts only if every distinct referenced name has a
   cursor), Model/TaskDb.v [dep_query] (the CTE as the SQL says).  The
   dependency position is read inside the step's first transaction; the
   task's own uncommitted writes are keyed by its own pair and cannot alter
   the reading (Proofs/TaskDbP.v [dep_query_own]). *)
From Coq Require Import List NArith Bool.
From Shovel Require Import Model.TaskTypes Model.TaskDb Model.Task Model.TaskNode Model.TaskSys
  Model.TaskSpec Model.TaskWitness Proofs.TaskDbP Proofs.TaskLegacyP Proofs.C05P Proofs.C05SysP.
Import ListNotations.
Open Scope N_scope.

(* Single-task statements: [Forall unforced s] -- no element of the script
   forces a dependency reading, i.e. every reading is what the committed
   database says (in a single-task run: the database of the step's Begin).
   The interleaved system is [system_dep_bounded] below. *)

(* whenever a dependent step commits a batch, EVERY referenced integration
   had, in the committed database the step read, a cursor at or beyond every
   block of that batch *)
Theorem dep_target_bounded : forall c, cfg_ok c -> forall d s,
  TaskInv c d -> Forall unforced s -> trace_sat reply_ok (step c s d) -> t_deps c <> [] ->
  r_out (step c s d) = Fin OConverged ->
  exists p q bs dn dh,
    pv c d = render c (p ++ q) /\ pv c (r_db (step c s d)) = render c (p ++ [bs]) /\ bs <> []
    /\ dep_query (t_src c) (t_deps c) (d_curs d) = Some (dn, dh, ndeps c)
    /\ (forall x, In x bs -> b_num x <= dn)
    /\ (forall R, In R (t_deps c) ->
          exists n h, newest (t_src c) R (d_curs d) = Some (n, h) /\ dn <= n).
Proof. exact dep_bounded. Qed.
Print Assumptions dep_target_bounded.

(* if some referenced integration has no cursor, the step commits nothing at
   all (every committed state of its trace is the initial one) and cannot
   report success *)
Theorem dep_all_started : forall c, cfg_ok c -> forall d s,
  TaskInv c d -> Forall unforced s -> trace_sat reply_ok (step c s d) ->
  forall R, In R (t_deps c) -> newest (t_src c) R (d_curs d) = None ->
  Forall (fun e => snd e = d) (r_trace (step c s d))
  /\ r_db (step c s d) = d
  /\ r_out (step c s d) <> Fin OConverged.
Proof. exact dep_unstarted. Qed.
Print Assumptions dep_all_started.

(* the reference lookups of the dependent (reads inside its transaction) see
   the referenced pair exactly as committed; by TaskInv of the referenced task
   that is the complete projection of its indexed blocks up to its cursor *)
Theorem dep_lookup_complete : forall c cR d ws,
  Forall (own_wop c) ws -> (t_src c, t_ig c) <> (t_src cR, t_ig cR) -> TaskInv cR d ->
  exists gR, pv cR (vis d (Some ws)) = render cR gR /\ wf_ghost cR gR
             /\ newest (t_src cR) (t_ig cR) (d_curs (vis d (Some ws))) = gpos gR.
Proof. exact dep_lookup. Qed.
Print Assumptions dep_lookup_complete.

(* THE INTERLEAVED SYSTEM.  Any number of tasks, any schedule at statement
   granularity with faults and crashes ([sched_ok]) in which no answer forces a
   dependency reading (every reading is what the committed database says at
   that moment).  [ts_hist t] is the ghost history of the task's current
   Converge call: every operation with its reply and the committed database AT
   THE MOMENT it was issued.  Whenever a task with filter references is about
   to write a position [cur]: the most recent dependency query of this call
   answered (dn, dh) with full count, it was evaluated on the committed
   database [d_r] of a state of this run, [c_num cur <= dn], and in [d_r] EVERY
   referenced integration had a committed cursor >= dn -- the referenced tasks
   may commit (or unwind: then C03 repairs both) only before or after. *)
Theorem system_dep_bounded : forall cfgs d sch,
  Forall cfg_ok cfgs -> Forall (fun m => unforced (snd m)) sch -> sched_ok sch (sys_init cfgs d) ->
  forall st t cur a b n k,
  In st (sys_states sch (sys_init cfgs d)) -> In t (s_tasks st) ->
  t_deps (ts_cfg t) <> [] -> ts_prog t = Some (Op (InsCursor cur a b n) k) ->
  exists dn dh d_r,
    In (QLatestDep (t_src (ts_cfg t)) (t_deps (ts_cfg t)), RDep (Some (dn, dh, ndeps (ts_cfg t))), d_r) (ts_hist t)
    /\ In d_r (map s_db (sys_states sch (sys_init cfgs d)))
    /\ c_num cur <= dn
    /\ dep_query (t_src (ts_cfg t)) (t_deps (ts_cfg t)) (d_curs d_r) = Some (dn, dh, ndeps (ts_cfg t))
    /\ forall R, In R (t_deps (ts_cfg t)) ->
         exists n' h', newest (t_src (ts_cfg t)) R (d_curs d_r) = Some (n', h') /\ dn <= n'.
Proof. exact system_dep_lemma. Qed.
Print Assumptions system_dep_bounded.

(* The pinned code (legacy variant) ignores a referenced integration that has
   no cursor: dependencies [2;3], integration 2 at block 5, integration 3 not
   started -- the dependent converges.  Replayed on the unrepaired code. *)
Theorem legacy_dep_all_started_refuted :
  r_out (w4_run legacy) = Fin OConverged
  /\ d_curs (r_db (w4_run legacy)) = [Cur 1 2 5 1005; Cur 1 4 1 1001]
  /\ r_out (w4_run repaired) = Fin ONothingNew
  /\ r_db (w4_run repaired) = w4_db.
Proof. exact legacy_unstarted_dependency_ignored. Qed.
Print Assumptions legacy_dep_all_started_refuted.

Example c05_cfg_ok : cfg_ok w4_cfg.
Proof. exact (proj1 (proj2 (proj2 cfg_ok_examples))). Qed.
Example c05_inv : TaskInv w4_cfg w4_db.
Proof. exact w4_inv_example. Qed.
