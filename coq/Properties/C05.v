(* C05 -- an integration with filter references never runs ahead of what it
   references.  Model: Model/Task.v [after_dep] (latestDependency with the
   repair: the reading counts only if every distinct referenced name has a
   cursor), Model/TaskDb.v [dep_query] (the CTE as the SQL says).  The
   dependency position is read inside the step's first transaction; the
   task's own uncommitted writes are keyed by its own pair and cannot alter
   the reading (Proofs/TaskDbP.v [dep_query_own]). *)
From Coq Require Import List NArith Bool.
From Shovel Require Import Model.TaskTypes Model.TaskDb Model.Task Model.TaskNode Model.TaskSys
  Model.TaskSpec Model.TaskWitness Proofs.TaskDbP Proofs.TaskLegacyP Proofs.C05P Proofs.C05SysP.
Import ListNotations.
Open Scope N_scope.

(* Single-task statements: [Forall unforced s] -- no element of the script
   forces a dependency reading, i.e. every reading is what the committed
   database says (in a single-task run: the database of the step's Begin).
   The interleaved system is [system_dep_bounded] below. *)

(* whenever a dependent step commits a batch, EVERY referenced integration
   had, in the committed database the step read, a cursor at or beyond every
   block of that batch *)
Theorem dep_target_bounded : forall c, cfg_ok c -> forall d s,
  TaskInv c d -> Forall unforced s -> trace_sat reply_ok (step c s d) -> t_deps c <> [] ->
  r_out (step c s d) = Fin OConverged ->
  exists p q bs dn dh,
    pv c d = render c (p ++ q) /\ pv c (r_db (step c s d)) = render c (p ++ [bs]) /\ bs <> []
    /\ dep_query (t_src c) (t_deps c) (d_curs d) = Some (dn, dh, ndeps c)
    /\ (forall x, In x bs -> b_num x <= dn)
    /\ (forall R, In R (t_deps c) ->
          exists n h, newest (t_src c) R (d_curs d) = Some (n, h) /\ dn <= n).
Proof. exact dep_bounded. Qed.
Print Assumptions dep_target_bounded.

(* if some referenced integration has no cursor, the step commits nothing at
   all (every committed state of its trace is the initial one) and cannot
   report success *)
Theorem dep_all_started : forall c, cfg_ok c -> forall d s,
  TaskInv c d -> Forall unforced s -> trace_sat reply_ok (step c s d) ->
  forall R, In R (t_deps c) -> newest (t_src c) R (d_curs d) = None ->
  Forall (fun e => snd e = d) (r_trace (step c s d))
  /\ r_db (step c s d) = d
  /\ r_out (step c s d) <> Fin OConverged.
Proof. exact dep_unstarted. Qed.
Print Assumptions dep_all_started.

(* the reference lookups of the dependent (reads inside its transaction) see
   the referenced pair exactly as committed; by TaskInv of the referenced task
   that is the complete projection of its indexed blocks up to its cursor *)
Theorem dep_lookup_complete : forall c cR d ws,
  Forall (own_wop c) ws -> (t_src c, t_ig c) <> (t_src cR, t_ig cR) -> TaskInv cR d ->
  exists gR, pv cR (vis d (Some ws)) = render cR gR /\ wf_ghost cR gR
             /\ newest (t_src cR) (t_ig cR) (d_curs (vis d (Some ws))) = gpos gR.
Proof. exact dep_lookup. Qed.
Print Assumptions dep_lookup_complete.

(* THE INTERLEAVED SYSTEM.  Any number of tasks, any schedule at statement
   granularity with faults and crashes ([sched_ok]) in which no answer forces a
   dependency reading (every reading is what the committed database says at
   that moment).  [ts_hist t] is the ghost history of the task's current
   Converge call: every operation with its reply and the committed database AT
   THE MOMENT it was issued.  Whenever a task with filter references is about
   to write a position [cur]: the most recent dependency query of this call
   answered (dn, dh) with full count, it was evaluated on the committed
   database [d_r] of a state of this run, [c_num cur <= dn], and in [d_r] EVERY
   referenced integration had a committed cursor >= dn -- the referenced tasks
   may commit (or unwind: then C03 repairs both) only before or after. *)
Theorem system_dep_bounded : forall cfgs d sch,
  Forall cfg_ok cfgs -> Forall (fun m => unforced (snd m)) sch -> sched_ok sch (sys_init cfgs d) ->
  forall st t cur a b n k,
  In st (sys_states sch (sys_init cfgs d)) -> In t (s_tasks st) ->
  t_deps (ts_cfg t) <> [] -> ts_prog t = Some (Op (InsCursor cur a b n) k) ->
  exists dn dh d_r,
    In (QLatestDep (t_src (ts_cfg t)) (t_deps (ts_cfg t)), RDep (Some (dn, dh, ndeps (ts_cfg t))), d_r) (ts_hist t)
    /\ In d_r (map s_db (sys_states sch (sys_init cfgs d)))
    /\ c_num cur <= dn
    /\ dep_query (t_src (ts_cfg t)) (t_deps (ts_cfg t)) (d_curs d_r) = Some (dn, dh, ndeps (ts_cfg t))
    /\ forall R, In R (t_deps (ts_cfg t)) ->
         exists n' h', newest (t_src (ts_cfg t)) R (d_curs d_r) = Some (n', h') /\ dn <= n'.
Proof. exact system_dep_lemma. Qed.
Print Assumptions system_dep_bounded.

(* The pinned code (legacy variant) ignores a referenced integration that has
   no cursor: dependencies [2;3], integration 2 at block 5, integration 3 not
   started -- the dependent converges.  Replayed on the unrepaired code. *)
Theorem legacy_dep_all_started_refuted :
  r_out (w4_run legacy) = Fin OConverged
  /\ d_curs (r_db (w4_run legacy)) = [Cur 1 2 5 1005; Cur 1 4 1 1001]
  /\ r_out (w4_run repaired) = Fin ONothingNew
  /\ r_db (w4_run repaired) = w4_db.
Proof. exact legacy_unstarted_dependency_ignored. Qed.
Print Assumptions legacy_dep_all_started_refuted.

Example c05_cfg_ok : cfg_ok w4_cfg.
Proof. exact (proj1 (proj2 (proj2 cfg_ok_examples))). Qed.
Example c05_inv : TaskInv w4_cfg w4_db.
Proof. exact w4_inv_example. Qed.

(* ===================================================================
   BRIDGE configuration -> task layer -> row builder (Model/BridgeDeps.v,
   Proofs/BridgeDepsP.v; design.d/C05.md "Bridge dependencies").

   Above, [t_deps] is a FIELD of the task configuration.  In the Go code it
   is Integration.Dependencies, derived by config.ValidateFilterRefs inside
   ValidateFix; that function is modelled in Model/Config.v (C15/C16:
   [validate_filter_refs], [validate_fix], field [ig_deps]).  The statements
   below say what that list is, restate the bounds above with the premise on
   [t_deps] replaced by "the configuration validated", and show that every
   table the row builder can read through [dbs] is the table of an integration
   in that list.  Seeded edit C05-f (one scratch slice shared by all
   integrations: b waits for c instead of a) violates the first statement.
   =================================================================== *)
From Shovel Require Import Model.Config Model.BridgeDeps Proofs.BridgeDepsP.
From Shovel Require Model.Filter Model.Rows Model.Sql.

(* After a successful ValidateFix: position by position, the validated
   integration keeps its name, its Dependencies are what the file supplied
   under "dependencies" (normally nothing) followed by ITS OWN declared
   references -- the names in the filter_refs of its top-level event inputs,
   then of its block fields, in order, duplicates kept -- and nothing of any
   other integration.  Every declared reference is among the Dependencies and
   names a configured integration [k]; [t] is that integration's table (the
   last of that name, as the Go map has it). *)
Theorem dependencies_are_declared_refs : forall U G c c',
  validate_fix U G c = Some c' ->
  Forall2 deps_rel (integs c) (integs c')
  /\ (user_deps_empty c -> forall g', In g' (integs c') -> ig_deps g' = declared_refs g')
  /\ (forall g' R, In g' (integs c') -> In R (declared_refs g') ->
        In R (ig_deps g')
        /\ exists k t, In k (integs c') /\ ig_name k = R
                       /\ ref_table_of (integs c') R = Some t /\ t_name (ig_table k) = t).
Proof. exact dependencies_are_declared_refs_l. Qed.
Print Assumptions dependencies_are_declared_refs.

(* the same for ValidateFilterRefs alone *)
Theorem validate_filter_refs_dependencies : forall igs0 igs1,
  validate_filter_refs igs0 = Some igs1 ->
  Forall2 deps_rel igs0 igs1
  /\ forall g' R, In g' igs1 -> In R (declared_refs g') -> exists k, In k igs1 /\ ig_name k = R.
Proof. exact validate_filter_refs_deps_l. Qed.
Print Assumptions validate_filter_refs_dependencies.

(* [dep_target_bounded] for the task [c] of a validated integration [g]
   (t_ig c = enc (name of g), t_deps c = map enc (Dependencies of g), [enc]
   any injective naming): the premises [cfg_ok c] and [t_deps c <> []] are
   replaced by: the configuration validated, the file supplied no
   "dependencies", g does not reference itself (NOT refused by the code:
   [self_reference_accepted]), g declares a reference.  Conclusion: the list
   the task waits on IS the list of g's declared references, and every
   declared reference R is a configured integration whose committed cursor was
   at or beyond every block of the committed batch. *)
Theorem validated_dependent_never_ahead : forall U G cf cf' enc g c,
  validate_fix U G cf = Some cf' -> user_deps_empty cf -> injective enc ->
  In g (integs cf') -> no_self_ref g -> sizes_ok c -> task_of_integ enc g c ->
  declared_refs g <> [] ->
  forall d s, TaskInv c d -> Forall unforced s -> trace_sat reply_ok (step c s d) ->
  r_out (step c s d) = Fin OConverged ->
  t_deps c = map enc (declared_refs g)
  /\ exists p q bs dn dh,
    pv c d = render c (p ++ q) /\ pv c (r_db (step c s d)) = render c (p ++ [bs]) /\ bs <> []
    /\ dep_query (t_src c) (map enc (declared_refs g)) (d_curs d) = Some (dn, dh, ndeps c)
    /\ (forall x, In x bs -> b_num x <= dn)
    /\ (forall R, In R (declared_refs g) ->
          (exists k, In k (integs cf') /\ ig_name k = R)
          /\ exists n h, newest (t_src c) (enc R) (d_curs d) = Some (n, h) /\ dn <= n).
Proof. exact validated_dependent_never_ahead_l. Qed.
Print Assumptions validated_dependent_never_ahead.

(* [system_dep_bounded] for the interleaved system whose task configurations
   are tasks of integrations of the validated configuration
   ([tasks_of_config]: sizes as cfg_ok asks, no self reference).  Every task
   about to write a position is the task of a validated integration g, waits
   on exactly g's declared references, and -- when g declares any -- its most
   recent dependency reading bounds the position and was covered by the
   committed cursor of EVERY declared reference. *)
Theorem validated_system_never_ahead : forall U G cf cf' enc cfgs d sch,
  validate_fix U G cf = Some cf' -> user_deps_empty cf -> injective enc ->
  tasks_of_config enc cf' cfgs ->
  Forall (fun m => unforced (snd m)) sch -> sched_ok sch (sys_init cfgs d) ->
  forall st t cur a b n k,
  In st (sys_states sch (sys_init cfgs d)) -> In t (s_tasks st) ->
  ts_prog t = Some (Op (InsCursor cur a b n) k) ->
  exists g, In g (integs cf') /\ task_of_integ enc g (ts_cfg t)
    /\ t_deps (ts_cfg t) = map enc (declared_refs g)
    /\ (declared_refs g <> [] ->
        exists dn dh d_r,
          In (QLatestDep (t_src (ts_cfg t)) (map enc (declared_refs g)),
              RDep (Some (dn, dh, ndeps (ts_cfg t))), d_r) (ts_hist t)
          /\ In d_r (map s_db (sys_states sch (sys_init cfgs d)))
          /\ c_num cur <= dn
          /\ forall R, In R (declared_refs g) ->
               (exists k0, In k0 (integs cf') /\ ig_name k0 = R)
               /\ exists n' h', newest (t_src (ts_cfg t)) (enc R) (d_curs d_r) = Some (n', h') /\ dn <= n').
Proof. exact validated_system_never_ahead_l. Qed.
Print Assumptions validated_system_never_ahead.

(* The row builder.  [d] is a Rows-level declaration carrying the filters of
   the validated integration g (top-level inputs without components, block
   fields: [same_filters]).  (a) every (table, column) at which Rows.insert can
   read [dbs] for d ([consulted d]) is the table of a declared reference R of
   g, R is in g's Dependencies, the column is declared for that table; (b)
   Rows.insert depends on [dbs] only through the tables of g's Dependencies:
   two contents that agree there give the same rows.  With
   [validated_dependent_never_ahead] the position bound covers every lookup. *)
Theorem lookups_only_in_dependencies : forall U G c c' g d,
  validate_fix U G c = Some c' -> In g (integs c') -> same_filters g d ->
  (forall t col, In (t, col) (consulted d) ->
     exists R, In R (declared_refs g) /\ In R (ig_deps g)
               /\ ref_table_of (integs c') R = Some t /\ mem col (cols_of_table (integs c') t) = true)
  /\ (forall vr ctx dbs1 dbs2 blocks,
        (forall R t col, In R (ig_deps g) -> ref_table_of (integs c') R = Some t ->
                         Filter.db_lookup dbs1 t col = Filter.db_lookup dbs2 t col) ->
        Rows.insert vr d ctx dbs1 blocks = Rows.insert vr d ctx dbs2 blocks).
Proof. exact lookups_only_in_dependencies_l. Qed.
Print Assumptions lookups_only_in_dependencies.

(* The same at the level of the SQL the task issues (Model/Sql.v [accepts_of],
   compared with the statements the implementation sends on every C15 run):
   the reference queries are exactly [cfg_lookups g], and for an integration
   without components each goes to the table of a declared reference. *)
Theorem reference_queries_only_in_dependencies : forall U G c c' g,
  validate_fix U G c = Some c' -> In g (integs c') ->
  Sql.accepts_of g
  = map (lookup_stmt Sql.P_irt Sql.P_irc) (input_lookups (selected (ig_inputs g)))
    ++ map (lookup_stmt Sql.P_brt Sql.P_brc) (block_lookups (ig_block g))
  /\ (flat g = true ->
      forall t col, In (t, col) (cfg_lookups g) ->
        exists R, In R (declared_refs g) /\ In R (ig_deps g)
                  /\ ref_table_of (integs c') R = Some t /\ mem col (cols_of_table (integs c') t) = true).
Proof.
  exact (fun U G c c' g H Hin =>
           conj (accepts_of_are_cfg_lookups_l g) (cfg_lookups_only_in_dependencies_l U G c c' g H Hin)).
Qed.
Print Assumptions reference_queries_only_in_dependencies.

(* OBSERVATIONS ABOUT THE CODE (each replayed on /repo, design.d/C05.md):
   an integration that references its own table validates and depends on
   itself (the task layer's cfg_ok excludes it; such a task never starts) *)
Theorem self_reference_accepted :
  option_map (fun c' => map (fun g => (ig_name g, ig_deps g)) (integs c')) (validate_fix U_ascii ex_G ex_self_root)
  = Some [(nm_s, [nm_s])].
Proof. exact self_reference_accepted_l. Qed.
Print Assumptions self_reference_accepted.

(* a "dependencies" key in the configuration file is kept: without
   [user_deps_empty] Dependencies is not the list of declared references *)
Theorem user_supplied_dependencies_kept_refuted :
  option_map (fun c' => map ig_deps (integs c')) (validate_fix U_ascii ex_G ex_userdeps_root)
  = Some [[]; [nm_ghost; nm_a]]
  /\ map declared_refs (integs ex_userdeps_root) = [[]; [nm_a]].
Proof. exact user_supplied_dependencies_kept_l. Qed.
Print Assumptions user_supplied_dependencies_kept_refuted.

(* REPAIRED (fixes/C05-filter-ref-on-components.diff).  Before the repair a
   filter_ref on a COMPONENT of a tuple input (table written by the user) was
   never seen by ValidateFilterRefs: validation succeeded, Dependencies stayed
   empty, the reference query on a's table was issued with the user's table
   and without dependency ordering.  [legacy_validate_fix] is the model of the
   old pass. *)
Theorem legacy_nested_reference_escapes_refuted :
  match legacy_validate_fix U_ascii ex_G ex_nested_root with
  | Some c' =>
      map (fun g => (ig_deps g, legacy_declared_refs g, declared_refs_deep g, cfg_lookups g)) (integs c')
      = [([], [], [], []); ([], [], [nm_a], [(nm_ta, nm_addr)])]
  | None => False
  end.
Proof. exact legacy_nested_ref_escapes_l. Qed.
Print Assumptions legacy_nested_reference_escapes_refuted.

(* the repaired pass walks the components: the same configuration gets the
   dependency ([declared_refs] ranges over the inputs and their components) *)
Theorem nested_reference_validated :
  match validate_fix U_ascii ex_G ex_nested_root with
  | Some c' =>
      map (fun g => (ig_deps g, declared_refs g, cfg_lookups g)) (integs c')
      = [([], [], []); ([nm_a], [nm_a], [(nm_ta, nm_addr)])]
  | None => False
  end.
Proof. exact nested_ref_validated_l. Qed.
Print Assumptions nested_reference_validated.

(* Non-vacuity.  Four integrations a, b (input filter_ref -> a), c, d
   (block-field filter_ref -> c): Dependencies of b = [a], of d = [c], after
   ValidateFix and after ValidateFilterRefs alone; what seeded edit C05-f
   computes (b waits for c) is not that. *)
Example bridge_deps_example :
  option_map (fun c' => map ig_deps (integs c')) (validate_fix U_ascii ex_G ex_root)
  = Some [[]; [nm_a]; []; [nm_c]]
  /\ option_map (map ig_deps) (validate_filter_refs (integs ex_root)) = Some [[]; [nm_a]; []; [nm_c]]
  /\ map declared_refs (integs ex_root) = [[]; [nm_a]; []; [nm_c]]
  /\ ex_aliased_deps <> map declared_refs (integs ex_root).
Proof. exact ex_dependencies_l. Qed.
(* the error cases of ValidateFilterRefs: unknown integration, table without
   integration, missing column, undeclared column; integration + table: the
   table is overwritten *)
Example bridge_deps_refused :
  validate_filter_refs (integs (ex_root_with ex_r_unknown)) = None
  /\ validate_filter_refs (integs (ex_root_with ex_r_usertable)) = None
  /\ validate_filter_refs (integs (ex_root_with ex_r_nocol)) = None
  /\ validate_filter_refs (integs (ex_root_with ex_r_badcol)) = None
  /\ option_map (map (fun g => (ig_deps g, map (fun i => r_table (f_ref (i_flt i))) (ig_inputs g))))
                (validate_filter_refs (integs (ex_root_with ex_r_overwritten)))
     = Some [([], [[]]); ([nm_a], [nm_ta])].
Proof. exact ex_refused_l. Qed.
(* the premises of the task-layer statements hold for the task of b *)
Example bridge_deps_task_premises :
  injective ex_enc
  /\ In (ex_validated 1) (match validate_fix U_ascii ex_G ex_root with Some c' => integs c' | None => [] end)
  /\ user_deps_empty ex_root /\ no_self_ref (ex_validated 1) /\ sizes_ok ex_task_b
  /\ task_of_integ ex_enc (ex_validated 1) ex_task_b /\ declared_refs (ex_validated 1) <> []
  /\ cfg_ok ex_task_b.
Proof. exact ex_task_premises_l. Qed.
(* the lookup is real: b's declaration reads exactly (ta, addr); with the
   address in a's table the row is emitted, with the table empty it is not,
   without the table the insert fails *)
Example bridge_deps_lookup_real :
  same_filters (ex_validated 1) ex_decl_b
  /\ consulted ex_decl_b = [(nm_ta, nm_addr)]
  /\ (exists row, Rows.insert Rows.fixed ex_decl_b ex_ctx (ex_dbs [ex_addr5]) [ex_blk] = Outcome.Ok [row])
  /\ Rows.insert Rows.fixed ex_decl_b ex_ctx (ex_dbs []) [ex_blk] = Outcome.Ok []
  /\ Rows.insert Rows.fixed ex_decl_b ex_ctx [] [ex_blk] = Outcome.Err.
Proof. exact ex_lookup_real_l. Qed.
