(* C02 -- rows and recorded position commit atomically; no partial state after
   a failure.  Model: Model/Task.v (Task.Converge with the agreed repairs) run
   by Model/TaskSys.v [exec] against the database of Model/TaskDb.v under an
   arbitrary script: for EVERY operation of the step the script may answer
   normally, inject an error reply, drop the connection before or after the
   operation took effect, or kill the process.  [TaskInv] (Model/TaskSpec.v):
   the pair's rows and cursors are exactly the rendering of a well-formed list
   of batches -- no row beyond the position, no position without its rows. *)
From Coq Require Import List NArith Bool.
From Shovel Require Import Model.TaskTypes Model.TaskDb Model.Task Model.TaskNode Model.TaskSys
  Model.TaskSpec Model.TaskWitness Proofs.TaskLegacyP Proofs.C02P Proofs.TaskLiveP Proofs.TaskPruneP Proofs.C03LiveP.
Import ListNotations.
Open Scope N_scope.

(* Every committed state of a step -- after every single operation, for every
   fault plan and crash point, for every node answer numbered as requested --
   satisfies TaskInv; nothing outside the task's pair changes; a step that
   returns has closed its transaction. *)
Theorem converge_preserves_inv_under_faults : forall c d s,
  cfg_ok c -> TaskInv c d -> trace_sat reply_ok (step c s d) ->
  Forall (fun e => TaskInv c (snd e) /\ outside c (snd e) = outside c d) (r_trace (step c s d))
  /\ TaskInv c (r_db (step c s d)) /\ outside c (r_db (step c s d)) = outside c d
  /\ (forall o, r_out (step c s d) = Fin o -> r_cs (step c s d) = None).
Proof. exact converge_inv. Qed.
Print Assumptions converge_preserves_inv_under_faults.

(* A step that does not report success leaves the pair exactly as it was or --
   only after a detected reorg was committed -- at a strictly earlier position
   (a strict prefix of the batches: whole batches removed, rows with them).
   [reply_ok_nda] excludes only the fault "COMMIT took effect but the reply was
   lost", after which the client cannot know; that case is covered by the
   invariant above. *)
Theorem failed_step_state : forall c d s o,
  cfg_ok c -> TaskInv c d -> trace_sat reply_ok_nda (step c s d) ->
  r_out (step c s d) = Fin o -> o <> OConverged ->
  outside c (r_db (step c s d)) = outside c d
  /\ (pv c (r_db (step c s d)) = pv c d
      \/ exists p q, q <> [] /\ wf_ghost c (p ++ q) /\ pv c d = render c (p ++ q)
                     /\ pv c (r_db (step c s d)) = render c p).
Proof. exact failed_state. Qed.
Print Assumptions failed_step_state.

(* A step that reports success committed exactly one new non-empty batch of at
   most batch_size blocks on top of a prefix of the old batches. *)
Theorem converged_step_state : forall c d s,
  cfg_ok c -> TaskInv c d -> trace_sat reply_ok (step c s d) ->
  r_out (step c s d) = Fin OConverged ->
  exists p q bs, pv c d = render c (p ++ q) /\ wf_ghost c (p ++ [bs])
                 /\ pv c (r_db (step c s d)) = render c (p ++ [bs])
                 /\ bs <> [] /\ N.of_nat (length bs) <= t_batch c.
Proof. exact converged_state. Qed.
Print Assumptions converged_step_state.

(* Process death = discard of every open write set: the database found after
   the crash is the last committed one (for any program, not only Converge). *)
Theorem crash_is_rollback : forall u p s d cs,
  r_out (exec u p s d cs) = Crashed ->
  r_cs (exec u p s d cs) = None
  /\ r_db (exec u p s d cs) = last (map snd (r_trace (exec u p s d cs))) d.
Proof. exact crash_rollback. Qed.
Print Assumptions crash_is_rollback.

(* retry_equiv (growth histories, integration without filter references): a
   step that failed on a growing chain left the pair and the outside as they
   were ([failed_step_state] / C01 [step_failed_unchanged]); from ANY such
   state the fault-free retry produces the same pair and the same outside as
   the fault-free step from the original state -- as if the fault had not
   happened.  (Reorg histories: see design.d/C02.md, limits.) *)
Theorem retry_equiv : forall c ch,
  cfg_ok c -> wf_chain ch -> height ch < nmax -> t_deps c = [] ->
  (forall b, In b ch -> NoDup (map fst (b_rows b))) ->
  forall g d d' ln x,
  pv c d = render c g -> wf_ghost c g -> Forall (on_chain (t_hashes c) ch) (concat g) ->
  blk_at ch ln = Some x -> at_pos c g ln -> ln < clip c (height ch - 1) ->
  pv c d' = pv c d -> outside c d' = outside c d ->
  pv c (hstepf c ch d') = pv c (hstepf c ch d) /\ outside c (hstepf c ch d') = outside c (hstepf c ch d).
Proof. exact retry_lemma. Qed.
Print Assumptions retry_equiv.

(* retry_equiv on REORG histories.  The node serves the final chain [ch]
   (every answer is a block / segment of ch, or fails: [NDAr]); the recorded
   batches are [p] (the final chain's) followed by orphaned batches [q]
   (C03 [ghost_split] derives such a split for every state the safety theorems
   allow).  A step under ANY fault plan that does not report success -- it may
   have committed an unwind of some of the orphaned batches -- leaves a state
   from which the fault-free retry ends in the same pair and the same outside
   as the fault-free step from the original state. *)
Theorem retry_equiv_reorg : forall c ch,
  cfg_ok c -> wf_chain ch -> height ch < nmax -> t_deps c = [] ->
  (forall b, In b ch -> NoDup (map fst (b_rows b))) -> t_hashes c = true ->
  forall d p q ln x s o,
  pv c d = render c (p ++ q) -> wf_ghost c (p ++ q) ->
  Forall (on_chain (t_hashes c) ch) (concat p) -> Forall (orphan ch) q ->
  (forall y, In y (concat (p ++ q)) -> b_num y < clip c (height ch - 1)) ->
  (length q <= 1000)%nat ->
  blk_at ch ln = Some x -> at_pos c p ln -> ln < clip c (height ch - 1) ->
  trace_sat (NDAr ch) (step c s d) -> r_out (step c s d) = Fin o -> o <> OConverged ->
  let F := (6 * length q + 12)%nat in
  let d' := r_db (step c s d) in
  r_out (exec_honest F (t_uniq c) (t_hashes c) ch (converge c) d' None) = Fin OConverged
  /\ pv c (r_db (exec_honest F (t_uniq c) (t_hashes c) ch (converge c) d' None))
     = pv c (r_db (exec_honest F (t_uniq c) (t_hashes c) ch (converge c) d None))
  /\ outside c (r_db (exec_honest F (t_uniq c) (t_hashes c) ch (converge c) d' None))
     = outside c (r_db (exec_honest F (t_uniq c) (t_hashes c) ch (converge c) d None)).
Proof. exact retry_reorg_lemma. Qed.
Print Assumptions retry_equiv_reorg.

(* PruneTask (cmd/shovel runs it with n = 200): [prune n] keeps, per pair, the
   n newest cursor rows (Model/TaskDb.v).  It touches no table row, keeps the
   newest cursor (n >= 1), leaves of a pair satisfying TaskInv exactly the
   cursors of its last n batches, and the observable part of TaskInv survives:
   no row beyond the position, no position without its rows, rows = projection
   of the indexed blocks.  (What is lost is the ability to unwind further back
   than the retained batches: C03's "retained position history".) *)
Theorem prune_preserves_observable_inv : forall n c d, (1 <= n)%nat -> TaskInv c d ->
  newest (t_src c) (t_ig c) (d_curs (prune n d)) = newest (t_src c) (t_ig c) (d_curs d)
  /\ d_rows (prune n d) = d_rows d
  /\ i1b c (prune n d) = true
  /\ exists g, wf_ghost c g
       /\ d_rows (pv c (prune n d)) = rows_of c (concat g)
       /\ d_curs (pv c (prune n d)) = map (bcur c) (skipn (length g - n) g).
Proof. exact prune_inv. Qed.
Print Assumptions prune_preserves_observable_inv.

(* for every pair in any state: a cursor that no cursor of its pair is newer
   than is never deleted *)
Theorem prune_keeps_newest : forall n d x, (1 <= n)%nat -> In x (d_curs d) ->
  newer_count x (d_curs d) = 0%nat -> In x (d_curs (prune n d)).
Proof. exact prune_keeps_max. Qed.
Print Assumptions prune_keeps_newest.

(* TaskInv implies the directly observable I1: no row beyond the newest cursor *)
Theorem inv_no_row_beyond_position : forall c d, TaskInv c d -> i1b c d = true.
Proof. exact TaskInv_i1b. Qed.
Print Assumptions inv_no_row_beyond_position.

(* The pinned code (legacy variant: Task.Delete removes rows >= localNum only)
   does NOT preserve TaskInv: batch 3, chain A indexed to block 6, reorg below
   block 4 -- the first transaction commits rows of blocks 4 and 5 beyond
   position 3.  This is the witness replayed on the unrepaired implementation. *)
Theorem legacy_preserves_inv_refuted : ~ legacy_preserves_inv_full.
Proof. exact legacy_preserves_inv_false. Qed.
Print Assumptions legacy_preserves_inv_refuted.

(* non-vacuity: the hypotheses are satisfiable, and the witness state is one *)
Example inv_satisfiable : TaskInv w2_cfg w2_mid /\ cfg_ok w2_cfg.
Proof. exact w2_mid_inv. Qed.
Example empty_inv : TaskInv w2_cfg (Db [] []).
Proof. exact empty_inv_example. Qed.
