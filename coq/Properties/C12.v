(* C12 — filters keep exactly the rows they select; server-side pre-filtering
   loses none.  Only property theorems here, each closed by [exact] of a lemma
   from Proofs/, each followed by [Print Assumptions].

   Model: Model/Filter.v (Filter.Accept, filterResults), Model/Rows.v
   (processLog/processTx: where Accept is called), Model/Pushdown.v
   (Integration.Filter() as repaired by fixes/C12-address-pushdown.diff, and the
   node's side of eth_getLogs).  [filter_result dbs f v] is the one decision
   filter [f] takes on value [v] ([None]: it compares nothing). *)
From Coq Require Import String Ascii List NArith ZArith Bool.
From Shovel Require Import Base.Outcome Model.Hex Model.Filter Model.Rows Model.Pushdown
     Proofs.FilterP Proofs.RowsP Proofs.PushdownP.
Import ListNotations.
Open Scope N_scope.

(* ---- a row is emitted iff the aggregated decisions accept it ---- *)

(* log with data: one candidate row per decoded row; [decisions] ties every
   column's value to the decision of the filter declared on that column; the
   emitted rows are exactly the candidates whose decisions aggregate to true,
   in order *)
Theorem emit_iff_accept : forall vr d dbs e l rows,
  process_log vr d dbs e l = Ok rows -> gate d l = true -> l_data l <> [] ->
  exists srows cands, l_scan l = Ok srows /\ length cands = length srows /\
    Forall (fun c => decisions dbs (cd_filter true) (coldefs d) (fst c) (snd c)) cands /\
    rows = map fst (filter (accepted (kind_is_and (d_agg d))) cands).
Proof. exact emit_data. Qed.
Print Assumptions emit_iff_accept.

Theorem emit_iff_accept_nodata : forall vr d dbs e l rows,
  process_log vr d dbs e l = Ok rows -> gate d l = true -> l_data l = [] ->
  exists cells rs, decisions dbs (cd_filter false) (coldefs d) cells rs /\
    rows = if agg (kind_is_and (d_agg d)) (somes rs) then [cells] else [].
Proof. exact emit_nodata. Qed.
Print Assumptions emit_iff_accept_nodata.

Theorem emit_iff_accept_tx : forall d dbs e rows,
  process_tx d dbs e = Ok rows -> num_selected d = 0%nat -> (0 < num_bd d)%nat ->
  exists cells rs, decisions dbs (fun cd => Some (bd_filter (cd_bd cd))) (coldefs d) cells rs /\
    rows = if agg (kind_is_and (d_agg d)) (somes rs) then [cells] else [].
Proof. exact emit_tx. Qed.
Print Assumptions emit_iff_accept_tx.

(* Accept contributes exactly that one decision to the accumulator (the double
   add of the contains branch included), and the accumulator computes [agg] *)
Theorem accept_adds_one_decision : forall k d f v fr,
  accept k d f v fr = (do r <- filter_result d f v; Ok (frs_step k fr r)).
Proof. exact accept_spec. Qed.
Print Assumptions accept_adds_one_decision.

Theorem accumulator_is_agg : forall k rs, frs_accept (fold_left (frs_add k) rs frs0) = agg k rs.
Proof. exact frs_fold_agg. Qed.
Print Assumptions accumulator_is_agg.

(* ---- aggregation: and = all, or = some, no decision = accept ---- *)
Theorem agg_and_all : forall rs, agg true rs = true <-> forall b, In b rs -> b = true.
Proof. exact agg_and. Qed.
Print Assumptions agg_and_all.

Theorem agg_or_some : forall rs, agg false rs = true <-> rs = [] \/ In true rs.
Proof. exact agg_or. Qed.
Print Assumptions agg_or_some.

Theorem agg_kind_and : kind_is_and (s2b "and") = true /\ kind_is_and (s2b "AND") = true /\ kind_is_and (s2b "And") = true.
Proof. exact kind_and. Qed.
Print Assumptions agg_kind_and.

Theorem agg_kind_otherwise_or : forall a, to_lower a <> s2b "and" -> kind_is_and a = false.
Proof. exact kind_or. Qed.
Print Assumptions agg_kind_otherwise_or.

Theorem default_agg_or_validated : kind_is_and (validate_agg []) = false /\ kind_is_and [] = false.
Proof. exact validated_default_or. Qed.
Print Assumptions default_agg_or_validated.

(* a filter without arguments and without reference decides nothing, on any value *)
Theorem inactive_filter_decides_nothing : forall d f v,
  is_nil (f_args f) && is_nil (f_ref_ig f) = true -> filter_result d f v = Ok None.
Proof. exact filter_result_inactive. Qed.
Print Assumptions inactive_filter_decides_nothing.

(* ---- operators on byte strings (any number of arguments) ---- *)
Theorem op_semantics_bytes_contains : forall dbs f o,
  is_active f -> f_op f = s2b "contains" -> f_ref_table f = [] ->
  exists b, filter_result dbs f (VBytes o) = Ok (Some b) /\
    (b = true <-> exists a p q, In a (f_args f) /\ ob o = p ++ decode_hex a ++ q).
Proof. exact sem_bytes_contains. Qed.
Print Assumptions op_semantics_bytes_contains.

Theorem op_semantics_bytes_not_contains : forall dbs f o,
  is_active f -> f_op f = s2b "!contains" -> f_ref_table f = [] ->
  exists b, filter_result dbs f (VBytes o) = Ok (Some b) /\
    (b = true <-> ~ exists a p q, In a (f_args f) /\ ob o = p ++ decode_hex a ++ q).
Proof. exact sem_bytes_not_contains. Qed.
Print Assumptions op_semantics_bytes_not_contains.

Theorem op_semantics_bytes_eq : forall dbs f o, is_active f -> f_op f = s2b "eq" ->
  exists b, filter_result dbs f (VBytes o) = Ok (Some b) /\
    (b = true <-> exists a, In a (f_args f) /\ ob o = decode_hex a).
Proof. exact sem_bytes_eq. Qed.
Print Assumptions op_semantics_bytes_eq.

Theorem op_semantics_bytes_ne : forall dbs f o, is_active f -> f_op f = s2b "ne" ->
  exists b, filter_result dbs f (VBytes o) = Ok (Some b) /\
    (b = true <-> forall a, In a (f_args f) -> ob o <> decode_hex a).
Proof. exact sem_bytes_ne. Qed.
Print Assumptions op_semantics_bytes_ne.

(* value and argument of the same length (addresses, hashes): containment is equality *)
Theorem op_semantics_contains_same_length : forall b a,
  length b = length (decode_hex a) -> contains b (decode_hex a) = bytes_eqb b (decode_hex a).
Proof. exact sem_addr_contains_eq. Qed.
Print Assumptions op_semantics_contains_same_length.

(* ---- reference filters: membership in the referenced column; a failing query is an error ---- *)
Theorem ref_filter_semantics : forall dbs f o (neg : bool),
  is_active f -> f_ref_table f <> [] ->
  f_op f = (if neg then s2b "!contains" else s2b "contains") ->
  match db_lookup dbs (f_ref_table f) (f_ref_col f) with
  | Some vs => exists b, filter_result dbs f (VBytes o) = Ok (Some b) /\
                 (b = true <-> if neg then ~ In (ob o) vs else In (ob o) vs)
  | None => filter_result dbs f (VBytes o) = Err
  end.
Proof. exact sem_ref. Qed.
Print Assumptions ref_filter_semantics.

(* ---- strings ---- *)
Theorem op_semantics_string : forall dbs f s, is_active f ->
  (f_op f = s2b "contains" -> exists b, filter_result dbs f (VStr s) = Ok (Some b) /\ (b = true <-> In s (f_args f))) /\
  (f_op f = s2b "!contains" -> exists b, filter_result dbs f (VStr s) = Ok (Some b) /\ (b = true <-> ~ In s (f_args f))) /\
  (forall a r, f_op f = s2b "eq" -> f_args f = a :: r ->
     exists b, filter_result dbs f (VStr s) = Ok (Some b) /\ (b = true <-> s = a)) /\
  (forall a r, f_op f = s2b "ne" -> f_args f = a :: r ->
     exists b, filter_result dbs f (VStr s) = Ok (Some b) /\ (b = true <-> s <> a)).
Proof. exact sem_str. Qed.
Print Assumptions op_semantics_string.

(* ---- unsigned integers, first argument, every value incl. the boundaries ---- *)
Theorem op_semantics_uint64 : forall dbs f n a r i, f_args f = a :: r -> parse_u64 a = Some i ->
  (f_op f = s2b "eq" -> exists b, filter_result dbs f (VU64 n) = Ok (Some b) /\ (b = true <-> n = i)) /\
  (f_op f = s2b "ne" -> exists b, filter_result dbs f (VU64 n) = Ok (Some b) /\ (b = true <-> n <> i)) /\
  (f_op f = s2b "gt" -> exists b, filter_result dbs f (VU64 n) = Ok (Some b) /\ (b = true <-> i < n)) /\
  (f_op f = s2b "lt" -> exists b, filter_result dbs f (VU64 n) = Ok (Some b) /\ (b = true <-> n < i)).
Proof. exact sem_u64. Qed.
Print Assumptions op_semantics_uint64.

Theorem op_semantics_uint256 : forall dbs f n a r i, f_args f = a :: r -> parse_u256 a = Some i ->
  (f_op f = s2b "eq" -> exists b, filter_result dbs f (VU256 n) = Ok (Some b) /\ (b = true <-> n = i)) /\
  (f_op f = s2b "ne" -> exists b, filter_result dbs f (VU256 n) = Ok (Some b) /\ (b = true <-> n <> i)) /\
  (f_op f = s2b "gt" -> exists b, filter_result dbs f (VU256 n) = Ok (Some b) /\ (b = true <-> i < n)) /\
  (f_op f = s2b "lt" -> exists b, filter_result dbs f (VU256 n) = Ok (Some b) /\ (b = true <-> n < i)).
Proof. exact sem_u256. Qed.
Print Assumptions op_semantics_uint256.

(* the argument is read as a decimal number: digits [ds] (leading zeros
   allowed) denote [dec_val ds]; out of range or not a number is an error *)
Theorem decimal_argument_exact : forall bound ds,
  ds <> [] -> Forall (fun d => d < 10) ds ->
  parse_dec bound (digit_chars ds) = if dec_val ds <? bound then Some (dec_val ds) else None.
Proof. exact parse_dec_exact. Qed.
Print Assumptions decimal_argument_exact.

Theorem bad_numeric_argument_is_error : forall dbs f n a r, f_args f = a :: r ->
  (parse_u64 a = None -> filter_result dbs f (VU64 n) = Err) /\
  (parse_u256 a = None -> filter_result dbs f (VU256 n) = Err).
Proof. exact sem_num_bad_arg. Qed.
Print Assumptions bad_numeric_argument_is_error.

Theorem other_kinds_not_filtered : forall dbs f v, kind_of v = KOther -> filter_result dbs f v = Ok None.
Proof. exact sem_other. Qed.
Print Assumptions other_kinds_not_filtered.

(* ---- pushdown ---- *)

(* a log for which processLog emits at least one row passes the topic
   restriction [[sighash]] at the node *)
Theorem pushdown_topic_sound : forall vr d dbs e l rows,
  process_log vr d dbs e l = Ok rows -> rows <> [] -> wf_bytes (d_sighash d) ->
  topics_pass (push_topics d) (l_topics l) = true.
Proof. exact topic_sound. Qed.
Print Assumptions pushdown_topic_sound.

(* ... and the address restriction that Filter() sends (any declaration, any
   operators, either aggregation, any referenced tables; addresses are 20 bytes) *)
Theorem pushdown_address_sound : pushdown_statement push_addrs.
Proof. exact pushdown_statement_fixed. Qed.
Print Assumptions pushdown_address_sound.

(* End to end: whatever chain the node holds, indexing the chain as restricted by
   the node (it withholds every log that fails the address/topic parameters
   Filter() sends) hands COPY exactly the rows that indexing the whole chain
   does -- same rows, same order. *)
Theorem pushdown_loses_none : forall d c dbs blocks rows,
  indexing fixed d = IxLog -> wf_bytes (d_sighash d) ->
  (forall b t l, In b blocks -> In t (b_txs b) -> In l (t_logs t) -> length (ob (l_addr l)) = 20%nat) ->
  insert fixed d c dbs blocks = Ok rows ->
  insert fixed d c dbs (node_filter (push_addrs d) (push_topics d) blocks) = Ok rows.
Proof. exact restricted_same_rows. Qed.
Print Assumptions pushdown_loses_none.

(* the optimisation is still there where it is sound *)
Theorem pushdown_not_vacuous :
  push_addrs (p_decl "and" (p_flt "eq" [s2b "5"]) (p_flt "contains" [encode_hex addr_a])) = [encode_hex addr_a]
  /\ push_addrs (p_decl "" no_filter (p_flt "contains" [encode_hex addr_a; encode_hex addr_b]))
     = [encode_hex addr_a; encode_hex addr_b]
  /\ push_addrs (p_decl "or" no_filter (p_flt "eq" [encode_hex addr_a])) = [encode_hex addr_a].
Proof. exact pushdown_still_applies. Qed.
Print Assumptions pushdown_not_vacuous.

(* ---- the unrepaired Filter() ---- *)
Theorem legacy_pushdown_refuted : ~ pushdown_statement legacy_push_addrs.
Proof. exact legacy_pushdown_refuted_l. Qed.
Print Assumptions legacy_pushdown_refuted.

Theorem legacy_pushdown_refuted_negated_op :
  process_log fixed p_decl_neg [] (p_env p_decl_neg) p_log = Ok [[VU256 5; VBytes (Some addr_b)]]
  /\ node_addr_pass (legacy_push_addrs p_decl_neg) p_log = false
  /\ node_addr_pass (push_addrs p_decl_neg) p_log = true.
Proof. exact legacy_pushdown_neg_witness. Qed.
Print Assumptions legacy_pushdown_refuted_negated_op.

Theorem legacy_pushdown_refuted_or :
  process_log fixed p_decl_or [] (p_env p_decl_or) p_log = Ok [[VU256 5; VBytes (Some addr_b)]]
  /\ node_addr_pass (legacy_push_addrs p_decl_or) p_log = false
  /\ node_addr_pass (push_addrs p_decl_or) p_log = true.
Proof. exact legacy_pushdown_or_witness. Qed.
Print Assumptions legacy_pushdown_refuted_or.

(* ---- non-vacuity ---- *)
Example ex_active : is_active (p_flt "gt" [s2b "5"]) /\ parse_u64 (s2b "5") = Some 5.
Proof. split; reflexivity. Qed.
Example ex_boundary :
  filter_result [] (p_flt "gt" [s2b "18446744073709551615"]) (VU64 18446744073709551615) = Ok (Some false)
  /\ filter_result [] (p_flt "lt" [s2b "18446744073709551615"]) (VU64 18446744073709551614) = Ok (Some true)
  /\ filter_result [] (p_flt "gt" [s2b "18446744073709551616"]) (VU64 1) = Err.
Proof. repeat split. Qed.

(* ------------------------------------------------------------------ *)
(* Bridge pushdown -> cache (C08, "Bridge cache->rows")                *)
(* ------------------------------------------------------------------ *)
(* Model/BridgePush.v, Proofs/BridgePushP.v.  The cache->rows bridge
   (Properties/C08.v) takes [keep] (the logs the rows depend on) and [want]
   (the filter the call sent) as parameters with the premise
   [forall lg, keep lg = true -> want lg = true].  Here both come from the
   declaration [d], through a reader [rd] of the client model's payloads:
   [PV.want_of rd d] = what a node does with the addresses / topics Filter()
   sends ([node_pass (push_addrs d) (push_topics d)]); [PV.keep_of rd d] =
   processLog's gate passes and the aggregation [agg] of the decisions
   [filter_result] of the declared positive literal log_addr filters does not
   reject ([PD.keep_log]; filters that need the enclosing items or the
   database cannot be decided on the log: [true] when filter_agg is "or" and
   such a filter is active). *)
From Shovel Require Model.Client Model.ClientSpec Model.CacheClient Model.BridgeCacheTask
  Model.BridgeCacheRows Model.BridgeRowsTask Model.TaskTypes Model.TaskSpec
  Proofs.BridgeClientTaskP Proofs.BridgePushP.
From Shovel Require Import Model.BridgePush.
Import BridgeCacheRows.

(* (1) keep is within want: the premise of the cache->rows bridge, for the
   declaration's own request.  Side conditions: well-formed signature hash,
   20-byte address (the indexing mode plays no role here) *)
Theorem declared_keep_within_pushdown : forall rd d,
  wf_bytes (d_sighash d) ->
  forall lg, length (ob (l_addr (C11V.rd_log rd lg))) = 20%nat ->
    PV.keep_of rd d lg = true -> PV.want_of rd d lg = true.
Proof. exact BridgePushP.V.declared_keep_within_pushdown. Qed.
Print Assumptions declared_keep_within_pushdown.

(* ... and the address length is needed: "contains" accepts a 21-byte address
   containing the argument, the node compares for equality *)
Theorem declared_keep_needs_address_length : ~ PV.keep_within_pushdown_any_length_full.
Proof. exact BridgePushP.X.keep_within_pushdown_needs_addr20. Qed.
Print Assumptions declared_keep_needs_address_length.

(* "emitted iff accepted", the direction the bridge needs: a log for which
   processLog emits a row -- any database, any enclosing block / transaction --
   passes [keep_log]; so a log failing it contributes no row *)
Theorem emitted_log_passes_declared_keep : forall d dbs e l rows,
  process_log fixed d dbs e l = Ok rows -> rows <> [] -> e_l e = Some l ->
  PD.keep_log d l = true.
Proof. exact BridgePushP.D.emitted_within_keep_log. Qed.
Print Assumptions emitted_log_passes_declared_keep.

(* (3) restricting the delivered blocks to [keep_of] loses no row: Insert on
   the blocks with every other log erased returns the same rows, same order *)
Theorem keep_restriction_loses_no_rows : forall rd d c dbs bs rows,
  indexing fixed d = IxLog ->
  insert fixed d c dbs (map (C11V.conv rd) bs) = Ok rows ->
  insert fixed d c dbs (map (C11V.conv rd) (map (C11V.restrict (PV.keep_of rd d)) bs)) = Ok rows.
Proof. exact BridgePushP.V.keep_restriction_loses_no_rows. Qed.
Print Assumptions keep_restriction_loses_no_rows.

(* ... composed with C08 [c11_insert_ignores_withheld_logs]: what the node
   withholds, what the builder cannot use, both, or nothing -- the same rows *)
Theorem pushdown_and_keep_restrictions_agree : forall rd d c dbs bs rows,
  indexing fixed d = IxLog -> wf_bytes (d_sighash d) ->
  (forall b t lg, In b bs -> In t (Client.b_txs b) -> In lg (Client.t_logs t) ->
     length (ob (l_addr (C11V.rd_log rd lg))) = 20%nat) ->
  insert fixed d c dbs (map (C11V.conv rd) bs) = Ok rows ->
  insert fixed d c dbs (map (C11V.conv rd) (map (C11V.restrict (PV.want_of rd d)) bs)) = Ok rows
  /\ insert fixed d c dbs (map (C11V.conv rd) (map (C11V.restrict (PV.keep_of rd d)) bs)) = Ok rows
  /\ insert fixed d c dbs
       (map (C11V.conv rd) (map (C11V.restrict (PV.keep_of rd d)) (map (C11V.restrict (PV.want_of rd d)) bs))) = Ok rows.
Proof. exact BridgePushP.V.restrictions_agree. Qed.
Print Assumptions pushdown_and_keep_restrictions_agree.

(* (2) the rows premise of the cache->task bridge for the call of an
   integration with declaration [d] that sent [want_of rd d] to an honest
   node: no free keep / want.  [PV.addr20 rd]: every log the reader reads has
   a 20-byte address *)
Theorem rows_canon_for_declaration : forall rd d c dbs cch op,
  CR.citems_wf cch -> PV.addr20 rd -> wf_bytes (d_sighash d) ->
  CR.attach_on cch (PV.want_of rd d) (CacheClient.cc_s op) (CacheClient.cc_l op) (CacheClient.cc_world op) ->
  Client.use_receipts (CacheClient.cc_plan op) || Client.use_logs (CacheClient.cc_plan op) = true ->
  BridgeCacheTask.rows_canon (PV.rowsf_decl rd d c dbs) cch (CR.Jit cch) op.
Proof. exact BridgePushP.V.rows_canon_for_declaration. Qed.
Print Assumptions rows_canon_for_declaration.

(* every history [calls] of cached Gets, each made by an integration with its
   own declaration and sending that declaration's pushdown
   ([PV.honest_decl_history]: [world_on] + [CR.attach_on] with
   [want_of rd d_i]); the [i]-th call, of declaration [d], is handed [bs]
   (any reachable state of the shared caches): the segment the task receives
   is canon's, with the row function of [d] -- C11's keyed builder on
   [CR.log_view (keep_of rd d)] *)
Theorem cached_rows_for_declaration : forall hid rd c dbs cch mx calls i d op bs,
  CR.citems_wf cch -> PV.addr20 rd -> wf_bytes (d_sighash d) ->
  PV.honest_decl_history rd cch calls -> nth_error calls i = Some (d, op) ->
  Client.use_receipts (CacheClient.cc_plan op) || Client.use_logs (CacheClient.cc_plan op) = true ->
  BridgeCacheTask.cached_result mx (map snd calls) i op bs ->
  ClientSpec.fetches (CacheClient.cc_plan op) = true ->
  TaskSpec.canon_seg true (BridgeCacheTask.canon hid (PV.rowsf_decl rd d c dbs) cch)
    (CacheClient.cc_s op, CacheClient.cc_l op)
    (TaskTypes.SegOk (map (BridgeClientTaskP.abs hid (PV.rowsf_decl rd d c dbs)) bs)).
Proof. exact BridgePushP.V.cached_rows_for_declaration. Qed.
Print Assumptions cached_rows_for_declaration.

Theorem cached_growth_reply_for_declaration : forall hid rd d c dbs cch ps rs,
  CR.citems_wf cch -> PV.addr20 rd -> wf_bytes (d_sighash d) ->
  Forall2 (PV.declared_cache_answer hid rd d c dbs cch) ps rs ->
  TaskSpec.growth_reply true (BridgeCacheTask.canon hid (PV.rowsf_decl rd d c dbs) cch)
    (TaskTypes.RGet ps) (TaskTypes.RSegs rs).
Proof. exact BridgePushP.V.cached_growth_reply_for_declaration. Qed.
Print Assumptions cached_growth_reply_for_declaration.

(* the rows of the view ARE the builder's rows.  For a node's block [cb] in
   index order (transactions, and each transaction's logs) on which Insert
   succeeds, the declaration's row function is the keyed builder of the
   rows->task bridge on the block as a headers + eth_getLogs plan delivers it
   ([PV.block_hl]: per transaction index, hash, logs) -- stated for the
   index-sorted NORMALISATION of the delivered block ([CR.log_view]): the
   cache stores the logs of a shared transaction in arrival order *)
Theorem declared_rows_are_builder_rows : forall rd d c dbs cb,
  indexing fixed d = IxLog -> PV.idx_sorted cb ->
  (exists rows, insert fixed d c dbs [C11V.conv rd (PV.block_hl cb)] = Ok rows) ->
  PV.rowsf_decl rd d c dbs cb = BridgeRowsTask.rowsf_of (C11V.conv rd) d c dbs (PV.block_hl cb).
Proof. exact BridgePushP.NV.rowsf_decl_is_builder. Qed.
Print Assumptions declared_rows_are_builder_rows.

(* ... the order condition is needed *)
Theorem declared_rows_need_index_order : ~ PV.rowsf_decl_any_order_full.
Proof. exact BridgePushP.NV.builder_rows_need_index_order. Qed.
Print Assumptions declared_rows_need_index_order.

(* a block [b] served through the cache for canon's block [cb] ([CR.served]:
   whatever other integrations attached before): its rows for [d] are the
   builder's rows on the node's block *)
Theorem served_rows_are_node_rows : forall rd d c dbs cb b,
  indexing fixed d = IxLog ->
  (NoDup (map Client.t_idx (Client.b_txs cb))
   /\ forall t, In t (Client.b_txs cb) -> NoDup (map Client.l_idx (Client.t_logs t))) ->
  PV.idx_sorted cb ->
  (exists rows, insert fixed d c dbs [C11V.conv rd (PV.block_hl cb)] = Ok rows) ->
  CR.served (PV.keep_of rd d) cb b ->
  PV.rowsf_decl rd d c dbs b = BridgeRowsTask.rowsf_of (C11V.conv rd) d c dbs (PV.block_hl cb).
Proof. exact BridgePushP.NV.served_rows_are_node_rows. Qed.
Print Assumptions served_rows_are_node_rows.

(* (2) with the canonical chain's rows LITERALLY those of the rows->task
   bridge ([BridgeRowsTask.rowsf_of], Properties/C01.v) on the node's blocks *)
Theorem cached_rows_for_declaration_literal : forall hid rd c dbs cch mx calls i d op bs,
  CR.citems_wf cch -> PV.addr20 rd -> wf_bytes (d_sighash d) ->
  indexing fixed d = IxLog -> PV.node_ok rd d c dbs cch ->
  PV.honest_decl_history rd cch calls -> nth_error calls i = Some (d, op) ->
  Client.use_receipts (CacheClient.cc_plan op) || Client.use_logs (CacheClient.cc_plan op) = true ->
  BridgeCacheTask.cached_result mx (map snd calls) i op bs ->
  ClientSpec.fetches (CacheClient.cc_plan op) = true ->
  TaskSpec.canon_seg true
    (BridgeCacheTask.canon hid (fun b => BridgeRowsTask.rowsf_of (C11V.conv rd) d c dbs (PV.block_hl b)) cch)
    (CacheClient.cc_s op, CacheClient.cc_l op)
    (TaskTypes.SegOk (map (BridgeClientTaskP.abs hid (PV.rowsf_decl rd d c dbs)) bs)).
Proof. exact BridgePushP.NV.cached_rows_for_declaration_literal. Qed.
Print Assumptions cached_rows_for_declaration_literal.

(* non-vacuity.  Two declarations -- A: event 7 with "log_addr contains
   <contract A>", B: event 8, no filter -- over the chain of the cache->rows
   example (block 2: one transaction, log 0 of event 7 by contract A, log 1 of
   event 8 by contract B).  B reads first; A second and is SERVED B's CACHED
   SEGMENT: its block 2 carries B's log 1 before its own log 0.  A's rows of
   that block are the one row of log 0, equal to canon's, and are what the
   builder emits on the delivered block itself; B's rows are the row of log 1,
   from its own result and from the block A was handed. *)
Example ex_two_declarations_one_cached_segment :
  PV.want_of PX.x_rd PX.dA (Client.mkLog 0 [7]) = true
  /\ PV.want_of PX.x_rd PX.dA (Client.mkLog 1 [8]) = false
  /\ push_addrs PX.dA = [encode_hex PX.addr_a] /\ push_addrs PX.dB = []
  /\ match CacheClient.ccrun (CacheClient.new_cclient 3) (map snd PX.x_calls) with
     | Some (_, [Ok a; Ok b]) =>
         map (fun x => map Client.t_logs (Client.b_txs x)) b
         = [[]; [[Client.mkLog 1 [8]; Client.mkLog 0 [7]]]]
         /\ map (fun x => BridgeRowsTask.block_krows PX.dA PX.x_ctx []
                            (C11V.conv PX.x_rd (CR.log_view (PV.keep_of PX.x_rd PX.dA) x))) b
            = [[]; [(BridgeRowsTask.Key 0 (Some 0) None None, [VU256 5; VBytes (Some PX.addr_a)])]]
         /\ map (PV.rowsf_decl PX.x_rd PX.dA PX.x_ctx []) b
            = map (PV.rowsf_decl PX.x_rd PX.dA PX.x_ctx []) (BridgeCacheTask.cseg BridgeCacheTask.ex_cch 1 2)
         /\ map (PV.rowsf_decl PX.x_rd PX.dA PX.x_ctx []) b
            = map (fun x => BridgeRowsTask.rowsf_of (C11V.conv PX.x_rd) PX.dA PX.x_ctx [] (PV.block_hl x))
                  (BridgeCacheTask.cseg BridgeCacheTask.ex_cch 1 2)
         /\ map (fun x => BridgeRowsTask.block_krows PX.dB PX.x_ctx []
                            (C11V.conv PX.x_rd (CR.log_view (PV.keep_of PX.x_rd PX.dB) x))) a
            = [[]; [(BridgeRowsTask.Key 0 (Some 1) None None, [VU256 5; VBytes (Some PX.addr_b)])]]
         /\ map (PV.rowsf_decl PX.x_rd PX.dB PX.x_ctx []) a = map (PV.rowsf_decl PX.x_rd PX.dB PX.x_ctx []) b
         /\ TaskSpec.canon_seg true
              (BridgeCacheTask.canon BridgeCacheTask.ex_hid (PV.rowsf_decl PX.x_rd PX.dA PX.x_ctx []) BridgeCacheTask.ex_cch)
              (1, 2)
              (TaskTypes.SegOk (map (BridgeClientTaskP.abs BridgeCacheTask.ex_hid
                                       (PV.rowsf_decl PX.x_rd PX.dA PX.x_ctx [])) b))
     | _ => False
     end.
Proof. vm_compute. repeat split; try reflexivity; intros H; discriminate H. Qed.

(* the premises of [cached_rows_for_declaration(_literal)] hold for that run *)
Example ex_declaration_hypotheses_satisfiable :
  CR.citems_wf BridgeCacheTask.ex_cch /\ PV.addr20 PX.x_rd /\ wf_bytes (d_sighash PX.dA)
  /\ PV.honest_decl_history PX.x_rd BridgeCacheTask.ex_cch PX.x_calls
  /\ nth_error PX.x_calls 1 = Some (PX.dA, EX.opA)
  /\ Client.use_receipts (CacheClient.cc_plan EX.opA) || Client.use_logs (CacheClient.cc_plan EX.opA) = true
  /\ (exists bs, BridgeCacheTask.cached_result 3 (map snd PX.x_calls) 1 EX.opA bs)
  /\ ClientSpec.fetches (CacheClient.cc_plan EX.opA) = true
  /\ indexing fixed PX.dA = IxLog.
Proof. exact BridgePushP.X.x_hyps. Qed.
Example ex_declaration_node_ok :
  PV.node_ok PX.x_rd PX.dA PX.x_ctx [] BridgeCacheTask.ex_cch
  /\ PV.node_ok PX.x_rd PX.dB PX.x_ctx [] BridgeCacheTask.ex_cch.
Proof. exact BridgePushP.NV.x_node_ok. Qed.
