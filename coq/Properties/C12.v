(* C12 — filters keep exactly the rows they select; server-side pre-filtering
   loses none.  Only property theorems here, each closed by [exact] of a lemma
   from Proofs/, each followed by [Print Assumptions].

   Model: Model/Filter.v (Filter.Accept, filterResults), Model/Rows.v
   (processLog/processTx: where Accept is called), Model/Pushdown.v
   (Integration.Filter() as repaired by fixes/C12-address-pushdown.diff, and the
   node's side of eth_getLogs).  [filter_result dbs f v] is the one decision
   filter [f] takes on value [v] ([None]: it compares nothing). *)
From Coq Require Import String Ascii List NArith ZArith Bool.
From Shovel Require Import Base.Outcome Model.Hex Model.Filter Model.Rows Model.Pushdown
     Proofs.FilterP Proofs.RowsP Proofs.PushdownP.
Import ListNotations.
Open Scope N_scope.

(* ---- a row is emitted iff the aggregated decisions accept it ---- *)

(* log with data: one candidate row per decoded row; [decisions] ties every
   column's value to the decision of the filter declared on that column; the
   emitted rows are exactly the candidates whose decisions aggregate to true,
   in order *)
Theorem emit_iff_accept : forall vr d dbs e l rows,
  process_log vr d dbs e l = Ok rows -> gate d l = true -> l_data l <> [] ->
  exists srows cands, l_scan l = Ok srows /\ length cands = length srows /\
    Forall (fun c => decisions dbs (cd_filter true) (coldefs d) (fst c) (snd c)) cands /\
    rows = map fst (filter (accepted (kind_is_and (d_agg d))) cands).
Proof. exact emit_data. Qed.
Print Assumptions emit_iff_accept.

Theorem emit_iff_accept_nodata : forall vr d dbs e l rows,
  process_log vr d dbs e l = Ok rows -> gate d l = true -> l_data l = [] ->
  exists cells rs, decisions dbs (cd_filter false) (coldefs d) cells rs /\
    rows = if agg (kind_is_and (d_agg d)) (somes rs) then [cells] else [].
Proof. exact emit_nodata. Qed.
Print Assumptions emit_iff_accept_nodata.

Theorem emit_iff_accept_tx : forall d dbs e rows,
  process_tx d dbs e = Ok rows -> num_selected d = 0%nat -> (0 < num_bd d)%nat ->
  exists cells rs, decisions dbs (fun cd => Some (bd_filter (cd_bd cd))) (coldefs d) cells rs /\
    rows = if agg (kind_is_and (d_agg d)) (somes rs) then [cells] else [].
Proof. exact emit_tx. Qed.
Print Assumptions emit_iff_accept_tx.

(* Accept contributes exactly that one decision to the accumulator (the double
   add of the contains branch included), and the accumulator computes [agg] *)
Theorem accept_adds_one_decision : forall k d f v fr,
  accept k d f v fr = (do r <- filter_result d f v; Ok (frs_step k fr r)).
Proof. exact accept_spec. Qed.
Print Assumptions accept_adds_one_decision.

Theorem accumulator_is_agg : forall k rs, frs_accept (fold_left (frs_add k) rs frs0) = agg k rs.
Proof. exact frs_fold_agg. Qed.
Print Assumptions accumulator_is_agg.

(* ---- aggregation: and = all, or = some, no decision = accept ---- *)
Theorem agg_and_all : forall rs, agg true rs = true <-> forall b, In b rs -> b = true.
Proof. exact agg_and. Qed.
Print Assumptions agg_and_all.

Theorem agg_or_some : forall rs, agg false rs = true <-> rs = [] \/ In true rs.
Proof. exact agg_or. Qed.
Print Assumptions agg_or_some.

Theorem agg_kind_and : kind_is_and (s2b "and") = true /\ kind_is_and (s2b "AND") = true /\ kind_is_and (s2b "And") = true.
Proof. exact kind_and. Qed.
Print Assumptions agg_kind_and.

Theorem agg_kind_otherwise_or : forall a, to_lower a <> s2b "and" -> kind_is_and a = false.
Proof. exact kind_or. Qed.
Print Assumptions agg_kind_otherwise_or.

Theorem default_agg_or_validated : kind_is_and (validate_agg []) = false /\ kind_is_and [] = false.
Proof. exact validated_default_or. Qed.
Print Assumptions default_agg_or_validated.

(* a filter without arguments and without reference decides nothing, on any value *)
Theorem inactive_filter_decides_nothing : forall d f v,
  is_nil (f_args f) && is_nil (f_ref_ig f) = true -> filter_result d f v = Ok None.
Proof. exact filter_result_inactive. Qed.
Print Assumptions inactive_filter_decides_nothing.

(* ---- operators on byte strings (any number of arguments) ---- *)
Theorem op_semantics_bytes_contains : forall dbs f o,
  is_active f -> f_op f = s2b "contains" -> f_ref_table f = [] ->
  exists b, filter_result dbs f (VBytes o) = Ok (Some b) /\
    (b = true <-> exists a p q, In a (f_args f) /\ ob o = p ++ decode_hex a ++ q).
Proof. exact sem_bytes_contains. Qed.
Print Assumptions op_semantics_bytes_contains.

Theorem op_semantics_bytes_not_contains : forall dbs f o,
  is_active f -> f_op f = s2b "!contains" -> f_ref_table f = [] ->
  exists b, filter_result dbs f (VBytes o) = Ok (Some b) /\
    (b = true <-> ~ exists a p q, In a (f_args f) /\ ob o = p ++ decode_hex a ++ q).
Proof. exact sem_bytes_not_contains. Qed.
Print Assumptions op_semantics_bytes_not_contains.

Theorem op_semantics_bytes_eq : forall dbs f o, is_active f -> f_op f = s2b "eq" ->
  exists b, filter_result dbs f (VBytes o) = Ok (Some b) /\
    (b = true <-> exists a, In a (f_args f) /\ ob o = decode_hex a).
Proof. exact sem_bytes_eq. Qed.
Print Assumptions op_semantics_bytes_eq.

Theorem op_semantics_bytes_ne : forall dbs f o, is_active f -> f_op f = s2b "ne" ->
  exists b, filter_result dbs f (VBytes o) = Ok (Some b) /\
    (b = true <-> forall a, In a (f_args f) -> ob o <> decode_hex a).
Proof. exact sem_bytes_ne. Qed.
Print Assumptions op_semantics_bytes_ne.

(* value and argument of the same length (addresses, hashes): containment is equality *)
Theorem op_semantics_contains_same_length : forall b a,
  length b = length (decode_hex a) -> contains b (decode_hex a) = bytes_eqb b (decode_hex a).
Proof. exact sem_addr_contains_eq. Qed.
Print Assumptions op_semantics_contains_same_length.

(* ---- reference filters: membership in the referenced column; a failing query is an error ---- *)
Theorem ref_filter_semantics : forall dbs f o (neg : bool),
  is_active f -> f_ref_table f <> [] ->
  f_op f = (if neg then s2b "!contains" else s2b "contains") ->
  match db_lookup dbs (f_ref_table f) (f_ref_col f) with
  | Some vs => exists b, filter_result dbs f (VBytes o) = Ok (Some b) /\
                 (b = true <-> if neg then ~ In (ob o) vs else In (ob o) vs)
  | None => filter_result dbs f (VBytes o) = Err
  end.
Proof. exact sem_ref. Qed.
Print Assumptions ref_filter_semantics.

(* ---- strings ---- *)
Theorem op_semantics_string : forall dbs f s, is_active f ->
  (f_op f = s2b "contains" -> exists b, filter_result dbs f (VStr s) = Ok (Some b) /\ (b = true <-> In s (f_args f))) /\
  (f_op f = s2b "!contains" -> exists b, filter_result dbs f (VStr s) = Ok (Some b) /\ (b = true <-> ~ In s (f_args f))) /\
  (forall a r, f_op f = s2b "eq" -> f_args f = a :: r ->
     exists b, filter_result dbs f (VStr s) = Ok (Some b) /\ (b = true <-> s = a)) /\
  (forall a r, f_op f = s2b "ne" -> f_args f = a :: r ->
     exists b, filter_result dbs f (VStr s) = Ok (Some b) /\ (b = true <-> s <> a)).
Proof. exact sem_str. Qed.
Print Assumptions op_semantics_string.

(* ---- unsigned integers, first argument, every value incl. the boundaries ---- *)
Theorem op_semantics_uint64 : forall dbs f n a r i, f_args f = a :: r -> parse_u64 a = Some i ->
  (f_op f = s2b "eq" -> exists b, filter_result dbs f (VU64 n) = Ok (Some b) /\ (b = true <-> n = i)) /\
  (f_op f = s2b "ne" -> exists b, filter_result dbs f (VU64 n) = Ok (Some b) /\ (b = true <-> n <> i)) /\
  (f_op f = s2b "gt" -> exists b, filter_result dbs f (VU64 n) = Ok (Some b) /\ (b = true <-> i < n)) /\
  (f_op f = s2b "lt" -> exists b, filter_result dbs f (VU64 n) = Ok (Some b) /\ (b = true <-> n < i)).
Proof. exact sem_u64. Qed.
Print Assumptions op_semantics_uint64.

Theorem op_semantics_uint256 : forall dbs f n a r i, f_args f = a :: r -> parse_u256 a = Some i ->
  (f_op f = s2b "eq" -> exists b, filter_result dbs f (VU256 n) = Ok (Some b) /\ (b = true <-> n = i)) /\
  (f_op f = s2b "ne" -> exists b, filter_result dbs f (VU256 n) = Ok (Some b) /\ (b = true <-> n <> i)) /\
  (f_op f = s2b "gt" -> exists b, filter_result dbs f (VU256 n) = Ok (Some b) /\ (b = true <-> i < n)) /\
  (f_op f = s2b "lt" -> exists b, filter_result dbs f (VU256 n) = Ok (Some b) /\ (b = true <-> n < i)).
Proof. exact sem_u256. Qed.
Print Assumptions op_semantics_uint256.

(* the argument is read as a decimal number: digits [ds] (leading zeros
   allowed) denote [dec_val ds]; out of range or not a number is an error *)
Theorem decimal_argument_exact : forall bound ds,
  ds <> [] -> Forall (fun d => d < 10) ds ->
  parse_dec bound (digit_chars ds) = if dec_val ds <? bound then Some (dec_val ds) else None.
Proof. exact parse_dec_exact. Qed.
Print Assumptions decimal_argument_exact.

Theorem bad_numeric_argument_is_error : forall dbs f n a r, f_args f = a :: r ->
  (parse_u64 a = None -> filter_result dbs f (VU64 n) = Err) /\
  (parse_u256 a = None -> filter_result dbs f (VU256 n) = Err).
Proof. exact sem_num_bad_arg. Qed.
Print Assumptions bad_numeric_argument_is_error.

Theorem other_kinds_not_filtered : forall dbs f v, kind_of v = KOther -> filter_result dbs f v = Ok None.
Proof. exact sem_other. Qed.
Print Assumptions other_kinds_not_filtered.

(* ---- pushdown ---- *)

(* a log for which processLog emits at least one row passes the topic
   restriction [[sighash]] at the node *)
Theorem pushdown_topic_sound : forall vr d dbs e l rows,
  process_log vr d dbs e l = Ok rows -> rows <> [] -> wf_bytes (d_sighash d) ->
  topics_pass (push_topics d) (l_topics l) = true.
Proof. exact topic_sound. Qed.
Print Assumptions pushdown_topic_sound.

(* ... and the address restriction that Filter() sends (any declaration, any
   operators, either aggregation, any referenced tables; addresses are 20 bytes) *)
Theorem pushdown_address_sound : pushdown_statement push_addrs.
Proof. exact pushdown_statement_fixed. Qed.
Print Assumptions pushdown_address_sound.

(* End to end: whatever chain the node holds, indexing the chain as restricted by
   the node (it withholds every log that fails the address/topic parameters
   Filter() sends) hands COPY exactly the rows that indexing the whole chain
   does -- same rows, same order. *)
Theorem pushdown_loses_none : forall d c dbs blocks rows,
  indexing fixed d = IxLog -> wf_bytes (d_sighash d) ->
  (forall b t l, In b blocks -> In t (b_txs b) -> In l (t_logs t) -> length (ob (l_addr l)) = 20%nat) ->
  insert fixed d c dbs blocks = Ok rows ->
  insert fixed d c dbs (node_filter (push_addrs d) (push_topics d) blocks) = Ok rows.
Proof. exact restricted_same_rows. Qed.
Print Assumptions pushdown_loses_none.

(* the optimisation is still there where it is sound *)
Theorem pushdown_not_vacuous :
  push_addrs (p_decl "and" (p_flt "eq" [s2b "5"]) (p_flt "contains" [encode_hex addr_a])) = [encode_hex addr_a]
  /\ push_addrs (p_decl "" no_filter (p_flt "contains" [encode_hex addr_a; encode_hex addr_b]))
     = [encode_hex addr_a; encode_hex addr_b]
  /\ push_addrs (p_decl "or" no_filter (p_flt "eq" [encode_hex addr_a])) = [encode_hex addr_a].
Proof. exact pushdown_still_applies. Qed.
Print Assumptions pushdown_not_vacuous.

(* ---- the unrepaired Filter() ---- *)
Theorem legacy_pushdown_refuted : ~ pushdown_statement legacy_push_addrs.
Proof. exact legacy_pushdown_refuted_l. Qed.
Print Assumptions legacy_pushdown_refuted.

Theorem legacy_pushdown_refuted_negated_op :
  process_log fixed p_decl_neg [] (p_env p_decl_neg) p_log = Ok [[VU256 5; VBytes (Some addr_b)]]
  /\ node_addr_pass (legacy_push_addrs p_decl_neg) p_log = false
  /\ node_addr_pass (push_addrs p_decl_neg) p_log = true.
Proof. exact legacy_pushdown_neg_witness. Qed.
Print Assumptions legacy_pushdown_refuted_negated_op.

Theorem legacy_pushdown_refuted_or :
  process_log fixed p_decl_or [] (p_env p_decl_or) p_log = Ok [[VU256 5; VBytes (Some addr_b)]]
  /\ node_addr_pass (legacy_push_addrs p_decl_or) p_log = false
  /\ node_addr_pass (push_addrs p_decl_or) p_log = true.
Proof. exact legacy_pushdown_or_witness. Qed.
Print Assumptions legacy_pushdown_refuted_or.

(* ---- non-vacuity ---- *)
Example ex_active : is_active (p_flt "gt" [s2b "5"]) /\ parse_u64 (s2b "5") = Some 5.
Proof. split; reflexivity. Qed.
Example ex_boundary :
  filter_result [] (p_flt "gt" [s2b "18446744073709551615"]) (VU64 18446744073709551615) = Ok (Some false)
  /\ filter_result [] (p_flt "lt" [s2b "18446744073709551615"]) (VU64 18446744073709551614) = Ok (Some true)
  /\ filter_result [] (p_flt "gt" [s2b "18446744073709551616"]) (VU64 1) = Err.
Proof. repeat split. Qed.
