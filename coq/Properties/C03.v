(* C03 -- reorg convergence.  Arbitrary histories [H] of well-formed chain
   versions; every answer of the node may be taken from a different version
   (per call and per partition of a load): [node_ans true H] (Model/TaskNode.v).
   Declarations whose plan serves parent hashes.  This file: the safety
   theorems, for all histories and fault plans. *)
From Coq Require Import List NArith Bool.
From Shovel Require Import Base.Outcome.
From Shovel Require Model.Client Model.ClientSpec Proofs.BridgeClientTaskP.
From Shovel Require Import Model.TaskTypes Model.TaskDb Model.Task Model.TaskNode Model.TaskSys
  Model.TaskSpec Model.TaskWitness Proofs.TaskLegacyP Proofs.C03P Proofs.TaskLiveP Proofs.C03LiveP.
Import ListNotations.
Open Scope N_scope.

(* I4 is invariant: every committed state is the rendering of a well-formed
   ghost all of whose blocks belong to versions of the history ... *)
Theorem indexed_in_history : forall c H, cfg_ok c -> history_ok H -> forall g d s,
  pv c d = render c g -> wf_ghost c g -> Forall (in_history H) (concat g) ->
  trace_sat (node_ans true H) (step c s d) ->
  Forall (fun e => TaskInvH c H (snd e)) (r_trace (step c s d))
  /\ TaskInvH c H (r_db (step c s d)).
Proof. exact hist_all. Qed.
Print Assumptions indexed_in_history.

(* ... and such a ghost is hash-linked across batch AND partition boundaries:
   consecutive numbers, every parent is the predecessor's hash *)
Theorem linked_indexed : forall c H, history_ok H -> forall d,
  TaskInvH c H d ->
  exists g, pv c d = render c g /\ wf_ghost c g /\ strong_linked (concat g).
Proof. exact linked_lemma. Qed.
Print Assumptions linked_indexed.

(* if the newest cursor's hash is the final chain's hash at that height, the
   whole table is the projection of a segment of the final chain ending there
   (block hashes identify blocks: [hash_identifies]) *)
Theorem cursor_on_chain_implies_table_canonical : forall c H, history_ok H ->
  forall final, In final H -> hash_identifies H -> forall d n h x,
  TaskInvH c H d ->
  newest (t_src c) (t_ig c) (d_curs d) = Some (n, h) ->
  blk_at final n = Some x -> b_hash x = h ->
  exists m k, d_rows (pv c d) = rows_of c (segment final m k)
              /\ 1 <= k /\ m + k = n + 1 /\ m + k <= height final.
Proof. exact canonical_lemma. Qed.
Print Assumptions cursor_on_chain_implies_table_canonical.

(* the writes of one reorg iteration (Task.Delete, repaired) turn the
   rendering of p ++ [b] into the rendering of p: the cursor of the last batch
   and ALL its rows, nothing else *)
Theorem unwind_deletes_exactly_the_batch : forall c p b, wf_ghost c (p ++ [b]) ->
  apply_ws (unwind_ws c p b) (render c (p ++ [b])) = render c p.
Proof. exact unwind_exact. Qed.
Print Assumptions unwind_deletes_exactly_the_batch.

(* batches that end in a block every version contains (below every fork) are
   never deleted or rewritten, in any committed state of the step *)
Theorem below_fork_untouched : forall c H, cfg_ok c -> history_ok H -> forall p0 q0 d s,
  pv c d = render c (p0 ++ q0) -> wf_ghost c (p0 ++ q0) -> Forall (in_history H) (concat (p0 ++ q0)) ->
  stable H p0 -> trace_sat (node_ans true H) (step c s d) ->
  Forall (fun e => exists q, pv c (snd e) = render c (p0 ++ q)) (r_trace (step c s d))
  /\ exists q, pv c (r_db (step c s d)) = render c (p0 ++ q).
Proof. exact below_fork. Qed.
Print Assumptions below_fork_untouched.

(* BRIDGE to the client model (C07): when the plan fetches headers or blocks,
   whatever the modelled client's [get] returns is -- after abstraction to the
   task model's blocks -- internally linked ([chain_ok]: consecutive numbers,
   every parent the predecessor's hash) with every hash non-empty: the
   "correctly numbered, internally linked segment" part of [node_ans] is
   discharged by C07 get_ok_exact_numbers / get_ok_linked for every partition
   answered by the client.  (That the segment is a segment of a well-formed
   chain VERSION remains an assumption about the node.) *)
Theorem client_partition_linked : forall hid rowsf,
  (forall h, hid h = 0 <-> h = []) -> forall p s l w bs,
  ClientSpec.fetches p = true -> Client.get p s l w = Ok bs ->
  chain_ok (map (BridgeClientTaskP.abs hid rowsf) bs) = true
  /\ Forall (fun b => b_hash b <> 0) (map (BridgeClientTaskP.abs hid rowsf) bs).
Proof. exact BridgeClientTaskP.get_seg_linked. Qed.
Print Assumptions client_partition_linked.

(* LIVENESS.  "The source settles" = from some point on the node serves the
   final chain [ch] and its head exceeds every recorded position.  BEFORE that
   point anything may have happened -- any number of steps [ss] under any
   faults, every answer taken from any version of the history (stale cache
   entries without bound, nested and repeated reorgs): the safety theorems keep
   TaskInvH ([indexed_in_history_runs]).  FROM that point: one fault-free step
   unwinds every orphaned batch and indexes the next blocks of the final
   chain, and at most target - position further steps reach "every indexed
   block is the final chain's, position = min(head, stop)".  The split of the
   recorded batches into final-chain batches and orphaned ones is derived
   ([ghost_split], needs [hash_identifies]).  Since stale answers are finitely
   many (each cached segment is served at most maxreads times: C08), such a
   point exists; how many steps pass BEFORE it is not bounded by this theorem. *)
Theorem indexed_in_history_runs : forall c H, cfg_ok c -> history_ok H -> forall ss d,
  TaskInvH c H d -> runs_sat (node_ans true H) c ss d ->
  Forall (TaskInvH c H) (run_dbs c ss d) /\ TaskInvH c H (run_end c ss d).
Proof. exact hist_runs. Qed.
Print Assumptions indexed_in_history_runs.

Theorem settled_converges : forall c H ch ss d0,
  cfg_ok c -> history_ok H -> In ch H -> hash_identifies H ->
  t_deps c = [] -> (forall b, In b ch -> NoDup (map fst (b_rows b))) -> t_hashes c = true ->
  TaskInvH c H d0 -> runs_sat (node_ans true H) c ss d0 ->
  let d := run_end c ss d0 in
  (forall x, In x (d_curs (pv c d)) -> c_num x < clip c (height ch - 1)) ->
  (length (d_curs (pv c d)) <= 1000)%nat ->
  0 < t_start c -> t_start c - 1 < clip c (height ch - 1) ->
  exists F ln,
    let x1 := exec_honest F (t_uniq c) (t_hashes c) ch (converge c) d None in
    r_out x1 = Fin OConverged
    /\ exists n g', (n <= N.to_nat (clip c (height ch - 1) - ln))%nat
         /\ pv c (iter (hstepf c ch) n (r_db x1)) = render c g' /\ wf_ghost c g'
         /\ Forall (on_chain (t_hashes c) ch) (concat g')
         /\ (exists h, gpos g' = Some (clip c (height ch - 1), h))
         /\ outside c (iter (hstepf c ch) n (r_db x1)) = outside c d.
Proof. exact settled_full_lemma. Qed.
Print Assumptions settled_converges.

(* The same from an explicitly split state (the node serves the final chain [ch]).
   The batches [p] below the fork are blocks of the final chain, the batches
   [q] above it are orphaned (at most 1000 of them: the reorg bound of one
   step), the head exceeds every recorded position.  Then ONE fault-free step
   (6 operations per orphaned batch + 12) unwinds all of [q] and indexes the
   next blocks of the final chain, and at most target - position further steps
   reach: every indexed block is the final chain's, position = min(head, stop).
   By [cursor_on_chain_implies_table_canonical] / C01 [growth_table_is_projection]
   the table is then the final chain's projection; by [below_fork_untouched]
   the rows of [p] were never touched. *)
Theorem settled_converges_partial : forall c ch,
  cfg_ok c -> wf_chain ch -> height ch < nmax -> t_deps c = [] ->
  (forall b, In b ch -> NoDup (map fst (b_rows b))) -> t_hashes c = true ->
  forall d p q ln x,
  pv c d = render c (p ++ q) -> wf_ghost c (p ++ q) ->
  Forall (on_chain (t_hashes c) ch) (concat p) ->
  Forall (orphan ch) q ->
  (forall y, In y (concat (p ++ q)) -> b_num y < clip c (height ch - 1)) ->
  (length q <= 1000)%nat ->
  blk_at ch ln = Some x -> at_pos c p ln -> ln < clip c (height ch - 1) ->
  let F := (6 * length q + 12)%nat in
  let x1 := exec_honest F (t_uniq c) (t_hashes c) ch (converge c) d None in
  r_out x1 = Fin OConverged
  /\ exists n g', (n <= N.to_nat (clip c (height ch - 1) - ln))%nat
       /\ pv c (iter (hstepf c ch) n (r_db x1)) = render c g' /\ wf_ghost c g'
       /\ Forall (on_chain (t_hashes c) ch) (concat g')
       /\ (exists h, gpos g' = Some (clip c (height ch - 1), h))
       /\ outside c (iter (hstepf c ch) n (r_db x1)) = outside c d.
Proof. exact settled_lemma. Qed.
Print Assumptions settled_converges_partial.

(* The pinned code: (a) Task.Delete keeps the rows of the batch's earlier
   blocks; (b) a batch whose partitions come from different versions is
   accepted unlinked.  Both replayed on the unrepaired implementation. *)
Theorem legacy_unwind_refuted :
  apply_ws (legacy_unwind_ws lw_cfg lw_batch) (render lw_cfg [lw_batch])
  = Db [] [Row 3 1 2 4 1 14; Row 3 1 2 5 1 15]
  /\ apply_ws (unwind_ws lw_cfg [] lw_batch) (render lw_cfg [lw_batch]) = Db [] [].
Proof. exact legacy_unwind_leaves_rows. Qed.
Print Assumptions legacy_unwind_refuted.

Theorem legacy_reorg_convergence_refuted :
  snd (w2_run legacy) = [Fin OConverged; Fin OConverged; Fin OFailed; Fin OFailed; Fin OFailed]
  /\ i1b w2_cfg (fst (w2_run legacy)) = false
  /\ ~ TaskInv w2_cfg (fst (w2_run legacy)).
Proof. exact legacy_reorg_orphans. Qed.
Print Assumptions legacy_reorg_convergence_refuted.

Theorem legacy_linked_indexed_refuted :
  r_out (w3_run legacy) = Fin OConverged
  /\ w3_ghost_linked (r_db (w3_run legacy)) = false
  /\ r_out (w3_run repaired) = Fin OFailed
  /\ r_db (w3_run repaired) = Db [] [].
Proof. exact legacy_partition_skew_accepted. Qed.
Print Assumptions legacy_linked_indexed_refuted.

(* the repaired model on the reorg scenario: table = final chain's projection *)
Example repaired_reorg_example :
  snd (w2_run repaired) = [Fin OConverged; Fin OConverged; Fin OConverged; Fin OConverged; Fin ONothingNew]
  /\ map (fun r => (r_bnum r, r_val r)) (d_rows (fst (w2_run repaired)))
     = [(1,1001);(2,1002);(3,1003);(4,2004);(5,2005);(6,2006);(7,2007)]
  /\ map c_num (d_curs (fst (w2_run repaired))) = [3;6;7].
Proof. exact repaired_reorg_clean. Qed.

(* ======================================================================
   BRIDGE rows -> task on REORG histories.  The theorems above quantify over a
   history [H : list chain] whose blocks carry ABSTRACT rows.  Here [H] is the
   instantiation of a rows-level history [RH : list (list Rows.blockr)] (a list
   of versions, each the list of its blocks from block 0) by the row builder of
   C11 for a declared integration [dcl]: every version is instantiated on its
   own by [inst_chain] of the growth bridge (Properties/C01.v) -- rows =
   [Rows.insert]'s rows tagged with identity keys and encoded by the injective
   [enc_key] / [enc_row], hash ids by the injective [hid], the parent of a
   block := the hash id of the block before it IN ITS VERSION ([parent_id]; a
   [blockr] carries no parent hash).
   ====================================================================== *)
From Shovel Require Model.Filter Model.Rows Proofs.BridgeRowsTaskP Proofs.BridgeRowsReorgP.
From Shovel Require Import Model.BridgeRowsTask Model.BridgeRowsReorg.

(* the block an instantiated version has at number n is the instantiation of
   the version's n-th block, its parent the hash id of the (n-1)-th (0 at 0) *)
Theorem reorg_inst_block_at : forall dcl ctx dbs v n x,
  blk_at (inst_chain dcl ctx dbs v) n = Some x ->
  exists b, nth_error v (N.to_nat n) = Some b
            /\ x = inst_blk dcl ctx dbs (parent_id v (N.to_nat n)) b.
Proof. exact BridgeRowsReorgP.inst_blk_at. Qed.
Print Assumptions reorg_inst_block_at.

(* versions that agree on their first n rows-level blocks instantiate to the
   same first n task-level blocks (numbers, hash ids, parent ids, rows), and
   give the block after the shared prefix the same parent id *)
Theorem inst_chain_prefix : forall dcl ctx dbs n v v',
  firstn n v = firstn n v' ->
  firstn n (inst_chain dcl ctx dbs v) = firstn n (inst_chain dcl ctx dbs v')
  /\ parent_id v n = parent_id v' n.
Proof. exact BridgeRowsReorgP.inst_prefix_both. Qed.
Print Assumptions inst_chain_prefix.

(* (1) C03's premise [history_ok] holds of the instantiated history when every
   version is non-empty, numbered from 0 with non-empty hashes, and shorter
   than nmax.  NOTHING is asked about how the versions relate. *)
Theorem reorg_history_ok : forall dcl ctx dbs RH,
  rows_history_wf RH -> history_ok (inst_history dcl ctx dbs RH).
Proof. exact BridgeRowsReorgP.inst_history_ok. Qed.
Print Assumptions reorg_history_ok.

(* C03's premise [hash_identifies] (canonical-table and liveness theorems
   only) follows from its rows-level reading: the same block hash at two
   positions of the history means the same block and the same predecessor hash *)
Theorem reorg_hash_identifies : forall dcl ctx dbs RH,
  rows_hash_identifies RH -> hash_identifies (inst_history dcl ctx dbs RH).
Proof. exact BridgeRowsReorgP.inst_hash_identifies. Qed.
Print Assumptions reorg_hash_identifies.

(* ... it is NOT implied by well-formedness of the versions (two versions give
   block 2 one hash above different blocks 1: one hash id, two parent ids) *)
Theorem reorg_hash_identifies_unconditional_refuted : ~ hash_identifies_unconditional.
Proof. exact BridgeRowsReorgP.hash_identifies_unconditional_refuted. Qed.
Print Assumptions reorg_hash_identifies_unconditional_refuted.

(* ... and in a well-formed history it says exactly that versions sharing a
   block hash share the whole prefix up to that block (their fork point lies
   above it) *)
Theorem rows_hash_identifies_shares_prefix : forall RH,
  rows_history_wf RH -> rows_hash_identifies RH ->
  forall v v' i j b b', In v RH -> In v' RH ->
  nth_error v i = Some b -> nth_error v' j = Some b' ->
  Filter.ob (Rows.b_hash b) = Filter.ob (Rows.b_hash b') ->
  i = j /\ firstn (S i) v = firstn (S i) v'.
Proof. exact BridgeRowsReorgP.rows_hash_identifies_prefix. Qed.
Print Assumptions rows_hash_identifies_shares_prefix.

(* (2) In ANY state the C03 safety theorems allow (TaskInvH over the
   instantiated history: after any number of steps under any faults, every
   answer from any version) the pair's table is, in order, the declared rows
   of a run [bl] of (version, block) pairs such that
   - each block is the block its version has at its number ([rblock_of]),
   - consecutive ones have consecutive numbers and the block BEFORE the later
     one in the later one's own version carries the earlier one's hash
     ([rlinked]: linked_indexed read at rows level -- rows of different block
     numbers come from blocks whose parents link, across versions),
   - Integration.Insert over exactly these blocks returns Ok rows whose
     encodings are the table's values in order (needs [rows_inserts_ok]; a
     block on which Insert fails would have no rows here),
   - every stored row is [trow_of c (b_num b) (k, gr)] for a block b of the run
     with [declared_row dcl ctx dbs b k gr] (C11's row_cells_spec /
     tx_row_cells_spec / enclosing fields for the item the key names).
   [wf_items] is not needed for this. *)
Theorem reorg_table_is_declared_linked : forall dcl ctx dbs RH c d,
  rows_history_wf RH -> rows_inserts_ok dcl ctx dbs RH ->
  TaskInvH c (inst_history dcl ctx dbs RH) d ->
  exists bl rows,
    Forall (fun vb => rblock_of RH (fst vb) (snd vb)) bl
    /\ rlinked bl
    /\ d_rows (pv c d) = concat (map (fun vb => declared_rows c dcl ctx dbs (snd vb)) bl)
    /\ Rows.insert Rows.fixed dcl ctx dbs (map snd bl) = Ok rows
    /\ map r_val (d_rows (pv c d)) = map enc_row rows
    /\ forall r, In r (d_rows (pv c d)) ->
         exists v b k gr, In (v, b) bl /\ rblock_of RH v b
           /\ r = trow_of c (Rows.b_num b) (k, gr) /\ declared_row dcl ctx dbs b k gr.
Proof. exact BridgeRowsReorgP.reorg_declared_table. Qed.
Print Assumptions reorg_table_is_declared_linked.

(* ... composed with [indexed_in_history] (same hypotheses, H the instantiated
   history): in every committed state of a step -- after every operation, under
   any fault plan, every answer of the node from any version -- the table is
   such a [declared_table] (the statement just above, Model/BridgeRowsReorg.v) *)
Theorem reorg_indexed_rows_are_declared : forall dcl ctx dbs RH c,
  cfg_ok c -> rows_history_wf RH -> rows_inserts_ok dcl ctx dbs RH -> forall g d s,
  pv c d = render c g -> wf_ghost c g ->
  Forall (in_history (inst_history dcl ctx dbs RH)) (concat g) ->
  trace_sat (node_ans true (inst_history dcl ctx dbs RH)) (step c s d) ->
  Forall (fun e => declared_table c dcl ctx dbs RH (snd e)) (r_trace (step c s d))
  /\ declared_table c dcl ctx dbs RH (r_db (step c s d)).
Proof. exact BridgeRowsReorgP.reorg_step_declared. Qed.
Print Assumptions reorg_indexed_rows_are_declared.

(* ... and with [indexed_in_history_runs]: over whole runs *)
Theorem reorg_indexed_rows_are_declared_runs : forall dcl ctx dbs RH c,
  cfg_ok c -> rows_history_wf RH -> rows_inserts_ok dcl ctx dbs RH -> forall ss d,
  TaskInvH c (inst_history dcl ctx dbs RH) d ->
  runs_sat (node_ans true (inst_history dcl ctx dbs RH)) c ss d ->
  Forall (declared_table c dcl ctx dbs RH) (run_dbs c ss d)
  /\ declared_table c dcl ctx dbs RH (run_end c ss d).
Proof. exact BridgeRowsReorgP.reorg_runs_declared. Qed.
Print Assumptions reorg_indexed_rows_are_declared_runs.

(* [cursor_on_chain_implies_table_canonical] instantiated: whenever the newest
   cursor carries the hash id of the block version [rch] has at that number,
   the whole table is the declared rows of a range of [rch] ending there --
   exactly what ONE Insert over that range returns; no row of another version *)
Theorem reorg_cursor_on_chain_table_declared : forall dcl ctx dbs RH rch c d n b,
  rows_history_wf RH -> In rch RH -> rows_hash_identifies RH -> inserts_ok dcl ctx dbs rch ->
  TaskInvH c (inst_history dcl ctx dbs RH) d ->
  newest (t_src c) (t_ig c) (d_curs d) = Some (n, bhash_id b) ->
  nth_error rch (N.to_nat n) = Some b ->
  exists m k rows, 1 <= k /\ m + k = n + 1 /\ m + k <= N.of_nat (length rch)
    /\ d_rows (pv c d) = concat (map (declared_rows c dcl ctx dbs) (rsegment rch m k))
    /\ Rows.insert Rows.fixed dcl ctx dbs (rsegment rch m k) = Ok rows
    /\ map r_val (d_rows (pv c d)) = map enc_row rows.
Proof. exact BridgeRowsReorgP.reorg_canonical_declared. Qed.
Print Assumptions reorg_cursor_on_chain_table_declared.

(* (3) [settled_converges] instantiated, its premises verbatim for
   H = the instantiated history and ch = the instantiated version [rch] the
   source settles on; the premise on row keys is DISCHARGED by [wf_items]
   (distinct tx / log / trace-action indices in rch's blocks; not implied by
   the client's validation), [hash_identifies] by [rows_hash_identifies].
   After any past (any steps, faults, stale answers from any version) one
   fault-free step + at most target - position further steps end with the
   position at the target min(head, stop), its hash the hash id of rch's block
   there, and the table EXACTLY the declared rows of rch's blocks [m, target]:
   what one Integration.Insert over them returns (Ok, needs [inserts_ok] on
   rch only), in order, nothing of an orphaned version; everything outside the
   pair untouched. *)
Theorem settled_converges_declared : forall dcl ctx dbs RH rch c ss d0,
  let H := inst_history dcl ctx dbs RH in
  let ch := inst_chain dcl ctx dbs rch in
  cfg_ok c -> rows_history_wf RH -> In rch RH -> rows_hash_identifies RH ->
  t_deps c = [] -> Forall wf_items rch -> inserts_ok dcl ctx dbs rch -> t_hashes c = true ->
  TaskInvH c H d0 -> runs_sat (node_ans true H) c ss d0 ->
  let d := run_end c ss d0 in
  (forall x, In x (d_curs (pv c d)) -> c_num x < clip c (height ch - 1)) ->
  (length (d_curs (pv c d)) <= 1000)%nat ->
  0 < t_start c -> t_start c - 1 < clip c (height ch - 1) ->
  exists F ln,
    let x1 := exec_honest F (t_uniq c) (t_hashes c) ch (converge c) d None in
    r_out x1 = Fin OConverged
    /\ exists n m k h rows,
         let dfin := iter (hstepf c ch) n (r_db x1) in
         (n <= N.to_nat (clip c (height ch - 1) - ln))%nat
         /\ 1 <= k /\ m + k = clip c (height ch - 1) + 1 /\ m + k <= N.of_nat (length rch)
         /\ newest (t_src c) (t_ig c) (d_curs dfin) = Some (clip c (height ch - 1), h)
         /\ (exists b, nth_error rch (N.to_nat (clip c (height ch - 1))) = Some b /\ h = bhash_id b)
         /\ d_rows (pv c dfin) = concat (map (declared_rows c dcl ctx dbs) (rsegment rch m k))
         /\ Rows.insert Rows.fixed dcl ctx dbs (rsegment rch m k) = Ok rows
         /\ map r_val (d_rows (pv c dfin)) = map enc_row rows
         /\ outside c dfin = outside c d.
Proof. exact BridgeRowsReorgP.settled_declared. Qed.
Print Assumptions settled_converges_declared.

(* NON-VACUITY.  Declaration and version A = [ex_rchain] as in the growth
   bridge (blocks 0, 1, 2; block 2: hash [3], tx 3 / log 4, a = 6, v = 10).
   Version B keeps blocks 0 and 1, replaces block 2 (hash [4], tx 1 / log 2,
   a = 7, v = 11) and adds block 3 (hash [5], a = 8, v = 12): the fork is one
   block below the head a task following A has indexed.  The hypotheses hold: *)
Example reorg_bridge_hypotheses_satisfiable :
  cfg_ok (ex_task 1 1) /\ rows_history_wf ex_rhist /\ rows_hash_identifies ex_rhist
  /\ rows_inserts_ok ex_decl ex_ctx [] ex_rhist /\ Forall wf_items ex_rchainB
  /\ In ex_rchainB ex_rhist.
Proof. exact BridgeRowsReorgP.ex_reorg_hyps. Qed.
(* ... also the state-dependent premises of [settled_converges_declared], in
   the state two steps on version A reach (it holds the row of A's block 2,
   which B orphans), with final version B *)
Example reorg_bridge_settle_premises :
  let c := ex_task 1 1 in
  let H := inst_history ex_decl ex_ctx [] ex_rhist in
  let d0 := fst (ex_reorg_run 1 1 2 0) in
  TaskInvH c H d0 /\ runs_sat (node_ans true H) c [] d0
  /\ (forall x, In x (d_curs (pv c (run_end c [] d0))) -> c_num x < clip c (height ex_chainB - 1))
  /\ (length (d_curs (pv c (run_end c [] d0))) <= 1000)%nat
  /\ 0 < t_start c /\ t_start c - 1 < clip c (height ex_chainB - 1)
  /\ t_deps c = [] /\ t_hashes c = true.
Proof. exact BridgeRowsReorgP.ex_settle_hyps. Qed.
(* the executable task model ([hsteps repaired], as in repaired_reorg_example;
   batch 1): two steps on A store the rows of A's blocks 1, 2; served B, the
   next step unwinds block 2 and indexes B's block 2, the one after it block
   3, then nothing new.  The table ends as exactly the C11 rows of B's blocks
   1..3 under their identity keys = what one Insert over them returns; the row
   (6, 10) of A's block 2 is gone *)
Example reorg_bridge_run :
  let c := ex_task 1 1 in
  let row5 := [Filter.VU256 5; Filter.VU256 9; Filter.VU64 1; Filter.VU64 0; Filter.VU64 0; Filter.VInt Z0] in
  let row6 := [Filter.VU256 6; Filter.VU256 10; Filter.VU64 2; Filter.VU64 3; Filter.VU64 4; Filter.VInt Z0] in
  let row7 := [Filter.VU256 7; Filter.VU256 11; Filter.VU64 2; Filter.VU64 1; Filter.VU64 2; Filter.VInt Z0] in
  let row8 := [Filter.VU256 8; Filter.VU256 12; Filter.VU64 3; Filter.VU64 0; Filter.VU64 0; Filter.VInt Z0] in
  let k00 := Key 0 (Some 0) (Some 0%nat) None in
  (let r := ex_reorg_run 1 1 2 0 in
   snd r = [Fin OConverged; Fin OConverged]
   /\ d_rows (fst r) = [trow_of c 1 (k00, row5); trow_of c 2 (Key 3 (Some 4) (Some 0%nat) None, row6)]
   /\ d_curs (fst r) = [Cur 1 2 1 (hid [2]); Cur 1 2 2 (hid [3])])
  /\ (let r := ex_reorg_run 1 1 2 1 in
      snd r = [Fin OConverged; Fin OConverged; Fin OConverged]
      /\ d_rows (fst r) = [trow_of c 1 (k00, row5); trow_of c 2 (Key 1 (Some 2) (Some 0%nat) None, row7)]
      /\ d_curs (fst r) = [Cur 1 2 1 (hid [2]); Cur 1 2 2 (hid [4])])
  /\ (let r := ex_reorg_run 1 1 2 3 in
      snd r = [Fin OConverged; Fin OConverged; Fin OConverged; Fin OConverged; Fin ONothingNew]
      /\ d_rows (fst r) = [trow_of c 1 (k00, row5); trow_of c 2 (Key 1 (Some 2) (Some 0%nat) None, row7);
                           trow_of c 3 (k00, row8)]
      /\ d_rows (fst r) = concat (map (declared_rows c ex_decl ex_ctx []) (rsegment ex_rchainB 1 3))
      /\ d_curs (fst r) = [Cur 1 2 1 (hid [2]); Cur 1 2 2 (hid [4]); Cur 1 2 3 (hid [5])]
      /\ Rows.insert Rows.fixed ex_decl ex_ctx [] (rsegment ex_rchainB 1 3) = Ok [row5; row7; row8]).
Proof. vm_compute. repeat split; reflexivity. Qed.
(* batch 5 x concurrency 3: one step on A indexes blocks 1..2 as ONE batch; the
   fork lies inside it; served B, one step unwinds the whole batch and indexes
   B's blocks 1..3: same table *)
Example reorg_bridge_run_batch :
  let r := ex_reorg_run 5 3 1 1 in
  snd r = [Fin OConverged; Fin OConverged]
  /\ d_rows (fst r) = map (fun x => trow_of (ex_task 5 3) (fst x) (snd x)) ex_expectedB
  /\ map r_val (d_rows (fst r)) = map r_val (d_rows (fst (ex_reorg_run 1 1 2 3)))
  /\ d_curs (fst r) = [Cur 1 2 3 (hid [5])].
Proof. vm_compute. repeat split; reflexivity. Qed.
