(* C03 -- reorg convergence.  Arbitrary histories [H] of well-formed chain
   versions; every answer of the node may be taken from a different version
   (per call and per partition of a load): [node_ans true H] (Model/TaskNode.v).
   Declarations whose plan serves parent hashes.  This file: the safety
   theorems, for all histories and fault plans. *)
From Coq Require Import List NArith Bool.
From Shovel Require Import Base.Outcome.
From Shovel Require Model.Client Model.ClientSpec Proofs.BridgeClientTaskP.
From Shovel Require Import Model.TaskTypes Model.TaskDb Model.Task Model.TaskNode Model.TaskSys
  Model.TaskSpec Model.TaskWitness Proofs.TaskLegacyP Proofs.C03P Proofs.TaskLiveP Proofs.C03LiveP.
Import ListNotations.
Open Scope N_scope.

(* I4 is invariant: every committed state is the rendering of a well-formed
   ghost all of whose blocks belong to versions of the history ... *)
Theorem indexed_in_history : forall c H, cfg_ok c -> history_ok H -> forall g d s,
  pv c d = render c g -> wf_ghost c g -> Forall (in_history H) (concat g) ->
  trace_sat (node_ans true H) (step c s d) ->
  Forall (fun e => TaskInvH c H (snd e)) (r_trace (step c s d))
  /\ TaskInvH c H (r_db (step c s d)).
Proof. exact hist_all. Qed.
Print Assumptions indexed_in_history.

(* ... and such a ghost is hash-linked across batch AND partition boundaries:
   consecutive numbers, every parent is the predecessor's hash *)
Theorem linked_indexed : forall c H, history_ok H -> forall d,
  TaskInvH c H d ->
  exists g, pv c d = render c g /\ wf_ghost c g /\ strong_linked (concat g).
Proof. exact linked_lemma. Qed.
Print Assumptions linked_indexed.

(* if the newest cursor's hash is the final chain's hash at that height, the
   whole table is the projection of a segment of the final chain ending there
   (block hashes identify blocks: [hash_identifies]) *)
Theorem cursor_on_chain_implies_table_canonical : forall c H, history_ok H ->
  forall final, In final H -> hash_identifies H -> forall d n h x,
  TaskInvH c H d ->
  newest (t_src c) (t_ig c) (d_curs d) = Some (n, h) ->
  blk_at final n = Some x -> b_hash x = h ->
  exists m k, d_rows (pv c d) = rows_of c (segment final m k)
              /\ 1 <= k /\ m + k = n + 1 /\ m + k <= height final.
Proof. exact canonical_lemma. Qed.
Print Assumptions cursor_on_chain_implies_table_canonical.

(* the writes of one reorg iteration (Task.Delete, repaired) turn the
   rendering of p ++ [b] into the rendering of p: the cursor of the last batch
   and ALL its rows, nothing else *)
Theorem unwind_deletes_exactly_the_batch : forall c p b, wf_ghost c (p ++ [b]) ->
  apply_ws (unwind_ws c p b) (render c (p ++ [b])) = render c p.
Proof. exact unwind_exact. Qed.
Print Assumptions unwind_deletes_exactly_the_batch.

(* batches that end in a block every version contains (below every fork) are
   never deleted or rewritten, in any committed state of the step *)
Theorem below_fork_untouched : forall c H, cfg_ok c -> history_ok H -> forall p0 q0 d s,
  pv c d = render c (p0 ++ q0) -> wf_ghost c (p0 ++ q0) -> Forall (in_history H) (concat (p0 ++ q0)) ->
  stable H p0 -> trace_sat (node_ans true H) (step c s d) ->
  Forall (fun e => exists q, pv c (snd e) = render c (p0 ++ q)) (r_trace (step c s d))
  /\ exists q, pv c (r_db (step c s d)) = render c (p0 ++ q).
Proof. exact below_fork. Qed.
Print Assumptions below_fork_untouched.

(* BRIDGE to the client model (C07): when the plan fetches headers or blocks,
   whatever the modelled client's [get] returns is -- after abstraction to the
   task model's blocks -- internally linked ([chain_ok]: consecutive numbers,
   every parent the predecessor's hash) with every hash non-empty: the
   "correctly numbered, internally linked segment" part of [node_ans] is
   discharged by C07 get_ok_exact_numbers / get_ok_linked for every partition
   answered by the client.  (That the segment is a segment of a well-formed
   chain VERSION remains an assumption about the node.) *)
Theorem client_partition_linked : forall hid rowsf,
  (forall h, hid h = 0 <-> h = []) -> forall p s l w bs,
  ClientSpec.fetches p = true -> Client.get p s l w = Ok bs ->
  chain_ok (map (BridgeClientTaskP.abs hid rowsf) bs) = true
  /\ Forall (fun b => b_hash b <> 0) (map (BridgeClientTaskP.abs hid rowsf) bs).
Proof. exact BridgeClientTaskP.get_seg_linked. Qed.
Print Assumptions client_partition_linked.

(* LIVENESS.  "The source settles" = from some point on the node serves the
   final chain [ch] and its head exceeds every recorded position.  BEFORE that
   point anything may have happened -- any number of steps [ss] under any
   faults, every answer taken from any version of the history (stale cache
   entries without bound, nested and repeated reorgs): the safety theorems keep
   TaskInvH ([indexed_in_history_runs]).  FROM that point: one fault-free step
   unwinds every orphaned batch and indexes the next blocks of the final
   chain, and at most target - position further steps reach "every indexed
   block is the final chain's, position = min(head, stop)".  The split of the
   recorded batches into final-chain batches and orphaned ones is derived
   ([ghost_split], needs [hash_identifies]).  Since stale answers are finitely
   many (each cached segment is served at most maxreads times: C08), such a
   point exists; how many steps pass BEFORE it is not bounded by this theorem. *)
Theorem indexed_in_history_runs : forall c H, cfg_ok c -> history_ok H -> forall ss d,
  TaskInvH c H d -> runs_sat (node_ans true H) c ss d ->
  Forall (TaskInvH c H) (run_dbs c ss d) /\ TaskInvH c H (run_end c ss d).
Proof. exact hist_runs. Qed.
Print Assumptions indexed_in_history_runs.

Theorem settled_converges : forall c H ch ss d0,
  cfg_ok c -> history_ok H -> In ch H -> hash_identifies H ->
  t_deps c = [] -> (forall b, In b ch -> NoDup (map fst (b_rows b))) -> t_hashes c = true ->
  TaskInvH c H d0 -> runs_sat (node_ans true H) c ss d0 ->
  let d := run_end c ss d0 in
  (forall x, In x (d_curs (pv c d)) -> c_num x < clip c (height ch - 1)) ->
  (length (d_curs (pv c d)) <= 1000)%nat ->
  0 < t_start c -> t_start c - 1 < clip c (height ch - 1) ->
  exists F ln,
    let x1 := exec_honest F (t_uniq c) (t_hashes c) ch (converge c) d None in
    r_out x1 = Fin OConverged
    /\ exists n g', (n <= N.to_nat (clip c (height ch - 1) - ln))%nat
         /\ pv c (iter (hstepf c ch) n (r_db x1)) = render c g' /\ wf_ghost c g'
         /\ Forall (on_chain (t_hashes c) ch) (concat g')
         /\ (exists h, gpos g' = Some (clip c (height ch - 1), h))
         /\ outside c (iter (hstepf c ch) n (r_db x1)) = outside c d.
Proof. exact settled_full_lemma. Qed.
Print Assumptions settled_converges.

(* The same from an explicitly split state (the node serves the final chain [ch]).
   The batches [p] below the fork are blocks of the final chain, the batches
   [q] above it are orphaned (at most 1000 of them: the reorg bound of one
   step), the head exceeds every recorded position.  Then ONE fault-free step
   (6 operations per orphaned batch + 12) unwinds all of [q] and indexes the
   next blocks of the final chain, and at most target - position further steps
   reach: every indexed block is the final chain's, position = min(head, stop).
   By [cursor_on_chain_implies_table_canonical] / C01 [growth_table_is_projection]
   the table is then the final chain's projection; by [below_fork_untouched]
   the rows of [p] were never touched. *)
Theorem settled_converges_partial : forall c ch,
  cfg_ok c -> wf_chain ch -> height ch < nmax -> t_deps c = [] ->
  (forall b, In b ch -> NoDup (map fst (b_rows b))) -> t_hashes c = true ->
  forall d p q ln x,
  pv c d = render c (p ++ q) -> wf_ghost c (p ++ q) ->
  Forall (on_chain (t_hashes c) ch) (concat p) ->
  Forall (orphan ch) q ->
  (forall y, In y (concat (p ++ q)) -> b_num y < clip c (height ch - 1)) ->
  (length q <= 1000)%nat ->
  blk_at ch ln = Some x -> at_pos c p ln -> ln < clip c (height ch - 1) ->
  let F := (6 * length q + 12)%nat in
  let x1 := exec_honest F (t_uniq c) (t_hashes c) ch (converge c) d None in
  r_out x1 = Fin OConverged
  /\ exists n g', (n <= N.to_nat (clip c (height ch - 1) - ln))%nat
       /\ pv c (iter (hstepf c ch) n (r_db x1)) = render c g' /\ wf_ghost c g'
       /\ Forall (on_chain (t_hashes c) ch) (concat g')
       /\ (exists h, gpos g' = Some (clip c (height ch - 1), h))
       /\ outside c (iter (hstepf c ch) n (r_db x1)) = outside c d.
Proof. exact settled_lemma. Qed.
Print Assumptions settled_converges_partial.

(* The pinned code: (a) Task.Delete keeps the rows of the batch's earlier
   blocks; (b) a batch whose partitions come from different versions is
   accepted unlinked.  Both replayed on the unrepaired implementation. *)
Theorem legacy_unwind_refuted :
  apply_ws (legacy_unwind_ws lw_cfg lw_batch) (render lw_cfg [lw_batch])
  = Db [] [Row 3 1 2 4 1 14; Row 3 1 2 5 1 15]
  /\ apply_ws (unwind_ws lw_cfg [] lw_batch) (render lw_cfg [lw_batch]) = Db [] [].
Proof. exact legacy_unwind_leaves_rows. Qed.
Print Assumptions legacy_unwind_refuted.

Theorem legacy_reorg_convergence_refuted :
  snd (w2_run legacy) = [Fin OConverged; Fin OConverged; Fin OFailed; Fin OFailed; Fin OFailed]
  /\ i1b w2_cfg (fst (w2_run legacy)) = false
  /\ ~ TaskInv w2_cfg (fst (w2_run legacy)).
Proof. exact legacy_reorg_orphans. Qed.
Print Assumptions legacy_reorg_convergence_refuted.

Theorem legacy_linked_indexed_refuted :
  r_out (w3_run legacy) = Fin OConverged
  /\ w3_ghost_linked (r_db (w3_run legacy)) = false
  /\ r_out (w3_run repaired) = Fin OFailed
  /\ r_db (w3_run repaired) = Db [] [].
Proof. exact legacy_partition_skew_accepted. Qed.
Print Assumptions legacy_linked_indexed_refuted.

(* the repaired model on the reorg scenario: table = final chain's projection *)
Example repaired_reorg_example :
  snd (w2_run repaired) = [Fin OConverged; Fin OConverged; Fin OConverged; Fin OConverged; Fin ONothingNew]
  /\ map (fun r => (r_bnum r, r_val r)) (d_rows (fst (w2_run repaired)))
     = [(1,1001);(2,1002);(3,1003);(4,2004);(5,2005);(6,2006);(7,2007)]
  /\ map c_num (d_curs (fst (w2_run repaired))) = [3;6;7].
Proof. exact repaired_reorg_clean. Qed.
