(* C18 — the concurrent indexing pipeline is free of data races: PARTIAL.

   A data race is a fact about the Go memory model; no executable model of
   shovel exhibits one.  What is proved is the LOCKING DISCIPLINE: in the
   concurrent language of Model/Lockset.v (goroutine roles, any number of
   instances of a replicated role, any number of loop iterations, any
   interleaving, objects chosen by an adversary) a region accepted by
   [check_region] has no execution in which two goroutines are about to
   perform conflicting accesses to the same object field.  The skeleton of the
   pipeline (Gen/Skeleton.v) is regenerated from the Go source on every run by
   harness/cmd/c18-translate; [pipeline_ok] is re-checked against it.

   Only property theorems here, each closed by [exact]. *)
From Coq Require Import List String Bool NArith.
From Shovel Require Import Model.Lockset Model.LocksetKnown Proofs.LocksetP Proofs.C18P Gen.Skeleton.
Import ListNotations.

(* Soundness of the lockset checker, unbounded in instances and iterations:
   whatever [check_region ex] accepts, every race of every execution is a pair
   of accesses the exemption [ex] lists. *)
Theorem lockset_sound_except : forall ex g,
  check_region ex g = true ->
  forall gl inst s, valid_inst (groles g) inst -> steps gl (init (groles g) inst) s ->
  forall i j a1 L1 a2 L2, race_at gl s i j a1 L1 a2 L2 ->
    ex (a1, L1) (a2, L2) = true \/ ex (a2, L2) (a1, L1) = true.
Proof. exact lockset_sound_gen. Qed.
Print Assumptions lockset_sound_except.

(* ... with no exemption: no valuation, no schedule reaches a race *)
Theorem lockset_sound : forall g,
  check_region no_exempt g = true ->
  forall gl inst s, valid_inst (groles g) inst -> steps gl (init (groles g) inst) s -> ~ race gl s.
Proof. exact lockset_sound_strict. Qed.
Print Assumptions lockset_sound.

(* The pipeline as it is in the source now.  FULL statement: *)
Definition pipeline_race_free_full : Prop :=
  forall g, In g Gen.Skeleton.regions ->
  forall gl inst s, valid_inst (groles g) inst -> steps gl (init (groles g) inst) s -> ~ race gl s.

(* The discipline does not establish it on the pinned tree: consumers of
   Client.Get's result read cached blocks outside the block lock while other
   tasks attach data under it (known finding; Model/LocksetKnown.v): *)
Example pipeline_full_check_refuted : check_regions no_exempt Gen.Skeleton.regions = false.
Proof. exact pipeline_full_refuted. Qed.

(* PARTIAL, the strongest statement the discipline gives: in every region of
   the pipeline, in every execution, the only races are pairs of that
   recorded form.  Everything else — the partition goroutines of Task.load and
   Task.insert, the segment caches, the head cache and its poller, the
   per-block attachment of logs, receipts and traces, the tx hash memo, the
   request counter, the shared connection of concurrent inserts — is race
   free for all schedules. *)
Theorem pipeline_races_only_known :
  forall g, In g Gen.Skeleton.regions ->
  forall gl inst s, valid_inst (groles g) inst -> steps gl (init (groles g) inst) s ->
  forall i j a1 L1 a2 L2, race_at gl s i j a1 L1 a2 L2 ->
    known_exempt (a1, L1) (a2, L2) = true \/ known_exempt (a2, L2) (a1, L1) = true.
Proof. exact pipeline_only_known. Qed.
Print Assumptions pipeline_races_only_known.

Example pipeline_ok : check_regions known_exempt Gen.Skeleton.regions = true.
Proof. exact C18P.pipeline_ok. Qed.

(* Non-vacuity.  A racy region is rejected and its race exists in the semantics: *)
Example racy_region_rejected : check_region no_exempt racy_region = false.
Proof. exact racy_rejected. Qed.
Example racy_region_races : exists gl inst s,
  valid_inst (groles racy_region) inst /\ steps gl (init (groles racy_region) inst) s /\ race gl s.
Proof. exact racy_races. Qed.
(* a lock on another object than the one accessed is rejected, and races: *)
Example wrong_lock_region_rejected : check_region no_exempt wrong_lock_region = false.
Proof. exact wrong_lock_rejected. Qed.
Example wrong_lock_region_races : exists gl inst s,
  valid_inst (groles wrong_lock_region) inst /\ steps gl (init (groles wrong_lock_region) inst) s /\ race gl s.
Proof. exact wrong_lock_races. Qed.
(* the self-lock discipline is accepted; the theorem's hypotheses are satisfiable *)
Example guarded_region_accepted : check_region no_exempt guarded_region = true.
Proof. exact guarded_accepted. Qed.
Example guarded_region_inhabited : exists inst, valid_inst (groles guarded_region) inst /\ List.length inst = 2%nat.
Proof. exact guarded_inhabited. Qed.
