(* C06 -- start, stop and resume.  Model: Model/Task.v (repaired
   Task.Converge), run under arbitrary fault plans (Model/TaskSys.v).
   [resume_point c HD p ln] (Proofs/C06P.v): the position a step starts from is
   the recorded one when there is one (whatever start says), else start-1,
   else -- start = 0 -- head-1 for a head number the node answered. *)
From Coq Require Import List NArith Bool.
From Shovel Require Import Model.TaskTypes Model.TaskDb Model.Task Model.TaskNode Model.TaskSys
  Model.TaskSpec Model.TaskWitness Proofs.TaskLegacyP Proofs.C06P.
Import ListNotations.
Open Scope N_scope.

(* From a pair with no recorded position: in EVERY committed state of EVERY
   step of EVERY run (any faults, crashes, restarts; node answers numbered as
   requested) all cursors and rows of the pair lie in [start, stop]. *)
Theorem range_respected : forall c ss d,
  cfg_ok c -> pv c d = Db [] [] -> runs_sat reply_ok c ss d ->
  Forall (pair_in_range c) (run_dbs c ss d) /\ pair_in_range c (run_end c ss d).
Proof. exact range_lemma. Qed.
Print Assumptions range_respected.

(* ... and from any state satisfying TaskInv (which contains the range) *)
Theorem range_invariant : forall c ss d,
  cfg_ok c -> TaskInv c d -> runs_sat reply_ok c ss d ->
  Forall (TaskInv c) (run_dbs c ss d) /\ TaskInv c (run_end c ss d).
Proof. exact runs_inv. Qed.
Print Assumptions range_invariant.

Theorem inv_in_range : forall c d, TaskInv c d -> pair_in_range c d.
Proof. exact TaskInv_range. Qed.
Print Assumptions inv_in_range.

(* Done only if stop > 0 and the local position is at or beyond stop; a Done
   step commits nothing *)
Theorem done_iff : forall c HD, cfg_ok c -> forall g d s,
  pv c d = render c g -> wf_ghost c g -> trace_sat (head_seen HD) (step c s d) ->
  r_out (step c s d) = Fin ODone ->
  r_db (step c s d) = d /\ 0 < t_stop c
  /\ exists p q ln, g = p ++ q /\ resume_point c HD p ln /\ t_stop c <= ln.
Proof. exact done_only_if. Qed.
Print Assumptions done_iff.

(* ... and conversely: once the stop block is recorded, every later step
   issues only Begin, QLatest, Rollback, commits nothing, and reports Done
   unless one of these three operations itself fails *)
Theorem done_writes_nothing : forall c d s n h,
  newest (t_src c) (t_ig c) (d_curs d) = Some (n, h) -> 0 < t_stop c -> t_stop c <= n ->
  Forall (fun e => quiet_op (fst (fst e)) /\ snd e = d) (r_trace (step c s d))
  /\ r_db (step c s d) = d
  /\ (forall o, r_out (step c s d) = Fin o -> o = ODone \/ o = OFailed)
  /\ (forall o, r_out (step c s d) = Fin o -> no_fail (step c s d) -> o = ODone).
Proof. exact done_recorded. Qed.
Print Assumptions done_writes_nothing.

(* resume_from_position / first_block / batch_clipped_at_stop: a successful
   step wrote the blocks ln+1 .. ln+k, 1 <= k <= batch, where ln is the resume
   point of the (possibly unwound) recorded batches, all of them within
   [start, stop] *)
Theorem resume_first_block_clipped : forall c HD, cfg_ok c -> forall g d s,
  pv c d = render c g -> wf_ghost c g -> trace_sat (head_seen HD) (step c s d) ->
  r_out (step c s d) = Fin OConverged ->
  exists p q bs ln,
    g = p ++ q /\ pv c (r_db (step c s d)) = render c (p ++ [bs]) /\ wf_ghost c (p ++ [bs])
    /\ resume_point c HD p ln
    /\ map b_num bs = nums_from (ln + 1) (length bs)
    /\ bs <> [] /\ N.of_nat (length bs) <= t_batch c
    /\ (forall x, In x bs -> t_start c <= b_num x /\ (t_stop c = 0 \/ b_num x <= t_stop c)).
Proof. exact resume_lemma. Qed.
Print Assumptions resume_first_block_clipped.

(* non-vacuity *)
Example c06_cfg_ok : cfg_ok (Task 1 1 2 3 5 9 3 2 [] true true).
Proof. exact (proj2 (proj2 (proj2 cfg_ok_examples))). Qed.
Example c06_range_example :
  pair_in_range (Task 1 1 2 3 1 0 3 1 [] true true) w2_mid.
Proof. exact (TaskInv_range _ _ (proj1 w2_mid_inv)). Qed.
