(* C15 — no configuration string reaches SQL text unless it passed the
   identifier check.  Only property theorems here, each closed by [exact] of a
   lemma from Proofs/, each followed by [Print Assumptions]; the [Example]s are
   the obligations on the tables regenerated from the Go source and
   non-vacuity witnesses.

   [U] is Go's Unicode classification (unicode.IsLetter / unicode.IsDigit); the
   premises on it ([ascii_ok]: a-z are letters and 0-9 digits; [uni_ok]: the
   listed metacharacters are neither) are validated against Go's unicode
   package on every run (Corr/RunC15.v: CClass). *)
From Coq Require Import List NArith Bool String.
From Shovel Require Import Base.Outcome Model.Config Model.Sql Model.ConfigGen
  Proofs.ConfigP Proofs.SqlP Proofs.C15P.
From Shovel Require Gen.UserInputChecks.
Import ListNotations.
Open Scope N_scope.

(* ---- obligations on the regenerated tables ---- *)
(* every check of CheckUserInput is understood, and every position that any
   statement splices is covered by a check of the required kind *)
Example gen_checks_cover_splices : check_paths (g_checked G) spliced = true.
Proof. vm_compute. reflexivity. Qed.
Example gen_tables_wellformed : gen_ok = true /\ gen_ascii G = true.
Proof. vm_compute. split; reflexivity. Qed.
(* the places that build SQL text are the ones Model/Sql.v was written against *)
Example gen_sites : Gen.UserInputChecks.sites = expected_sites.
Proof. reflexivity. Qed.
Example gen_dynamic_sql : Gen.UserInputChecks.dynamic_sql = expected_dynamic_sql.
Proof. reflexivity. Qed.
Example gen_guards : Gen.UserInputChecks.guards = expected_guards.
Proof. reflexivity. Qed.

(* ---- file path: ValidateFix accepted the configuration ---- *)
(* Every value spliced into the text of any statement the system then issues
   (migration DDL, alter table, delete, reference query, COPY identifiers,
   notification channel, application_name) passed wstrings.Safe, and comes
   from a configuration position listed in [spliced]. *)
Theorem spliced_paths_checked : forall U G res ver c c',
  ascii_ok U -> gen_ascii G = true -> check_paths (g_checked G) spliced = true ->
  validate_fix U G c = Some c' ->
  forall st p v, In st (all_sql_file res ver c') -> In (Splice p v) (st_text st) ->
  safe U v = true /\ In p spliced_paths.
Proof. exact file_splices_safe. Qed.
Print Assumptions spliced_paths_checked.

(* the same for the tables regenerated from the source of this run *)
Theorem spliced_paths_checked_gen : forall U res ver c c',
  ascii_ok U -> validate_fix U G c = Some c' ->
  forall st p v, In st (all_sql_file res ver c') -> In (Splice p v) (st_text st) ->
  safe U v = true /\ In p spliced_paths.
Proof.
  exact (fun U res ver c c' HA => file_splices_safe U G res ver c c' HA
           (proj2 gen_tables_wellformed) gen_checks_cover_splices).
Qed.
Print Assumptions spliced_paths_checked_gen.

(* ---- dashboard path: CheckUserInput only, then stored, loaded and run ---- *)
Theorem spliced_paths_checked_dashboard : forall U checked ver srcs g,
  check_paths checked spliced = true ->
  check_user_input U checked (root_of g) = true -> Forall (fun s => safe U s = true) srcs ->
  forall st p v, In st (all_sql_dash ver srcs g) -> In (Splice p v) (st_text st) ->
  safe U v = true /\ In p spliced_paths.
Proof. exact dash_splices_safe. Qed.
Print Assumptions spliced_paths_checked_dashboard.

Theorem spliced_paths_checked_dashboard_gen : forall U ver srcs g,
  check_user_input U (g_checked G) (root_of g) = true -> Forall (fun s => safe U s = true) srcs ->
  forall st p v, In st (all_sql_dash ver srcs g) -> In (Splice p v) (st_text st) ->
  safe U v = true /\ In p spliced_paths.
Proof. exact (fun U ver srcs g => dash_splices_safe U (g_checked G) ver srcs g gen_checks_cover_splices). Qed.
Print Assumptions spliced_paths_checked_dashboard_gen.

(* source names that came in through the dashboard: web.SaveSource stores a
   source only when [save_source_ok] (non-empty, wstrings.Safe); with such
   sources every splice of the tasks of a stored integration is safe —
   `set application_name = 'shovel-task-<src>-…'` and `pg_notify('<src>-…')`
   included.  A name that fails the check is not stored (no statement reaches
   the database: checked on the wire by the correspondence run). *)
Theorem spliced_paths_checked_dashboard_sources : forall U checked ver srcs g,
  check_paths checked spliced = true ->
  check_user_input U checked (root_of g) = true -> Forall (fun s => save_source_ok U s = true) srcs ->
  forall st p v, In st (all_sql_dash ver srcs g) -> In (Splice p v) (st_text st) ->
  safe U v = true /\ In p spliced_paths.
Proof. exact dash_sources_splices_safe. Qed.
Print Assumptions spliced_paths_checked_dashboard_sources.

Theorem save_source_rejects_unsafe_name : forall U name, safe U name = false -> save_source_ok U name = false.
Proof. exact save_source_rejects_unsafe. Qed.
Print Assumptions save_source_rejects_unsafe_name.

(* ---- rejected before any SQL ---- *)
(* a value outside the alphabet at ANY spliced position of the submitted
   configuration makes validation fail (file path: no statement is issued
   after a failed ValidateFix; dashboard: nothing is stored) *)
Theorem unsafe_position_rejected : forall U G c k p vs v,
  check_paths (g_checked G) spliced = true -> In (k, p) spliced -> values_at p c = Some vs ->
  In v vs -> kind_pred U k v = false -> validate_fix U G c = None.
Proof. exact file_unsafe_rejected. Qed.
Print Assumptions unsafe_position_rejected.

Theorem unsafe_position_rejected_dashboard : forall U checked c k p vs v,
  check_paths checked spliced = true -> In (k, p) spliced -> values_at p c = Some vs ->
  In v vs -> kind_pred U k v = false -> check_user_input U checked c = false.
Proof. exact unsafe_value_rejected. Qed.
Print Assumptions unsafe_position_rejected_dashboard.

(* ---- what "safe" buys ---- *)
(* a string that passed the check contains none of the listed metacharacters:
   quotes, semicolon, parentheses, comma, white space, backslash, slash, star,
   dollar, dot, NUL, line ends, Unicode quotes and separators ...  ("--" can be
   formed from hyphens; it cannot close a literal or a statement) *)
Theorem safe_no_metachar : forall U s, uni_ok U -> safe U s = true ->
  forall c, In c s -> ~ In c metachars.
Proof. exact safe_no_metachar_lemma. Qed.
Print Assumptions safe_no_metachar.

(* an index entry is spliced as column name + direction; the direction is one
   of three code constants, the name passed the check *)
Theorem index_direction_is_constant : forall e, In (snd (idx_split e)) [[]; sp_asc; sp_desc].
Proof. exact idx_split_dir. Qed.
Print Assumptions index_direction_is_constant.

(* ---- chain data ---- *)
(* For ANY configuration (validated or not) the text of every statement is
   made of code literals and of configuration positions listed in [spliced].
   No definition of Model/Sql.v takes block, transaction, log or trace data:
   those reach the database as parameters and COPY rows only. *)
Theorem chain_data_only_params : forall res ver c st pc,
  In st (all_sql_file res ver c) -> In pc (st_text st) ->
  match pc with Lit _ => True | Splice p _ => In p spliced_paths end.
Proof. exact pieces_from_config_file. Qed.
Print Assumptions chain_data_only_params.

Theorem chain_data_only_params_dashboard : forall ver srcs g st pc,
  In st (all_sql_dash ver srcs g) -> In pc (st_text st) ->
  match pc with Lit _ => True | Splice p _ => In p spliced_paths end.
Proof. exact pieces_from_config_dash. Qed.
Print Assumptions chain_data_only_params_dashboard.

(* ---- non-vacuity ---- *)
Definition U_ascii : uni :=
  {| is_letter := fun c => ((65 <=? c) && (c <=? 90)) || ((97 <=? c) && (c <=? 122));
     is_digit := fun c => (48 <=? c) && (c <=? 57) |}.
Example U_ascii_ok : ascii_ok U_ascii /\ uni_ok U_ascii.
Proof.
  split.
  - intros c. split; intros H; simpl.
    + assert (H1 : (97 <=? c) = true) by (apply N.leb_le; apply H).
      assert (H2 : (c <=? 122) = true) by (apply N.leb_le; apply H).
      rewrite H1, H2. apply orb_true_r.
    + assert (H1 : (48 <=? c) = true) by (apply N.leb_le; apply H).
      assert (H2 : (c <=? 57) = true) by (apply N.leb_le; apply H).
      rewrite H1, H2. reflexivity.
  - intros c Hc. unfold metachars in Hc. simpl in Hc.
    repeat (destruct Hc as [Hc|Hc]; [subst c; split; reflexivity|]). contradiction.
Qed.

Definition ex_filter (tbl : string) : cfilter :=
  {| f_op := s2r "contains"; f_arg := [];
     f_ref := {| r_ig := s2r "a"; r_table := s2r tbl; r_col := s2r "x" |} |}.
Definition ex_ig (tname uniq tbl : string) : integ :=
  {| ig_name := s2r "a"; ig_enabled := true; ig_sources := [s2r "main"];
     ig_table := {| t_name := s2r tname; t_cols := [{| c_name := s2r "x"; c_type := s2r "bytea" |}];
                    t_unique := [[s2r uniq]]; t_index := [[s2r "x desc"]] |};
     ig_agg := []; ig_notif := [];
     ig_block := []; ig_inputs := [Input false (s2r "o") [] no_filter
                                     [Input false (s2r "m") (s2r "x") (ex_filter tbl) []]];
     ig_deps := [] |}.
Definition ex_root (tname uniq tbl : string) : root :=
  {| sources := [s2r "main"]; integs := [ex_ig tname uniq tbl] |}.

(* an accepted configuration: statements are issued, with splices *)
Example ex_accepted :
  match validate_fix U_ascii G (ex_root "t" "x" "t") with
  | Some c' => List.length (all_sql_file reserved (s2r "v") c') = 17%nat
  | None => False
  end.
Proof. vm_compute. reflexivity. Qed.
(* hostile strings in the table name, a unique entry, a nested filter_ref table: rejected *)
Example ex_rejected :
  validate_fix U_ascii G (ex_root "t; drop table x" "x" "t") = None /\
  validate_fix U_ascii G (ex_root "t" "x); drop table y; --" "t") = None /\
  validate_fix U_ascii G (ex_root "t" "x" "t where true; drop table z; --") = None /\
  check_user_input U_ascii (g_checked G) (root_of (ex_ig "t" "x" "shovel.task_updates")) = false.
Proof. vm_compute. repeat split; reflexivity. Qed.
