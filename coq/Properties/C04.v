(* C04 -- task isolation.  Every database operation of Task.Converge (repaired
   AND pinned variant) is keyed by the task's own (source, integration) pair
   and every row / cursor it writes is stamped with it; therefore nothing a
   task does -- including its reorg deletions, under any fault plan -- changes
   the restriction of the committed database to any other pair; lifted to
   arbitrary statement-level interleavings of several tasks, with crashes. *)
From Coq Require Import List NArith Bool.
From Shovel Require Import Model.TaskTypes Model.TaskDb Model.Task Model.TaskNode Model.TaskSys
  Model.TaskSpec Proofs.C04P Proofs.TaskSysP.
Import ListNotations.
Open Scope N_scope.

(* syntactic: every op in the interaction tree of a step is keyed by the pair
   (QLatest/QPrev/DelCursors by src+ig, DelRows by tbl+src+ig, CopyRows only
   rows stamped tbl/src/ig, InsCursor a cursor of the pair) *)
Theorem rows_stamped : forall v c, all_ops (keyed c) (converge_v v c).
Proof. exact K_converge. Qed.
Print Assumptions rows_stamped.

(* one task, any script: every committed state of the step restricted to ANY
   other pair equals the initial one, and every op issued is keyed *)
Theorem converge_frame : forall v c s d s' i',
  (t_src c, t_ig c) <> (s', i') ->
  Forall (fun e => restrict s' i' (snd e) = restrict s' i' d) (r_trace (step_v v c s d))
  /\ restrict s' i' (r_db (step_v v c s d)) = restrict s' i' d
  /\ Forall (fun e => keyed c (fst (fst e))) (r_trace (step_v v c s d)).
Proof. exact converge_frame_lemma. Qed.
Print Assumptions converge_frame.

(* several tasks, any schedule (which task moves, what the world answers,
   crashes): a move of task [fst m] never changes the restriction to a pair
   that is not the pair of a task with that id *)
Theorem system_frame : forall cfgs d sch m s i,
  (forall c, In c cfgs -> t_id c = fst m -> (t_src c, t_ig c) <> (s, i)) ->
  restrict s i (s_db (sys_step (sys_run sch (sys_init cfgs d)) m))
  = restrict s i (s_db (sys_run sch (sys_init cfgs d))).
Proof. exact system_frame_lemma. Qed.
Print Assumptions system_frame.

(* consequently no move of ANOTHER task can break a task's TaskInv (the
   single-task theorems of C02 cover the task's own moves) *)
Theorem other_tasks_preserve_inv : forall cfgs d sch m c,
  (forall c', In c' cfgs -> t_id c' = fst m -> (t_src c', t_ig c') <> (t_src c, t_ig c)) ->
  TaskInv c (s_db (sys_run sch (sys_init cfgs d))) ->
  TaskInv c (s_db (sys_step (sys_run sch (sys_init cfgs d)) m)).
Proof. exact other_moves_keep_inv. Qed.
Print Assumptions other_tasks_preserve_inv.

(* THE SYSTEM INVARIANT.  Any number of tasks with pairwise distinct
   (source, integration) pairs, every one's TaskInv holding initially; any
   schedule -- which task moves next, what the world answers to the operation it
   issues: the database's own answer, an injected fault of any kind, a forced
   dependency reading, any node reply numbered as requested ([sched_ok]) -- and
   process deaths at any point: in EVERY state of the run EVERY task's TaskInv
   holds (rows cover exactly the blocks up to the position, for every pair, in
   every state any session can observe).  Composition of the single-task
   invariant (C02) with the frame: a step's effect on its own pair depends on
   the rest of the database only through the dependency readings, and the
   single-task logic already allows those to be anything ([safe_pv]). *)
Theorem system_invariant : forall cfgs d sch,
  Forall cfg_ok cfgs -> NoDup (map pair_of cfgs) -> Forall (fun c => TaskInv c d) cfgs ->
  sched_ok sch (sys_init cfgs d) ->
  forall st, In st (sys_states sch (sys_init cfgs d)) ->
  forall c, In c cfgs -> TaskInv c (s_db st).
Proof. exact system_inv_lemma. Qed.
Print Assumptions system_invariant.

(* non-vacuity: two tasks on one table, different integrations *)
Example two_pairs_differ :
  (t_src (Task 1 1 2 3 1 0 1 1 [] true true), t_ig (Task 1 1 2 3 1 0 1 1 [] true true)) <> (1, 4).
Proof. exact two_pairs_differ_lemma. Qed.
