(* C04 -- task isolation.  Every database operation of Task.Converge (repaired
   AND pinned variant) is keyed by the task's own (source, integration) pair
   and every row / cursor it writes is stamped with it; therefore nothing a
   task does -- including its reorg deletions, under any fault plan -- changes
   the restriction of the committed database to any other pair; lifted to
   arbitrary statement-level interleavings of several tasks, with crashes. *)
From Coq Require Import List NArith Bool.
From Shovel Require Import Model.TaskTypes Model.TaskDb Model.Task Model.TaskNode Model.TaskSys
  Model.TaskSpec Proofs.C04P Proofs.TaskSysP.
Import ListNotations.
Open Scope N_scope.

(* syntactic: every op in the interaction tree of a step is keyed by the pair
   (QLatest/QPrev/DelCursors by src+ig, DelRows by tbl+src+ig, CopyRows only
   rows stamped tbl/src/ig, InsCursor a cursor of the pair) *)
Theorem rows_stamped : forall v c, all_ops (keyed c) (converge_v v c).
Proof. exact K_converge. Qed.
Print Assumptions rows_stamped.

(* one task, any script: every committed state of the step restricted to ANY
   other pair equals the initial one, and every op issued is keyed *)
Theorem converge_frame : forall v c s d s' i',
  (t_src c, t_ig c) <> (s', i') ->
  Forall (fun e => restrict s' i' (snd e) = restrict s' i' d) (r_trace (step_v v c s d))
  /\ restrict s' i' (r_db (step_v v c s d)) = restrict s' i' d
  /\ Forall (fun e => keyed c (fst (fst e))) (r_trace (step_v v c s d)).
Proof. exact converge_frame_lemma. Qed.
Print Assumptions converge_frame.

(* several tasks, any schedule (which task moves, what the world answers,
   crashes): a move of task [fst m] never changes the restriction to a pair
   that is not the pair of a task with that id *)
Theorem system_frame : forall cfgs d sch m s i,
  (forall c, In c cfgs -> t_id c = fst m -> (t_src c, t_ig c) <> (s, i)) ->
  restrict s i (s_db (sys_step (sys_run sch (sys_init cfgs d)) m))
  = restrict s i (s_db (sys_run sch (sys_init cfgs d))).
Proof. exact system_frame_lemma. Qed.
Print Assumptions system_frame.

(* consequently no move of ANOTHER task can break a task's TaskInv (the
   single-task theorems of C02 cover the task's own moves) *)
Theorem other_tasks_preserve_inv : forall cfgs d sch m c,
  (forall c', In c' cfgs -> t_id c' = fst m -> (t_src c', t_ig c') <> (t_src c, t_ig c)) ->
  TaskInv c (s_db (sys_run sch (sys_init cfgs d))) ->
  TaskInv c (s_db (sys_step (sys_run sch (sys_init cfgs d)) m)).
Proof. exact other_moves_keep_inv. Qed.
Print Assumptions other_tasks_preserve_inv.

(* THE SYSTEM INVARIANT.  Any number of tasks with pairwise distinct
   (source, integration) pairs, every one's TaskInv holding initially; any
   schedule -- which task moves next, what the world answers to the operation it
   issues: the database's own answer, an injected fault of any kind, a forced
   dependency reading, any node reply numbered as requested ([sched_ok]) -- and
   process deaths at any point: in EVERY state of the run EVERY task's TaskInv
   holds (rows cover exactly the blocks up to the position, for every pair, in
   every state any session can observe).  Composition of the single-task
   invariant (C02) with the frame: a step's effect on its own pair depends on
   the rest of the database only through the dependency readings, and the
   single-task logic already allows those to be anything ([safe_pv]). *)
Theorem system_invariant : forall cfgs d sch,
  Forall cfg_ok cfgs -> NoDup (map pair_of cfgs) -> Forall (fun c => TaskInv c d) cfgs ->
  sched_ok sch (sys_init cfgs d) ->
  forall st, In st (sys_states sch (sys_init cfgs d)) ->
  forall c, In c cfgs -> TaskInv c (s_db st).
Proof. exact system_inv_lemma. Qed.
Print Assumptions system_invariant.

(* non-vacuity: two tasks on one table, different integrations *)
Example two_pairs_differ :
  (t_src (Task 1 1 2 3 1 0 1 1 [] true true), t_ig (Task 1 1 2 3 1 0 1 1 [] true true)) <> (1, 4).
Proof. exact two_pairs_differ_lemma. Qed.

(* ======================================================================
   SYSTEM-LEVEL COMPOSITION (Model/BridgeSystem.v, Proofs/BridgeSystemP.v):
   configuration --C20--> loaded tasks --C04--> interleaved system
                 --C01 bridge rows->task, C11--> declared rows.
   ====================================================================== *)
From Shovel Require Base.Outcome Model.Manager Model.Filter Model.Rows Proofs.BridgeSystemP.
From Shovel Require Import Model.BridgeRowsTask Model.BridgeSystem.

(* (a) The system invariant with C01's growth invariant in place of TaskInv.
   Every task c reads ITS OWN canonical chain [ch c] (growth only: whatever
   version answers is a prefix of it); [sched_growth ch] is [sched_ok] with
   [growth_reply .. (ch c)] in place of [reply_ok] on the answers given to the
   task of configuration c -- crashes, injected faults on any operation, failed
   partitions, forced dependency readings all allowed.  Then in EVERY state of
   EVERY interleaved run, EVERY task's indexed blocks are a contiguous run of
   blocks of its own chain ([TaskInvG]). *)
Theorem system_growth_invariant : forall (ch : tcfg -> chain) cfgs d sch,
  Forall cfg_ok cfgs -> NoDup (map pair_of cfgs) ->
  Forall (fun c => wf_chain (ch c) /\ height (ch c) < nmax) cfgs ->
  Forall (fun c => TaskInvG c (ch c) d) cfgs ->
  sched_growth ch sch (sys_init cfgs d) ->
  forall st, In st (sys_states sch (sys_init cfgs d)) ->
  forall c, In c cfgs -> TaskInvG c (ch c) (s_db st).
Proof. exact BridgeSystemP.system_growth_inv_lemma. Qed.
Print Assumptions system_growth_invariant.

(* a growth schedule is a schedule of [system_invariant] *)
Theorem growth_schedule_is_schedule : forall (ch : tcfg -> chain) cfgs,
  (forall c, In c cfgs -> wf_chain (ch c) /\ height (ch c) < nmax) ->
  forall sch st, C04P.sys_ok st -> map ts_cfg (s_tasks st) = cfgs ->
  sched_growth ch sch st -> sched_ok sch st.
Proof. exact BridgeSystemP.sched_growth_ok. Qed.
Print Assumptions growth_schedule_is_schedule.

(* (b) any schedule whatsoever (no premise on the answers): a row or cursor
   is only ever stored under the pair of one of the system's tasks *)
Theorem system_stores_only_own_pairs : forall cfgs d sch, owned_by cfgs d ->
  forall st, In st (sys_states sch (sys_init cfgs d)) -> owned_by cfgs (s_db st).
Proof. exact BridgeSystemP.owned_lemma. Qed.
Print Assumptions system_stores_only_own_pairs.

(* the database at the end of a run is one of the states visited *)
Theorem final_state_is_visited : forall sch st, In (sys_run sch st) (sys_states sch st).
Proof. exact BridgeSystemP.sys_run_in_states. Qed.
Print Assumptions final_state_is_visited.

(* (c) THE WHOLE SYSTEM.  [w : world] supplies what the configuration does
   not decide (Model/BridgeSystem.v): ids for names ([w_enc], injective), the
   declaration of every integration name, the canonical chain of rows-level
   blocks of every source name ([w_raw]).  For EVERY configuration the
   manager's loadTasks accepts (C20, repaired loader), the system of the
   loaded tasks started on the empty database, EVERY schedule in which each
   task is answered from its own chain [sys_chain w t] = the blocks of ITS
   source decoded and instantiated with ITS declaration, EVERY state visited
   and EVERY loaded task t: the restriction of the database to t's pair is
   empty, or its rows are exactly, in block order, the keyed rows t's
   declaration emits for the blocks [m, m+k) of t's source, m+k-1 being the
   recorded position -- the rows ONE Integration.Insert (C11) over those
   blocks returns.  Composition of C20 loaded_tasks_have_distinct_pairs /
   loaded_tasks_batch_conc_pos, (a), and C01 growth_table_is_declared_projection. *)
Theorem system_tables_are_declared_projections : forall w fs ds fi di ts,
  (forall a b, w_enc w a = w_enc w b -> a = b) ->
  Manager.load_tasks fs ds fi di = Outcome.Ok ts ->
  world_ok w ts ->
  forall sch, sched_growth (chain_of w ts) sch (sys_start w ts) ->
  forall st, In st (sys_states sch (sys_start w ts)) ->
  forall t, In t ts ->
  let c := sys_cfg w t in
  let d := s_db st in
  (d_rows (pv c d) = [] /\ d_curs (pv c d) = [])
  \/ exists m k n h rows,
       1 <= k /\ m + k <= N.of_nat (length (w_raw w (Manager.t_src t)))
       /\ newest (t_src c) (t_ig c) (d_curs d) = Some (n, h) /\ n + 1 = m + k
       /\ d_rows (pv c d)
          = concat (map (declared_rows c (sys_decl w t) (sys_ctx t) (w_dbs w)) (rsegment (sys_rchain w t) m k))
       /\ Rows.insert Rows.fixed (sys_decl w t) (sys_ctx t) (w_dbs w) (rsegment (sys_rchain w t) m k)
          = Outcome.Ok rows
       /\ map r_val (d_rows (pv c d)) = map enc_row rows.
Proof. exact BridgeSystemP.system_projection_lemma. Qed.
Print Assumptions system_tables_are_declared_projections.

(* (d) FRAME, for the whole database: every stored row is stamped with the
   pair of EXACTLY ONE loaded task and is a declared row (C11's row_spec /
   enclosing_fields: [declared_row]) of THAT task's declaration, built from an
   item of a block of THAT task's source; no table ever holds a row produced
   from another task's declaration, nor a row of no task.  Cursors likewise. *)
Theorem system_rows_have_one_owner : forall w fs ds fi di ts,
  (forall a b, w_enc w a = w_enc w b -> a = b) ->
  Manager.load_tasks fs ds fi di = Outcome.Ok ts ->
  world_ok w ts ->
  forall sch, sched_growth (chain_of w ts) sch (sys_start w ts) ->
  forall st, In st (sys_states sch (sys_start w ts)) ->
  (forall r, In r (d_rows (s_db st)) ->
     exists t, In t ts
       /\ row_of (t_src (sys_cfg w t)) (t_ig (sys_cfg w t)) r = true
       /\ (forall t', In t' ts -> row_of (t_src (sys_cfg w t')) (t_ig (sys_cfg w t')) r = true -> t' = t)
       /\ exists b k gr, In b (sys_rchain w t) /\ r = trow_of (sys_cfg w t) (Rows.b_num b) (k, gr)
                         /\ declared_row (sys_decl w t) (sys_ctx t) (w_dbs w) b k gr)
  /\ (forall x, In x (d_curs (s_db st)) ->
        exists t, In t ts /\ cur_of (t_src (sys_cfg w t)) (t_ig (sys_cfg w t)) x = true).
Proof. exact BridgeSystemP.system_owner_lemma. Qed.
Print Assumptions system_rows_have_one_owner.

(* the chain function of (c)/(d) gives every loaded task its own chain *)
Theorem loaded_task_reads_own_chain : forall w fs ds fi di ts t,
  (forall a b, w_enc w a = w_enc w b -> a = b) ->
  Manager.load_tasks fs ds fi di = Outcome.Ok ts -> In t ts ->
  chain_of w ts (sys_cfg w t) = sys_chain w t.
Proof. exact BridgeSystemP.loaded_chain_of. Qed.
Print Assumptions loaded_task_reads_own_chain.

(* (e) the premise on schedules is satisfiable for every accepted
   configuration, every world and EVERY order of moves, process deaths and
   injected faults ([gen_sched]: the database answers itself, the node answers
   honestly from the task's chain) -- connection ids distinct *)
Theorem growth_schedules_exist : forall w fs ds fi di ts who,
  (forall a b, w_enc w a = w_enc w b -> a = b) ->
  Manager.load_tasks fs ds fi di = Outcome.Ok ts -> world_ok w ts ->
  NoDup (map (w_id w) ts) ->
  sched_growth (chain_of w ts) (gen_sched (chain_of w ts) who (sys_start w ts)) (sys_start w ts).
Proof. exact BridgeSystemP.loaded_gen_sched_growth. Qed.
Print Assumptions growth_schedules_exist.

(* (f) the premise is NEEDED and is not implied by C04's [sched_ok] (replies
   merely numbered as requested): a node answering the task of integration "a"
   from the chain instantiated with the declaration of "b" (and vice versa)
   satisfies [sched_ok], and table "a" ends up holding the rows of "b" *)
Theorem system_projection_from_sched_ok_refuted : ~ projection_from_sched_ok.
Proof. exact BridgeSystemP.projection_from_sched_ok_refuted. Qed.
Print Assumptions system_projection_from_sched_ok_refuted.

(* non-vacuity: one source, two integrations on it with different events
   (E(uint256 indexed a, uint256 v) and F(uint256 indexed x)), three blocks, the
   logs of both events interleaved inside the blocks.  The hypotheses of (c),
   (d) hold for the configuration, the world and the 146-move schedule in which
   the two tasks alternate operation by operation, with one injected database
   error and one process death; the final database holds exactly the two
   declared projections of blocks 1..2, each in its own table *)
Example system_example_hypotheses :
  (forall a b, w_enc ex_world a = w_enc ex_world b -> a = b)
  /\ Manager.load_tasks ex_file_srcs [] ex_file_igs [] = Outcome.Ok ex_loaded
  /\ world_ok ex_world ex_loaded
  /\ sched_growth (chain_of ex_world ex_loaded) ex_sched (sys_start ex_world ex_loaded).
Proof.
  exact (conj BridgeSystemP.hid_injective (conj BridgeSystemP.ex_load
          (conj BridgeSystemP.ex_world_ok BridgeSystemP.ex_sched_growth))).
Qed.
Example system_example_run :
  let d := s_db (sys_run ex_sched (sys_start ex_world ex_loaded)) in
  let ca := sys_cfg ex_world ex_ta in
  let cb := sys_cfg ex_world ex_tb in
  ex_loaded = [ex_ta; ex_tb] /\ pair_of ca <> pair_of cb /\ t_tbl ca = 3 /\ t_tbl cb = 4
  /\ d_rows d
     = concat (map (declared_rows ca ex_decl (sys_ctx ex_ta) []) (rsegment (sys_rchain ex_world ex_ta) 1 2))
       ++ concat (map (declared_rows cb ex2_decl (sys_ctx ex_tb) []) (rsegment (sys_rchain ex_world ex_tb) 1 2))
  /\ d_rows d
     = [ trow_of ca 1 (Key 0 (Some 0) (Some 0%nat) None,
           [Filter.VU256 5; Filter.VU256 9; Filter.VU64 1; Filter.VU64 0; Filter.VU64 0; Filter.VInt Z0]);
         trow_of ca 2 (Key 3 (Some 5) (Some 0%nat) None,
           [Filter.VU256 6; Filter.VU256 10; Filter.VU64 2; Filter.VU64 3; Filter.VU64 5; Filter.VInt Z0]);
         trow_of cb 1 (Key 0 (Some 1) None None,
           [Filter.VU256 11; Filter.VU64 1; Filter.VU64 0; Filter.VU64 1]);
         trow_of cb 2 (Key 3 (Some 4) None None,
           [Filter.VU256 12; Filter.VU64 2; Filter.VU64 3; Filter.VU64 4]) ]
  /\ map (fun x => (c_ig x, c_num x)) (d_curs d) = [(t_ig ca, 1); (t_ig ca, 2); (t_ig cb, 1); (t_ig cb, 2)].
Proof. exact BridgeSystemP.ex_final. Qed.

(* ======================================================================
   ACROSS RESTARTS (Model/BridgeRestart.v, Proofs/BridgeRestartP.v).
   Manager.Restart (C20) stops the runners of the old generation -- their open
   transactions are rolled back, the database found is the last committed one
   (C02 crash_is_rollback) -- and loads a new generation from the configuration
   of the moment.  In the model: [sys_init] of the new task list on [s_db] of
   the state the old generation was stopped in.
   ====================================================================== *)
From Shovel Require Proofs.BridgeRestartP.
From Shovel Require Import Model.BridgeRestart.

(* (g) ANY START STATE: (c) with the empty database replaced by any committed
   database d0 in which every loaded task's pair holds the rendering of blocks
   of ITS chain (C01's TaskInvG) and no row or cursor belongs to a pair of no
   loaded task ([start_ok]).  Every visited state has the declared projections
   AND satisfies [start_ok] again -- so the database any such run is stopped in
   is a legitimate start for the same task list.  The premise is not implied
   by anything below: the start state itself is visited. *)
Theorem system_tables_from_any_start : forall w fs ds fi di ts d0,
  (forall a b, w_enc w a = w_enc w b -> a = b) ->
  Manager.load_tasks fs ds fi di = Outcome.Ok ts ->
  world_ok w ts ->
  (forall t, In t ts -> TaskInvG (sys_cfg w t) (chain_of w ts (sys_cfg w t)) d0) ->
  owned_by (sys_cfgs w ts) d0 ->
  forall sch, sched_growth (chain_of w ts) sch (sys_init (sys_cfgs w ts) d0) ->
  forall st, In st (sys_states sch (sys_init (sys_cfgs w ts) d0)) ->
  (forall t, In t ts ->
     let c := sys_cfg w t in
     let d := s_db st in
     (d_rows (pv c d) = [] /\ d_curs (pv c d) = [])
     \/ exists m k n h rows,
          1 <= k /\ m + k <= N.of_nat (length (w_raw w (Manager.t_src t)))
          /\ newest (t_src c) (t_ig c) (d_curs d) = Some (n, h) /\ n + 1 = m + k
          /\ d_rows (pv c d)
             = concat (map (declared_rows c (sys_decl w t) (sys_ctx t) (w_dbs w)) (rsegment (sys_rchain w t) m k))
          /\ Rows.insert Rows.fixed (sys_decl w t) (sys_ctx t) (w_dbs w) (rsegment (sys_rchain w t) m k)
             = Outcome.Ok rows
          /\ map r_val (d_rows (pv c d)) = map enc_row rows)
  /\ (forall t, In t ts -> TaskInvG (sys_cfg w t) (chain_of w ts (sys_cfg w t)) (s_db st))
  /\ owned_by (sys_cfgs w ts) (s_db st).
Proof. exact BridgeRestartP.from_any_start_flat. Qed.
Print Assumptions system_tables_from_any_start.

(* (h) ANY SEQUENCE OF GENERATIONS.  One world w (same declaration per
   integration name, same canonical chain per source name in ALL generations:
   chains grow inside a generation -- every version served is a prefix of
   w_raw -- but w_raw itself is the same for all generations); a universe U of
   tasks with pairwise distinct pairs ((i) below lets w_raw grow between
   generations; a pair present in several generations
   has the same start/stop/batch/chain id in all of them); a start database d0
   with [univ_ok] (e.g. the empty one); generations gs, each one
   [gen_ok]: loaded by the manager model from SOME configuration, tasks of U,
   a growth schedule from the LAST COMMITTED database of the previous
   generation ([gens_ok] threads [gen_end]).  Then for every generation g,
   the database d it started on, and every state st it visits:
   - d satisfies the invariant, st is a visited state of g started on d;
   - EVERY task of U -- running in g or not -- has its table equal to the
     declared projection (or empty);
   - FRAME: every pair that is not a pair of a task of g -- in particular the
     pairs of other generations -- has exactly the rows and cursors it had when
     g started;
   - the invariant holds in st; and it holds in the final database. *)
Theorem generations_preserve_projections : forall w U,
  (forall a b, w_enc w a = w_enc w b -> a = b) ->
  NoDup (map pair_of (sys_cfgs w U)) -> world_ok w U ->
  forall gs d0, univ_ok w U d0 -> gens_ok w U gs d0 ->
  (forall g d st, In (g, d, st) (gens_visited w gs d0) ->
     univ_ok w U d
     /\ In st (sys_states (g_sched g) (sys_from w (g_tasks g) d))
     /\ (forall t, In t U -> declared_projection_of w t (s_db st))
     /\ (forall s i, ~ In (s, i) (map pair_of (sys_cfgs w (g_tasks g))) ->
           restrict s i (s_db st) = restrict s i d)
     /\ univ_ok w U (s_db st))
  /\ univ_ok w U (gens_end w gs d0).
Proof. exact BridgeRestartP.gens_lemma. Qed.
Print Assumptions generations_preserve_projections.

(* the empty database is a start for every universe *)
Theorem empty_database_is_a_start : forall w U, univ_ok w U (Db [] []).
Proof. exact BridgeRestartP.empty_univ_ok. Qed.
Print Assumptions empty_database_is_a_start.

(* task level: the invariant of a pair survives an extension of its chain
   (what (i) below rests on) *)
Theorem growth_invariant_survives_chain_extension : forall c canon ext d,
  TaskInvG c canon d -> TaskInvG c (canon ++ ext) d.
Proof. exact BridgeRestartP.TaskInvG_chain_ext. Qed.
Print Assumptions growth_invariant_survives_chain_extension.

(* (i) GENERATIONS WITH GROWING CHAINS: (h) where every generation has its own
   world w', equal to the previous generation's except that every source's
   canonical chain is an EXTENSION of the previous one's ([raw_prefix]; names,
   ids, declarations, referenced tables unchanged), [world_ok w' U] asked of
   every generation's world.  Same conclusions, each stated in the world of
   the generation the state belongs to. *)
Theorem generations_with_growing_chains : forall U gs w d0,
  (forall a b, w_enc w a = w_enc w b -> a = b) ->
  NoDup (map pair_of (sys_cfgs w U)) ->
  univ_ok w U d0 -> gens_ok_grow w U gs d0 ->
  forall w' g d st, In (w', g, d, st) (gens_visited_grow gs d0) ->
    univ_ok w' U d
    /\ In st (sys_states (g_sched g) (sys_from w' (g_tasks g) d))
    /\ (forall t, In t U -> declared_projection_of w' t (s_db st))
    /\ (forall s i, ~ In (s, i) (map pair_of (sys_cfgs w' (g_tasks g))) ->
          restrict s i (s_db st) = restrict s i d)
    /\ univ_ok w' U (s_db st).
Proof. exact BridgeRestartP.gens_grow_lemma. Qed.
Print Assumptions generations_with_growing_chains.

(* the premise [gen_ok] is satisfiable for every accepted configuration whose
   tasks are in U, from EVERY start database and for every order of moves,
   deaths and faults (connection ids distinct) *)
Theorem generation_schedules_exist : forall w U fs ds fi di ts who d,
  (forall a b, w_enc w a = w_enc w b -> a = b) ->
  Manager.load_tasks fs ds fi di = Outcome.Ok ts -> incl ts U -> world_ok w U ->
  NoDup (map (w_id w) ts) ->
  gen_ok w U (gen_of w ts who d) d.
Proof. exact BridgeRestartP.gen_of_ok. Qed.
Print Assumptions generation_schedules_exist.

(* non-vacuity: the two-integration system of system_example_run, three
   generations: (1) both tasks, stopped after 32 moves with block 1 committed
   by both and both in the middle of a transaction (discarded); (2) the
   configuration has integration "a" disabled: only task "b" is loaded, runs to
   the end, the pair of "a" is untouched; (3) "a" enabled again: both tables
   end up as the declared projections of blocks 1..2, pair by pair the same
   database as the uninterrupted run of system_example_run *)
Example restart_example_hypotheses :
  (forall a b, w_enc ex_world a = w_enc ex_world b -> a = b)
  /\ NoDup (map pair_of (sys_cfgs ex_world ex_loaded))
  /\ world_ok ex_world ex_loaded
  /\ univ_ok ex_world ex_loaded ex_d0
  /\ gens_ok ex_world ex_loaded ex_gens ex_d0.
Proof. exact BridgeRestartP.ex_restart_hyps. Qed.
Example restart_example_run :
  let ca := sys_cfg ex_world ex_ta in
  let cb := sys_cfg ex_world ex_tb in
  let pa := concat (map (declared_rows ca ex_decl (sys_ctx ex_ta) []) (rsegment (sys_rchain ex_world ex_ta) 1 1)) in
  let pb := concat (map (declared_rows cb ex2_decl (sys_ctx ex_tb) []) (rsegment (sys_rchain ex_world ex_tb) 1 1)) in
  let fa := concat (map (declared_rows ca ex_decl (sys_ctx ex_ta) []) (rsegment (sys_rchain ex_world ex_ta) 1 2)) in
  let fb := concat (map (declared_rows cb ex2_decl (sys_ctx ex_tb) []) (rsegment (sys_rchain ex_world ex_tb) 1 2)) in
  g_tasks ex_g1 = [ex_ta; ex_tb] /\ g_tasks ex_g2 = [ex_tb] /\ g_tasks ex_g3 = [ex_ta; ex_tb]
  /\ length (g_sched ex_g1) = 32%nat
  /\ open_tx (sys_run (g_sched ex_g1) (sys_from ex_world ex_loaded ex_d0)) = [true; true]
  /\ d_rows (pv ca ex_d1) = pa /\ d_rows (pv cb ex_d1) = pb /\ pa <> [] /\ pb <> []
  /\ pv ca ex_d2 = pv ca ex_d1 /\ d_rows (pv cb ex_d2) = fb
  /\ d_rows (pv ca (gens_end ex_world ex_gens ex_d0)) = fa
  /\ d_rows (pv cb (gens_end ex_world ex_gens ex_d0)) = fb
  /\ length (d_rows (gens_end ex_world ex_gens ex_d0)) = (length fa + length fb)%nat
  /\ map (fun x => (c_ig x, c_num x)) (d_curs (gens_end ex_world ex_gens ex_d0))
     = [(t_ig ca, 1); (t_ig cb, 1); (t_ig cb, 2); (t_ig ca, 2)]
  /\ pv ca (gens_end ex_world ex_gens ex_d0) = pv ca (s_db (sys_run ex_sched (sys_start ex_world ex_loaded)))
  /\ pv cb (gens_end ex_world ex_gens ex_d0) = pv cb (s_db (sys_run ex_sched (sys_start ex_world ex_loaded))).
Proof. exact BridgeRestartP.ex_restart_run. Qed.

(* non-vacuity of (i): generation 1 in a world whose source has blocks 0..1
   only, indexes block 1 in both tables; the chain grows to blocks 0..2;
   generation 2 indexes block 2: both tables = declared projections of 1..2 *)
Example growing_example_hypotheses :
  (forall a b, w_enc ex_world1 a = w_enc ex_world1 b -> a = b)
  /\ NoDup (map pair_of (sys_cfgs ex_world1 ex_loaded))
  /\ univ_ok ex_world1 ex_loaded ex_d0
  /\ gens_ok_grow ex_world1 ex_loaded ex_grow ex_d0.
Proof. exact BridgeRestartP.ex_grow_hyps. Qed.
Example growing_example_run :
  let ca := sys_cfg ex_world ex_ta in
  let cb := sys_cfg ex_world ex_tb in
  d_rows (pv ca ex_e1)
  = concat (map (declared_rows ca ex_decl (sys_ctx ex_ta) []) (rsegment (sys_rchain ex_world1 ex_ta) 1 1))
  /\ d_rows (pv cb ex_e1)
  = concat (map (declared_rows cb ex2_decl (sys_ctx ex_tb) []) (rsegment (sys_rchain ex_world1 ex_tb) 1 1))
  /\ length (d_rows ex_e1) = 2%nat
  /\ d_rows (pv ca ex_e2)
  = concat (map (declared_rows ca ex_decl (sys_ctx ex_ta) []) (rsegment (sys_rchain ex_world ex_ta) 1 2))
  /\ d_rows (pv cb ex_e2)
  = concat (map (declared_rows cb ex2_decl (sys_ctx ex_tb) []) (rsegment (sys_rchain ex_world ex_tb) 1 2))
  /\ length (d_rows ex_e2) = 4%nat.
Proof. exact BridgeRestartP.ex_grow_run. Qed.
