(* C13 — only logs of the declared event are decoded: signature hash and topic
   count.  Only property theorems (closed by [exact]), [Print Assumptions],
   examples.  Keccak-256 is an arbitrary function [keccak] (Section variable =
   explicit premise); the harness checks eth.Keccak against an independent
   implementation and known event hashes on every run. *)
From Coq Require Import String.
From Coq Require Import List NArith ZArith Bool.
From Shovel Require Import Base.Outcome Model.Hex Model.AbiType Model.AbiParse Model.AbiSig Model.Keccak
     Proofs.AbiParseP Proofs.AbiSigP Proofs.KeccakP.
Import ListNotations.
Open Scope N_scope.

(* every event name, every list of input types — elementary, arrays, tuples,
   tuple arrays, nested tuples, any indexed layout: Event.Signature() on the ABI
   JSON is the canonical signature of the Solidity ABI specification *)
Theorem signature_canonical : forall name js, event_sig (event_of name js) = canon_sig name js.
Proof. exact signature_canonical_l. Qed.
Print Assumptions signature_canonical.

(* for every stored hash, topic list and data: a log passes the gate iff its
   topic count is 1 + #indexed and its first topic is the stored hash *)
Theorem gate_passes_iff : forall nidx sh topics data,
  (exists st, gate nidx sh topics data = Ok st /\ st <> Skip) <->
  (length topics = S nidx /\ nth_error topics 0 = Some sh).
Proof. exact gate_passes. Qed.
Print Assumptions gate_passes_iff.

(* a log that passes reaches the decoder exactly when it carries data *)
Theorem gate_reaches_decoding : forall nidx sh topics data st,
  gate nidx sh topics data = Ok st -> st <> Skip ->
  st = match data with [] => NoData | _ => Decode end.
Proof. exact gate_stage. Qed.
Print Assumptions gate_reaches_decoding.

Theorem gate_no_panic : forall nidx sh topics data, gate nidx sh topics data <> Panic.
Proof. exact gate_never_panics. Qed.
Print Assumptions gate_no_panic.

Theorem empty_topics_no_panic : forall nidx sh data, gate nidx sh [] data = Ok Skip.
Proof. exact gate_empty. Qed.
Print Assumptions empty_topics_no_panic.

Section Keccak.
  Variable keccak : bytes -> bytes.
  (* the integration dig.New builds from a declaration (sighash =
     keccak(Event.Signature()), numIndexed): a log contributes iff it has
     1 + #indexed topics and topic 0 = keccak(canonical signature) *)
  Theorem gate_iff : forall name js topics data,
    let e := event_of name js in
    (exists st, gate (num_indexed e) (ig_sighash keccak e) topics data = Ok st /\ st <> Skip) <->
    (length topics = S (length (filter j_indexed js)) /\
     nth_error topics 0 = Some (keccak (canon_sig name js))).
  Proof. exact (gate_iff_l keccak). Qed.
End Keccak.
Print Assumptions gate_iff.

(* the same with the concrete, executable Keccak-256 of Model/Keccak.v (validated
   against eth.Keccak on every run): no free hash function is left *)
Theorem gate_iff_keccak256 : forall name js topics data,
  let e := event_of name js in
  (exists st, gate (num_indexed e) (ig_sighash keccak256 e) topics data = Ok st /\ st <> Skip) <->
  (length topics = S (length (filter j_indexed js)) /\
   nth_error topics 0 = Some (keccak256 (canon_sig name js))).
Proof. exact (gate_iff_l keccak256). Qed.
Print Assumptions gate_iff_keccak256.

(* every input: the digest has 32 bytes; the sponge state keeps its 25 lanes
   through any number of absorbed blocks; the padded message is a whole number
   (>= 1) of 136-byte blocks *)
Theorem keccak256_digest_length : forall bs, length (keccak256 bs) = 32%nat.
Proof. exact keccak256_length. Qed.
Print Assumptions keccak256_digest_length.

Theorem keccak_state_lanes : forall bs, length (keccak_state bs) = 25%nat.
Proof. exact keccak_state_length. Qed.
Print Assumptions keccak_state_lanes.

Theorem keccak_padding_blocks : forall len,
  Nat.modulo (len + length (pad len)) rate = 0%nat /\ (1 <= length (pad len))%nat.
Proof. exact pad_blocks. Qed.
Print Assumptions keccak_padding_blocks.

(* standard vectors, by computation *)
Example ex_keccak_transfer :
  keccak256 (str "Transfer(address,address,uint256)")
  = Hex.decode_hex (str "ddf252ad1be2c89b69c2b068fc378daa952ba7f163c4a11628f55a4df523b3ef").
Proof. exact keccak256_transfer. Qed.

(* non-vacuity: Foo((uint256,(address,bytes[2]))[],uint8[3][]) *)
Example ex_sig :
  canon_sig (str "Foo")
    [JTuple false [JElem false (EUint 256) false []; JTuple false [JElem false EAddress false []; JElem false EBytes false [2]] []] [0];
     JElem true (EUint 8) false [3; 0]]
  = str "Foo((uint256,(address,bytes[2]))[],uint8[3][])".
Proof. vm_compute. reflexivity. Qed.
Example ex_gate : gate 1 [1; 2] [[1; 2]; [9]] [0] = Ok Decode /\ gate 1 [1; 2] [[1; 2]] [0] = Ok Skip
                  /\ gate 1 [1; 2] [[1; 3]; [9]] [0] = Ok Skip.
Proof. vm_compute. repeat split. Qed.

(* ==== BRIDGE gate -> rows (Model/BridgeGateRows.v, Proofs/BridgeGateRowsP.v) ====
   Model/Rows.v (C11) takes the integration's signature hash as declaration
   data ([d_sighash], any bytes).  [decl_of ed] is the Rows-level declaration
   built from an event declaration [ed] (integration name, event name, inputs
   as ABI JSON types + column + filter, block data, table columns, filter_agg)
   the way dig.New builds it: [d_sighash := keccak256 (event_sig ..)] with the
   concrete Keccak-256 of Model/Keccak.v, indexed flags from the JSON.  The
   statements below have no free signature hash and no free hash function.
   [declared_log name js l]: [l] has 1 + #indexed topics and topic 0 =
   keccak256 (canon_sig name js).  Unqualified [gate]/[num_indexed] above are
   Model/AbiSig.v's; below both are written qualified. *)
From Shovel Require Import Model.Bint Model.AbiScan Model.AbiEnc Model.Filter Model.Rows Model.RowsAbi.
From Shovel Require Import Model.BridgeGateRows.
From Shovel Require Proofs.BridgeGateRowsP.

(* the gate inside the row builder, on that declaration, IS C13's gate on the
   integration dig.New builds (stored hash = Keccak-256 of Event.Signature(),
   numIndexed), for every log *)
Theorem bridge_rows_gate_is_c13_gate : forall ed l,
  Rows.gate (decl_of ed) l = true <->
  exists st, AbiSig.gate (AbiSig.num_indexed (ed_json ed)) (ig_sighash keccak256 (ed_json ed))
                         (l_topics l) (l_data l) = Ok st /\ st <> Skip.
Proof. exact BridgeGateRowsP.rows_gate_is_c13_gate. Qed.
Print Assumptions bridge_rows_gate_is_c13_gate.

(* ... and passes exactly the logs of the declared event *)
Theorem bridge_gate_declared_event : forall ed l,
  Rows.gate (decl_of ed) l = true <-> declared_log (ed_event ed) (ed_js ed) l.
Proof. exact BridgeGateRowsP.gate_decl_of_iff. Qed.
Print Assumptions bridge_gate_declared_event.

(* Insert (rows handed to COPY; or its error / panic) is the same on the chain
   with every log that is not a log of the declared event ERASED: every
   indexing mode, any decoded rows, any input types, no success premise *)
Theorem insert_ignores_undeclared_logs : forall ed c dbs blocks,
  insert fixed (decl_of ed) c dbs (keep_logs (is_declared_log (ed_event ed) (ed_js ed)) blocks)
  = insert fixed (decl_of ed) c dbs blocks.
Proof. exact BridgeGateRowsP.insert_ignores_undeclared_l. Qed.
Print Assumptions insert_ignores_undeclared_logs.

(* log mode, Insert succeeded: the rows are the concatenation, in chain order,
   of one (possibly empty) group per log; a log's group is what processLog
   returns for it, and is non-empty ONLY IF the log is a log of the declared
   event (decoded rows [l_scan] are a given here; any input types) *)
Theorem undeclared_logs_contribute_nothing : forall ed c dbs blocks rows,
  let d := decl_of ed in
  indexing fixed d = IxLog -> insert fixed d c dbs blocks = Ok rows ->
  exists per, rows = concat per /\ length per = length (log_items blocks) /\
    forall k b t l, nth_error (log_items blocks) k = Some (b, t, l) ->
      exists rs, nth_error per k = Some rs /\
        process_log fixed d dbs (mk_env c d b t (Some l) None) l = Ok rs /\
        (rs <> [] -> declared_log (ed_event ed) (ed_js ed) l) /\
        (~ declared_log (ed_event ed) (ed_js ed) l -> rs = []).
Proof. exact BridgeGateRowsP.undeclared_logs_l. Qed.
Print Assumptions undeclared_logs_contribute_nothing.

(* THE COMPOSED STATEMENT.  Declaration: event [name] with inputs [xs]
   (elementary types with array suffixes, in C11's end-to-end domain
   [e2e_dom]), any columns / block data / table / filters; the decoder is
   inside the model ([chain_with_scan]: Event.ABIType then Result.Scan on each
   log's data).  If Insert succeeds, its rows are the concatenation in chain
   order of one group per log, and ([log_contribution]) the group of a log
   - is empty unless topic 0 = keccak256 (canonical signature) and there are
     1 + #indexed topics;
   - for such a log whose data is the ABI encoding of values [vs] of the
     declared types (anything may follow) is exactly what C11's
     log_rows_end_to_end describes: one candidate per element of the selected
     array, the accepted ones in order, each cell from ITS OWN value / topic /
     enclosing item ([row_spec_v]);
   - for such a log without data: [row_spec]. *)
Theorem rows_only_for_declared_event : forall ig name xs block cols agg c dbs blocks rows,
  let d := decl_of (tin_evdecl ig name xs block cols agg) in
  e2e_dom xs false = true -> indexing fixed d = IxLog ->
  insert fixed d c dbs (chain_with_scan d blocks) = Ok rows ->
  exists per,
    rows = concat per /\ length per = length (log_items (chain_with_scan d blocks)) /\
    forall k b t l, nth_error (log_items (chain_with_scan d blocks)) k = Some (b, t, l) ->
      exists rs, nth_error per k = Some rs /\
                 log_contribution name xs d (mk_env c d b t (Some l) None) l rs.
Proof. exact BridgeGateRowsP.rows_only_l. Qed.
Print Assumptions rows_only_for_declared_event.

(* a log of ANOTHER event (name2, js2).  The premise is about the two 32-byte
   HASHES: nothing assumes that different signatures hash differently. *)
Theorem other_event_log_no_rows : forall ed name2 js2 dbs e l,
  keccak256 (ed_sig ed) <> keccak256 (canon_sig name2 js2) ->
  declared_log name2 js2 l -> process_log fixed (decl_of ed) dbs e l = Ok [].
Proof. exact BridgeGateRowsP.other_event_log_no_rows_l. Qed.
Print Assumptions other_event_log_no_rows.

Theorem other_event_logs_erasable : forall ed name2 js2 c dbs blocks,
  keccak256 (ed_sig ed) <> keccak256 (canon_sig name2 js2) ->
  insert fixed (decl_of ed) c dbs (keep_logs (fun l => negb (is_declared_log name2 js2 l)) blocks)
  = insert fixed (decl_of ed) c dbs blocks.
Proof. exact BridgeGateRowsP.other_event_logs_erasable_l. Qed.
Print Assumptions other_event_logs_erasable.

(* that premise is NECESSARY (and is not implied by the lower layers: Keccak-256
   is not injective): the integration rejects every log of the other event
   exactly when the hashes differ or the numbers of indexed inputs do.  With
   equal hashes and equal counts every log of the other event passes the gate
   and is decoded as the declared event. *)
Theorem other_event_excluded_iff : forall ed name2 js2,
  (forall l, declared_log name2 js2 l -> Rows.gate (decl_of ed) l = false) <->
  (keccak256 (ed_sig ed) <> keccak256 (canon_sig name2 js2) \/
   length (filter j_indexed (ed_js ed)) <> length (filter j_indexed js2)).
Proof. exact BridgeGateRowsP.other_event_excluded_iff_l. Qed.
Print Assumptions other_event_excluded_iff.

Theorem hash_collision_would_be_accepted : forall ed name2 js2 l,
  keccak256 (ed_sig ed) = keccak256 (canon_sig name2 js2) ->
  length (filter j_indexed (ed_js ed)) = length (filter j_indexed js2) ->
  declared_log name2 js2 l -> Rows.gate (decl_of ed) l = true.
Proof. exact BridgeGateRowsP.hash_collision_accepted_l. Qed.
Print Assumptions hash_collision_would_be_accepted.

(* Transfer(address,address,uint256) / Approval(address,address,uint256): the
   same inputs layout (two indexed, 3 topics); the hashes differ BY COMPUTATION *)
Theorem transfer_approval_hashes_differ :
  keccak256 (str "Transfer(address,address,uint256)") = transfer_topic /\
  keccak256 (str "Approval(address,address,uint256)") = approval_topic /\
  keccak256 (str "Transfer(address,address,uint256)") <> keccak256 (str "Approval(address,address,uint256)").
Proof. exact BridgeGateRowsP.transfer_approval_l. Qed.
Print Assumptions transfer_approval_hashes_differ.

(* ANY Transfer integration (any integration name, columns, block data, table,
   filter_agg) stores ddf252ad.. and 2; an Approval log (3 topics, topic 0 =
   8c5be1e5..; any data, any decoded rows) fails its gate and gives no row *)
Theorem decoy_same_layout_no_rows : forall ig c1 c2 c3 block cols agg dbs e l,
  let d := decl_of (tin_evdecl ig (str "Transfer") (erc20_inputs c1 c2 c3) block cols agg) in
  length (l_topics l) = 3%nat -> nth_error (l_topics l) 0 = Some approval_topic ->
  Rows.num_indexed d = 2%nat /\ d_sighash d = transfer_topic /\
  Rows.gate d l = false /\ process_log fixed d dbs e l = Ok [].
Proof. exact BridgeGateRowsP.decoy_l. Qed.
Print Assumptions decoy_same_layout_no_rows.

Theorem decoy_logs_erasable : forall ig c1 c2 c3 block cols agg c dbs blocks,
  let d := decl_of (tin_evdecl ig (str "Transfer") (erc20_inputs c1 c2 c3) block cols agg) in
  insert fixed d c dbs
         (keep_logs (fun l => negb (is_declared_log (str "Approval") (map tin_jty (erc20_inputs c1 c2 c3)) l)) blocks)
  = insert fixed d c dbs blocks.
Proof. exact BridgeGateRowsP.decoy_erasable_l. Qed.
Print Assumptions decoy_logs_erasable.

(* non-vacuity, by computation.  One transaction with three logs of the same
   layout and valid data: Approval(1,2,5), Transfer(1,2,7), Approval(1,2,9).
   The Transfer integration (columns f, t, v, log_idx) is in the domain of
   rows_only_for_declared_event, indexes logs, and copies exactly the Transfer
   row; the Approval integration over the same chain copies the other two. *)
Example ex_decoy_premises :
  e2e_dom (erc20_inputs (s2b "f") (s2b "t") (s2b "v")) false = true /\
  indexing fixed (decl_of ex_transfer) = IxLog /\
  length (log_items (chain_with_scan (decl_of ex_transfer) ex_erc20_chain)) = 3%nat /\
  d_sighash (decl_of ex_transfer) = transfer_topic.
Proof. repeat split; vm_compute; reflexivity. Qed.
Example ex_decoy_same_layout :
  insert_cells fixed (decl_of ex_transfer) ex_ctx [] (chain_with_scan (decl_of ex_transfer) ex_erc20_chain)
  = Ok [[CBytes (repeat 0 19 ++ [1]); CBytes (repeat 0 19 ++ [2]); CInt 7; CInt 1]]
  /\ insert_cells fixed (decl_of ex_approval) ex_ctx [] (chain_with_scan (decl_of ex_approval) ex_erc20_chain)
  = Ok [[CBytes (repeat 0 19 ++ [1]); CBytes (repeat 0 19 ++ [2]); CInt 5; CInt 0];
        [CBytes (repeat 0 19 ++ [1]); CBytes (repeat 0 19 ++ [2]); CInt 9; CInt 2]].
Proof. split; vm_compute; reflexivity. Qed.
