(* C13 — only logs of the declared event are decoded: signature hash and topic
   count.  Only property theorems (closed by [exact]), [Print Assumptions],
   examples.  Keccak-256 is an arbitrary function [keccak] (Section variable =
   explicit premise); the harness checks eth.Keccak against an independent
   implementation and known event hashes on every run. *)
From Coq Require Import String.
From Coq Require Import List NArith ZArith Bool.
From Shovel Require Import Base.Outcome Model.Hex Model.AbiType Model.AbiParse Model.AbiSig Model.Keccak
     Proofs.AbiParseP Proofs.AbiSigP Proofs.KeccakP.
Import ListNotations.
Open Scope N_scope.

(* every event name, every list of input types — elementary, arrays, tuples,
   tuple arrays, nested tuples, any indexed layout: Event.Signature() on the ABI
   JSON is the canonical signature of the Solidity ABI specification *)
Theorem signature_canonical : forall name js, event_sig (event_of name js) = canon_sig name js.
Proof. exact signature_canonical_l. Qed.
Print Assumptions signature_canonical.

(* for every stored hash, topic list and data: a log passes the gate iff its
   topic count is 1 + #indexed and its first topic is the stored hash *)
Theorem gate_passes_iff : forall nidx sh topics data,
  (exists st, gate nidx sh topics data = Ok st /\ st <> Skip) <->
  (length topics = S nidx /\ nth_error topics 0 = Some sh).
Proof. exact gate_passes. Qed.
Print Assumptions gate_passes_iff.

(* a log that passes reaches the decoder exactly when it carries data *)
Theorem gate_reaches_decoding : forall nidx sh topics data st,
  gate nidx sh topics data = Ok st -> st <> Skip ->
  st = match data with [] => NoData | _ => Decode end.
Proof. exact gate_stage. Qed.
Print Assumptions gate_reaches_decoding.

Theorem gate_no_panic : forall nidx sh topics data, gate nidx sh topics data <> Panic.
Proof. exact gate_never_panics. Qed.
Print Assumptions gate_no_panic.

Theorem empty_topics_no_panic : forall nidx sh data, gate nidx sh [] data = Ok Skip.
Proof. exact gate_empty. Qed.
Print Assumptions empty_topics_no_panic.

Section Keccak.
  Variable keccak : bytes -> bytes.
  (* the integration dig.New builds from a declaration (sighash =
     keccak(Event.Signature()), numIndexed): a log contributes iff it has
     1 + #indexed topics and topic 0 = keccak(canonical signature) *)
  Theorem gate_iff : forall name js topics data,
    let e := event_of name js in
    (exists st, gate (num_indexed e) (ig_sighash keccak e) topics data = Ok st /\ st <> Skip) <->
    (length topics = S (length (filter j_indexed js)) /\
     nth_error topics 0 = Some (keccak (canon_sig name js))).
  Proof. exact (gate_iff_l keccak). Qed.
End Keccak.
Print Assumptions gate_iff.

(* the same with the concrete, executable Keccak-256 of Model/Keccak.v (validated
   against eth.Keccak on every run): no free hash function is left *)
Theorem gate_iff_keccak256 : forall name js topics data,
  let e := event_of name js in
  (exists st, gate (num_indexed e) (ig_sighash keccak256 e) topics data = Ok st /\ st <> Skip) <->
  (length topics = S (length (filter j_indexed js)) /\
   nth_error topics 0 = Some (keccak256 (canon_sig name js))).
Proof. exact (gate_iff_l keccak256). Qed.
Print Assumptions gate_iff_keccak256.

(* every input: the digest has 32 bytes; the sponge state keeps its 25 lanes
   through any number of absorbed blocks; the padded message is a whole number
   (>= 1) of 136-byte blocks *)
Theorem keccak256_digest_length : forall bs, length (keccak256 bs) = 32%nat.
Proof. exact keccak256_length. Qed.
Print Assumptions keccak256_digest_length.

Theorem keccak_state_lanes : forall bs, length (keccak_state bs) = 25%nat.
Proof. exact keccak_state_length. Qed.
Print Assumptions keccak_state_lanes.

Theorem keccak_padding_blocks : forall len,
  Nat.modulo (len + length (pad len)) rate = 0%nat /\ (1 <= length (pad len))%nat.
Proof. exact pad_blocks. Qed.
Print Assumptions keccak_padding_blocks.

(* standard vectors, by computation *)
Example ex_keccak_transfer :
  keccak256 (str "Transfer(address,address,uint256)")
  = Hex.decode_hex (str "ddf252ad1be2c89b69c2b068fc378daa952ba7f163c4a11628f55a4df523b3ef").
Proof. exact keccak256_transfer. Qed.

(* non-vacuity: Foo((uint256,(address,bytes[2]))[],uint8[3][]) *)
Example ex_sig :
  canon_sig (str "Foo")
    [JTuple false [JElem false (EUint 256) false []; JTuple false [JElem false EAddress false []; JElem false EBytes false [2]] []] [0];
     JElem true (EUint 8) false [3; 0]]
  = str "Foo((uint256,(address,bytes[2]))[],uint8[3][])".
Proof. vm_compute. reflexivity. Qed.
Example ex_gate : gate 1 [1; 2] [[1; 2]; [9]] [0] = Ok Decode /\ gate 1 [1; 2] [[1; 2]] [0] = Ok Skip
                  /\ gate 1 [1; 2] [[1; 3]; [9]] [0] = Ok Skip.
Proof. vm_compute. repeat split. Qed.
