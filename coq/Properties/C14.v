(* C14 — every selectable field is actually fetched.  Only property theorems
   here.  [glf_tables], [glf_steps] (shovel/glf/filter.go) and [get_fields]
   (dig.logWithCtx.get) are REGENERATED from the repository on every run
   (Gen/); [gen_ok] is re-checked against what the source says now. *)
From Coq Require Import List String Bool.
From Shovel Require Import Model.Plan Model.Provides Model.PlanCheck Proofs.PlanP Proofs.C14P Gen.GlfTables Gen.GetFields Gen.FetchFills Gen.GetDispatch.
Import ListNotations.
Open Scope string_scope.

(* the flags glf.New computes depend on the requested names only through the
   SET of their membership signatures (in which of the five tables each is) —
   for arbitrary tables and arbitrary sequences of if-blocks *)
Theorem plan_depends_on_classes : forall T steps needs1 needs2,
  (forall s, In s (map (sig T) needs1) <-> In s (map (sig T) needs2)) ->
  new T steps needs1 = new T steps needs2.
Proof. exact plan_classes. Qed.
Print Assumptions plan_depends_on_classes.

(* soundness of the finite check, for ARBITRARY tables, steps, dispatch, provides-relation
   and name list, and for ALL field sets S (no bound, not a sample): in every
   indexing mode, every field of every set selectable in that mode is supplied
   by the requests Client.Get makes for glf.New(S ++ required fields) *)
Theorem check_plan_sound : forall T steps disp P names,
  check_plan T steps disp P names = true ->
  forall m S, incl S names -> mode_ok m S ->
  forall f, In f S -> supplied_b P (disp (new T steps (needs_of m S))) m f = true.
Proof. exact check_plan_sound_l. Qed.
Print Assumptions check_plan_sound.

(* the instance for what the source of this run says: planner tables and if-blocks
   (glf/filter.go), the switch / if statements of Client.Get (disp_gen), which struct
   fields each request fills (provides_gen: json tags of eth/types.go, writes of
   receipts()/logs()/traces()), and the struct field each case label of get returns *)
(* printed for the report when gen_ok fails: the first offending (mode, names of the class set, field); normally [] *)
Eval vm_compute in (firstn 3 (counterexamples glf_tables glf_steps disp_gen provides_gen get_fields)).
Theorem gen_ok : check_plan glf_tables glf_steps disp_gen provides_gen get_fields = true.
Proof. vm_compute. reflexivity. Qed.
Print Assumptions gen_ok.

Theorem C14_holds : C14_full glf_tables glf_steps disp_gen provides_gen get_fields.
Proof. exact (check_plan_gives_full _ _ _ _ _ gen_ok). Qed.
Print Assumptions C14_holds.

(* the same statement is false for the planner tables as found (witness:
   tx_effective_gas_price alone) and for the dispatch of Client.Get as found
   (witness: tx_status with trace_action_from) *)
Theorem C14_refuted_legacy_tables : ~ C14_full legacy_tables legacy_steps dispatch provides get_fields.
Proof. exact C14_legacy_tables_refuted. Qed.
Print Assumptions C14_refuted_legacy_tables.

Theorem C14_refuted_legacy_dispatch : ~ C14_full glf_tables glf_steps legacy_dispatch provides get_fields.
Proof. exact C14_legacy_dispatch_refuted. Qed.
Print Assumptions C14_refuted_legacy_dispatch.

Theorem legacy_defect_witnesses :
  (supplied_b provides (dispatch (new legacy_tables legacy_steps (needs_of MTx [f_egp]))) MTx f_egp = false)
  /\ (supplied_b provides (dispatch (new legacy_tables legacy_steps (needs_of MTx [f_gp; f_status]))) MTx f_gp = false)
  /\ (supplied_b provides (dispatch (new legacy_tables legacy_steps (needs_of MLog [f_gp; f_addr]))) MLog f_gp = false)
  /\ (supplied_b provides (dispatch (new legacy_tables legacy_steps (needs_of MTrace [f_tidx]))) MTrace f_tidx = false)
  /\ (supplied_b provides (legacy_dispatch (new glf_tables glf_steps (needs_of MTrace [f_status; f_tfrom]))) MTrace f_tfrom = false)
  /\ check_plan legacy_tables legacy_steps dispatch provides get_fields = false.
Proof.
  exact (conj (proj2 legacy_egp_not_fetched) (conj (proj2 legacy_gas_price_not_fetched) (conj (proj2 legacy_gas_price_with_event)
        (conj legacy_trace_idx_alone (conj (proj1 (proj2 (proj2 (proj2 legacy_receipts_and_traces)))) checker_rejects_legacy_tables))))).
Qed.
Print Assumptions legacy_defect_witnesses.

(* non-vacuity: the hypotheses of C14_holds are satisfiable, e.g. a trace integration that also selects tx_status *)
Example ex_selectable :
  incl [f_status; f_tfrom] get_fields /\ mode_ok MTrace [f_status; f_tfrom]
  /\ disp_gen (new glf_tables glf_steps (needs_of MTrace [f_status; f_tfrom])) = [GNumbers; GReceipts; GTraces].
Proof.
  split; [|split].
  - intros x [Hx|[Hx|[]]]; subst; apply in_get_fields; vm_compute; reflexivity.
  - split; [intros x [Hx|[Hx|[]]]; subst; reflexivity|]. intros _. exists f_tfrom. split; [right; left; reflexivity | reflexivity].
  - vm_compute. reflexivity.
Qed.

(* ======================================================================================
   Bridge plan -> rows (C14 -> C11).  Model/BridgePlanRows.v, Proofs/BridgePlanRowsP.v.
   [d : Rows.decl] is the integration handed to dig.New (block data AFTER
   config.AddRequiredFields); [needs] is what Integration.Filter() hands to glf.New for it:
   [plan_request_of d needs] = "needs[i] is the name of d's i-th block-data entry" (Rows.v
   writes names as byte lists, Plan.v as strings; s2b is injective).  Rows-side names are
   qualified (Rows., Filter., Outcome.); unqualified names are the planner's.
   Field universe: the 28 case labels of Gen/GetFields.v (regenerated) = the 28
   constructors of Rows.field; finite side conditions over them and over the planner
   tables are decided by vm_compute on every run ([bridge_side_conditions]) and lifted with
   forallb_forall; declarations, requests and field sets are NOT bounded. *)
From Shovel Require Base.Outcome Model.Filter Model.Rows.
From Shovel Require Import Model.BridgePlanRows Proofs.BridgePlanRowsP.

(* the finite side conditions, on the tables regenerated from the source of this run:
   every name of a planner table is a case label of get; a case label reads a trace item iff
   it has the "trace_" prefix; the names AddRequiredFields adds are case labels; the names
   of Rows.get_field are the case labels and read the same kind of item (ctx / header / tx /
   receipt / log / trace); every name that can switch a planner flag on is filled by that
   flag's request; for all 32 flag values Client.Get makes a request (other than the bare
   numbers) only under a flag that is on *)
Theorem bridge_side_conditions :
  bridge_checks glf_tables get_fields = true
  /\ steps_useful glf_tables glf_steps provides_gen get_fields = true
  /\ dispatch_guarded disp_gen = true.
Proof. exact (conj bridge_checks_gen (conj steps_useful_gen dispatch_guarded_gen)). Qed.
Print Assumptions bridge_side_conditions.

(* [rows_read_names d] is what the row builder reads: processTx (tx and trace rows) and
   processLog (log rows) see the delivered block / transaction / log / trace item / context
   only through logWithCtx.get on those names -- two environments that agree there give the
   same rows, errors and panics included *)
Theorem rows_read_only_declared_names : forall d dbs e1 e2,
  (forall n, In n (rows_read_names d) -> Rows.get_field e1 n = Rows.get_field e2 n) ->
  Rows.process_tx d dbs e1 = Rows.process_tx d dbs e2
  /\ (Rows.indexing Rows.fixed d = Rows.IxLog ->
      forall l, Rows.process_log Rows.fixed d dbs e1 l = Rows.process_log Rows.fixed d dbs e2 l).
Proof.
  exact (fun d dbs e1 e2 H => conj (process_tx_reads_only_l d dbs e1 e2 H)
                                   (fun Hm l => process_log_reads_only_l d dbs e1 e2 l Hm H)).
Qed.
Print Assumptions rows_read_only_declared_names.

(* and the value read under a name is a function of the one item [field_item] says *)
Theorem field_read_from_its_item : forall F c ig b t l a c' ig' b' t' l' a',
  match field_item F with
  | ICtx => c = c' /\ ig = ig'
  | IHeader => Rows.b_hash b = Rows.b_hash b' /\ Rows.b_num b = Rows.b_num b' /\ Rows.b_time b = Rows.b_time b'
  | ITx | IReceipt => t = t'
  | ILog => l = l'
  | ITrace => a = a'
  end -> Rows.field_of F c ig b t l a = Rows.field_of F c' ig' b' t' l' a'.
Proof. exact field_of_reads_only_its_item. Qed.
Print Assumptions field_read_from_its_item.

(* (1) every field name the row builder reads for ANY declaration d is a name of the request
   made for d; it is a case label [f] of get reading the same kind of item, member of the
   request's field set S = plan_fields get_fields needs, hence of needs_of m S = declared +
   required *)
Theorem rows_read_fields_requested : forall d needs, plan_request_of d needs ->
  forall F, In (Filter.s2b (Rows.field_name F)) (rows_read_names d) ->
  In (Rows.field_name F) needs /\
  exists f, In f (plan_fields get_fields needs) /\ f_name f = Rows.field_name F /\ f_class f = field_item F /\
    In (Rows.field_name F) (needs_of (mode_of (Rows.indexing Rows.fixed d)) (plan_fields get_fields needs)).
Proof. exact rows_read_fields_requested_l. Qed.
Print Assumptions rows_read_fields_requested.

(* the request of a declaration that went through AddRequiredFields ([required_present]) and
   C14's [needs_of m S]: same case labels, same plan (names in no planner table -- abi_idx,
   unknown names -- do not influence glf.New) *)
Theorem request_is_declared_plus_required : forall m needs, required_present m needs ->
  incl (needs_of m (plan_fields get_fields needs)) needs
  /\ (forall f, In f get_fields -> In (f_name f) needs -> In (f_name f) (needs_of m (plan_fields get_fields needs)))
  /\ new glf_tables glf_steps needs = new glf_tables glf_steps (needs_of m (plan_fields get_fields needs)).
Proof. exact request_is_declared_plus_required_l. Qed.
Print Assumptions request_is_declared_plus_required.

(* (2) for EVERY declaration d (any inputs, any block-data list, any length) whose request
   contains the required names of its mode and names a log field only for log rows: every
   field name the row builder reads is a case label whose struct field is FILLED by at least
   one request of the plan glf.New selects for d's own request, and those requests make all
   items of the mode exist ([filled]; context fields need no request).  On a node that
   answers honestly no stored cell is a zero default left by a request that was not made. *)
Theorem plan_fills_what_rows_read : forall d needs, plan_request_of d needs ->
  required_present (mode_of (Rows.indexing Rows.fixed d)) needs ->
  log_fields_only_in_log_mode get_fields (mode_of (Rows.indexing Rows.fixed d)) needs ->
  forall F, In (Filter.s2b (Rows.field_name F)) (rows_read_names d) ->
  exists f, In f get_fields /\ f_name f = Rows.field_name F /\ f_class f = field_item F /\
    filled provides_gen (disp_gen (new glf_tables glf_steps needs)) (mode_of (Rows.indexing Rows.fixed d)) f.
Proof. exact plan_fills_what_rows_read_l. Qed.
Print Assumptions plan_fills_what_rows_read.

(* the second precondition is implied by the existence of ONE emitted row (C11: a log field
   outside log rows makes logWithCtx.get dereference a nil log on every item) *)
Theorem emitted_row_implies_selectable : forall d needs c dbs blocks rows r, plan_request_of d needs ->
  Rows.insert Rows.fixed d c dbs blocks = Outcome.Ok rows -> In r rows ->
  log_fields_only_in_log_mode get_fields (mode_of (Rows.indexing Rows.fixed d)) needs.
Proof. exact row_exists_selectable_l. Qed.
Print Assumptions emitted_row_implies_selectable.

(* C11 and C14 composed.  Every row Insert emits was built for one transaction / log / trace
   action of the delivered blocks; each block-data cell bound to a field name holds that field
   of THAT item (C11: block_field_of_enclosing_item_log, _tx, _trace), and that field is filled by the plan
   selected for the same declaration.  Only premise beyond the two layers: the request
   contains the required names (post-condition of config.AddRequiredFields). *)
Theorem stored_block_cells_are_fetched : forall d needs c dbs blocks rows r, plan_request_of d needs ->
  required_present (mode_of (Rows.indexing Rows.fixed d)) needs ->
  Rows.insert Rows.fixed d c dbs blocks = Outcome.Ok rows -> In r rows ->
  exists b t lo ao, In b blocks /\ In t (Rows.b_txs b) /\ item_of_mode (Rows.indexing Rows.fixed d) t lo ao /\
    forall k bd F, nth_error (Rows.d_block d) k = Some bd -> Rows.bd_name bd = Filter.s2b (Rows.field_name F) ->
      nth_error r (bd_offset d + k) = Rows.field_of F c (Rows.d_name d) b t lo ao
      /\ Rows.field_of F c (Rows.d_name d) b t lo ao <> None
      /\ exists f, In f get_fields /\ f_name f = Rows.field_name F /\ f_class f = field_item F /\
           filled provides_gen (disp_gen (new glf_tables glf_steps needs)) (mode_of (Rows.indexing Rows.fixed d)) f.
Proof. exact stored_cells_gen. Qed.
Print Assumptions stored_block_cells_are_fetched.

(* (3) converse, for arbitrary tables and steps: a flag is set only if the request names a
   member of the trigger set of one of that flag's if-blocks; and on the regenerated tables,
   for ANY request: every request Client.Get then makes, other than the bare block numbers,
   fills the struct field of a case label that the request names -- no useless RPC *)
Theorem plan_flag_needed : forall T steps needs fl, flag_on (new T steps needs) fl = true ->
  exists st x, In st steps /\ st_flag st = fl /\ In x needs /\ mem x (step_set T st) = true.
Proof. exact PS.flag_needed. Qed.
Print Assumptions plan_flag_needed.

Theorem no_useless_fetch : forall needs g, In g (disp_gen (new glf_tables glf_steps needs)) ->
  g = GNumbers \/
  exists x f, In x needs /\ In f get_fields /\ f_name f = x /\ In g (provides_gen (f_acc f)).
Proof. exact no_useless_fetch_l. Qed.
Print Assumptions no_useless_fetch.

(* both preconditions of (2) are necessary: [plan_fills_stmt .. true true] is (2) with
   [supplied_b]; with the first switch off (AddRequiredFields did not run: block_time alone
   selects headers only, no transaction exists) and with the second off (log_addr without an
   event: eth_getLogs only) the statement is false *)
Theorem plan_fills_with_both_preconditions :
  plan_fills_stmt glf_tables glf_steps disp_gen provides_gen get_fields true true.
Proof. exact plan_fills_gen. Qed.
Print Assumptions plan_fills_with_both_preconditions.

Theorem plan_fills_needs_required_refuted :
  ~ plan_fills_stmt glf_tables glf_steps disp_gen provides_gen get_fields false true.
Proof. exact plan_fills_needs_required. Qed.
Print Assumptions plan_fills_needs_required_refuted.

Theorem plan_fills_needs_selectable_refuted :
  ~ plan_fills_stmt glf_tables glf_steps disp_gen provides_gen get_fields true false.
Proof. exact plan_fills_needs_selectable. Qed.
Print Assumptions plan_fills_needs_selectable_refuted.

(* non-vacuity: ERC-20 Transfer(address indexed, address indexed, uint256), all inputs selected,
   block fields block_time, tx_status, log_addr + what AddRequiredFields appends.  Log rows; the
   plan is headers + receipts (no full blocks, no traces; use_logs is left out of the statement:
   it depends on the order of the if-blocks and is overridden by receipts in Client.Get); the 8 case labels the request names are read and each is supplied
   (block_time by the headers, tx_status / log_addr / log_idx / tx_idx by the receipts); one row
   is stored for a block with one Transfer log, so every premise of
   stored_block_cells_are_fetched is satisfiable *)
Example ex_erc20_transfer :
  plan_request_of erc20_decl erc20_request
  /\ Rows.indexing Rows.fixed erc20_decl = Rows.IxLog
  /\ required_presentb MLog erc20_request = true
  /\ rows_read_names erc20_decl = map Filter.s2b erc20_request
  /\ (let fl := new glf_tables glf_steps erc20_request in
      use_headers fl = true /\ use_receipts fl = true /\ use_blocks fl = false /\ use_traces fl = false)
  /\ disp_gen (new glf_tables glf_steps erc20_request) = [GHeaders; GReceipts]
  /\ map f_name (plan_fields get_fields erc20_request)
     = ["src_name"; "ig_name"; "block_num"; "block_time"; "tx_idx"; "tx_status"; "log_idx"; "log_addr"]
  /\ map (fun f => filter (fun g => has_fetch g (disp_gen (new glf_tables glf_steps erc20_request))) (provides_gen (f_acc f)))
         (plan_fields get_fields erc20_request)
     = [[]; []; [GHeaders]; [GHeaders]; [GReceipts]; [GReceipts]; [GReceipts]; [GReceipts]]
  /\ forallb (supplied_b provides_gen (disp_gen (new glf_tables glf_steps erc20_request)) MLog)
             (plan_fields get_fields erc20_request) = true
  /\ Rows.insert_cells Rows.fixed erc20_decl erc20_ctx [] [erc20_block]
     = Outcome.Ok erc20_cells.
Proof. repeat split; vm_compute; reflexivity. Qed.
