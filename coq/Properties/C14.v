(* C14 — every selectable field is actually fetched.  Only property theorems
   here.  [glf_tables], [glf_steps] (shovel/glf/filter.go) and [get_fields]
   (dig.logWithCtx.get) are REGENERATED from the repository on every run
   (Gen/); [gen_ok] is re-checked against what the source says now. *)
From Coq Require Import List String Bool.
From Shovel Require Import Model.Plan Model.Provides Model.PlanCheck Proofs.PlanP Proofs.C14P Gen.GlfTables Gen.GetFields Gen.FetchFills Gen.GetDispatch.
Import ListNotations.
Open Scope string_scope.

(* the flags glf.New computes depend on the requested names only through the
   SET of their membership signatures (in which of the five tables each is) —
   for arbitrary tables and arbitrary sequences of if-blocks *)
Theorem plan_depends_on_classes : forall T steps needs1 needs2,
  (forall s, In s (map (sig T) needs1) <-> In s (map (sig T) needs2)) ->
  new T steps needs1 = new T steps needs2.
Proof. exact plan_classes. Qed.
Print Assumptions plan_depends_on_classes.

(* soundness of the finite check, for ARBITRARY tables, steps, dispatch, provides-relation
   and name list, and for ALL field sets S (no bound, not a sample): in every
   indexing mode, every field of every set selectable in that mode is supplied
   by the requests Client.Get makes for glf.New(S ++ required fields) *)
Theorem check_plan_sound : forall T steps disp P names,
  check_plan T steps disp P names = true ->
  forall m S, incl S names -> mode_ok m S ->
  forall f, In f S -> supplied_b P (disp (new T steps (needs_of m S))) m f = true.
Proof. exact check_plan_sound_l. Qed.
Print Assumptions check_plan_sound.

(* the instance for what the source of this run says: planner tables and if-blocks
   (glf/filter.go), the switch / if statements of Client.Get (disp_gen), which struct
   fields each request fills (provides_gen: json tags of eth/types.go, writes of
   receipts()/logs()/traces()), and the struct field each case label of get returns *)
(* printed for the report when gen_ok fails: the first offending (mode, names of the class set, field); normally [] *)
Eval vm_compute in (firstn 3 (counterexamples glf_tables glf_steps disp_gen provides_gen get_fields)).
Theorem gen_ok : check_plan glf_tables glf_steps disp_gen provides_gen get_fields = true.
Proof. vm_compute. reflexivity. Qed.
Print Assumptions gen_ok.

Theorem C14_holds : C14_full glf_tables glf_steps disp_gen provides_gen get_fields.
Proof. exact (check_plan_gives_full _ _ _ _ _ gen_ok). Qed.
Print Assumptions C14_holds.

(* the same statement is false for the planner tables as found (witness:
   tx_effective_gas_price alone) and for the dispatch of Client.Get as found
   (witness: tx_status with trace_action_from) *)
Theorem C14_refuted_legacy_tables : ~ C14_full legacy_tables legacy_steps dispatch provides get_fields.
Proof. exact C14_legacy_tables_refuted. Qed.
Print Assumptions C14_refuted_legacy_tables.

Theorem C14_refuted_legacy_dispatch : ~ C14_full glf_tables glf_steps legacy_dispatch provides get_fields.
Proof. exact C14_legacy_dispatch_refuted. Qed.
Print Assumptions C14_refuted_legacy_dispatch.

Theorem legacy_defect_witnesses :
  (supplied_b provides (dispatch (new legacy_tables legacy_steps (needs_of MTx [f_egp]))) MTx f_egp = false)
  /\ (supplied_b provides (dispatch (new legacy_tables legacy_steps (needs_of MTx [f_gp; f_status]))) MTx f_gp = false)
  /\ (supplied_b provides (dispatch (new legacy_tables legacy_steps (needs_of MLog [f_gp; f_addr]))) MLog f_gp = false)
  /\ (supplied_b provides (dispatch (new legacy_tables legacy_steps (needs_of MTrace [f_tidx]))) MTrace f_tidx = false)
  /\ (supplied_b provides (legacy_dispatch (new glf_tables glf_steps (needs_of MTrace [f_status; f_tfrom]))) MTrace f_tfrom = false)
  /\ check_plan legacy_tables legacy_steps dispatch provides get_fields = false.
Proof.
  exact (conj (proj2 legacy_egp_not_fetched) (conj (proj2 legacy_gas_price_not_fetched) (conj (proj2 legacy_gas_price_with_event)
        (conj legacy_trace_idx_alone (conj (proj1 (proj2 (proj2 (proj2 legacy_receipts_and_traces)))) checker_rejects_legacy_tables))))).
Qed.
Print Assumptions legacy_defect_witnesses.

(* non-vacuity: the hypotheses of C14_holds are satisfiable, e.g. a trace integration that also selects tx_status *)
Example ex_selectable :
  incl [f_status; f_tfrom] get_fields /\ mode_ok MTrace [f_status; f_tfrom]
  /\ disp_gen (new glf_tables glf_steps (needs_of MTrace [f_status; f_tfrom])) = [GNumbers; GReceipts; GTraces].
Proof.
  split; [|split].
  - intros x [Hx|[Hx|[]]]; subst; apply in_get_fields; vm_compute; reflexivity.
  - split; [intros x [Hx|[Hx|[]]]; subst; reflexivity|]. intros _. exists f_tfrom. split; [right; left; reflexivity | reflexivity].
  - vm_compute. reflexivity.
Qed.
