(* C07 — source responses are validated.  Only property theorems here, each
   closed by [exact] of a lemma from Proofs/, each followed by
   [Print Assumptions]; [Example]s show that the hypotheses are satisfiable.

   [get p s l w] is Client.Get (as repaired, fixes/C07-*.diff) for plan [p] and
   range [s, s+l) over the family [w] of DECODED replies, one per request the
   plan can make ([RFail] = status not 2xx or undecodable body).  Every
   statement is for all plans, ranges and reply families. *)
From Coq Require Import List Arith NArith Bool.
From Shovel Require Import Base.Outcome Model.Client Model.ClientSpec Proofs.ClientP Proofs.C07P.
Import ListNotations.
Open Scope N_scope.

(* a successful request returns exactly the requested consecutive numbers *)
Theorem get_ok_exact_numbers : forall p s l w bs,
  get p s l w = Ok bs -> map b_num bs = seqN s (N.to_nat l).
Proof. exact get_numbers. Qed.
Print Assumptions get_ok_exact_numbers.

(* when the plan fetches headers or blocks the result is hash-linked and every hash is known *)
Theorem get_ok_linked : forall p s l w bs, fetches p = true ->
  get p s l w = Ok bs -> linked bs /\ (forall b, In b bs -> b_hash b <> []).
Proof. exact get_linked. Qed.
Print Assumptions get_ok_linked.

(* block by block, the result is the fetched block (or the bare number) with
   exactly the receipts / logs / traces of the replies that name it attached
   to the transactions they name, unchanged; nothing else is attached
   (see receipts_elem_ok, logs_block_ok, traces_elem_ok in Model/ClientSpec.v) *)
Theorem get_ok_attachment_faithful : forall p s l w bs, get p s l w = Ok bs ->
  exists base, base_ok p s l w base /\ attach_faithful p s l w base bs.
Proof. exact get_faithful. Qed.
Print Assumptions get_ok_attachment_faithful.

(* every corruption class of the property text (constructors of [corrupted]:
   error member, short batch = dropped element, null / missing result, a block
   number other than the requested one at some position = renumbered,
   reordered or duplicated element, broken parent link, receipt / log / trace
   naming another block or outside the range, block-hash skew between header
   and item or between the header fetched before and the header that comes
   with eth_getLogs, null header for the logs' last block, transport failure) makes
   the request fail — an error, never a panic, never data *)
Theorem get_rejects_corruption : forall p s l w, corrupted p s l w -> get p s l w = Err.
Proof. exact get_rejects. Qed.
Print Assumptions get_rejects_corruption.

Theorem transport_errors : forall p s l w,
  (fetches p = true /\ block_reply p w = RFail)
  \/ (attach_kind p = AReceipts /\ w_receipts w = RFail)
  \/ (attach_kind p = ALogs /\ w_logs w = RFail)
  \/ (use_traces p = true /\ exists i, (i < N.to_nat l)%nat /\ nth_error (w_traces w) i = Some RFail) ->
  get p s l w = Err.
Proof. exact transport. Qed.
Print Assumptions transport_errors.

(* no reply family whatsoever makes the repaired client dereference nil or index out of range *)
Theorem get_never_panics : forall p s l w, get p s l w <> Panic.
Proof. exact get_no_panic. Qed.
Print Assumptions get_never_panics.

(* Hash / Latest: total; null result, error member and transport failure are errors; an honest reply is returned as is *)
Theorem hash_latest_no_panic : forall r,
  latest r <> Panic /\ hash_of r <> Panic
  /\ (forall h, r = RBody h -> hr_err h = true \/ hr_res h = None -> latest r = Err /\ hash_of r = Err)
  /\ (r = RFail -> latest r = Err /\ hash_of r = Err)
  /\ (forall h n hs, r = RBody h -> hr_err h = false -> hr_res h = Some (n, hs) -> latest r = Ok (n, hs) /\ hash_of r = Ok hs).
Proof. exact head_total. Qed.
Print Assumptions hash_latest_no_panic.

(* the combined statement, for the repaired client ... *)
Theorem C07_holds_repaired : C07_full get.
Proof. exact C07_repaired. Qed.
Print Assumptions C07_holds_repaired.

(* ... and its refutation for the client as found: one accepted (or crashing) corrupted reply family per defect *)
Theorem C07_refuted_legacy : ~ C07_full legacy_get.
Proof. exact C07_legacy_refuted. Qed.
Print Assumptions C07_refuted_legacy.

Theorem legacy_defect_witnesses :
  (corrupted pl_h 1 3 w_renumber /\ is_ok (legacy_get pl_h 1 3 w_renumber) = true /\ get pl_h 1 3 w_renumber = Err)
  /\ (corrupted pl_h 0 1 w_null0 /\ legacy_get pl_h 0 1 w_null0 = Ok [zero_block] /\ get pl_h 0 1 w_null0 = Err)
  /\ (corrupted pl_r 5 2 w_rcpt_dup /\ is_ok (legacy_get pl_r 5 2 w_rcpt_dup) = true /\ get pl_r 5 2 w_rcpt_dup = Err)
  /\ (corrupted pl_r 5 1 w_rcpt_null /\ is_ok (legacy_get pl_r 5 1 w_rcpt_null) = true /\ get pl_r 5 1 w_rcpt_null = Err)
  /\ (corrupted pl_t 5 2 w_trace_other /\ is_ok (legacy_get pl_t 5 2 w_trace_other) = true /\ get pl_t 5 2 w_trace_other = Err)
  /\ (corrupted pl_hl 5 1 w_skew
      /\ legacy_get pl_hl 5 1 w_skew = Ok [mkBlock 5 [99] [50] [5] [mkTx 0 [100] [] [] [] [mkLog 0 [7]] []]]
      /\ get pl_hl 5 1 w_skew = Err)
  /\ (legacy_get pl_l 5 1 w_logs_short = Panic /\ get pl_l 5 1 w_logs_short = Err)
  /\ (corrupted pl_hl 5 1 w_reorg_empty /\ legacy_get pl_hl 5 1 w_reorg_empty = Ok [hb 5 51 50]
      /\ get pl_hl 5 1 w_reorg_empty = Err)
  /\ legacy_latest (RBody (mkHreply false None)) = Panic.
Proof.
  exact (conj legacy_accepts_renumbered (conj legacy_accepts_null_block (conj legacy_accepts_misplaced_receipts
        (conj legacy_accepts_null_receipts (conj legacy_accepts_misplaced_traces (conj legacy_accepts_hash_skew
        (conj legacy_panics_on_short_logs_batch (conj legacy_accepts_logs_of_other_chain legacy_head_panics)))))))).
Qed.
Print Assumptions legacy_defect_witnesses.

(* non-vacuity: honest replies are accepted, with the data where it belongs *)
Example honest_replies_accepted :
  get pl_hr 5 2 honest_hr =
  Ok [mkBlock 5 [51] [50] [5]
        [mkTx 0 [100] [2] [] [1; 21000] [mkLog 0 [7]] []; mkTx 1 [101] [2] [] [1; 21000] [mkLog 1 [7]] []];
      mkBlock 6 [61] [51] [6] []].
Proof. exact honest_accepted. Qed.
