(* C07 — source responses are validated.  Only property theorems here, each
   closed by [exact] of a lemma from Proofs/, each followed by
   [Print Assumptions]; [Example]s show that the hypotheses are satisfiable.

   [get p s l w] is Client.Get (as repaired, fixes/C07-*.diff) for plan [p] and
   range [s, s+l) over the family [w] of DECODED replies, one per request the
   plan can make ([RFail] = status not 2xx or undecodable body).  Every
   statement is for all plans, ranges and reply families. *)
From Coq Require Import List Arith NArith Bool.
From Shovel Require Import Base.Outcome Model.Client Model.ClientSpec Proofs.ClientP Proofs.C07P.
Import ListNotations.
Open Scope N_scope.

(* a successful request returns exactly the requested consecutive numbers *)
Theorem get_ok_exact_numbers : forall p s l w bs,
  get p s l w = Ok bs -> map b_num bs = seqN s (N.to_nat l).
Proof. exact get_numbers. Qed.
Print Assumptions get_ok_exact_numbers.

(* when the plan fetches headers or blocks the result is hash-linked and every hash is known *)
Theorem get_ok_linked : forall p s l w bs, fetches p = true ->
  get p s l w = Ok bs -> linked bs /\ (forall b, In b bs -> b_hash b <> []).
Proof. exact get_linked. Qed.
Print Assumptions get_ok_linked.

(* block by block, the result is the fetched block (or the bare number) with
   exactly the receipts / logs / traces of the replies that name it attached
   to the transactions they name, unchanged; nothing else is attached
   (see receipts_elem_ok, logs_block_ok, traces_elem_ok in Model/ClientSpec.v) *)
Theorem get_ok_attachment_faithful : forall p s l w bs, get p s l w = Ok bs ->
  exists base, base_ok p s l w base /\ attach_faithful p s l w base bs.
Proof. exact get_faithful. Qed.
Print Assumptions get_ok_attachment_faithful.

(* every corruption class of the property text (constructors of [corrupted]:
   error member, short batch = dropped element, null / missing result, a block
   number other than the requested one at some position = renumbered,
   reordered or duplicated element, broken parent link, receipt / log / trace
   naming another block or outside the range, block-hash skew between header
   and item or between the header fetched before and the header that comes
   with eth_getLogs, null header for the logs' last block, transport failure) makes
   the request fail — an error, never a panic, never data *)
Theorem get_rejects_corruption : forall p s l w, corrupted p s l w -> get p s l w = Err.
Proof. exact get_rejects. Qed.
Print Assumptions get_rejects_corruption.

Theorem transport_errors : forall p s l w,
  (fetches p = true /\ block_reply p w = RFail)
  \/ (attach_kind p = AReceipts /\ w_receipts w = RFail)
  \/ (attach_kind p = ALogs /\ w_logs w = RFail)
  \/ (use_traces p = true /\ exists i, (i < N.to_nat l)%nat /\ nth_error (w_traces w) i = Some RFail) ->
  get p s l w = Err.
Proof. exact transport. Qed.
Print Assumptions transport_errors.

(* no reply family whatsoever makes the repaired client dereference nil or index out of range *)
Theorem get_never_panics : forall p s l w, get p s l w <> Panic.
Proof. exact get_no_panic. Qed.
Print Assumptions get_never_panics.

(* Hash / Latest: total; null result, error member and transport failure are errors; an honest reply is returned as is *)
Theorem hash_latest_no_panic : forall r,
  latest r <> Panic /\ hash_of r <> Panic
  /\ (forall h, r = RBody h -> hr_err h = true \/ hr_res h = None -> latest r = Err /\ hash_of r = Err)
  /\ (r = RFail -> latest r = Err /\ hash_of r = Err)
  /\ (forall h n hs, r = RBody h -> hr_err h = false -> hr_res h = Some (n, hs) -> latest r = Ok (n, hs) /\ hash_of r = Ok hs).
Proof. exact head_total. Qed.
Print Assumptions hash_latest_no_panic.

(* the combined statement, for the repaired client ... *)
Theorem C07_holds_repaired : C07_full get.
Proof. exact C07_repaired. Qed.
Print Assumptions C07_holds_repaired.

(* ... and its refutation for the client as found: one accepted (or crashing) corrupted reply family per defect *)
Theorem C07_refuted_legacy : ~ C07_full legacy_get.
Proof. exact C07_legacy_refuted. Qed.
Print Assumptions C07_refuted_legacy.

Theorem legacy_defect_witnesses :
  (corrupted pl_h 1 3 w_renumber /\ is_ok (legacy_get pl_h 1 3 w_renumber) = true /\ get pl_h 1 3 w_renumber = Err)
  /\ (corrupted pl_h 0 1 w_null0 /\ legacy_get pl_h 0 1 w_null0 = Ok [zero_block] /\ get pl_h 0 1 w_null0 = Err)
  /\ (corrupted pl_r 5 2 w_rcpt_dup /\ is_ok (legacy_get pl_r 5 2 w_rcpt_dup) = true /\ get pl_r 5 2 w_rcpt_dup = Err)
  /\ (corrupted pl_r 5 1 w_rcpt_null /\ is_ok (legacy_get pl_r 5 1 w_rcpt_null) = true /\ get pl_r 5 1 w_rcpt_null = Err)
  /\ (corrupted pl_t 5 2 w_trace_other /\ is_ok (legacy_get pl_t 5 2 w_trace_other) = true /\ get pl_t 5 2 w_trace_other = Err)
  /\ (corrupted pl_hl 5 1 w_skew
      /\ legacy_get pl_hl 5 1 w_skew = Ok [mkBlock 5 [99] [50] [5] [mkTx 0 [100] [] [] [] [mkLog 0 [7]] []]]
      /\ get pl_hl 5 1 w_skew = Err)
  /\ (legacy_get pl_l 5 1 w_logs_short = Panic /\ get pl_l 5 1 w_logs_short = Err)
  /\ (corrupted pl_hl 5 1 w_reorg_empty /\ legacy_get pl_hl 5 1 w_reorg_empty = Ok [hb 5 51 50]
      /\ get pl_hl 5 1 w_reorg_empty = Err)
  /\ legacy_latest (RBody (mkHreply false None)) = Panic.
Proof.
  exact (conj legacy_accepts_renumbered (conj legacy_accepts_null_block (conj legacy_accepts_misplaced_receipts
        (conj legacy_accepts_null_receipts (conj legacy_accepts_misplaced_traces (conj legacy_accepts_hash_skew
        (conj legacy_panics_on_short_logs_batch (conj legacy_accepts_logs_of_other_chain legacy_head_panics)))))))).
Qed.
Print Assumptions legacy_defect_witnesses.

(* non-vacuity: honest replies are accepted, with the data where it belongs *)
Example honest_replies_accepted :
  get pl_hr 5 2 honest_hr =
  Ok [mkBlock 5 [51] [50] [5]
        [mkTx 0 [100] [2] [] [1; 21000] [mkLog 0 [7]] []; mkTx 1 [101] [2] [] [1; 21000] [mkLog 1 [7]] []];
      mkBlock 6 [61] [51] [6] []].
Proof. exact honest_accepted. Qed.

(* ======================================================================================
   Bridge client -> plan -> rows (C07 -> C14 -> C11).  Model/BridgeCells.v, Proofs/BridgeCellsP.v.
   "On an honest node every stored block-data cell is the NODE's value of the declared field."
   [nch]: the node's chain (client-level blocks with every payload, index = number; [CE.nch_wf]).
   [CE.honest_on nch s l w]: every reply of the family [w] describes [nch] (soundness of all five
   reply kinds, item block hashes included; completeness only of the receipts of a requested
   block); failures / nulls / error members are not excluded -- Get's success is a premise.
   [CF.reader] / [CF.conv rd]: the field-level reading of the opaque payloads, one projection
   per field, [CF.field_comp F] = the payload component field F reads; the node's Rows-level
   item IS [CF.conv rd] of the node's client-level item.  Rows-, plan- and bridge-side names are
   qualified (Rows., Plan., Filter., CE., CF.); unqualified names are the client's. *)
From Shovel Require Model.Filter Model.Rows Model.Plan Model.Provides Model.BridgeCacheRows.
From Shovel Require Import Model.BridgePlanRows Model.BridgeCells Proofs.BridgeCellsP.
From Shovel Require Proofs.C14P Gen.GlfTables Gen.GetFields.

(* the executable honest reply family of a well-formed chain is honest *)
Theorem honest_world_is_honest : forall nch s l, CE.nch_wf nch -> CE.honest_on nch s l (CE.honest_world nch s l).
Proof. exact CEP.honest_world_honest. Qed.
Print Assumptions honest_world_is_honest.

(* client level, any plan: a successful Get against an honest family delivers, for every block,
   the node's block of that number -- number; hash and header payload when headers / blocks
   were fetched; per delivered transaction: the block hash, the node's transaction of that
   index with its hash, type/from/to when blocks or receipts were requested, the body when
   blocks were, the receipt payload and exactly the node's logs when receipts were; every
   delivered log / trace action is a log / trace action of THAT node transaction.
   (fetch: get_ok_attachment_faithful's base; attach: invariant over the same steps) *)
Theorem honest_get_delivers_node_components : forall nch p s l w bs,
  CE.nch_wf nch -> CE.honest_on nch s l w -> (N.to_nat s + N.to_nat l <= length nch)%nat ->
  get p s l w = Ok bs ->
  forall b, In b bs ->
    exists cb, nth_error nch (N.to_nat (b_num b)) = Some cb /\ CE.delivered_components p cb b.
Proof. exact CEP.get_honest_components. Qed.
Print Assumptions honest_get_delivers_node_components.

(* "the node has the requested blocks" is needed for plans that fetch neither headers nor
   blocks (Client.Get then makes up the bare numbers itself) *)
Theorem components_need_requested_blocks_refuted : ~ CE.components_norange_full.
Proof. exact CEP.range_premise_needed. Qed.
Print Assumptions components_need_requested_blocks_refuted.

(* C14's [filled] for the case label of field F under the requests dispatched for flags fl
   implies: the client plan with those flags writes the payload component F reads
   (finite check over the regenerated tables, all 28 fields x 32 flag values x 3 modes) *)
Theorem filled_component_is_written : forall F f fl m, In f Gen.GetFields.get_fields ->
  Plan.f_name f = Rows.field_name F ->
  filled C14P.provides_gen (C14P.disp_gen fl) m f ->
  CF.comp_written (CF.field_comp F) (CF.plan_of_flags fl) = true.
Proof. exact CFP.filled_field_is_written. Qed.
Print Assumptions filled_component_is_written.

(* a field whose component is written reads the same value from the delivered items as from the node's *)
Theorem written_field_is_node_field : forall rd p c ig cb b t ct F lo ao,
  b_num b = b_num cb -> b_hash b = b_hash cb ->
  (fetches p = true -> b_hpl b = b_hpl cb) ->
  t_idx t = t_idx ct -> t_hash t = t_hash ct ->
  (use_blocks p || use_receipts p = true -> t_tft t = t_tft ct) ->
  (use_blocks p = true -> t_body t = t_body ct) ->
  (use_receipts p = true -> t_rcpt t = t_rcpt ct) ->
  CF.comp_written (CF.field_comp F) p = true ->
  Rows.field_of F c ig (CF.conv rd b) (CF.conv_tx rd t) lo ao
  = Rows.field_of F c ig (CF.conv rd cb) (CF.conv_tx rd ct) lo ao.
Proof. exact CFP.field_of_components. Qed.
Print Assumptions written_field_is_node_field.

(* the reading refines the reader of the cache->rows bridge: same conversion *)
Theorem reading_is_cache_rows_reading : forall rd b,
  BridgeCacheRows.C11V.conv (CF.to_c11v rd) b = CF.conv rd b.
Proof. exact CFP.conv_c11v. Qed.
Print Assumptions reading_is_cache_rows_reading.

(* (2) FILLED => EQUAL TO THE NODE'S VALUE.  Declaration d, its request [needs] (with the required
   names, log fields only for log rows), the plan glf.New selects for it, an honest family, a
   successful Get: every delivered block is the node's block of its number, every delivered
   transaction a node transaction of that block, its logs / trace actions are logs / trace
   actions of that node transaction, and for EVERY field F the row builder reads for d,
   [Rows.field_of F] on the delivered items equals [Rows.field_of F] on the node's items
   ([CF.delivered_is_node]).  Uses get_ok_* (what Get returns) and plan_fills_what_rows_read
   (which request supplies the field). *)
Theorem honest_get_delivers_node_fields : forall rd nch c d needs s l w bs,
  CE.nch_wf nch -> (N.to_nat s + N.to_nat l <= length nch)%nat ->
  plan_request_of d needs ->
  required_present (mode_of (Rows.indexing Rows.fixed d)) needs ->
  log_fields_only_in_log_mode Gen.GetFields.get_fields (mode_of (Rows.indexing Rows.fixed d)) needs ->
  CE.honest_on nch s l w ->
  get (CF.plan_of_flags (Plan.new Gen.GlfTables.glf_tables Gen.GlfTables.glf_steps needs)) s l w = Ok bs ->
  forall b, In b bs -> CF.delivered_is_node rd nch c d b.
Proof. exact CFP.honest_get_delivers_node_fields_l. Qed.
Print Assumptions honest_get_delivers_node_fields.

(* (3) composed with stored_block_cells_are_fetched (C11 + C14): every row Insert emits for the
   delivered blocks was built for ONE transaction ct (log / trace action of ct) of ONE block cb
   of the node's chain inside the requested range, and every block-data cell bound to a field
   name holds that field of THAT node item -- no zero default of a request not made, no value
   of another block, transaction, log or trace. *)
Theorem stored_cells_are_node_values : forall rd nch c d needs dbs s l w bs rows r,
  CE.nch_wf nch -> (N.to_nat s + N.to_nat l <= length nch)%nat ->
  plan_request_of d needs ->
  required_present (mode_of (Rows.indexing Rows.fixed d)) needs ->
  CE.honest_on nch s l w ->
  get (CF.plan_of_flags (Plan.new Gen.GlfTables.glf_tables Gen.GlfTables.glf_steps needs)) s l w = Ok bs ->
  Rows.insert Rows.fixed d c dbs (map (CF.conv rd) bs) = Ok rows -> In r rows ->
  exists cb ct lo ao,
    nth_error nch (N.to_nat (b_num cb)) = Some cb /\ s <= b_num cb < s + l
    /\ In ct (b_txs cb)
    /\ item_of_mode (Rows.indexing Rows.fixed d) (CF.conv_tx rd ct) lo ao
    /\ forall k bd F, nth_error (Rows.d_block d) k = Some bd -> Rows.bd_name bd = Filter.s2b (Rows.field_name F) ->
         nth_error r (bd_offset d + k) = Rows.field_of F c (Rows.d_name d) (CF.conv rd cb) (CF.conv_tx rd ct) lo ao
         /\ Rows.field_of F c (Rows.d_name d) (CF.conv rd cb) (CF.conv_tx rd ct) lo ao <> None.
Proof. exact CFP.stored_cells_are_node_values_l. Qed.
Print Assumptions stored_cells_are_node_values.

(* (4) the dual, as far as C07 goes (get_rejects_corruption, constructors CRcNumber, CRcHash,
   CLgRange, CLgHash, CTrNumber, CTrHash): ANY reply family in which a receipt / log / trace at
   a position names another block number, or -- when headers / blocks are fetched -- another
   block hash than the header fetched for its number, is refused.  Not refused (not detectable
   by a structural check): a family that is honest about ANOTHER chain nch' (a node that
   reports other payload values consistently): theorem (2) then holds for nch'. *)
Theorem value_of_other_block_refused : forall p s l w,
  (exists es i e rs r, attach_kind p = AReceipts /\ w_receipts w = RBody es /\ (i < N.to_nat l)%nat
      /\ nth_error es i = Some e /\ re_res e = Some rs /\ In r rs
      /\ (r_bnum r <> s + N.of_nat i
          \/ exists bes be b, fetches p = true /\ block_reply p w = RBody bes /\ nth_error bes i = Some be
               /\ be_res be = Some b /\ r_bhash r <> b_hash b))
  \/ (exists lb lo x, attach_kind p = ALogs /\ w_logs w = RBody lb /\ lb_logs lb = Some lo /\ In (Some x) lo
      /\ (~ (s <= lr_bnum x < s + l)
          \/ exists bes be b i, fetches p = true /\ block_reply p w = RBody bes /\ (i < N.to_nat l)%nat
               /\ nth_error bes i = Some be /\ be_res be = Some b /\ lr_bnum x = s + N.of_nat i
               /\ lr_bhash x <> b_hash b))
  \/ (exists i e ts t, use_traces p = true /\ (i < N.to_nat l)%nat /\ nth_error (w_traces w) i = Some (RBody e)
      /\ te_res e = Some ts /\ In t ts
      /\ (tr_bnum t <> s + N.of_nat i
          \/ exists bes be b, fetches p = true /\ block_reply p w = RBody bes /\ nth_error bes i = Some be
               /\ be_res be = Some b /\ tr_bhash t <> b_hash b))
  -> get p s l w = Err.
Proof. exact CEP.other_block_refused. Qed.
Print Assumptions value_of_other_block_refused.

(* non-vacuity: ERC-20 Transfer, block fields block_time, tx_status, log_addr (+ required), a
   two-block chain (block 1: a failed transaction without logs, then one with two Transfers).
   Plan = headers + receipts; the honest family is accepted; the three rows COPY receives from
   the DELIVERED blocks are the rows built from the NODE's blocks (the transaction bodies are
   not fetched -- and not read); every premise of (2) / (3) holds.  Last line: the same run
   against a node reporting status 0 for the first transaction is accepted too and stores
   other cells -- C07 validates structure, not values. *)
Example ex_cells_are_node_values :
  let pl := CF.plan_of_flags (Plan.new Gen.GlfTables.glf_tables Gen.GlfTables.glf_steps erc20_request) in
  let w := CE.honest_world CF.ex_nch 0 2 in
  pl = mkPlan true false true false false
  /\ CE.nch_wf CF.ex_nch /\ CE.honest_on CF.ex_nch 0 2 w /\ (N.to_nat 0 + N.to_nat 2 <= length CF.ex_nch)%nat
  /\ match get pl 0 2 w with
     | Ok bs => Rows.insert_cells Rows.fixed erc20_decl erc20_ctx [] (map (CF.conv CF.ex_rd) bs) = Ok CF.ex_cells
                /\ map (fun b => map t_body (b_txs b)) bs = [[[]]; [[]; []]]
     | _ => False
     end
  /\ Rows.insert_cells Rows.fixed erc20_decl erc20_ctx [] (map (CF.conv CF.ex_rd) CF.ex_nch) = Ok CF.ex_cells
  /\ match get pl 0 2 (CE.honest_world CF.ex_nch_lie 0 2) with
     | Ok bs => Rows.insert_cells Rows.fixed erc20_decl erc20_ctx [] (map (CF.conv CF.ex_rd) bs) <> Ok CF.ex_cells
     | _ => False
     end.
Proof.
  split; [vm_compute; reflexivity|]. split; [exact CFP.ex_nch_wf|].
  split; [exact (CEP.honest_world_honest CF.ex_nch 0 2 CFP.ex_nch_wf)|].
  split; [vm_compute; repeat constructor|].
  split; [vm_compute; split; reflexivity|]. split; [vm_compute; reflexivity|].
  vm_compute. intros H; discriminate H.
Qed.
