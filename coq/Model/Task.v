(* Task layer: Task.Converge (shovel/task.go) as an interaction tree, written
   as a composition of small named sub-programs.  The four agreed repairs are
   selected by a [variant]; [converge] is the repaired code, [legacy_converge]
   the code as pinned.  Definitions only. *)
From Coq Require Import List NArith ZArith Bool.
From Shovel Require Import Model.TaskTypes Model.TaskDb.
Import ListNotations.
Open Scope N_scope.

Record variant := Variant {
  v_ceil : bool;      (* C01: part = ceil(batch/conc) *)
  v_unwind : bool;    (* C03: Task.Delete removes the rows of the whole batch *)
  v_xlink : bool;     (* C03: linkage checked across the merged batch *)
  v_depall : bool     (* C05: every dependency must have a cursor *)
}.
Definition repaired : variant := Variant true true true true.
Definition legacy : variant := Variant false false false false.

(* ---------- uint64 ---------- *)
Definition two64 : N := 18446744073709551616.
Definition w64 (n : N) : N := n mod two64.
Definition sub64 (a b : N) : N := if b <=? a then a - b else a + two64 - b.

(* ---------- Task.load: partition arithmetic ----------
   for i in 0..conc-1: m = start + i*part; n = min(part, limit - i*part) (uint64);
   skip when m > start+limit or n = 0 *)
Definition part_size (v : variant) (c : tcfg) : N :=
  if v_ceil v then (t_batch c + t_conc c - 1) / t_conc c else t_batch c / t_conc c.

Definition part_at (start limit part i : N) : option (N * N) :=
  if (w64 (start + limit) <? w64 (start + i * part))
     || (N.min part (sub64 limit (w64 (i * part))) =? 0)
  then None
  else Some (w64 (start + i * part), N.min part (sub64 limit (w64 (i * part)))).

Fixpoint parts_from (fuel : nat) (i start limit part : N) : list (N * N) :=
  match fuel with
  | O => []
  | S f => match part_at start limit part i with
           | Some p => p :: parts_from f (i + 1) start limit part
           | None => parts_from f (i + 1) start limit part
           end
  end.
Definition partitions (v : variant) (c : tcfg) (start limit : N) : list (N * N) :=
  parts_from (N.to_nat (t_conc c)) 0 start limit (part_size v c).

(* ---------- Task.load: after eg.Wait ---------- *)
Fixpoint merge_segs (l : list segres) : option (list blk) :=
  match l with
  | [] => Some []
  | SegFail _ :: _ => None
  | SegOk bs :: r => match merge_segs r with Some x => Some (bs ++ x) | None => None end
  end.

Fixpoint ins_blk (b : blk) (l : list blk) : list blk :=
  match l with
  | [] => [b]
  | x :: r => if b_num b <? b_num x then b :: l else x :: ins_blk b r
  end.
Definition sort_blocks (l : list blk) : list blk := fold_right ins_blk [] l.

(* the loop added by the repair: contiguous numbers, parents (when served) linked *)
Fixpoint linked_from (prev : blk) (l : list blk) : bool :=
  match l with
  | [] => true
  | b :: r => (b_num b =? b_num prev + 1)
              && ((b_parent b =? 0) || (b_hash prev =? b_parent b))
              && linked_from b r
  end.

Inductive load_res := LBlocks (bs : list blk) | LReorg | LErr | LPanic.

Definition load_check (v : variant) (local_hash : N) (segs : list segres) : load_res :=
  match merge_segs segs with
  | None => LErr
  | Some bs =>
      match sort_blocks bs with
      | [] => LPanic                                      (* blocks[0] on an empty slice *)
      | first :: rest =>
          if negb (b_parent first =? 0) && negb (local_hash =? b_parent first) then LReorg
          else if negb (v_xlink v) || linked_from first rest then LBlocks (first :: rest)
          else LErr
      end
  end.

(* ---------- rows written by dig.Insert ---------- *)
Definition stamp (c : tcfg) (b : blk) (kv : N * N) : trow :=
  Row (t_tbl c) (t_src c) (t_ig c) (b_num b) (fst kv) (snd kv).
Definition proj (c : tcfg) (b : blk) : list trow := map (stamp c b) (b_rows b).
Definition rows_of (c : tcfg) (bs : list blk) : list trow := concat (map (proj c) bs).

Definition blk0 : blk := Blk 0 0 0 [].
Definition last_blk (bs : list blk) : blk := last bs blk0.

(* ---------- the program ---------- *)
(* the deferred Rollback of the first transaction, then return *)
Definition rb (o : outcome) : prog := Op Rollback (fun _ => Ret o).
Definition is_fail (r : reply) : bool := match r with RFail _ => true | _ => false end.
(* a call that did not deliver: error, or panic inside the source *)
Definition bad_reply (r : reply) : prog :=
  match r with RFail KPanic => rb OPanicked | _ => rb OFailed end.

(* second transaction *)
Definition tx2_done (r : reply) : prog := if is_fail r then Ret OFailed else Ret OConverged.
Definition tx2_cursor (r : reply) : prog := if is_fail r then rb OFailed else Op Commit tx2_done.
Definition tx2_copy (c : tcfg) (bs : list blk) (tn th delta : N) (r : reply) : prog :=
  if is_fail r then rb OFailed
  else Op (InsCursor (Cur (t_src c) (t_ig c) (b_num (last_blk bs)) (b_hash (last_blk bs))) tn th delta)
          tx2_cursor.
Definition tx2_begin (c : tcfg) (bs : list blk) (tn th delta : N) (r : reply) : prog :=
  if is_fail r then Ret OFailed
  else Op (CopyRows (t_tbl c) (rows_of c bs)) (tx2_copy c bs tn th delta).
Definition tx1_commit (c : tcfg) (bs : list blk) (tn th delta : N) (r : reply) : prog :=
  if is_fail r then Ret OFailed else Op Begin (tx2_begin c bs tn th delta).
Definition insert_tx (c : tcfg) (bs : list blk) (tn th delta : N) : prog :=
  Op Commit (tx1_commit c bs tn th delta).

(* Task.Delete *)
Definition del_rows_k (again : prog) (r : reply) : prog := if is_fail r then rb OFailed else again.
Definition del_rows (c : tcfg) (n : N) (again : prog) : prog :=
  Op (DelRows (t_tbl c) (t_src c) (t_ig c) n) (del_rows_k again).
Definition unwind_prev (c : tcfg) (again : prog) (r : reply) : prog :=
  match r with
  | RNum None => del_rows c 0 again
  | RNum (Some p) => del_rows c (w64 (p + 1)) again
  | _ => rb OFailed
  end.
Definition unwind_k (v : variant) (c : tcfg) (ln : N) (again : prog) (r : reply) : prog :=
  if is_fail r then rb OFailed
  else if v_unwind v then Op (QPrev (t_src c) (t_ig c)) (unwind_prev c again)
  else del_rows c ln again.
Definition unwind (v : variant) (c : tcfg) (ln : N) (again : prog) : prog :=
  Op (DelCursors (t_src c) (t_ig c) ln) (unwind_k v c ln again).

(* after Task.load returned *)
Definition after_get (v : variant) (c : tcfg) (again : prog) (ln lh tn th delta : N) (r : reply) : prog :=
  match r with
  | RSegs segs =>
      match load_check v lh segs with
      | LBlocks bs => insert_tx c bs tn th delta
      | LReorg => unwind v c ln again
      | LErr => rb OFailed
      | LPanic => rb OPanicked
      end
  | _ => bad_reply r
  end.

Definition clip (c : tcfg) (tn : N) : N :=
  if (0 <? t_stop c) && (t_stop c <? tn) then t_stop c else tn.
Definition delta_of (c : tcfg) (ln tn : N) : N := N.min (tn - ln) (t_batch c).

(* target known (head or dependency position), not yet clipped *)
Definition after_target (v : variant) (c : tcfg) (again : prog) (ln lh tn th : N) : prog :=
  if clip c tn <? ln then rb OAhead
  else if ln =? clip c tn then rb ONothingNew
  else if delta_of c ln (clip c tn) =? 0 then rb ONothingNew
  else Op (RGet (partitions v c (w64 (ln + 1)) (delta_of c ln (clip c tn))))
          (after_get v c again ln lh (clip c tn) th (delta_of c ln (clip c tn))).

Definition ndeps (c : tcfg) : N := N.of_nat (length (distinct_deps (t_deps c))).

(* latestDependency *)
Definition after_dep (v : variant) (c : tcfg) (again : prog) (ln lh gn gh : N) (r : reply) : prog :=
  match r with
  | RDep None => rb ONothingNew
  | RDep (Some (dn, dh, cnt)) =>
      if v_depall v && (cnt <? ndeps c) then rb ONothingNew
      else if dn =? 0 then rb ONothingNew
      else if dn <? gn then after_target v c again ln lh dn dh
      else after_target v c again ln lh gn gh
  | _ => rb OFailed
  end.

(* src.Latest returned *)
Definition after_head (v : variant) (c : tcfg) (again : prog) (ln lh : N) (r : reply) : prog :=
  match r with
  | RHead gn gh =>
      match t_deps c with
      | [] => after_target v c again ln lh gn gh
      | _ => Op (QLatestDep (t_src c) (t_deps c)) (after_dep v c again ln lh gn gh)
      end
  | _ => bad_reply r
  end.

(* local position known *)
Definition with_local (v : variant) (c : tcfg) (again : prog) (ln lh : N) : prog :=
  if (0 <? t_stop c) && (t_stop c <=? ln) then rb ODone
  else Op (RLatest ln) (after_head v c again ln lh).

(* Task.latest *)
Definition pos_hash (v : variant) (c : tcfg) (again : prog) (n : N) (r : reply) : prog :=
  match r with
  | RHashV h => with_local v c again n h
  | _ => bad_reply r
  end.
Definition pos_head (v : variant) (c : tcfg) (again : prog) (r : reply) : prog :=
  match r with
  | RHead n _ => Op (RHash (sub64 n 1)) (pos_hash v c again (sub64 n 1))
  | _ => bad_reply r
  end.
Definition pos_query (v : variant) (c : tcfg) (again : prog) (r : reply) : prog :=
  match r with
  | RCur (Some (n, h)) => with_local v c again n h
  | RCur None =>
      if 0 <? t_start c then Op (RHash (t_start c - 1)) (pos_hash v c again (t_start c - 1))
      else Op (RLatest 0) (pos_head v c again)
  | _ => rb OFailed
  end.
Definition position (v : variant) (c : tcfg) (again : prog) : prog :=
  Op (QLatest (t_src c) (t_ig c)) (pos_query v c again).

(* for reorgs := 0; reorgs <= 1000; reorgs++ *)
Fixpoint reorg_loop (v : variant) (fuel : nat) (c : tcfg) : prog :=
  match fuel with
  | O => rb OReorgLimit
  | S f => position v c (reorg_loop v f c)
  end.

Definition begun (v : variant) (c : tcfg) (r : reply) : prog :=
  if is_fail r then Ret OFailed else reorg_loop v 1001 c.
Definition converge_v (v : variant) (c : tcfg) : prog := Op Begin (begun v c).

Definition converge : tcfg -> prog := converge_v repaired.
Definition legacy_converge : tcfg -> prog := converge_v legacy.
