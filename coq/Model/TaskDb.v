(* Task layer: the database half of the world.  Committed state plus, per
   connection, the write set of the open transaction (a list of write
   operations replayed over the CURRENT committed state: read committed).
   Definitions only. *)
From Coq Require Import List NArith Bool.
From Shovel Require Import Model.TaskTypes.
Import ListNotations.
Open Scope N_scope.

(* ---------- keys ---------- *)
Definition cur_of (s i : N) (c : cursor) : bool := (c_src c =? s) && (c_ig c =? i).
Definition row_of (s i : N) (r : trow) : bool := (r_src r =? s) && (r_ig r =? i).

(* newest cursor of a pair: order by num desc limit 1 (first maximum) *)
Definition newer (acc : option (N * N)) (c : cursor) : option (N * N) :=
  match acc with
  | None => Some (c_num c, c_hash c)
  | Some (n, h) => if n <? c_num c then Some (c_num c, c_hash c) else Some (n, h)
  end.
Definition newest (s i : N) (cs : list cursor) : option (N * N) :=
  fold_left newer (filter (cur_of s i) cs) None.

(* ---------- the dependency query ----------
   with latest as (select distinct on (ig_name) ig_name, num, hash ... where src_name = $1
   and ig_name = ANY($2) order by ig_name, num desc)
   select num, hash, (select count( * ) from latest) from latest order by num asc limit 1 *)
Fixpoint dedup (l : list N) : list N :=
  match l with
  | [] => []
  | x :: r => if existsb (N.eqb x) r then dedup r else x :: dedup r
  end.
(* ascending insertion sort: ig ids are assigned in name order *)
Fixpoint ins_N (x : N) (l : list N) : list N :=
  match l with
  | [] => [x]
  | y :: r => if x <=? y then x :: l else y :: ins_N x r
  end.
Definition sort_N (l : list N) : list N := fold_right ins_N [] l.
Definition distinct_deps (deps : list N) : list N := sort_N (dedup deps).

(* newest cursor of every dependency that has one, in ig order *)
Fixpoint dep_latest (s : N) (deps : list N) (cs : list cursor) : list (N * N) :=
  match deps with
  | [] => []
  | i :: r => match newest s i cs with
              | Some nh => nh :: dep_latest s r cs
              | None => dep_latest s r cs
              end
  end.
(* first minimum by num *)
Definition lower (acc : option (N * N)) (x : N * N) : option (N * N) :=
  match acc with
  | None => Some x
  | Some (n, h) => if fst x <? n then Some x else Some (n, h)
  end.
Definition dep_query (s : N) (deps : list N) (cs : list cursor) : option (N * N * N) :=
  let l := dep_latest s (distinct_deps deps) cs in
  match fold_left lower l None with
  | None => None
  | Some (n, h) => Some (n, h, N.of_nat (length l))
  end.

(* ---------- write operations ---------- *)
Inductive wop :=
| WDelCur (s i n : N)
| WDelRows (t s i n : N)
| WCopy (rs : list trow)
| WInsCur (c : cursor).

Definition del_cur_p (s i n : N) (c : cursor) : bool := cur_of s i c && (n <=? c_num c).
Definition del_row_p (t s i n : N) (r : trow) : bool :=
  (r_tbl r =? t) && row_of s i r && (n <=? r_bnum r).

Definition apply_wop (d : db) (w : wop) : db :=
  match w with
  | WDelCur s i n => Db (filter (fun c => negb (del_cur_p s i n c)) (d_curs d)) (d_rows d)
  | WDelRows t s i n => Db (d_curs d) (filter (fun r => negb (del_row_p t s i n r)) (d_rows d))
  | WCopy rs => Db (d_curs d) (d_rows d ++ rs)
  | WInsCur c => Db (d_curs d ++ [c]) (d_rows d)
  end.
Definition apply_ws (ws : list wop) (d : db) : db := fold_left apply_wop ws d.

(* connection state: the write set of the open transaction, if any *)
Definition cstate := option (list wop).
Definition vis (d : db) (cs : cstate) : db :=
  match cs with Some ws => apply_ws ws d | None => d end.

(* unique indexes *)
Definition same_ukey (a b : trow) : bool :=
  (r_tbl a =? r_tbl b) && (r_src a =? r_src b) && (r_ig a =? r_ig b) &&
  (r_bnum a =? r_bnum b) && (r_key a =? r_key b).
Fixpoint nodup_rows (l : list trow) : bool :=
  match l with
  | [] => true
  | x :: r => negb (existsb (same_ukey x) r) && nodup_rows r
  end.
Definition copy_collides (existing new : list trow) : bool :=
  existsb (fun x => existsb (same_ukey x) existing) new || negb (nodup_rows new).
(* task_updates: unique (ig_name, src_name, num) *)
Definition cur_collides (existing : list cursor) (c : cursor) : bool :=
  existsb (fun x => cur_of (c_src c) (c_ig c) x && (c_num x =? c_num c)) existing.

Definition count {A} (p : A -> bool) (l : list A) : N := N.of_nat (length (filter p l)).

(* perform a write: inside a transaction it joins the write set, outside it
   is applied at once (autocommit) *)
Definition do_write (d : db) (cs : cstate) (w : wop) : db * cstate :=
  match cs with
  | Some ws => (d, Some (ws ++ [w]))
  | None => (apply_wop d w, None)
  end.

(* One database operation issued on a connection whose state is [cs] against
   committed state [d]; [uniq]: the target table of a COPY has the unique
   index.  Node operations are not answered here (RFail KErr, unused). *)
Definition db_step (uniq : bool) (d : db) (cs : cstate) (o : io) : db * cstate * reply :=
  let v := vis d cs in
  match o with
  | Begin => (d, Some (match cs with Some ws => ws | None => [] end), RUnit)
  | Commit => (v, None, RUnit)
  | Rollback => (d, None, RUnit)
  | QLatest s i => (d, cs, RCur (newest s i (d_curs v)))
  | QLatestDep s deps => (d, cs, RDep (dep_query s deps (d_curs v)))
  | QPrev s i => (d, cs, RNum (option_map fst (newest s i (d_curs v))))
  | QRef t c x => (d, cs, RBool (existsb (fun r => (r_tbl r =? t) && (r_val r =? x)) (d_rows v)))
  | DelCursors s i n =>
      let '(d', cs') := do_write d cs (WDelCur s i n) in
      (d', cs', RCount (count (del_cur_p s i n) (d_curs v)))
  | DelRows t s i n =>
      let '(d', cs') := do_write d cs (WDelRows t s i n) in
      (d', cs', RCount (count (del_row_p t s i n) (d_rows v)))
  | CopyRows t rs =>
      if uniq && copy_collides (d_rows v) rs then (d, cs, RFail KUnique)
      else let '(d', cs') := do_write d cs (WCopy rs) in (d', cs', RCount (N.of_nat (length rs)))
  | InsCursor c _ _ _ =>
      if cur_collides (d_curs v) c then (d, cs, RFail KUnique)
      else let '(d', cs') := do_write d cs (WInsCur c) in (d', cs', RUnit)
  | RLatest _ | RHash _ | RGet _ => (d, cs, RFail KErr)
  end.

Definition is_db_op (o : io) : bool :=
  match o with RLatest _ | RHash _ | RGet _ => false | _ => true end.

(* restriction of a database to one (source, integration) pair *)
Definition restrict (s i : N) (d : db) : db :=
  Db (filter (cur_of s i) (d_curs d)) (filter (row_of s i) (d_rows d)).

(* ---------- PruneTask (shovel/task.go; cmd/shovel calls it with n = 200) ----------
   delete from shovel.task_updates where (src_name, ig_name, num) not in
   (the n newest rows of every (src_name, ig_name) partition, by num desc):
   a cursor survives iff fewer than n cursors of its own pair are newer *)
Definition newer_count (x : cursor) (cs : list cursor) : nat :=
  length (filter (fun y => cur_of (c_src x) (c_ig x) y && (c_num x <? c_num y)) cs).
Definition prune_keep (n : nat) (cs : list cursor) (x : cursor) : bool :=
  Nat.ltb (newer_count x cs) n.
Definition prune (n : nat) (d : db) : db :=
  Db (filter (prune_keep n (d_curs d)) (d_curs d)) (d_rows d).
