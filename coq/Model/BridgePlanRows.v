(* Bridge data-plan selection (C14) -> row builder (C11).  Definitions only; the
   theorems are in Proofs/BridgePlanRowsP.v and are stated in Properties/C14.v.

   C11 (Model/Rows.v) proves that a stored block-data cell is the named field
   of the enclosing block / transaction / log / trace item AS DELIVERED by the
   client; C14 (Model/Plan.v, PlanCheck.v, Provides.v, Gen/*.v) proves that the
   plan glf.New selects for a REQUEST (list of names) makes the client fetch
   results that fill every requested field.  This file says which names the
   row builder reads for a declaration and how the request is obtained from
   that same declaration, so that the two statements compose.

   * A Rows-level declaration [d : Rows.decl] is the dig.Integration handed to
     dig.New: [d_block d] is ig.Block AFTER config.AddRequiredFields ran (that
     pass appends block-data entries; dig never sees the list before it).
   * The Plan-level request is what Integration.Filter() hands to glf.New:
     fields[i] = ig.Block[i].Name.  Rows.v spells names as byte lists, Plan.v as
     Coq strings; [plan_request_of d needs] says [needs] is that list of names
     ([s2b] is injective, so [needs] is determined by [d]).
   * [rows_read_names d]: the names on which processTx / processLog call
     logWithCtx.get for [d], by indexing mode (a superset in one corner: the
     abi_idx entry is read only in the no-data branch of processLog).  That
     nothing else of the environment is read is proved
     (process_tx_reads_only / process_log_reads_only).
   * C14 is stated for a field set S (entries of Gen/GetFields.v) and the
     request [needs_of m S] = names S ++ required m S.  [plan_fields needs] is
     the S of a request: the entries of get's table that the request names.
     [required_present m needs] is the post-condition of AddRequiredFields that
     the bridge needs (NOT implied by C11 or C14; refuted without it).
   * The finite side conditions on the regenerated tables ([bridge_checks]) are
     booleans, decided by vm_compute on every run over Gen/GlfTables.v and
     Gen/GetFields.v and lifted with forallb_forall: every name of a planner
     table is a case label of get; a case label reads a trace item iff it has
     the "trace_" prefix; the required names are case labels; the 28 names of
     Rows.get_field are the 28 case labels, each reading the same kind of item. *)
From Coq Require Import String List NArith ZArith Bool.
From Shovel Require Import Base.Outcome Model.Hex Model.Filter Model.Rows.
From Shovel Require Model.Plan Model.Provides Model.PlanCheck.
Import ListNotations.

(* ---- Rows side ---- *)

(* the enumeration Rows.field, as a list (completeness: all_fields_complete) *)
Definition all_fields : list field :=
  [Fsrc_name; Fig_name; Fchain_id; Fblock_hash; Fblock_num; Fblock_time;
   Ftx_hash; Ftx_idx; Ftx_signer; Ftx_to; Ftx_value; Ftx_input; Ftx_type; Ftx_status;
   Flog_idx; Ftx_gas_used; Ftx_gas_price; Ftx_effective_gas_price; Ftx_contract_address;
   Ftx_max_priority_fee_per_gas; Ftx_max_fee_per_gas; Ftx_nonce; Flog_addr;
   Ftrace_action_call_type; Ftrace_action_idx; Ftrace_action_from; Ftrace_action_to;
   Ftrace_action_value].

(* the item [field_of] reads for a field (proved: field_of_reads_only_its_item) *)
Definition field_item (f : field) : Plan.iclass :=
  match f with
  | Fsrc_name | Fig_name | Fchain_id => Plan.ICtx
  | Fblock_hash | Fblock_num | Fblock_time => Plan.IHeader
  | Ftx_hash | Ftx_idx | Ftx_signer | Ftx_to | Ftx_value | Ftx_input | Ftx_type
  | Ftx_gas_price | Ftx_max_priority_fee_per_gas | Ftx_max_fee_per_gas | Ftx_nonce => Plan.ITx
  | Ftx_status | Ftx_gas_used | Ftx_effective_gas_price | Ftx_contract_address => Plan.IReceipt
  | Flog_idx | Flog_addr => Plan.ILog
  | Ftrace_action_call_type | Ftrace_action_idx | Ftrace_action_from | Ftrace_action_to
  | Ftrace_action_value => Plan.ITrace
  end.

(* setIndexing's mode, in C14's vocabulary *)
Definition mode_of (m : mode) : Plan.mode :=
  match m with IxTx => Plan.MTx | IxLog => Plan.MLog | IxTrace => Plan.MTrace end.

(* the names handed to logWithCtx.get while rows of [d] are built:
   log rows: every block-data name (processLog, both branches);
   tx / trace rows: every block-data name (processTx), none when an event input
   is selected as well (processTx returns at once: no row is ever built) *)
Definition rows_read_names (d : decl) : list bytes :=
  match indexing fixed d with
  | IxLog => map bd_name (d_block d)
  | IxTx | IxTrace => if Nat.ltb 0 (num_selected d) then [] else map bd_name (d_block d)
  end.

(* Integration.Filter(): for i := range ig.Block { fields = append(fields, ig.Block[i].Name) } *)
Definition plan_request_of (d : decl) (needs : list string) : Prop :=
  map s2b needs = map bd_name (d_block d).

(* ---- Plan side ---- *)

(* the field set of a request: the case labels of get that the request names *)
Definition plan_fields (names : list Plan.field) (needs : list string) : list Plan.field :=
  filter (fun f => Plan.mem (Plan.f_name f) needs) names.

(* config.AddRequiredFields ran: the request contains the required names of its mode *)
Definition required_present (m : Plan.mode) (needs : list string) : Prop :=
  incl (Plan.required m needs) needs.
Definition required_presentb (m : Plan.mode) (needs : list string) : bool :=
  forallb (fun x => Plan.mem x needs) (Plan.required m needs).

(* "selectable": a field read from a log item is requested only for log rows
   (otherwise logWithCtx.get dereferences a nil log: Rows.get_field = Panic).
   Follows from the existence of one emitted row (row_exists_selectable). *)
Definition log_fields_only_in_log_mode (names : list Plan.field) (m : Plan.mode) (needs : list string) : Prop :=
  m <> Plan.MLog ->
  forall f, In f names -> Plan.f_class f = Plan.ILog -> ~ In (Plan.f_name f) needs.

(* trace rows are built exactly when a "trace_"-prefixed name is declared (setIndexing) *)
Definition trace_mode_iff_prefix (m : Plan.mode) (needs : list string) : Prop :=
  m = Plan.MTrace <-> existsb Plan.trace_prefixed needs = true.

(* a name some planner table lists (any other name cannot influence glf.New: new_relevant) *)
Definition relevant (T : Plan.tables) (x : string) : bool :=
  existsb (fun n => Plan.mem x (Plan.table T n)) Plan.all_tnames.

(* ---- the composed statements ---- *)

(* the item a row of mode [m] is built from, next to its transaction [t] *)
Definition item_of_mode (m : mode) (t : txr) (lo : option logr) (ao : option tracer) : Prop :=
  match m with
  | IxTx => lo = None /\ ao = None
  | IxLog => ao = None /\ exists l, lo = Some l /\ In l (t_logs t)
  | IxTrace => lo = None /\ exists a, ao = Some a /\ In a (t_traces t)
  end.
(* first column of the block-data cells in a row *)
Definition bd_offset (d : decl) : nat :=
  match indexing fixed d with IxLog => num_selected d | _ => 0%nat end.

(* "filled by at least one fetch of the plan" ([Provides.supplied_b] spelled out):
   the value comes from the context, or the requests make all items of the mode
   exist and one of them fills the struct field the case label returns *)
Definition filled (P : string -> list Plan.fetch) (fs : list Plan.fetch) (m : Plan.mode) (f : Plan.field) : Prop :=
  Plan.f_class f = Plan.ICtx \/
  (Provides.items_exist m fs = true /\ exists g, In g fs /\ In g (P (Plan.f_acc f))).

(* the bridge statement, with switches for its two preconditions (the versions
   with a switch off are refuted: plan_fills_needs_required, plan_fills_needs_selectable) *)
Definition plan_fills_stmt (T : Plan.tables) (steps : list Plan.step) (disp : Plan.flags -> list Plan.fetch)
           (P : string -> list Plan.fetch) (names : list Plan.field) (with_required with_selectable : bool) : Prop :=
  forall d needs, plan_request_of d needs ->
    (with_required = true -> required_present (mode_of (indexing fixed d)) needs) ->
    (with_selectable = true -> log_fields_only_in_log_mode names (mode_of (indexing fixed d)) needs) ->
    forall F, In (s2b (field_name F)) (rows_read_names d) ->
    exists f, In f names /\ Plan.f_name f = field_name F /\ Plan.f_class f = field_item F /\
      Provides.supplied_b P (disp (Plan.new T steps needs)) (mode_of (indexing fixed d)) f = true.

(* ---- finite side conditions on the regenerated tables ---- *)

(* every name of a planner table is a case label of get *)
Definition tables_known (T : Plan.tables) (names : list Plan.field) : bool :=
  forallb (fun n => forallb (fun x => Plan.mem x (map Plan.f_name names)) (Plan.table T n)) Plan.all_tnames.

(* a case label reads a trace item iff it has the "trace_" prefix *)
Definition trace_class_is_prefix (names : list Plan.field) : bool :=
  forallb (fun f => Bool.eqb (PlanCheck.is_trace (Plan.f_class f)) (Plan.trace_prefixed (Plan.f_name f))) names.

(* the names AddRequiredFields can add (all of them: log mode, with a trace field) are case labels *)
Definition required_known (names : list Plan.field) : bool :=
  forallb (fun x => Plan.mem x (map Plan.f_name names)) (Plan.required_b Plan.MLog true).

(* Rows.get_field's names = the case labels, same kind of item *)
Definition rows_fields_match (names : list Plan.field) : bool :=
  forallb (fun F => Plan.mem (field_name F) (map Plan.f_name names)) all_fields
  && forallb (fun f => existsb (fun F => String.eqb (field_name F) (Plan.f_name f)) all_fields) names
  && forallb (fun f => forallb (fun F => implb (String.eqb (field_name F) (Plan.f_name f))
                                              (PlanCheck.iclass_eqb (field_item F) (Plan.f_class f))) all_fields) names.

Definition bridge_checks (T : Plan.tables) (names : list Plan.field) : bool :=
  tables_known T names && trace_class_is_prefix names && required_known names && rows_fields_match names.

(* ---- no useless request (converse direction) ---- *)

(* the request a planner flag stands for *)
Definition fetch_of_flag (f : Plan.flag) : Plan.fetch :=
  match f with
  | Plan.FHeaders => Plan.GHeaders | Plan.FBlocks => Plan.GBlocks | Plan.FReceipts => Plan.GReceipts
  | Plan.FLogs => Plan.GLogs | Plan.FTraces => Plan.GTraces
  end.
Definition all_flags : list Plan.flag := [Plan.FHeaders; Plan.FBlocks; Plan.FReceipts; Plan.FLogs; Plan.FTraces].
Definition all_flag_values : list Plan.flags :=
  flat_map (fun a => flat_map (fun b => flat_map (fun c => flat_map (fun d => map (fun e =>
    Plan.mkFlags a b c d e) [false; true]) [false; true]) [false; true]) [false; true]) [false; true].

(* every name that can switch a flag on (member of the step's trigger set) is a
   case label whose struct field the flag's request fills *)
Definition steps_useful (T : Plan.tables) (steps : list Plan.step) (P : string -> list Plan.fetch)
           (names : list Plan.field) : bool :=
  forallb (fun st =>
    forallb (fun x => existsb (fun f => String.eqb (Plan.f_name f) x
                                        && Provides.has_fetch (fetch_of_flag (Plan.st_flag st)) (P (Plan.f_acc f))) names)
            (Plan.step_set T st)) steps.

(* for each of the 32 flag values: every request made other than the bare
   numbers is the request of a flag that is on *)
Definition dispatch_guarded (disp : Plan.flags -> list Plan.fetch) : bool :=
  forallb (fun fl =>
    forallb (fun g => Plan.fetch_eqb g Plan.GNumbers
                      || existsb (fun f => Plan.flag_on fl f && Plan.fetch_eqb g (fetch_of_flag f)) all_flags)
            (disp fl)) all_flag_values.

(* ---- non-vacuity instance: ERC-20 Transfer(address indexed from, address indexed to, uint256 value),
   all three inputs selected, block fields block_time, tx_status, log_addr, followed by what
   AddRequiredFields appends (value is selected and not indexed: abi_idx too) ---- *)
Definition erc20_input (ix : bool) (ty col : string) : input :=
  {| i_indexed := ix; i_type := s2b ty; i_column := s2b col; i_filter := no_filter |}.
Definition erc20_bd (n : string) : blockdata := {| bd_name := s2b n; bd_column := s2b n; bd_filter := no_filter |}.
Definition erc20_request : list string :=
  ["block_time"; "tx_status"; "log_addr"; "ig_name"; "src_name"; "block_num"; "tx_idx"; "log_idx"; "abi_idx"]%string.
Definition erc20_decl : decl :=
  {| d_name := s2b "erc20";
     d_inputs := [erc20_input true "address" "f"; erc20_input true "address" "t"; erc20_input false "uint256" "v"];
     d_block := map erc20_bd erc20_request;
     d_table_cols := map s2b (["f"; "t"; "v"]%string ++ erc20_request);
     d_agg := []; d_sighash := [221; 242; 82; 173] |}.

(* one block with one Transfer log of 5 units, to show that a stored row exists *)
Definition erc20_word (v : N) : bytes := word_of_N v.
Definition erc20_log : logr :=
  {| l_idx := 3; l_addr := Some [170; 187]; l_topics := [[221; 242; 82; 173]; erc20_word 17; erc20_word 34];
     l_data := erc20_word 5; l_scan := Ok [[Some (erc20_word 5)]] |}.
Definition erc20_tx : txr :=
  {| t_hash := Some [9]; t_idx := 2; t_from := Some [1]; t_to := Some [2]; t_value := 0; t_input := Some [];
     t_type := 2; t_status := 1; t_gas_used := 50000; t_gas_price := 7; t_eff_gas_price := 7;
     t_contract := None; t_max_prio := 1; t_max_fee := 9; t_nonce := 4; t_logs := [erc20_log]; t_traces := [] |}.
Definition erc20_block : blockr := {| b_hash := Some [11]; b_num := 100; b_time := 1700000000; b_txs := [erc20_tx] |}.
Definition erc20_ctx : ctxr := {| c_src := s2b "mainnet"; c_chain := 1 |}.

(* the cells COPY receives for that block: from, to, value, block_time, tx_status, log_addr,
   ig_name, src_name, block_num, tx_idx, log_idx, abi_idx *)
Definition erc20_cells : list (list cell) :=
  [[CBytes (repeat 0%N 19 ++ [17%N]); CBytes (repeat 0%N 19 ++ [34%N]); CInt 5%Z;
    CInt 1700000000%Z; CInt 1%Z; CBytes [170%N; 187%N]; CText (s2b "erc20"); CText (s2b "mainnet");
    CInt 100%Z; CInt 2%Z; CInt 3%Z; CInt 0%Z]].

(* witnesses for the necessity of the two preconditions *)
(* AddRequiredFields did not run: block_time alone, no event *)
Definition bare_decl : decl :=
  {| d_name := s2b "bare"; d_inputs := []; d_block := [erc20_bd "block_time"];
     d_table_cols := [s2b "block_time"]; d_agg := []; d_sighash := [] |}.
(* a log field without an event *)
Definition logless_request : list string := ["log_addr"; "ig_name"; "src_name"; "block_num"; "tx_idx"]%string.
Definition logless_decl : decl :=
  {| d_name := s2b "logless"; d_inputs := []; d_block := map erc20_bd logless_request;
     d_table_cols := map s2b logless_request; d_agg := []; d_sighash := [] |}.
