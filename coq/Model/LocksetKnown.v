(* C18 — the exemption that records the design-level finding on the pinned
   tree (known_findings/C18.json, id C18-shared-blocks-read-unlocked).

   Blocks returned by Client.Get are the cache's own values.  The functions
   that ATTACH data to them (receipts, logs, traces) work under the block's
   lock; the CONSUMERS of Client.Get's result (the block map built in
   Client.Get itself, Task.load, Task.insert, dig.Integration.Insert and what
   it calls, eth.Tx.Hash) read the same blocks without it.  A pair is exempt
   exactly when it is of that form: a consumer access of block data outside
   the block lock against an attaching access made under the lock of the very
   block it touches.  Two attaching accesses, two consumer accesses, an
   attaching access outside the lock, or any other class are NOT exempt. *)
From Coq Require Import List String Bool.
From Shovel Require Import Model.Lockset.
Import ListNotations.
Open Scope string_scope.

Definition attach_fns : list string :=
  ["jrpc2.(*Client).receipts"; "jrpc2.(*Client).logs"; "jrpc2.(*Client).traces"].

Definition block_data_prefixes : list string :=
  ["eth.Block."; "eth.Header."; "eth.Tx."; "eth.Receipt."; "eth.Log."; "eth.TraceAction."].

Definition block_data_class (c : string) : bool :=
  existsb (fun p => String.prefix p c) block_data_prefixes.

Definition on_attach_path (a : access) : bool :=
  existsb (fun f => existsb (String.eqb f) attach_fns) (apath a).

(* the access is made under a lock of class [cls] taken on its own receiver *)
Definition held_self (x : gacc) (cls : string) : bool :=
  existsb (fun l => String.eqb (lcls l) cls && recv_eqb (lrecv l) (arecv (fst x))) (snd x).

Definition is_at (k : kind) : bool := match k with At => true | _ => false end.

(* the attaching side: under the lock of the block it touches, or the
   Lock()/Unlock() operation on that block's mutex itself (a consumer that
   copies a cached eth.Block copies the mutex word too) *)
Definition attach_disciplined (y : gacc) : bool :=
  held_self y "eth.Block" || (is_at (akind (fst y)) && String.eqb (acls (fst y)) "eth.Block.Mutex").

(* what consumers are known to do with cached block data: read it; and, in
   eth.Tx.Hash, memoise the transaction hash under the transaction's own
   mutex.  A consumer WRITE anywhere else is not exempt. *)
Definition is_rd (k : kind) : bool := match k with Rd => true | _ => false end.
Definition consumer_access (x : gacc) : bool :=
  is_rd (akind (fst x)) || held_self x "eth.Tx.cacheMut" ||
  (is_at (akind (fst x)) && String.eqb (acls (fst x)) "eth.Tx.cacheMut").

Definition known_exempt : exemption := fun x y =>
  block_data_class (acls (fst x)) && consumer_access x &&
  negb (on_attach_path (fst x)) && negb (held_self x "eth.Block") &&
  on_attach_path (fst y) && attach_disciplined y.
