(* C10: dig.scan as it was BEFORE fixes/C10-scan-unsigned-bounds.diff, kept to
   document the defect: every 32-byte length/offset word was converted with
   int(bint.Decode(..)) (wrapping into [-2^63, 2^63)) before it was compared
   with the input length, and the 'd' case sliced input[:32] unchecked.  Go int
   arithmetic is modelled on Z with explicit wrap. *)
From Coq Require Import List NArith ZArith Bool.
From Shovel Require Import Base.Outcome Model.Hex Model.Bint Model.AbiType Model.AbiScan.
Import ListNotations.
Open Scope Z_scope.

Definition to_int (w : N) : Z := if (w <? 2 ^ 63)%N then Z.of_N w else Z.of_N w - 2 ^ 64.
Definition wrap_int (z : Z) : Z := (z + 2 ^ 63) mod 2 ^ 64 - 2 ^ 63.

Section Legacy.
  Variable D : bytes.
  Variable ncols : nat.

  Definition zlen (o : N) : Z := Z.of_N (slen D o).
  (* input[a:] *)
  Definition lfrom (o : N) (a : Z) : outcome N :=
    if (a <? 0) || (zlen o <? a) then Panic else Ok (o + Z.to_N a)%N.
  (* input[a:b] *)
  Definition lrange (o : N) (a b : Z) : outcome (N * N) :=
    if (a <? 0) || (b <? a) || (zlen o <? b) then Panic else Ok ((o + Z.to_N a)%N, Z.to_N (b - a)).
  (* bint.Decode(input[a:a+32]) *)
  Definition lword (o : N) (a : Z) : outcome N :=
    if (a <? 0) || (zlen o <? a + 32) then Panic
    else Ok (decode64 (firstn 32 (skipn (N.to_nat (o + Z.to_N a)) D))).

  Definition legacy_arr_body (e : aty) (scan_e : st -> cur -> N -> sres) (o : N) (c : cur)
             (s0 : st) (pos start : Z) : sres :=
    match (if is_arr e then Some (s0, c) else get_row ncols s0) with
    | None => SPanic
    | Some (s1, c1) =>
        if is_static e then
          if zlen o <? pos then SErr s1 else
          lift (lfrom o pos) s1 (fun sub => scan_e s1 c1 sub)
        else
          if zlen o <? pos + 32 then SErr s1 else
          lift (lword o pos) s1 (fun w =>
          let offset := to_int w in
          if zlen o <? wrap_int (start + offset) then SErr s1 else
          lift (lfrom o (wrap_int (start + offset))) s1 (fun sub => scan_e s1 c1 sub))
    end.

  Fixpoint legacy_arr_loop (e : aty) (scan_e : st -> cur -> N -> sres) (o : N) (c : cur)
           (fuel : nat) (i len pos start : Z) (s0 : st) : sres :=
    match fuel with
    | O => SFuel
    | S fuel' =>
        if len <=? i then SOk s0 else
        match legacy_arr_body e scan_e o c (tick s0) pos start with
        | SOk s1 => legacy_arr_loop e scan_e o c fuel' (i + 1) len (pos + Z.of_N (step e)) start s1
        | r => r
        end
    end.

  Fixpoint legacy_scan (t : aty) (s : st) (c : cur) (o : N) {struct t} : sres :=
    match t with
    | TWord sel =>
        if zlen o <? 32 then SErr s else
        match sel with
        | Some p => lift (lrange o 0 32) s (fun r => put s c p r)
        | None => SOk s
        end
    | TDyn sel =>
        lift (lword o 0) s (fun w =>                       (* input[:32], no length check *)
        let length := to_int w in
        if length =? 0 then SOk s else
        if zlen o <? wrap_int (32 + length) then SErr s else
        match sel with
        | Some p => lift (lrange o 32 (wrap_int (32 + length))) s (fun r => put s c p r)
        | None => SOk s
        end)
    | TArr k e =>
        if negb (has_select e) then SOk s else
        if (k =? 0)%N then
          if zlen o <? 32 then SErr s else
          lift (lword o 0) s (fun w =>
          legacy_arr_loop e (legacy_scan e) o c (fuel0 D) 0 (to_int w) 32 32 s)
        else legacy_arr_loop e (legacy_scan e) o c (fuel0 D) 0 (Z.of_N k) 0 0 s
    | TTuple fs =>
        if negb (existsb has_select fs) then SOk s else
        (fix fields (fs : list aty) (pos : Z) (s0 : st) : sres :=
           match fs with
           | [] => SOk s0
           | f :: fs' =>
               if is_static f then
                 if zlen o <? pos then SErr s0 else
                 lift (lfrom o pos) s0 (fun sub =>
                 match legacy_scan f s0 c sub with
                 | SOk s1 => fields fs' (pos + Z.of_N (size f)) s1
                 | r => r
                 end)
               else
                 if zlen o <? pos + 32 then SErr s0 else
                 lift (lword o pos) s0 (fun w =>
                 let offset := to_int w in
                 if zlen o <? offset then SErr s0 else
                 lift (lfrom o offset) s0 (fun sub =>
                 match legacy_scan f s0 c sub with
                 | SOk s1 => fields fs' (pos + 32) s1
                 | r => r
                 end))
           end) fs 0 s
    end.

  Definition legacy_result_scan (t : aty) (s : st) : sres :=
    let s0 := mkst (map (fun _ => None) (single s)) (coll s) 0 0 in
    match legacy_scan t s0 CSingle 0%N with
    | SOk s1 =>
        match (if Nat.eqb (nrows s1) 0 then option_map fst (get_row ncols s1) else Some s1) with
        | None => SPanic
        | Some s2 => SOk (with_coll s2 (map_first (nrows s2) (overlay (single s2)) (coll s2)))
        end
    | r => r
    end.
End Legacy.
