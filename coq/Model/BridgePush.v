(* Bridge filter pushdown (C12) -> cache->rows bridge (C08): vocabulary
   (definitions only).

   The cache->rows bridge (Model/BridgeCacheRows.v) proves that a block served
   through the shared segment cache by an honest node yields canon's rows for
   every row function of [CR.log_view keep], under the premise
   [forall lg, keep lg = true -> want lg = true], [want] = the filter THE CALL
   sent -- a free parameter there.  Here both are fixed by the declaration:

   * [want_of rd d] := [C11V.push_keep rd d]: what a node does with the
     address / topic parameters Integration.Filter() puts into eth_getLogs
     ([Pushdown.node_pass (push_addrs d) (push_topics d)]);
   * [keep_of rd d]: the logs the row builder can turn into rows for [d], as
     far as the LOG decides it: processLog's gate passes and C12's aggregation
     [Filter.agg] of the decisions [Filter.filter_result] of the declared
     positive literal log_addr filters ([Pushdown.pos_addr], the class
     Filter() pushes) does not already reject.  Filters on inputs, on
     transaction / block fields and reference filters depend on the
     enclosing items and on the database, not on the log alone: under "and"
     they can only reject more; under "or" with such a filter active the log
     may be accepted through it, so [declared_accept] says [true]
     ([pushed_applies d = false] -- exactly the case in which Filter() sends
     no address);
   * a history with declarations: [dcall] = (declaration, call); every call
     sends the [want_of] of ITS OWN declaration. *)
From Coq Require Import String List NArith Bool.
From Shovel Require Import Base.Outcome Model.Hex.
From Shovel Require Model.Filter Model.Rows Model.Pushdown Model.BridgeGateRows Model.BridgeRowsTask.
From Shovel Require Model.Cache Model.Client Model.ClientSpec Model.CacheClient Model.BridgeCacheTask
  Model.BridgeCacheRows Proofs.BridgeClientTaskP.
From Shovel Require Import Model.TaskTypes Model.TaskSpec.
Import ListNotations.
Open Scope N_scope.

(* ================================================================== *)
(* the declaration's own predicates, on Rows-level logs                *)
(* ================================================================== *)
Module PD.
Import Filter Rows Pushdown.

(* the one decision a (positive, literal) address filter takes on the log's
   address: C12's [filter_result]; such a filter consults no table *)
Definition addr_decision (f : flt) (l : logr) : bool :=
  match filter_result [] f (VBytes (l_addr l)) with Ok (Some b) => b | _ => false end.

Definition pos_filters (d : decl) : list blockdata := filter pos_addr (d_block d).

(* the positive address filters decide acceptance on their own: conjunction,
   or they are ALL the active filters (the condition under which Filter()
   sends addresses) *)
Definition pushed_applies (d : decl) : bool :=
  kind_is_and (d_agg d) || Nat.eqb (length (pos_filters d)) (num_filters d).

Definition declared_accept (d : decl) (l : logr) : bool :=
  if pushed_applies d
  then agg (kind_is_and (d_agg d)) (map (fun bd => addr_decision (bd_filter bd) l) (pos_filters d))
  else true.

Definition keep_log (d : decl) (l : logr) : bool := gate d l && declared_accept d l.
Definition want_log (d : decl) (l : logr) : bool := node_pass (push_addrs d) (push_topics d) l.

(* "no log that fails [p] contributes a row": the property of a log predicate
   that makes erasing the failing logs invisible to Insert *)
Definition rowless_outside (d : decl) (p : logr -> bool) : Prop :=
  forall dbs e l rows, e_l e = Some l -> p l = false ->
    process_log fixed d dbs e l = Ok rows -> rows = [].
End PD.

(* ================================================================== *)
(* on client-level logs, through a reader                              *)
(* ================================================================== *)
Module PV.
Import Client ClientSpec CacheClient BridgeCacheTask BridgeCacheRows.

Definition keep_of (rd : C11V.reader) (d : Rows.decl) (lg : log) : bool :=
  PD.keep_log d (C11V.rd_log rd lg).
Definition want_of (rd : C11V.reader) (d : Rows.decl) : log -> bool := C11V.push_keep rd d.

(* every log the reader reads has an address of 20 bytes (C12's side
   condition on the chain, here on the reading of ANY client-level log) *)
Definition addr20 (rd : C11V.reader) : Prop :=
  forall lg, length (Filter.ob (Rows.l_addr (C11V.rd_log rd lg))) = 20%nat.

(* the row function of the integration with declaration [d]: no free
   keep / want *)
Definition rowsf_decl (rd : C11V.reader) (d : Rows.decl) (c : Rows.ctxr) (dbs : Filter.db)
  : block -> list (N * N) :=
  C11V.c11_rowsf rd d c dbs (keep_of rd d).

(* ---------- histories of calls made by declared integrations ---------- *)
Definition dcall := (Rows.decl * ccop)%type.

(* every call is answered by an honest node ([world_on] + [CR.attach_on]) to
   which it sent the pushdown of ITS OWN declaration *)
Definition honest_decl_history (rd : C11V.reader) (cch : list block) (calls : list dcall) : Prop :=
  Forall (fun dc => world_on cch (cc_world (snd dc))
                    /\ CR.attach_on cch (want_of rd (fst dc)) (cc_s (snd dc)) (cc_l (snd dc))
                                    (cc_world (snd dc))) calls.

(* a partition of a load of the integration with declaration [d], answered
   through the caches by an honest node *)
Definition declared_cache_answer (hid : bytes -> N) (rd : C11V.reader) (d : Rows.decl) (c : Rows.ctxr)
           (dbs : Filter.db) (cch : list block) (pr : N * N) (r : segres) : Prop :=
  match r with
  | SegFail _ => True
  | SegOk xs => exists mx calls i op bs,
      honest_decl_history rd cch calls
      /\ nth_error calls i = Some (d, op)
      /\ use_receipts (cc_plan op) || use_logs (cc_plan op) = true
      /\ cached_result mx (map snd calls) i op bs
      /\ fetches (cc_plan op) = true
      /\ cc_s op = fst pr /\ cc_l op = snd pr
      /\ xs = map (BridgeClientTaskP.abs hid (rowsf_decl rd d c dbs)) bs
  end.

(* ---------- the normal form of the view ---------- *)
(* what a headers + eth_getLogs plan delivers of a node's block: per
   transaction index, hash and logs (nothing else is written) *)
Definition tx_hl (t : tx) : tx := mkTx (t_idx t) (t_hash t) [] [] [] (t_logs t) [].
Definition block_hl (b : block) : block := with_txs b (map tx_hl (b_txs b)).

(* non-decreasing key order: every element's key is at most every later one's *)
Fixpoint inc_by {A} (key : A -> N) (l : list A) : Prop :=
  match l with
  | [] => True
  | x :: r => (forall y, In y r -> key x <= key y) /\ inc_by key r
  end.
(* the node's block lists transactions, and each transaction its logs, in
   index order *)
Definition idx_sorted (b : block) : Prop :=
  inc_by t_idx (b_txs b) /\ forall t, In t (b_txs b) -> inc_by l_idx (t_logs t).

Definition has_logs (t : tx) : bool := negb (is_nil (t_logs t)).

(* the node's chain as far as declaration [d] is concerned: every block in
   index order, and Integration.Insert succeeds on it (a decode error or a nil
   dereference fails the batch in the running system: nothing is said then) *)
Definition node_ok (rd : C11V.reader) (d : Rows.decl) (c : Rows.ctxr) (dbs : Filter.db) (cch : list block) : Prop :=
  forall cb, In cb cch ->
    idx_sorted cb /\ exists rows, Rows.insert Rows.fixed d c dbs [C11V.conv rd (block_hl cb)] = Ok rows.

(* [rowsf_decl_is_builder] without the order condition: false -- the view is
   in index order, the builder follows the block's order
   (Proofs/BridgePushP.v, [builder_rows_need_index_order]) *)
Definition rowsf_decl_any_order_full : Prop :=
  forall rd d c dbs cb, Rows.indexing Rows.fixed d = Rows.IxLog ->
    (exists rows, Rows.insert Rows.fixed d c dbs [C11V.conv rd (block_hl cb)] = Ok rows) ->
    rowsf_decl rd d c dbs cb = BridgeRowsTask.rowsf_of (C11V.conv rd) d c dbs (block_hl cb).

(* the statement (1) without the side condition on the address length: false
   -- Proofs/BridgePushP.v, [keep_within_pushdown_needs_addr20] *)
Definition keep_within_pushdown_any_length_full : Prop :=
  forall rd d, wf_bytes (Rows.d_sighash d) ->
    forall lg, keep_of rd d lg = true -> want_of rd d lg = true.
End PV.

(* ================================================================== *)
(* concrete instance for the non-vacuity examples                      *)
(* ================================================================== *)
Module PX.
Import BridgeCacheRows.
Import Filter Rows Pushdown.

Definition addr_a : bytes := repeat 170 20.
Definition addr_b : bytes := repeat 187 20.
Definition x_flt (op : string) (args : list bytes) : flt :=
  {| f_op := s2b op; f_args := args; f_ref_ig := []; f_ref_table := []; f_ref_col := [] |}.
(* event E_k(uint256 indexed a) with signature hash [k], a selected; block
   data log_addr with filter [fl] *)
Definition x_decl (name : string) (k : N) (fl : flt) : decl :=
  {| d_name := s2b name;
     d_inputs := [{| i_indexed := true; i_type := s2b "uint256"; i_column := s2b "a"; i_filter := no_filter |}];
     d_block := [{| bd_name := s2b "log_addr"; bd_column := s2b "log_addr"; bd_filter := fl |}];
     d_table_cols := [s2b "a"; s2b "log_addr"]; d_agg := []; d_sighash := [k] |}.
(* integration A: event 7, emitted by contract A only; integration B: event 8,
   any contract *)
Definition dA : decl := x_decl "igA" 7 (x_flt "contains" [encode_hex addr_a]).
Definition dB : decl := x_decl "igB" 8 no_filter.

(* the reading of the example chain's opaque log payloads
   (BridgeCacheTask.ex_cch: payloads [7] and [8]): payload [k] is a log of
   event k; event 7 is emitted by contract A, every other by contract B *)
Definition x_log (idx : N) (pl : list N) : logr :=
  let k := hd 0 pl in
  {| l_idx := idx; l_addr := Some (if k =? 7 then addr_a else addr_b);
     l_topics := [[k]; word_of_N 5]; l_data := []; l_scan := Ok [] |}.
Definition x_tx (i : N) (h : bytes) : txr :=
  {| t_hash := Some h; t_idx := i; t_from := None; t_to := None; t_value := 0; t_input := None;
     t_type := 0; t_status := 1; t_gas_used := 0; t_gas_price := 0; t_eff_gas_price := 0;
     t_contract := None; t_max_prio := 0; t_max_fee := 0; t_nonce := 0; t_logs := []; t_traces := [] |}.
Definition x_rd : C11V.reader :=
  C11V.mkReader (fun lg => x_log (Client.l_idx lg) (Client.l_pl lg))
                (fun i h _ _ _ _ => x_tx i h)
                (fun pl => hd 0 pl).
Definition x_ctx : ctxr := {| c_src := s2b "main"; c_chain := 1 |}.

(* the history: B's call first, A's second (BridgeCacheRows.EX: A is served
   B's cached segment) *)
Definition x_calls : list PV.dcall := [(dB, EX.opB); (dA, EX.opA)].

(* a block listing two logs of event 8 against their index order *)
Definition x_unsorted : Client.block :=
  BridgeCacheTask.xb 2 12 11 [Client.mkTx 0 [100] [] [] [] [Client.mkLog 1 [8]; Client.mkLog 0 [8]] []].

(* witness for the necessity of the 20-byte side condition: an address of 21
   bytes that CONTAINS contract A's *)
Definition x_rd21 : C11V.reader :=
  C11V.mkReader (fun lg => {| l_idx := Client.l_idx lg; l_addr := Some (addr_a ++ [0]);
                              l_topics := [[7]; word_of_N 5]; l_data := []; l_scan := Ok [] |})
                (fun i h _ _ _ _ => x_tx i h) (fun pl => hd 0 pl).
End PX.
