(* C20 — the manager runs exactly the configured tasks, one runner each, across
   restarts.  Executable model of
     (i)  shovel/config/config.go AllIntegrations / AllSources / AllSourcesByName
          and shovel/task.go loadTasks: which tasks, with which settings;
     (ii) shovel/task.go Manager.Run / Restart / runTask as a small-step machine
          over ANY interleaving of its goroutines.
   Definitions only; proofs in Proofs/ManagerP.v.

   The machine exists in two variants.  [Fixed] is the code with the repair
   fixes/C20-restart-double-close.diff (the restart channel is replaced under a
   mutex as soon as a Run owns the lock, Restart closes it at most once, a Run
   that finds other Restarts queued behind it starts with its channel already
   closed).  [Legacy] is the code as found (Restart closes tm.restart
   unconditionally; Run replaces it only after it has loaded and signalled). *)
From Coq Require Import List NArith Bool Arith PeanoNat.
From Shovel Require Import Base.Outcome.
Import ListNotations.

(* ================================================================== *)
(* (i) configuration merge and task list                              *)

Definition name := bytes.

Record source := {            (* config.Source as a source DEFINITION *)
  s_name : name;
  s_url : bytes;              (* first URL of the definition (what the task's client talks to) *)
  s_chain : N;
  s_poll : N;                 (* PollDuration in nanoseconds; rows of shovel.sources give 0 *)
  s_conc : N;                 (* Concurrency (0 = not set) *)
  s_batch : N                 (* BatchSize   (0 = not set) *)
}.

Record sref := {              (* config.Source as a REFERENCE inside an integration *)
  r_name : name;
  r_start : N;
  r_stop : N
}.

Record integration := {
  i_name : name;
  i_enabled : bool;
  i_refs : list sref
}.

Record task := {
  t_src : name; t_ig : name; t_url : bytes; t_chain : N;
  t_start : N; t_stop : N;
  t_poll : N; t_batch : N; t_conc : N
}.

(* a Go map filled by "uniq[x.Name] = x" in list order: an association list in
   which a later entry with the same key replaces the earlier one in place *)
Fixpoint upsert {A} (key : A -> name) (x : A) (l : list A) : list A :=
  match l with
  | [] => [x]
  | y :: r => if bytes_eqb (key y) (key x) then x :: r else y :: upsert key x r
  end.
Definition merge {A} (key : A -> name) (db file : list A) : list A :=
  fold_left (fun acc x => upsert key x acc) (db ++ file) [].
Definition lookup {A} (key : A -> name) (n : name) (l : list A) : option A :=
  find (fun x => bytes_eqb (key x) n) l.

(* Root.AllIntegrations / Root.AllSources(ByName): database rows first, then the
   file entries, so the file wins on a name clash *)
Definition all_integrations (db file : list integration) : list integration := merge i_name db file.
Definition all_sources (db file : list source) : list source := merge s_name db file.

(* NewTask defaults batchSize = 1, concurrency = 1; WithConcurrency overrides
   only with positive values *)
Definition dflt (n : N) : N := if N.eqb n 0 then 1%N else n.

Definition mk_task (ig : integration) (r : sref) (sc : source) : task :=
  {| t_src := s_name sc; t_ig := i_name ig; t_url := s_url sc; t_chain := s_chain sc;
     t_start := r_start r; t_stop := r_stop r;
     t_poll := s_poll sc; t_batch := dflt (s_batch sc); t_conc := dflt (s_conc sc) |}.

Definition name_mem (n : name) (l : list name) : bool := existsb (bytes_eqb n) l.

(* the inner loop over ig.Sources.  Err = "finding source config for %s", or
   (repair fixes/C20-duplicate-source-ref.diff) "integration %s references
   source %s more than once"; [seen] = the names already referenced *)
Fixpoint tasks_of_refs (srcs : list source) (ig : integration) (seen : list name) (refs : list sref)
  : outcome (list task) :=
  match refs with
  | [] => Ok []
  | r :: rs =>
      if name_mem (r_name r) seen then Err else
      match lookup s_name (r_name r) srcs with
      | None => Err
      | Some sc => do rest <- tasks_of_refs srcs ig (r_name r :: seen) rs; Ok (mk_task ig r sc :: rest)
      end
  end.
Fixpoint tasks_of_igs (srcs : list source) (igs : list integration) : outcome (list task) :=
  match igs with
  | [] => Ok []
  | ig :: rest =>
      if i_enabled ig then
        do a <- tasks_of_refs srcs ig [] (i_refs ig);
        do b <- tasks_of_igs srcs rest; Ok (a ++ b)
      else tasks_of_igs srcs rest
  end.

(* the code as found: a source referenced twice by one integration silently
   yields two tasks (two runners) for the same (source, integration) pair *)
Fixpoint legacy_tasks_of_refs (srcs : list source) (ig : integration) (refs : list sref) : outcome (list task) :=
  match refs with
  | [] => Ok []
  | r :: rs =>
      match lookup s_name (r_name r) srcs with
      | None => Err
      | Some sc => do rest <- legacy_tasks_of_refs srcs ig rs; Ok (mk_task ig r sc :: rest)
      end
  end.
Fixpoint legacy_tasks_of_igs (srcs : list source) (igs : list integration) : outcome (list task) :=
  match igs with
  | [] => Ok []
  | ig :: rest =>
      if i_enabled ig then
        do a <- legacy_tasks_of_refs srcs ig (i_refs ig);
        do b <- legacy_tasks_of_igs srcs rest; Ok (a ++ b)
      else legacy_tasks_of_igs srcs rest
  end.
(* loadTasks (the order of the result is the order of a Go map iteration in
   the implementation; the correspondence check compares sorted lists) *)
Definition load_tasks (file_srcs db_srcs : list source) (file_igs db_igs : list integration)
  : outcome (list task) :=
  tasks_of_igs (all_sources db_srcs file_srcs) (all_integrations db_igs file_igs).
Definition legacy_load_tasks (file_srcs db_srcs : list source) (file_igs db_igs : list integration)
  : outcome (list task) :=
  legacy_tasks_of_igs (all_sources db_srcs file_srcs) (all_integrations db_igs file_igs).

(* the (source, integration) pair a task drives *)
Definition pair_of (t : task) : name * name := (t_src t, t_ig t).

(* ================================================================== *)
(* (ii) Run / Restart / runTask                                       *)

Inductive variant := Legacy | Fixed.

(* program counter of one invocation of Manager.Run *)
Inductive rpc :=
| RWaitLock            (* before tm.running.Lock() *)
| RLocked              (* Fixed: owns the lock, about to replace tm.restart *)
| RLoad                (* about to call loadTasks *)
| RSigOk (n : nat)     (* loaded n tasks, about to close(ec) *)
| RSigErr              (* loadTasks failed, about to send the error on ec *)
| RReplace (n : nat)   (* Legacy: signalled, about to execute tm.restart = make(...) *)
| RSpawn (n : nat)     (* about to start the n runTask goroutines *)
| RWait                (* in wg.Wait() *)
| RErrRet              (* error delivered, about to return (deferred Unlock) *)
| RDone.               (* returned; lock released *)

Record run := {
  r_pc : rpc;
  r_restarted : bool;          (* started by Restart (not by main) *)
  r_ec : option bool;          (* what was signalled on ec: Some true = closed (nil), Some false = error *)
  r_born : nat;                (* ghost: configuration version when this Run was started *)
  r_lver : option nat;         (* ghost: configuration version its loadTasks read *)
  r_nt : nat                   (* ghost: number of runTask goroutines ever started before this Run was started *)
}.

(* one call of Manager.Restart *)
Inductive kpc :=
| KCalled                      (* entered, before close(tm.restart) *)
| KWaiting (r : nat)           (* go tm.Run(ec) started as run r; blocked in <-ec *)
| KReturned (r : nat) (ok : bool).
Record rst := { k_pc : kpc; k_ver : nat (* ghost: configuration version when called *) }.

(* one runTask goroutine *)
Inductive tpc := TCheck | TStep | TExit.
Record rtask := { g_gen : nat; (* the Run that started it *) g_pc : tpc }.

Record state := {
  lock : option nat;           (* tm.running: the Run that owns it *)
  cur : nat;                   (* tm.restart: id of the channel it holds *)
  nch : nat;                   (* next fresh channel id *)
  closed : list nat;           (* channels that have been closed *)
  waiting : nat;               (* Fixed: tm.waiting *)
  crashed : bool;              (* a goroutine panicked: the process is dead *)
  ver : nat;                   (* ghost: version of the stored configuration *)
  lv : nat;                    (* ghost: version read by the most recent loadTasks *)
  runs : list run;
  rsts : list rst;
  tasks : list rtask
}.

Inductive action :=
| AStore                       (* environment: the stored configuration changes *)
| ACallRestart                 (* environment: somebody calls Manager.Restart *)
| ARestartClose (k : nat)      (* Restart k: close(tm.restart); go tm.Run(ec) *)
| ARestartReturn (k : nat)     (* Restart k: <-ec delivers *)
| ALock (r : nat)              (* Run r: tm.running.Lock() succeeds *)
| AReplace (r : nat)           (* Run r: tm.restart = make(chan struct{}) *)
| ALoad (r : nat) (res : option nat)   (* Run r: loadTasks returns n tasks / an error *)
| ASignal (r : nat)            (* Run r: close(ec) / ec <- err *)
| ASpawn (r : nat)             (* Run r: go runTask(...) for every task *)
| AUnlock (r : nat)            (* Run r returns: wg.Wait() is over / error path; deferred Unlock *)
| ATaskCheck (t : nat)         (* task t: select on tm.restart with default *)
| ATaskStep (t : nat) (done : bool).   (* task t: Converge returned; done = ErrDone *)

Fixpoint upd {A} (l : list A) (i : nat) (x : A) : list A :=
  match l, i with
  | [], _ => []
  | _ :: r, O => x :: r
  | y :: r, S i' => y :: upd r i' x
  end.

Definition is_closed (s : state) (c : nat) : bool := existsb (Nat.eqb c) (closed s).

Definition set_run (s : state) (i : nat) (x : run) : state :=
  {| lock := lock s; cur := cur s; nch := nch s; closed := closed s; waiting := waiting s;
     crashed := crashed s; ver := ver s; lv := lv s;
     runs := upd (runs s) i x; rsts := rsts s; tasks := tasks s |}.
Definition with_pc (x : run) (p : rpc) : run :=
  {| r_pc := p; r_restarted := r_restarted x; r_ec := r_ec x; r_born := r_born x; r_lver := r_lver x;
     r_nt := r_nt x |}.

Definition all_exited (s : state) (r : nat) : bool :=
  forallb (fun t => negb (Nat.eqb (g_gen t) r) || match g_pc t with TExit => true | _ => false end) (tasks s).

Definition new_run (s : state) (restarted : bool) : run :=
  {| r_pc := RWaitLock; r_restarted := restarted; r_ec := None; r_born := ver s; r_lver := None;
     r_nt := List.length (tasks s) |}.

(* the state after tm.restart = make(chan struct{}) by a Run; in the Fixed
   variant the Run first takes itself off the waiting count and closes the new
   channel at once when other Restarts are queued behind it *)
Definition replace_chan (v : variant) (s : state) (x : run) : nat * list nat :=
  match v with
  | Legacy => (waiting s, closed s)
  | Fixed =>
      let w := if r_restarted x then Nat.pred (waiting s) else waiting s in
      (w, if Nat.ltb 0 w then nch s :: closed s else closed s)
  end.

Definition step (v : variant) (s : state) (a : action) : state :=
  if crashed s then s else
  match a with
  | AStore =>
      {| lock := lock s; cur := cur s; nch := nch s; closed := closed s; waiting := waiting s;
         crashed := false; ver := S (ver s); lv := lv s; runs := runs s; rsts := rsts s; tasks := tasks s |}
  | ACallRestart =>
      {| lock := lock s; cur := cur s; nch := nch s; closed := closed s; waiting := waiting s;
         crashed := false; ver := ver s; lv := lv s; runs := runs s;
         rsts := rsts s ++ [{| k_pc := KCalled; k_ver := ver s |}]; tasks := tasks s |}
  | ARestartClose k =>
      match nth_error (rsts s) k with
      | Some {| k_pc := KCalled; k_ver := kv |} =>
          let already := is_closed s (cur s) in
          match v, already with
          | Legacy, true =>
              (* close of a closed channel: panic *)
              {| lock := lock s; cur := cur s; nch := nch s; closed := closed s; waiting := waiting s;
                 crashed := true; ver := ver s; lv := lv s; runs := runs s; rsts := rsts s; tasks := tasks s |}
          | _, _ =>
              {| lock := lock s; cur := cur s; nch := nch s;
                 closed := if already then closed s else cur s :: closed s;
                 waiting := match v with Fixed => S (waiting s) | Legacy => waiting s end;
                 crashed := false; ver := ver s; lv := lv s;
                 runs := runs s ++ [new_run s true];
                 rsts := upd (rsts s) k {| k_pc := KWaiting (List.length (runs s)); k_ver := kv |};
                 tasks := tasks s |}
          end
      | _ => s
      end
  | ARestartReturn k =>
      match nth_error (rsts s) k with
      | Some {| k_pc := KWaiting r; k_ver := kv |} =>
          match nth_error (runs s) r with
          | Some x =>
              match r_ec x with
              | Some ok =>
                  {| lock := lock s; cur := cur s; nch := nch s; closed := closed s; waiting := waiting s;
                     crashed := false; ver := ver s; lv := lv s; runs := runs s;
                     rsts := upd (rsts s) k {| k_pc := KReturned r ok; k_ver := kv |}; tasks := tasks s |}
              | None => s
              end
          | None => s
          end
      | _ => s
      end
  | ALock r =>
      match lock s, nth_error (runs s) r with
      | None, Some x =>
          match r_pc x with
          | RWaitLock =>
              let s' := set_run s r (with_pc x (match v with Legacy => RLoad | Fixed => RLocked end)) in
              {| lock := Some r; cur := cur s'; nch := nch s'; closed := closed s'; waiting := waiting s';
                 crashed := false; ver := ver s'; lv := lv s'; runs := runs s'; rsts := rsts s'; tasks := tasks s' |}
          | _ => s
          end
      | _, _ => s
      end
  | AReplace r =>
      match nth_error (runs s) r with
      | Some x =>
          let go (next : rpc) :=
            let (w, cl) := replace_chan v s x in
            {| lock := lock s; cur := nch s; nch := S (nch s); closed := cl; waiting := w;
               crashed := false; ver := ver s; lv := lv s;
               runs := upd (runs s) r (with_pc x next); rsts := rsts s; tasks := tasks s |} in
          match v, r_pc x with
          | Fixed, RLocked => go RLoad
          | Legacy, RReplace n => go (RSpawn n)
          | _, _ => s
          end
      | None => s
      end
  | ALoad r res =>
      match nth_error (runs s) r with
      | Some x =>
          match r_pc x with
          | RLoad =>
              {| lock := lock s; cur := cur s; nch := nch s; closed := closed s; waiting := waiting s;
                 crashed := false; ver := ver s; lv := ver s;
                 runs := upd (runs s) r
                   {| r_pc := match res with Some n => RSigOk n | None => RSigErr end;
                      r_restarted := r_restarted x; r_ec := r_ec x; r_born := r_born x;
                      r_lver := Some (ver s); r_nt := r_nt x |};
                 rsts := rsts s; tasks := tasks s |}
          | _ => s
          end
      | None => s
      end
  | ASignal r =>
      match nth_error (runs s) r with
      | Some x =>
          let sig (ok : bool) (next : rpc) :=
            set_run s r {| r_pc := next; r_restarted := r_restarted x; r_ec := Some ok;
                           r_born := r_born x; r_lver := r_lver x; r_nt := r_nt x |} in
          match r_pc x with
          | RSigOk n => sig true (match v with Legacy => RReplace n | Fixed => RSpawn n end)
          | RSigErr => sig false RErrRet
          | _ => s
          end
      | None => s
      end
  | ASpawn r =>
      match nth_error (runs s) r with
      | Some x =>
          match r_pc x with
          | RSpawn n =>
              {| lock := lock s; cur := cur s; nch := nch s; closed := closed s; waiting := waiting s;
                 crashed := false; ver := ver s; lv := lv s;
                 runs := upd (runs s) r (with_pc x RWait); rsts := rsts s;
                 tasks := tasks s ++ repeat {| g_gen := r; g_pc := TCheck |} n |}
          | _ => s
          end
      | None => s
      end
  | AUnlock r =>
      match nth_error (runs s) r with
      | Some x =>
          let rel :=
            {| lock := None; cur := cur s; nch := nch s; closed := closed s; waiting := waiting s;
               crashed := false; ver := ver s; lv := lv s;
               runs := upd (runs s) r (with_pc x RDone); rsts := rsts s; tasks := tasks s |} in
          match r_pc x with
          | RWait => if all_exited s r then rel else s
          | RErrRet => rel
          | _ => s
          end
      | None => s
      end
  | ATaskCheck t =>
      match nth_error (tasks s) t with
      | Some {| g_gen := g; g_pc := TCheck |} =>
          {| lock := lock s; cur := cur s; nch := nch s; closed := closed s; waiting := waiting s;
             crashed := false; ver := ver s; lv := lv s; runs := runs s; rsts := rsts s;
             tasks := upd (tasks s) t
               {| g_gen := g; g_pc := if is_closed s (cur s) then TExit else TStep |} |}
      | _ => s
      end
  | ATaskStep t done =>
      match nth_error (tasks s) t with
      | Some {| g_gen := g; g_pc := TStep |} =>
          {| lock := lock s; cur := cur s; nch := nch s; closed := closed s; waiting := waiting s;
             crashed := false; ver := ver s; lv := lv s; runs := runs s; rsts := rsts s;
             tasks := upd (tasks s) t {| g_gen := g; g_pc := if done then TExit else TCheck |} |}
      | _ => s
      end
  end.

(* NewManager + main's "go mgr.Run(ec)": channel 0 open, one Run not started by Restart *)
Definition init : state :=
  {| lock := None; cur := 0; nch := 1; closed := []; waiting := 0; crashed := false; ver := 0; lv := 0;
     runs := [{| r_pc := RWaitLock; r_restarted := false; r_ec := None; r_born := 0; r_lver := None; r_nt := 0 |}];
     rsts := []; tasks := [] |}.

Definition exec (v : variant) (s : state) (sched : list action) : state := fold_left (step v) sched s.

(* ---- observations used by theorems and by the correspondence run ---- *)

Definition live (t : rtask) : bool := match g_pc t with TExit => false | _ => true end.
(* generations that currently have a runner *)
Definition live_gens (s : state) : list nat :=
  nodup Nat.eq_dec (map g_gen (filter live (tasks s))).

(* a Run is queued behind the lock *)
Definition queued (x : run) : bool := match r_pc x with RWaitLock => true | _ => false end.
(* the generation that owns the lock has its own channel installed and runs (or is about to run) tasks *)
Definition owns_channel (v : variant) (p : rpc) : bool :=
  match v, p with
  | _, RSpawn _ | _, RWait => true
  | Fixed, RLoad | Fixed, RSigOk _ => true
  | _, _ => false
  end.
(* "a restart request is never lost": whenever a Run started by Restart is
   queued behind a generation that has installed its channel, that channel is
   closed (so the generation's tasks stop at their next check) *)
Definition signal_kept (v : variant) (s : state) : bool :=
  match lock s with
  | Some h =>
      match nth_error (runs s) h with
      | Some x =>
          if owns_channel v (r_pc x) && existsb (fun y => queued y && r_restarted y) (runs s)
          then is_closed s (cur s) else true
      | None => true
      end
  | None => true
  end.
