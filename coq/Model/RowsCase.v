(* Case syntax shared by Corr/RunC11.v and Corr/RunC12.v: short constructors
   for the records of Model/Rows.v, the case type and its check. *)
From Coq Require Import String Ascii List NArith ZArith Bool.
From Shovel Require Import Base.Outcome Model.Hex Model.Filter Model.Rows Model.Pushdown Model.RowsAbi.
Import ListNotations.
Open Scope N_scope.

(* byte strings in the case files: lower-case hex string literals *)
Definition hexval (a : ascii) : N :=
  let n := N_of_ascii a in if n <? 58 then n - 48 else n - 87.
Fixpoint hx (s : string) : bytes :=
  match s with
  | String a (String b r) => (hexval a * 16 + hexval b) :: hx r
  | _ => []
  end.

Definition mkF (op : bytes) (args : list bytes) (ig tbl col : bytes) : flt :=
  {| f_op := op; f_args := args; f_ref_ig := ig; f_ref_table := tbl; f_ref_col := col |}.
Definition noF : flt := no_filter.
Definition mkI (ix : bool) (ty col : bytes) (f : flt) : input :=
  {| i_indexed := ix; i_type := ty; i_column := col; i_filter := f |}.
Definition mkB (name col : bytes) (f : flt) : blockdata :=
  {| bd_name := name; bd_column := col; bd_filter := f |}.
Definition mkD (name : bytes) (ins : list input) (bl : list blockdata) (cols : list bytes)
           (agg sighash : bytes) : decl :=
  {| d_name := name; d_inputs := ins; d_block := bl; d_table_cols := cols; d_agg := agg;
     d_sighash := sighash |}.
Definition mkL (idx : N) (addr : obytes) (topics : list bytes) (data : bytes)
           (scan : outcome (list (list obytes))) : logr :=
  {| l_idx := idx; l_addr := addr; l_topics := topics; l_data := data; l_scan := scan |}.
Definition mkTa (idx : N) (ct : bytes) (from to : obytes) (value : N) : tracer :=
  {| ta_idx := idx; ta_call_type := ct; ta_from := from; ta_to := to; ta_value := value |}.
Definition mkT (hash : obytes) (idx : N) (from to : obytes) (value : N) (inp : obytes)
           (ty status gas_used gas_price eff_gas_price : N) (contract : obytes)
           (max_prio max_fee nonce : N) (logs : list logr) (traces : list tracer) : txr :=
  {| t_hash := hash; t_idx := idx; t_from := from; t_to := to; t_value := value; t_input := inp;
     t_type := ty; t_status := status; t_gas_used := gas_used; t_gas_price := gas_price;
     t_eff_gas_price := eff_gas_price; t_contract := contract; t_max_prio := max_prio;
     t_max_fee := max_fee; t_nonce := nonce; t_logs := logs; t_traces := traces |}.
Definition mkBk (hash : obytes) (num time : N) (txs : list txr) : blockr :=
  {| b_hash := hash; b_num := num; b_time := time; b_txs := txs |}.
Definition mkC (src : bytes) (chain : N) : ctxr := {| c_src := src; c_chain := chain |}.

Definition cell_eqb (a b : cell) : bool :=
  match a, b with
  | CInt x, CInt y => Z.eqb x y
  | CBytes x, CBytes y => bytes_eqb x y
  | CBool x, CBool y => Bool.eqb x y
  | CText x, CText y => bytes_eqb x y
  | CNull, CNull => true
  | _, _ => false
  end.

Inductive case :=
(* Integration.Insert on a chain: the columns and rows handed to COPY, an error, or a panic *)
| CInsert (d : decl) (c : ctxr) (dbs : db) (blocks : list blockr)
          (obs : outcome (list bytes * list (list cell)))
(* the same, with the logs' full data: the decoded rows are recomputed with the
   ABI model's scan (Model/RowsAbi.scan_rows) instead of being taken from the case,
   and the rows the case carries must be the ones the model decodes *)
| CInsertAbi (d : decl) (c : ctxr) (dbs : db) (blocks : list blockr)
             (obs : outcome (list bytes * list (list cell)))
(* Integration.Filter(): addresses and topics *)
| CPush (d : decl) (addrs : list bytes) (topics : list (list bytes)).

Definition check_insert (d : decl) (cx : ctxr) (dbs : db) (blocks : list blockr)
           (obs : outcome (list bytes * list (list cell))) : bool :=
  match insert_cells fixed d cx dbs blocks, obs with
  | Ok rows, Ok (cols, orows) =>
      list_eqb bytes_eqb (copy_columns d) cols && list_eqb (list_eqb cell_eqb) rows orows
  | Err, Err => true
  | Panic, Panic => true
  | _, _ => false
  end.

Definition check (c : case) : bool :=
  match c with
  | CInsert d cx dbs blocks obs => check_insert d cx dbs blocks obs
  | CInsertAbi d cx dbs blocks obs =>
      chain_scan_agrees d blocks && check_insert d cx dbs (chain_with_scan d blocks) obs
  | CPush d addrs topics =>
      list_eqb bytes_eqb (push_addrs d) addrs
      && list_eqb (list_eqb bytes_eqb) (push_topics d) topics
  end.
