(* C15 — every SQL statement the system builds from a configuration, as a list
   of pieces: code literals and SPLICED configuration values, each splice
   labelled with the selector path of the configuration position it comes
   from.  Chain data is not an input of any definition in this file: block,
   transaction, log and trace values reach the database only as statement
   parameters ($n) and COPY rows, which are not part of the text.

   Sites (regenerated list of format strings: Gen.UserInputChecks.sites):
   wpg.Table.DDL, wpg.Table.Migrate, wpg.Diff, dig.Integration.Delete,
   dig.Filter.Accept, dig.Integration.notify, dig.Integration.Insert (COPY
   through pgx, which double-quotes the identifiers), shovel.NewTask.
   Definitions only. *)
From Coq Require Import List NArith Bool String Ascii.
From Shovel Require Import Base.Outcome Model.Config.
Import ListNotations.
Open Scope N_scope.

Inductive piece := Lit (s : str) | Splice (p : string) (v : str).
Record stmt := { st_site : string; st_text : list piece }.
Definition piece_text (p : piece) : str := match p with Lit s => s | Splice _ v => v end.
Definition render (s : stmt) : str := flat_map piece_text (st_text s).

(* ---- selector paths of the spliced positions ---- *)
Open Scope string_scope.
Definition P_src := "Sources[].Name".
Definition P_ig := "Integrations[].Name".
Definition P_tn := "Integrations[].Table.Name".
Definition P_cn := "Integrations[].Table.Columns[].Name".
Definition P_ct := "Integrations[].Table.Columns[].Type".
Definition P_un := "Integrations[].Table.Unique[][]".
Definition P_ix := "Integrations[].Table.Index[][]".
Definition P_irt := "Integrations[].Event.Inputs[]*.Filter.Ref.Table".
Definition P_irc := "Integrations[].Event.Inputs[]*.Filter.Ref.Column".
Definition P_brt := "Integrations[].Block[].Filter.Ref.Table".
Definition P_brc := "Integrations[].Block[].Filter.Ref.Column".

(* (kind of check required, path) *)
Definition spliced : list (string * string) :=
  [("check", P_src); ("check", P_ig); ("check", P_tn); ("check", P_cn); ("check", P_ct);
   ("check", P_un); ("checkIndexCol", P_ix);
   ("check", P_irt); ("check", P_irc); ("check", P_brt); ("check", P_brc)].

(* every spliced path is checked, by the closure its kind demands ("check" is
   the stronger one and is accepted everywhere); every check is understood *)
Definition check_paths (checked spl : list (string * string)) : bool :=
  forallb (fun kp => existsb (fun kp' => (snd kp' =? snd kp) &&
                                          ((fst kp' =? "check") || (fst kp' =? fst kp))) checked) spl
  && checks_known checked.
Close Scope string_scope.

(* the code points the theorem [safe_no_metachar] assumes to be neither letter nor digit *)
Definition metachars : list N :=
  [0; 9; 10; 11; 12; 13; 32; 33; 34; 35; 36; 37; 38; 39; 40; 41; 42; 43; 44; 46; 47; 58; 59; 60; 61; 62; 63; 64;
   91; 92; 93; 94; 96; 123; 124; 125; 126; 127; 133; 160; 8216; 8217; 8220; 8221; 8232; 8233; 65307; 65287; 65282].

Definition L (s : string) : piece := Lit (s2r s).
(* "\n" followed by n tabs: the multi-line statement constants of the Go source *)
Definition nlt (n : nat) : str := 10 :: repeat 9 n.

Fixpoint join {A} (sep : list A) (l : list (list A)) : list A :=
  match l with
  | [] => []
  | [x] => x
  | x :: r => x ++ sep ++ join sep r
  end.

(* ---- wpg.quote ---- *)
Definition lower_ascii (s : str) : str :=
  map (fun c => if (65 <=? c) && (c <=? 90) then c + 32 else c) s.
Definition is_reserved (res : list str) (s : str) : bool := mem (lower_ascii s) res.
Definition dq : piece := Lit [34].
Definition quote_pieces (res : list str) (p : string) (v : str) : list piece :=
  if is_reserved res v then [dq; Splice p v; dq] else [Splice p v].
(* quote applied to an index entry: the entry is spliced as name + direction *)
Definition quote_idx (res : list str) (p : string) (e : str) : list piece :=
  let bd := idx_split e in
  if is_reserved res e then [dq; Splice p (fst bd); Lit (snd bd); dq]
  else [Splice p (fst bd); Lit (snd bd)].

Definition replace_sp (s : str) : str := map (fun c => if c =? 32 then 95 else c) s.
Definition idx_name_part (p : string) (e : str) : list piece :=
  let bd := idx_split e in [Splice p (replace_sp (fst bd)); Lit (replace_sp (snd bd))].

(* ---- wpg.Table.DDL ---- *)
Definition close_list (l : list (list piece)) : list piece :=
  if is_nil l then [] else join [L ", "] l ++ [L ")"].

Definition create_table (res : list str) (t : table) : stmt :=
  {| st_site := "wpg.Table.DDL";
     st_text := [L "create table if not exists "; Splice P_tn (t_name t); L "("] ++
                close_list (map (fun c => quote_pieces res P_cn (c_name c) ++ [L " "; Splice P_ct (c_type c)])
                                (t_cols t)) |}.
Definition create_unique (res : list str) (t : table) (cols : list str) : stmt :=
  {| st_site := "wpg.Table.DDL";
     st_text := [L "create unique index if not exists u_"; Splice P_tn (t_name t); L " on ";
                 Splice P_tn (t_name t); L " ("] ++
                close_list (map (quote_pieces res P_un) cols) |}.
Definition create_index (res : list str) (t : table) (cols : list str) : stmt :=
  {| st_site := "wpg.Table.DDL";
     st_text := [L "create index if not exists shovel_"] ++ join [L "_"] (map (idx_name_part P_ix) cols) ++
                [L " on "; Splice P_tn (t_name t); L " ("] ++
                close_list (map (quote_idx res P_ix) cols) |}.
Definition ddl (res : list str) (t : table) : list stmt :=
  if is_nil (t_cols t) then [] else
  create_table res t :: map (create_unique res t) (t_unique t) ++ map (create_index res t) (t_index t).

(* ---- wpg.Diff / wpg.Table.Migrate ---- *)
Definition diff_query : stmt :=
  {| st_site := "wpg.Diff";
     st_text := [Lit (nlt 2); L "select column_name, data_type"; Lit (nlt 2);
                 L "from information_schema.columns"; Lit (nlt 2);
                 L "where table_schema = 'public'"; Lit (nlt 2);
                 L "and table_name = $1"; Lit (nlt 1)] |}.
Definition alter_add (res : list str) (t : table) (c : column) : stmt :=
  {| st_site := "wpg.Table.Migrate";
     st_text := [L "alter table "; Splice P_tn (t_name t); L " add column if not exists "] ++
                quote_pieces res P_cn (c_name c) ++ [L " "; Splice P_ct (c_type c)] |}.
(* against a database that has none of the columns (the most statements
   Migrate can issue): create table, the column lookup, one alter per column,
   then the index statements *)
Definition migrate_sql (res : list str) (t : table) : list stmt :=
  match ddl res t with
  | [] => [diff_query] ++ map (alter_add res t) (t_cols t)
  | ct :: ixs => [ct; diff_query] ++ map (alter_add res t) (t_cols t) ++ ixs
  end.

(* ---- dig ---- *)
Definition delete_sql (t : table) : stmt :=
  {| st_site := "dig.Integration.Delete";
     st_text := [Lit (nlt 2); L "delete from "; Splice P_tn (t_name t); Lit (nlt 2);
                 L "where src_name = $1"; Lit (nlt 2); L "and ig_name = $2"; Lit (nlt 2);
                 L "and block_num >= $3"; Lit (nlt 1)] |}.

Definition s_contains : str := s2r "contains".
(* Filter.Accept on a byte-string datum: the reference query is built when
   the filter is active, the operator ends in "contains" and a table is set *)
Definition accept_sql (pt pc : string) (f : cfilter) : list stmt :=
  if is_nil (f_arg f) && is_nil (r_ig (f_ref f)) then [] else
  if has_suffix s_contains (f_op f) && negb (is_nil (r_table (f_ref f))) then
    [{| st_site := "dig.Filter.Accept";
        st_text := [L "select true from "; Splice pt (r_table (f_ref f)); L " where ";
                    Splice pc (r_col (f_ref f)); L " = $1"] |}]
  else [].

(* setCols: the written columns, selected inputs first, then block fields;
   a column that is not declared is written as "" *)
Definition get_col (t : table) (name : str) : str :=
  match find (fun c => str_eqb (c_name c) name) (t_cols t) with
  | Some c => c_name c
  | None => []
  end.
Definition written_columns (g : integ) : list str :=
  map (fun i => get_col (ig_table g) (i_col i)) (selected (ig_inputs g)) ++
  map (fun b => get_col (ig_table g) (bd_col b)) (ig_block g).

Definition qid (p : string) (v : str) : list piece := [dq; Splice p v; dq].
Definition copy_describe (g : integ) : stmt :=
  {| st_site := "dig.Integration.Insert";
     st_text := [L "select "] ++ join [L ", "] (map (qid P_cn) (written_columns g)) ++
                [L " from "] ++ qid P_tn (t_name (ig_table g)) |}.
Definition copy_sql (g : integ) : stmt :=
  {| st_site := "dig.Integration.Insert";
     st_text := [L "copy "] ++ qid P_tn (t_name (ig_table g)) ++ [L " ( "] ++
                join [L ", "] (map (qid P_cn) (written_columns g)) ++ [L " ) from stdin binary;"] |}.

Definition notify_sql (src : str) (g : integ) : list stmt :=
  if is_nil (ig_notif g) then [] else
  [{| st_site := "dig.Integration.notify";
      st_text := [L "select pg_notify('"; Splice P_src src; L "-"; Splice P_ig (ig_name g); L "', $1)"] |}].

(* ---- shovel.NewTask ---- *)
Definition app_name_sql (ver src : str) (g : integ) : stmt :=
  {| st_site := "shovel.NewTask";
     st_text := [L "set application_name = 'shovel-task-"; Splice P_src src; L "-";
                 Splice P_ig (ig_name g); L "-"; Lit ver; L "'"] |}.

(* ---- everything one task issues (one integration on one source) ---- *)
Definition accepts_of (g : integ) : list stmt :=
  flat_map (fun i => accept_sql P_irt P_irc (i_flt i)) (selected (ig_inputs g)) ++
  flat_map (fun b => accept_sql P_brt P_brc (bd_flt b)) (ig_block g).

(* what a RUNNING task issues through its connection *)
Definition task_conn_sql (src : str) (g : integ) : list stmt :=
  [delete_sql (ig_table g)] ++ accepts_of g ++ [copy_describe g; copy_sql g] ++ notify_sql src g.

(* loadTasks: one task per source reference of every ENABLED integration, built
   in order (NewTask issues `set application_name`); the first reference that
   names no configured source makes loadTasks fail: the tasks built so far are
   dropped and nothing runs *)
Definition load_ok (srcs : list str) (igs : list integ) : bool :=
  forallb (fun g => negb (ig_enabled g) || forallb (fun s => mem s srcs) (ig_sources g)) igs.
Definition refs_of (g : integ) : list str := if ig_enabled g then ig_sources g else [].
Fixpoint take_while {A} (p : A -> bool) (l : list A) : list A :=
  match l with
  | [] => []
  | x :: r => if p x then x :: take_while p r else []
  end.
Definition running_sql (srcs : list str) (igs : list integ) : list stmt :=
  if load_ok srcs igs
  then flat_map (fun g => flat_map (fun s => task_conn_sql s g) (refs_of g)) igs
  else [].

(* file path: config.Migrate, NewTask for the references that resolve (the
   integrations are visited in map order: every reference that resolves may be
   reached before a failing one), then the running tasks *)
Definition all_sql_file (res : list str) (ver : str) (c : root) : list stmt :=
  flat_map (fun g => migrate_sql res (ig_table g)) (integs c) ++
  flat_map (fun g => map (fun s => app_name_sql ver s g)
                         (List.filter (fun s => mem s (sources c)) (refs_of g))) (integs c) ++
  running_sql (sources c) (integs c).

(* dashboard path: the stored integration is loaded as submitted (no
   ValidateFix, no migration): NewTask for its references up to the first one
   that does not resolve, then the running tasks *)
Definition all_sql_dash (ver : str) (srcs : list str) (g : integ) : list stmt :=
  map (fun s => app_name_sql ver s g) (take_while (fun s => mem s srcs) (refs_of g)) ++
  running_sql srcs [g].

(* web.SaveSource: a source submitted through the dashboard is stored (with a
   parameterised insert) only when its name is not empty and passes
   wstrings.Safe; loadTasks later trusts the stored name *)
Definition save_source_ok (U : uni) (name : str) : bool := negb (is_nil name) && safe U name.

(* ---- what the translator must find in the source (Gen.UserInputChecks) ----
   The statements above were written against exactly these places; a new or
   changed format string, argument or non-constant statement breaks the
   comparison in Properties/C15.v. *)
Open Scope string_scope.
Definition expected_sites : list (string * string * string * list string) :=
  [("wpg.Table.DDL", "Sprintf", "create table if not exists %s(", ["t.Name"]);
   ("wpg.Table.DDL", "Sprintf", "%s %s", ["quote(col.Name)"; "col.Type"]);
   ("wpg.Table.DDL", "+=", "createTable", [""")"""]);
   ("wpg.Table.DDL", "+=", "createTable", [""", """]);
   ("wpg.Table.DDL", "Sprintf", "create unique index if not exists u_%s on %s (", ["t.Name"; "t.Name"]);
   ("wpg.Table.DDL", "+=", "createIndex", ["quote(cname)"]);
   ("wpg.Table.DDL", "+=", "createIndex", [""")"""]);
   ("wpg.Table.DDL", "+=", "createIndex", [""", """]);
   ("wpg.Table.DDL", "+=", "indexName", ["strings.ReplaceAll(cols[i], "" "", ""_"")"]);
   ("wpg.Table.DDL", "+=", "indexName", ["""_"""]);
   ("wpg.Table.DDL", "Sprintf", "create index if not exists shovel_%s on %s (", ["indexName"; "t.Name"]);
   ("wpg.Table.DDL", "+=", "createIndex", ["quote(cname)"]);
   ("wpg.Table.DDL", "+=", "createIndex", [""")"""]);
   ("wpg.Table.DDL", "+=", "createIndex", [""", """]);
   ("wpg.Table.Migrate", "Sprintf", "alter table %s add column if not exists %s %s", ["t.Name"; "quote(c.Name)"; "c.Type"]);
   ("dig.Integration.Delete", "Sprintf", "delete from %s where src_name = $1 and ig_name = $2 and block_num >= $3", ["ig.Table.Name"]);
   ("dig.Filter.Accept", "Sprintf", "select true from %s where %s = $1", ["f.Ref.Table"; "f.Ref.Column"]);
   ("dig.Integration.Insert", "CopyFrom", "", ["ctx"; "pgx.Identifier{ig.Table.Name}"; "ig.Columns"; "pgx.CopyFromRows(rows)"]);
   ("dig.Integration.notify", "Sprintf", "select pg_notify('%s-%s', $1)", ["lwc.get(""src_name"")"; "lwc.get(""ig_name"")"]);
   ("shovel.NewTask", "Sprintf", "shovel-task-%s-%s", ["t.srcName"; "t.destConfig.Name"]);
   ("shovel.NewTask", "Sprintf", "set application_name = 'shovel-task-%s-%s-%s'", ["t.srcName"; "t.destConfig.Name"; "wctx.Version(t.ctx)"])].

Definition expected_dynamic_sql : list string :=
  ["dig.Filter.Accept: QueryRow(q)";
   "dig.Integration.Delete: Exec(fmt.Sprintf(q, ig.Table.Name))";
   "dig.Integration.notify: Exec(q)";
   "shovel.NewTask: Exec(fmt.Sprintf( ""set application_name = 'shovel-task-%s-%s-%s'"", t.srcName, t.destConfig.Name, wctx.Version(t.ctx), ))";
   "wpg.Table.Migrate: Exec(q)";
   "wpg.Table.Migrate: Exec(stmt)"].

(* the identifier check guards what follows it: file path (ValidateFix),
   dashboard path (SaveIntegration), sources added through the dashboard *)
Definition expected_guards : list (string * string) :=
  [("config.ValidateFix", "CheckUserInput before ValidateFilterRefs");
   ("config.ValidateFix", "ValidateFilterRefs before AddUniqueIndex");
   ("web.SaveIntegration", "config.CheckUserInput before h.pgp.Exec");
   ("web.SaveSource", "wstrings.Safe before h.pgp.Exec")].
Close Scope string_scope.
