(* C09 / C10 / C13: the decoder's type tree (dig.atype) and the quantities the
   Go code derives from it (hasStatic, sizeof, hasSelect, hasKind('a'),
   selected), transcribed as they are computed — including the quirks:
   a fixed array of length 0 counts as dynamic; sizeof of a dynamic member is 0;
   hasKind('a') of an array walks the [elem] chain only (so it is "the element
   is itself an array"); a selection on a tuple node does not exist. *)
From Coq Require Import List NArith Bool.
From Shovel Require Import Base.Outcome.
Import ListNotations.
Open Scope N_scope.

Inductive aty :=
| TWord (sel : option nat)           (* kind 's'; sel = Some pos when selected *)
| TDyn (sel : option nat)            (* kind 'd' *)
| TArr (k : N) (e : aty)             (* kind 'a'; k = 0 is the dynamic array ("length <= 0") *)
| TTuple (fs : list aty).            (* kind 't' *)

(* induction principle with the hypothesis for every tuple field *)
Section AtyInd.
  Variable P : aty -> Prop.
  Hypothesis Hw : forall s, P (TWord s).
  Hypothesis Hd : forall s, P (TDyn s).
  Hypothesis Ha : forall k e, P e -> P (TArr k e).
  Hypothesis Ht : forall fs, Forall P fs -> P (TTuple fs).
  Fixpoint aty_ind' (t : aty) : P t :=
    match t with
    | TWord s => Hw s
    | TDyn s => Hd s
    | TArr k e => Ha k e (aty_ind' e)
    | TTuple fs =>
        Ht fs ((fix go (l : list aty) : Forall P l :=
                  match l with
                  | [] => Forall_nil _
                  | x :: r => Forall_cons _ (aty_ind' x) (go r)
                  end) fs)
    end.
End AtyInd.

(* hasStatic *)
Fixpoint is_static (t : aty) : bool :=
  match t with
  | TWord _ => true
  | TDyn _ => false
  | TArr k e => if k =? 0 then false else is_static e
  | TTuple fs => forallb is_static fs
  end.

(* sizeof (Go int; unbounded here, see trusted/C09.assume.txt) *)
Fixpoint size (t : aty) : N :=
  match t with
  | TWord _ => 32
  | TDyn _ => 0
  | TArr k e => k * size e
  | TTuple fs => fold_right (fun f a => size f + a) 0 fs
  end.

Definition is_sel (s : option nat) : bool := match s with Some _ => true | None => false end.

(* hasSelect *)
Fixpoint has_select (t : aty) : bool :=
  match t with
  | TWord s | TDyn s => is_sel s
  | TArr _ e => has_select e
  | TTuple fs => existsb has_select fs
  end.

Definition is_arr (t : aty) : bool := match t with TArr _ _ => true | _ => false end.

(* hasKind('a'): for an array, [for tt := t.elem; tt != nil; tt = tt.elem]; the
   elem pointer of a non-array is nil *)
Fixpoint has_kind_arr (t : aty) : bool :=
  match t with
  | TArr _ e => is_arr e
  | TTuple fs => existsb (fun f => is_arr f || has_kind_arr f) fs
  | _ => false
  end.

(* selected(): the positions of the selected leaves, in traversal order *)
Fixpoint selected (t : aty) : list nat :=
  match t with
  | TWord s | TDyn s => match s with Some p => [p] | None => [] end
  | TArr _ e => selected e
  | TTuple fs => flat_map selected fs
  end.

Definition ncols_of (t : aty) : nat := length (selected t).

(* every selected position addresses a column of the row (r[t.pos] in range) *)
Definition sel_ok (ncols : nat) (t : aty) : Prop := Forall (fun p => (p < ncols)%nat) (selected t).
Definition sel_okb (ncols : nat) (t : aty) : bool := forallb (fun p => Nat.ltb p ncols) (selected t).

Fixpoint aty_eqb (a b : aty) : bool :=
  match a, b with
  | TWord s, TWord s' | TDyn s, TDyn s' => option_eqb Nat.eqb s s'
  | TArr k e, TArr k' e' => (k =? k') && aty_eqb e e'
  | TTuple fs, TTuple fs' =>
      (fix go (l l' : list aty) : bool :=
         match l, l' with
         | [], [] => true
         | x :: r, y :: r' => aty_eqb x y && go r r'
         | _, _ => false
         end) fs fs'
  | _, _ => false
  end.

(* ---- the type domain of C09's row rule ------------------------------------
   A selected array whose element is a tuple must not contain further selected
   arrays inside that tuple ("selected arrays not nested inside tuples that are
   themselves array elements, where the row rule is not defined"). *)
Fixpoint no_sel_arr (t : aty) : bool :=
  match t with
  | TWord _ | TDyn _ => true
  | TArr _ e => negb (has_select e)
  | TTuple fs => forallb no_sel_arr fs
  end.

Fixpoint dom (t : aty) : bool :=
  match t with
  | TWord _ | TDyn _ => true
  | TArr _ e => if has_select e then (if is_arr e then dom e else no_sel_arr e) else true
  | TTuple fs => forallb dom fs
  end.
