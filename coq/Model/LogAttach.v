(* C08: attaching logs / receipts to blocks that several callers share
   (eth/types.go: Block.Tx, Logs.Add; jrpc2/client.go: the attach loops of
   logs() -- under b.Lock() -- and receipts()), transcribed.

   A log is (index, address id, body id): the body id stands for topics and
   data; a transaction carries (index, hash id, status, logs); a block
   (number, hash id, time, transactions).  One attach operation is what the
   code does for one (block, transaction) group while holding the block lock;
   operations of different callers on one shared block interleave at that
   granularity.

   Definitions only; the proofs are in Proofs/LogAttachP.v. *)
From Coq Require Import List NArith Bool.
Import ListNotations.
Open Scope N_scope.

Record log := mkLog { l_idx : N; l_addr : N; l_body : N }.
(* t_traces: the body ids of tx.TraceActions in order (traces() numbers them
   0, 1, ... by position, so the position is the index) *)
Record tx := mkTx { t_idx : N; t_hash : N; t_status : N; t_logs : list log; t_traces : list N }.
Record blk := mkBlk { b_num : N; b_hash : N; b_time : N; b_txs : list tx }.

Definition idxs (ls : list log) : list N := map l_idx ls.

(* Logs.Add: append a copy unless a log with the same index is present *)
Definition logs_add (ls : list log) (l : log) : list log :=
  if existsb (fun x => l_idx x =? l_idx l) ls then ls else ls ++ [l].

Definition logs_add_all (ls new : list log) : list log := fold_left logs_add new ls.

(* Block.Tx(idx) followed by an update of that transaction: the first
   transaction with this index, else a new one appended at the end *)
Definition new_tx (i : N) : tx := mkTx i 0 0 [] [].
Fixpoint txs_apply (i : N) (f : tx -> tx) (l : list tx) : list tx :=
  match l with
  | [] => [f (new_tx i)]
  | t :: r => if t_idx t =? i then f t :: r else t :: txs_apply i f r
  end.

Definition find_tx (i : N) (l : list tx) : option tx := find (fun t => t_idx t =? i) l.
Definition logs_of (b : blk) (i : N) : list log :=
  match find_tx i (b_txs b) with Some t => t_logs t | None => [] end.
Definition traces_of (b : blk) (i : N) : list N :=
  match find_tx i (b_txs b) with Some t => t_traces t | None => [] end.

Inductive aop :=
(* logs(): one (block, tx) group: header hash, tx hash, Logs.Add of each log *)
| AGroup (bh : N) (i : N) (th : N) (ls : list log)
(* receipts(): one receipt: header hash, tx hash, status, Logs REPLACED *)
| AReceipt (bh : N) (i : N) (th : N) (st : N) (ls : list log)
(* traces(): the traces of one transaction of a trace_block reply: header hash,
   tx hash, TraceActions REPLACED by the reply's traces of that transaction
   (as repaired by fixes/C08-traces-publish-complete.diff: the new slice is
   published once it is complete) *)
| ATraces (bh : N) (i : N) (th : N) (tas : list N).

Definition a_step (b : blk) (op : aop) : blk :=
  match op with
  | AGroup bh i th ls =>
      mkBlk (b_num b) bh (b_time b)
            (txs_apply i (fun t => mkTx (t_idx t) th (t_status t) (logs_add_all (t_logs t) ls) (t_traces t)) (b_txs b))
  | AReceipt bh i th st ls =>
      mkBlk (b_num b) bh (b_time b)
            (txs_apply i (fun t => mkTx (t_idx t) th st ls (t_traces t)) (b_txs b))
  | ATraces bh i th tas =>
      mkBlk (b_num b) bh (b_time b)
            (txs_apply i (fun t => mkTx (t_idx t) th (t_status t) (t_logs t) tas) (b_txs b))
  end.

Definition a_run (b : blk) (ops : list aop) : blk := fold_left a_step ops b.

Definition op_tx (op : aop) : N :=
  match op with AGroup _ i _ _ => i | AReceipt _ i _ _ _ => i | ATraces _ i _ _ => i end.
Definition op_logs (op : aop) : list log :=
  match op with AGroup _ _ _ ls => ls | AReceipt _ _ _ _ ls => ls | ATraces _ _ _ _ => [] end.
Definition is_group (op : aop) : bool := match op with AGroup _ _ _ _ => true | _ => false end.
Definition is_receipt (op : aop) : bool := match op with AReceipt _ _ _ _ _ => true | _ => false end.
(* operations that leave every transaction's logs alone or only Add to them *)
Definition adds_only (op : aop) : bool := negb (is_receipt op).

(* well-formed block: no transaction index twice, no log index twice in a
   transaction *)
Definition wf_blk (b : blk) : Prop :=
  NoDup (map t_idx (b_txs b)) /\ forall t, In t (b_txs b) -> NoDup (idxs (t_logs t)).

(* what happens to the logs of transaction [i], as a function of the
   operations alone *)
Definition tx_sem (i : N) (cur : list log) (op : aop) : list log :=
  if op_tx op =? i then
    match op with
    | AGroup _ _ _ ls => logs_add_all cur ls
    | AReceipt _ _ _ _ ls => ls
    | ATraces _ _ _ _ => cur
    end
  else cur.

(* ... and to its trace actions: the last trace attachment wins *)
Definition trace_sem (i : N) (cur : list N) (op : aop) : list N :=
  match op with
  | ATraces _ j _ tas => if j =? i then tas else cur
  | _ => cur
  end.

(* an operation is honest w.r.t. [full] (all logs of each transaction of this
   one unchanging block): it attaches only such logs, and a receipt carries
   all of them *)
Definition honest (full : N -> list log) (op : aop) : Prop :=
  incl (op_logs op) (full (op_tx op)) /\ (is_receipt op = true -> op_logs op = full (op_tx op)).

(* ---- the code BEFORE the repair (fixes/C08-receipts-block-lock.diff) ----
   receipts() did not take the block lock: `tx.Logs = make([]eth.Log, n)` and
   `copy(tx.Logs, logs)` are two steps, and a logs() group of another caller
   (atomic: it holds the lock) can run between them. *)
Inductive legacy_op :=
| LAtomic (op : aop)
| LMake (i : N) (n : nat)
| LCopy (i : N) (ls : list log)
(* traces() before fixes/C08-traces-publish-complete.diff: the new slice is
   published EMPTY (`tx.TraceActions = make(n)`: n zero-valued actions) and
   filled in place; a caller that already holds the block reads in between *)
| LTMake (i : N) (n : nat)
| LTFill (i : N) (tas : list N).

Definition zero_log : log := mkLog 0 0 0.
(* Go's copy(dst, src): min(len dst, len src) elements *)
Definition copy_into (dst src : list log) : list log :=
  firstn (length dst) src ++ skipn (length src) dst.

Definition legacy_step (b : blk) (op : legacy_op) : blk :=
  match op with
  | LAtomic op => a_step b op
  | LMake i n =>
      mkBlk (b_num b) (b_hash b) (b_time b)
            (txs_apply i (fun t => mkTx (t_idx t) (t_hash t) (t_status t) (repeat zero_log n) (t_traces t)) (b_txs b))
  | LCopy i ls =>
      mkBlk (b_num b) (b_hash b) (b_time b)
            (txs_apply i (fun t => mkTx (t_idx t) (t_hash t) (t_status t) (copy_into (t_logs t) ls) (t_traces t)) (b_txs b))
  | LTMake i n =>
      mkBlk (b_num b) (b_hash b) (b_time b)
            (txs_apply i (fun t => mkTx (t_idx t) (t_hash t) (t_status t) (t_logs t) (repeat 0 n)) (b_txs b))
  | LTFill i tas =>
      mkBlk (b_num b) (b_hash b) (b_time b)
            (txs_apply i (fun t => mkTx (t_idx t) (t_hash t) (t_status t) (t_logs t) tas) (b_txs b))
  end.
Definition legacy_run (b : blk) (ops : list legacy_op) : blk := fold_left legacy_step ops b.
