(* C12, second half: Integration.Filter() — the address and topic restrictions
   sent with eth_getLogs (jrpc2 Client.logs puts glf.Filter.Addresses()/Topics()
   into the request unchanged) — and what a node does with them.

   [push_addrs] is the code as repaired by fixes/C12-address-pushdown.diff;
   [legacy_push_addrs] the unrepaired code. *)
From Coq Require Import String Ascii List NArith ZArith Bool.
From Shovel Require Import Base.Outcome Model.Hex Model.Filter Model.Rows.
Import ListNotations.
Open Scope N_scope.

(* eth.EncodeHex(eth.DecodeHex(arg)) *)
Definition norm_addr (a : bytes) : bytes := encode_hex (decode_hex a).

Definition is_log_addr (bd : blockdata) : bool := fld (bd_name bd) "log_addr".

(* unrepaired: the arguments of every log_addr entry, whatever its operator,
   whatever else the declaration filters on *)
Definition legacy_push_addrs (d : decl) : list bytes :=
  flat_map (fun bd => if is_log_addr bd && negb (is_nil (f_args (bd_filter bd)))
                      then map norm_addr (f_args (bd_filter bd)) else [])
           (d_block d).

(* a filter that makes Accept compare something *)
Definition active (f : flt) : bool := negb (is_nil (f_args f)) || negb (is_nil (f_ref_ig f)).

(* addrFilter: positive operator, literal arguments, all of address length *)
Definition addr_filter (f : flt) : bool :=
  (op_is f "contains" || op_is f "eq")
  && negb (is_nil (f_args f))
  && is_nil (f_ref_table f)
  && forallb (fun a => (length (decode_hex a) =? 20)%nat) (f_args f).

Definition pos_addr (bd : blockdata) : bool :=
  active (bd_filter bd) && is_log_addr bd && addr_filter (bd_filter bd).

Definition num_filters (d : decl) : nat :=
  length (filter (fun i => active (i_filter i)) (filter selected (d_inputs d)))
  + length (filter (fun bd => active (bd_filter bd)) (d_block d)).

Definition push_addrs (d : decl) : list bytes :=
  let pos := filter pos_addr (d_block d) in
  if is_nil pos then []
  else if negb (bytes_eqb (to_lower (d_agg d)) (s2b "and")) && negb (length pos =? num_filters d)%nat then []
  else flat_map (fun bd => map norm_addr (f_args (bd_filter bd))) pos.

Definition push_topics (d : decl) : list (list bytes) := [[encode_hex (d_sighash d)]].

(* ---- the node's side of eth_getLogs ---- *)
Definition node_addr_pass (addrs : list bytes) (l : logr) : bool :=
  is_nil addrs || existsb (fun a => bytes_eqb (decode_hex a) (ob (l_addr l))) addrs.

Fixpoint topics_pass (want : list (list bytes)) (have : list bytes) : bool :=
  match want with
  | [] => true
  | alt :: r =>
      match have with
      | [] => false
      | x :: hr => (is_nil alt || existsb (fun a => bytes_eqb (decode_hex a) x) alt) && topics_pass r hr
      end
  end.

Definition node_pass (addrs : list bytes) (topics : list (list bytes)) (l : logr) : bool :=
  node_addr_pass addrs l && topics_pass topics (l_topics l).

Definition tx_with_logs (t : txr) (ls : list logr) : txr :=
  {| t_hash := t_hash t; t_idx := t_idx t; t_from := t_from t; t_to := t_to t; t_value := t_value t;
     t_input := t_input t; t_type := t_type t; t_status := t_status t; t_gas_used := t_gas_used t;
     t_gas_price := t_gas_price t; t_eff_gas_price := t_eff_gas_price t; t_contract := t_contract t;
     t_max_prio := t_max_prio t; t_max_fee := t_max_fee t; t_nonce := t_nonce t;
     t_logs := ls; t_traces := t_traces t |}.
Definition block_with_txs (b : blockr) (ts : list txr) : blockr :=
  {| b_hash := b_hash b; b_num := b_num b; b_time := b_time b; b_txs := ts |}.

(* the chain as the indexer sees it when the node applies the restrictions *)
Definition node_filter (addrs : list bytes) (topics : list (list bytes)) (blocks : list blockr) : list blockr :=
  map (fun b => block_with_txs b
                  (map (fun t => tx_with_logs t (filter (node_pass addrs topics) (t_logs t))) (b_txs b)))
      blocks.

(* C12's statement about the address restriction, for a version [push] of Filter() *)
Definition pushdown_statement (push : decl -> list bytes) : Prop :=
  forall d dbs e l rows,
    process_log fixed d dbs e l = Ok rows -> rows <> [] -> e_l e = Some l ->
    length (ob (l_addr l)) = 20%nat ->
    node_addr_pass (push d) l = true.
