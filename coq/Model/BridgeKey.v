(* Bridge unique key <-> rows: the unique index that the configuration pass
   GENERATES (shovel/config: AddRequiredFields then AddUniqueIndex, Model/Config.v,
   C16) is the identity key of the rows the row builder writes (dig
   Integration.Insert, Model/Rows.v, C11) and of the task model (the [ikey] of
   Model/BridgeRowsTask.v: "same (block number, ikey) within a pair" is the
   unique-index collision [t_uniq] of the task layer).  Definitions only; the
   proofs are in Proofs/BridgeKeyP.v, the statements in Properties/C16.v.

   * CORRESPONDENCE of the two declaration types.  Config.integ (the JSON tree:
     inputs with components, block fields, table) and Rows.decl (what dig.New
     keeps: top-level inputs with their ABI type, block fields, the table's
     column names).  [same_decl g d] relates them for everything the key
     depends on: name, table column names, per top-level input (indexed?,
     column) -- inputs WITHOUT components, which is Rows.v's domain --, per
     block field (name, column), in order.  ABI types, filters, filter_agg and
     the signature hash are NOT related: the theorems hold for all of them.
     [decl_of g tys sig] is a function producing such a declaration.

   * [identity_key d] is the key as a function of the three guards of
     AddRequiredFields read off the Rows-level declaration: ig_name, src_name,
     block_num, tx_idx, then log_idx when an input is selected, abi_idx when a
     NON-INDEXED input is selected (the guard is not "array": for scalars the
     column holds 0), trace_action_idx when a block field is named trace_*.

   * [col_value d k gr]: the cell that row [gr] (as handed to COPY with the
     column list [Rows.copy_columns d]) stores in column [k]; [None] = the
     column is not written = NULL.  [uproj d u gr] = projection of a stored
     row to the columns [u] of a unique index.

   * [user_plain g] (decidable, on the declaration as the USER wrote it) is the
     precondition under which the generated key works; it is NOT implied by
     ValidateFix (known findings C16-remapped-identity-field etc.): a block
     field named like an identity field is bound to the column of the same
     name; nothing else is bound to an identity column; an identity column /
     field is declared only where AddRequiredFields adds it anyway. *)
From Coq Require Import String List NArith ZArith Bool.
From Shovel Require Import Base.Outcome Model.Hex Model.Filter Model.Rows Model.BridgeRowsTask.
From Shovel Require Model.Config Model.Schema Model.ConfigGen Model.RowsAbi Model.AbiParse Model.AbiEnc.
Import ListNotations.
Open Scope N_scope.

(* ---------- the seven identity names ---------- *)
Definition kn_ig : bytes := s2b "ig_name".
Definition kn_src : bytes := s2b "src_name".
Definition kn_block : bytes := s2b "block_num".
Definition kn_tx : bytes := s2b "tx_idx".
Definition kn_log : bytes := s2b "log_idx".
Definition kn_abi : bytes := s2b "abi_idx".
Definition kn_trace : bytes := s2b "trace_action_idx".
Definition id_names : list bytes := [kn_ig; kn_src; kn_block; kn_tx; kn_log; kn_abi; kn_trace].

(* the key as a function of the three guards of AddRequiredFields *)
Definition key_of_guards (sel data trace : bool) : list bytes :=
  [kn_ig; kn_src; kn_block; kn_tx]
  ++ (if sel then [kn_log] else []) ++ (if data then [kn_abi] else []) ++ (if trace then [kn_trace] else []).

(* ... read off a Rows-level declaration *)
Definition has_sel (d : decl) : bool := (0 <? num_selected d)%nat.
Definition has_data (d : decl) : bool := existsb is_data (d_inputs d).
Definition has_trace (d : decl) : bool := (0 <? num_trace fixed d)%nat.
Definition identity_key (d : decl) : list bytes := key_of_guards (has_sel d) (has_data d) (has_trace d).

(* ... read off a Config-level integration (these ARE guard_holds GAnySelected /
   GAnySelectedNotIndexed / GAnyBlockPrefix "trace_", by conversion) *)
Definition cfg_sel (g : Config.integ) : bool :=
  negb (Config.is_nil (Config.selected (Config.ig_inputs g))).
Definition cfg_data (g : Config.integ) : bool :=
  existsb (fun i => negb (Config.i_indexed i)) (Config.selected (Config.ig_inputs g)).
Definition cfg_trace (g : Config.integ) : bool :=
  existsb (fun b => Config.has_prefix (Config.s2r "trace_") (Config.bd_name b)) (Config.ig_block g).
Definition cfg_key (g : Config.integ) : list bytes := key_of_guards (cfg_sel g) (cfg_data g) (cfg_trace g).

(* ---------- the regenerated tables, as this bridge needs them ----------
   (obligation on Gen/RequiredFields.v, checked by vm_compute in
   Proofs/BridgeKeyP.v: gen_tables_standard) *)
Definition std_required : list Config.reqfield :=
  [ (Config.GAlways, kn_ig, s2b "text");
    (Config.GAlways, kn_src, s2b "text");
    (Config.GAlways, kn_block, s2b "numeric");
    (Config.GAlways, kn_tx, s2b "int");
    (Config.GAnySelected, kn_log, s2b "int");
    (Config.GAnySelectedNotIndexed, kn_abi, s2b "int2");
    (Config.GAnyBlockPrefix (s2b "trace_"), kn_trace, s2b "int2") ].

(* AddRequiredFields in closed form: the unconditional adds that remain once
   the three guards are decided on the declaration as the user wrote it *)
Definition req_closed (sel data trace : bool) : list (bytes * bytes) :=
  [(kn_ig, s2b "text"); (kn_src, s2b "text"); (kn_block, s2b "numeric"); (kn_tx, s2b "int")]
  ++ (if sel then [(kn_log, s2b "int")] else [])
  ++ (if data then [(kn_abi, s2b "int2")] else [])
  ++ (if trace then [(kn_trace, s2b "int2")] else []).
Definition add_fields (l : list (bytes * bytes)) (g : Config.integ) : Config.integ :=
  fold_left (fun g nt => Config.add_field (fst nt) (snd nt) g) l g.

(* ---------- the precondition on the user's declaration ---------- *)
Definition user_plain (g : Config.integ) : bool :=
  (* a block field named like an identity field writes the column of that
     name; a block field of another name writes no identity column *)
  forallb (fun b => if Config.mem (Config.bd_name b) id_names
                    then Config.str_eqb (Config.bd_col b) (Config.bd_name b)
                    else negb (Config.mem (Config.bd_col b) id_names)) (Config.ig_block g)
  (* no selected input writes an identity column *)
  && forallb (fun i => negb (Config.mem (Config.i_col i) id_names)) (Config.selected (Config.ig_inputs g))
  (* an identity column / field is declared only where AddRequiredFields adds it *)
  && forallb (fun n => negb (Config.has_col n (Config.ig_table g) || Config.has_bd n g)
                       || Config.mem n (cfg_key g)) id_names.

(* ---------- correspondence Config.integ <-> Rows.decl ---------- *)
Definition same_input (ci : Config.input) (ri : input) : Prop :=
  Config.i_indexed ci = i_indexed ri /\ Config.i_col ci = i_column ri /\ Config.i_comps ci = [].
Definition same_bd (cb : Config.blockdata) (rb : blockdata) : Prop :=
  Config.bd_name cb = bd_name rb /\ Config.bd_col cb = bd_column rb.
Definition same_decl (g : Config.integ) (d : decl) : Prop :=
  d_name d = Config.ig_name g
  /\ d_table_cols d = Config.col_names (Config.ig_table g)
  /\ Forall2 same_input (Config.ig_inputs g) (d_inputs d)
  /\ Forall2 same_bd (Config.ig_block g) (d_block d).

(* a function producing the related declaration: ABI types by position (missing
   ones empty), no filters *)
Definition input_of (ci : Config.input) (ty : bytes) : input :=
  {| i_indexed := Config.i_indexed ci; i_type := ty; i_column := Config.i_col ci; i_filter := no_filter |}.
Definition bd_of (cb : Config.blockdata) : blockdata :=
  {| bd_name := Config.bd_name cb; bd_column := Config.bd_col cb; bd_filter := no_filter |}.
Fixpoint inputs_of (cis : list Config.input) (tys : list bytes) : list input :=
  match cis with
  | [] => []
  | ci :: r => input_of ci (match tys with t :: _ => t | [] => [] end)
               :: inputs_of r (match tys with _ :: ts => ts | [] => [] end)
  end.
Definition decl_of (g : Config.integ) (tys : list bytes) (sig : bytes) : decl :=
  {| d_name := Config.ig_name g; d_inputs := inputs_of (Config.ig_inputs g) tys;
     d_block := map bd_of (Config.ig_block g);
     d_table_cols := Config.col_names (Config.ig_table g);
     d_agg := Config.ig_agg g; d_sighash := sig |}.
Definition flat_inputs (g : Config.integ) : bool :=
  forallb (fun i => Config.is_nil (Config.i_comps i)) (Config.ig_inputs g).

(* ---------- what a stored row holds in a column ---------- *)
Fixpoint index_of (k : bytes) (l : list bytes) : option nat :=
  match l with
  | [] => None
  | x :: r => if bytes_eqb x k then Some O else option_map S (index_of k r)
  end.
Definition col_value (d : decl) (k : bytes) (gr : list gval) : option gval :=
  match index_of k (copy_columns d) with Some p => nth_error gr p | None => None end.
Definition uproj (d : decl) (u : list bytes) (gr : list gval) : list (option gval) :=
  map (fun k => col_value d k gr) u.
Definition not_null (o : option gval) : Prop := exists v, o = Some v /\ v <> VNil.

(* the identity cells as a function of (integration, source, block number, ikey) *)
Definition key_cell (ig src : bytes) (bn : N) (k : ikey) (name : bytes) : option gval :=
  if bytes_eqb name kn_ig then Some (VStr ig)
  else if bytes_eqb name kn_src then Some (VStr src)
  else if bytes_eqb name kn_block then Some (VU64 bn)
  else if bytes_eqb name kn_tx then Some (VU64 (k_tx k))
  else if bytes_eqb name kn_log then option_map VU64 (k_log k)
  else if bytes_eqb name kn_abi then option_map (fun i => VInt (Z.of_nat i)) (k_abi k)
  else if bytes_eqb name kn_trace then option_map VU64 (k_trace k)
  else None.
Definition key_cells (ig src : bytes) (bn : N) (k : ikey) (u : list bytes) : list (option gval) :=
  map (key_cell ig src bn k) u.

(* column [k] of the table is written by the block-data entry of the same
   name, at ONE position of the COPY column list *)
Definition written_by_field (d : decl) (k : bytes) : Prop :=
  In k (d_table_cols d) /\
  exists j bd, nth_error (d_block d) j = Some bd /\ bd_name bd = k /\ bd_column bd = k
    /\ forall p, nth_error (copy_columns d) p = Some k -> p = (num_selected d + j)%nat.
(* [u] is the identity key of [d] and every column of it is so written *)
Definition key_written (d : decl) (u : list bytes) : Prop :=
  u = identity_key d /\ forall k, In k u -> written_by_field d k.

(* which columns the key has, by indexing mode *)
Definition mode_table (d : decl) : Prop :=
  (indexing fixed d = IxTx -> identity_key d = [kn_ig; kn_src; kn_block; kn_tx])
  /\ (indexing fixed d = IxLog ->
        identity_key d = [kn_ig; kn_src; kn_block; kn_tx; kn_log] ++ (if has_data d then [kn_abi] else []))
  /\ (indexing fixed d = IxTrace ->
        (has_sel d = false -> identity_key d = [kn_ig; kn_src; kn_block; kn_tx; kn_trace])
        /\ (has_sel d = true ->
              In kn_trace (identity_key d) /\
              forall c dbs bs rows, insert fixed d c dbs bs = Ok rows -> rows = [])).

(* precondition of "no false collision" that Rows.v does not give ([l_scan] is
   a given there): when no non-indexed input is selected, decoding a log's
   data yields at most one row *)
Definition single_row_scans (d : decl) (b : blockr) : Prop :=
  has_data d = false ->
  forall t l srows, In t (b_txs b) -> In l (t_logs t) -> l_scan l = Ok srows -> (length srows <= 1)%nat.

(* the projection is an injective function of (source, block number, ikey), without
   any precondition on the chain -- false (single_row_scans_needed_refuted) *)
Definition projection_injective_unconditional : Prop :=
  forall d c dbs b krs k k' gr gr',
    key_written d (identity_key d) -> wf_items b ->
    kinsert d c dbs b = Ok krs -> In (k, gr) krs -> In (k', gr') krs ->
    uproj d (identity_key d) gr = uproj d (identity_key d) gr' -> k = k'.

(* the generated key is written by the row builder for EVERY accepted
   declaration -- false (remapped_identity_key_refuted) *)
Definition generated_key_written_unconditional : Prop :=
  forall g g' d u,
    Config.t_unique (Config.ig_table g) = [] -> Config.fix_one ConfigGen.G g = Some g' -> same_decl g' d ->
    Config.t_unique (Config.ig_table g') = [u] -> forall k, In k u -> written_by_field d k.

(* ---------- non-vacuity: the ERC-20 Transfer declaration ----------
   event Transfer(address indexed from, address indexed to, uint256 value),
   all three selected into columns f, t, v; the user declares no block field and
   no identity column; one block (number 1) with one transaction (index 2) with
   one Transfer log (index 5, value 1000) whose data the ABI model decodes. *)
Definition erc_cinput (ix : bool) (name col : string) : Config.input :=
  Config.Input ix (Config.s2r name) (Config.s2r col) Config.no_filter [].
Definition erc_ig : Config.integ :=
  {| Config.ig_name := Config.s2r "erc20"; Config.ig_enabled := true; Config.ig_sources := [Config.s2r "main"];
     Config.ig_table := {| Config.t_name := Config.s2r "transfers";
                           Config.t_cols := [ {| Config.c_name := Config.s2r "f"; Config.c_type := Config.s2r "bytea" |};
                                              {| Config.c_name := Config.s2r "t"; Config.c_type := Config.s2r "bytea" |};
                                              {| Config.c_name := Config.s2r "v"; Config.c_type := Config.s2r "numeric" |} ];
                           Config.t_unique := []; Config.t_index := [] |};
     Config.ig_agg := []; Config.ig_notif := []; Config.ig_block := [];
     Config.ig_inputs := [erc_cinput true "from" "f"; erc_cinput true "to" "t"; erc_cinput false "value" "v"];
     Config.ig_deps := [] |}.
Definition erc_fixed : Config.integ :=
  match Config.fix_one ConfigGen.G erc_ig with Some g => g | None => Config.dummy_ig end.
Definition erc_tins : list RowsAbi.tin :=
  [ {| RowsAbi.tn_indexed := true; RowsAbi.tn_name := AbiParse.EAddress; RowsAbi.tn_dims := [];
       RowsAbi.tn_column := s2b "f"; RowsAbi.tn_filter := no_filter |};
    {| RowsAbi.tn_indexed := true; RowsAbi.tn_name := AbiParse.EAddress; RowsAbi.tn_dims := [];
       RowsAbi.tn_column := s2b "t"; RowsAbi.tn_filter := no_filter |};
    {| RowsAbi.tn_indexed := false; RowsAbi.tn_name := AbiParse.EUint 256; RowsAbi.tn_dims := [];
       RowsAbi.tn_column := s2b "v"; RowsAbi.tn_filter := no_filter |} ].
Definition erc_sig : bytes := [221; 242; 82; 173].   (* stands for keccak("Transfer(address,address,uint256)") *)
Definition erc_decl : decl :=
  decl_of erc_fixed (map (fun x => i_type (RowsAbi.tin_input x)) erc_tins) erc_sig.
Definition erc_ctx : ctxr := {| c_src := s2b "main"; c_chain := 1 |}.
Definition erc_addr (x : N) : bytes := repeat 0 31 ++ [x].
Definition erc_log : logr :=
  {| l_idx := 5; l_addr := Some []; l_topics := [erc_sig; erc_addr 10; erc_addr 11];
     l_data := AbiEnc.enc (RowsAbi.tins_type erc_tins) (AbiEnc.VTuple [AbiEnc.VWord (word_of_N 1000)]);
     l_scan := Panic |}.
Definition erc_block : blockr :=
  nth 0 (RowsAbi.chain_with_scan erc_decl
           [ {| b_hash := Some [9]; b_num := 1; b_time := 0; b_txs := [ex_tx 2 [erc_log]] |} ])
      {| b_hash := None; b_num := 0; b_time := 0; b_txs := [] |}.

(* ---------- witnesses for the refuted statements ---------- *)
(* known finding C16-remapped-identity-field: {name: log_idx, column: li} *)
Definition remap_ig : Config.integ :=
  {| Config.ig_name := Config.s2r "a"; Config.ig_enabled := true; Config.ig_sources := [Config.s2r "main"];
     Config.ig_table := {| Config.t_name := Config.s2r "t";
                           Config.t_cols := [ {| Config.c_name := Config.s2r "xc"; Config.c_type := Config.s2r "bytea" |};
                                              {| Config.c_name := Config.s2r "li"; Config.c_type := Config.s2r "int" |} ];
                           Config.t_unique := []; Config.t_index := [] |};
     Config.ig_agg := []; Config.ig_notif := [];
     Config.ig_block := [ {| Config.bd_name := Config.s2r "log_idx"; Config.bd_col := Config.s2r "li";
                             Config.bd_flt := Config.no_filter |} ];
     Config.ig_inputs := [erc_cinput true "x" "xc"]; Config.ig_deps := [] |}.
Definition remap_fixed : Config.integ :=
  match Config.fix_one ConfigGen.G remap_ig with Some g => g | None => Config.dummy_ig end.
Definition remap_decl : decl := decl_of remap_fixed [s2b "uint256"] [7].

(* one indexed selected input, key without abi_idx; a log whose (given) decoding
   has two rows *)
Definition two_ig : Config.integ :=
  {| Config.ig_name := Config.s2r "a"; Config.ig_enabled := true; Config.ig_sources := [Config.s2r "main"];
     Config.ig_table := {| Config.t_name := Config.s2r "t";
                           Config.t_cols := [ {| Config.c_name := Config.s2r "xc"; Config.c_type := Config.s2r "bytea" |} ];
                           Config.t_unique := []; Config.t_index := [] |};
     Config.ig_agg := []; Config.ig_notif := []; Config.ig_block := [];
     Config.ig_inputs := [erc_cinput true "x" "xc"]; Config.ig_deps := [] |}.
Definition two_fixed : Config.integ :=
  match Config.fix_one ConfigGen.G two_ig with Some g => g | None => Config.dummy_ig end.
Definition two_decl : decl := decl_of two_fixed [s2b "uint256"] [7].
Definition two_block : blockr :=
  {| b_hash := Some [9]; b_num := 1; b_time := 0;
     b_txs := [ex_tx 0 [ {| l_idx := 0; l_addr := Some []; l_topics := [[7]; word_of_N 5]; l_data := [1];
                            l_scan := Ok [[]; []] |} ]] |}.
