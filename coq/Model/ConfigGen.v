(* C15 / C16 — the configuration model instantiated with the tables
   regenerated from the Go source (coq/Gen/UserInputChecks.v,
   coq/Gen/RequiredFields.v).  Definitions only. *)
From Coq Require Import List NArith Bool String.
From Shovel Require Import Base.Outcome Model.Config.
From Shovel Require Gen.UserInputChecks Gen.RequiredFields.
Import ListNotations.

Open Scope string_scope.
Definition guard_of (k a : string) : option guard :=
  if k =? "always" then Some GAlways
  else if k =? "any-selected" then Some GAnySelected
  else if k =? "any-selected-not-indexed" then Some GAnySelectedNotIndexed
  else if k =? "any-block-prefix" then Some (GAnyBlockPrefix (s2r a))
  else None.
Close Scope string_scope.

Fixpoint conv_required (l : list (string * string * string * string)) : option (list reqfield) :=
  match l with
  | [] => Some []
  | (k, a, n, t) :: r =>
      match guard_of k a, conv_required r with
      | Some g, Some r' => Some ((g, s2r n, s2r t) :: r')
      | _, _ => None
      end
  end.

Definition G_opt : option gen :=
  match conv_required Gen.RequiredFields.required with
  | Some rq => Some {| g_checked := Gen.UserInputChecks.checked; g_required := rq;
                       g_possible := map s2r Gen.RequiredFields.possible |}
  | None => None
  end.
Definition gen_ok : bool := match G_opt with Some _ => true | None => false end.
Definition G : gen :=
  match G_opt with
  | Some g => g
  | None => {| g_checked := []; g_required := []; g_possible := [] |}
  end.
Definition reserved : list str := map s2r Gen.UserInputChecks.reserved.
(* the cursor statements of shovel/task.go: code constants, parameters only *)
Definition cursor_texts : list str := map s2r Gen.UserInputChecks.task_consts.
(* what the dashboard stores and the loader reads: code constants, parameters only *)
Definition store_texts : list str := map s2r Gen.UserInputChecks.store_consts.
