(* Task layer: specification vocabulary -- ghost state, TaskInv, assumptions
   on node replies.  Definitions only (Props and functions). *)
From Coq Require Import List NArith Bool.
From Shovel Require Import Model.TaskTypes Model.TaskDb Model.Task Model.TaskNode Model.TaskSys.
Import ListNotations.
Open Scope N_scope.

(* every number handled is far below 2^63 (no uint64/int wrap in range) *)
Definition nmax : N := 2305843009213693952.   (* 2^61 *)

Definition cfg_ok (c : tcfg) : Prop :=
  1 <= t_batch c /\ 1 <= t_conc c /\ t_batch c + t_conc c < nmax
  /\ t_start c < nmax /\ t_stop c < nmax
  /\ ~ In (t_ig c) (t_deps c).            (* an integration does not reference itself *)

(* ---------- ghost: the batches whose rows are in the table ---------- *)
Notation batch := (list blk) (only parsing).
Definition bcur (c : tcfg) (b : batch) : cursor :=
  Cur (t_src c) (t_ig c) (b_num (last_blk b)) (b_hash (last_blk b)).
(* what the database holds for the task's pair, as a function of the ghost *)
Definition render (c : tcfg) (g : list batch) : db :=
  Db (map (bcur c) g) (rows_of c (concat g)).

Definition pv (c : tcfg) (d : db) : db := restrict (t_src c) (t_ig c) d.
(* everything that does NOT belong to the pair *)
Definition outside (c : tcfg) (d : db) : db :=
  Db (filter (fun x => negb (cur_of (t_src c) (t_ig c) x)) (d_curs d))
     (filter (fun x => negb (row_of (t_src c) (t_ig c) x)) (d_rows d)).

(* numbers contiguous; every served parent is the predecessor's hash (I4, I5a) *)
Definition chain_ok (l : list blk) : bool :=
  match l with [] => true | b :: r => linked_from b r end.

Definition in_range (c : tcfg) (b : blk) : Prop :=
  t_start c <= b_num b /\ (t_stop c = 0 \/ b_num b <= t_stop c) /\ b_num b < nmax.

Definition wf_ghost (c : tcfg) (g : list batch) : Prop :=
  Forall (fun b => b <> []) g
  /\ chain_ok (concat g) = true
  /\ Forall (in_range c) (concat g).

(* TaskInv: the pair's restriction is exactly the rendering of a well-formed
   ghost.  I1 (no row beyond the position, no position without rows), I2 (rows
   = projection of the indexed blocks), I3 (cursors = batch ends, newest =
   last indexed block), I4 (linked), I5 (contiguous, within [start, stop]). *)
Definition TaskInv (c : tcfg) (d : db) : Prop :=
  exists g, pv c d = render c g /\ wf_ghost c g.

(* ---------- assumptions on what the source returns ---------- *)
Fixpoint nums_from (m : N) (n : nat) : list N :=
  match n with O => [] | S k => m :: nums_from (m + 1) k end.
(* a delivered partition is numbered as requested (C07's post-condition) *)
Definition seg_numbered (p : N * N) (r : segres) : Prop :=
  match r with
  | SegOk bs => map b_num bs = nums_from (fst p) (N.to_nat (snd p))
  | SegFail _ => True
  end.
Definition reply_ok (o : io) (r : reply) : Prop :=
  match o, r with
  | RGet ps, RSegs rs => Forall2 seg_numbered ps rs
  | RLatest _, RHead n _ => n < nmax
  | _, _ => True
  end.

Definition seg_blocks (r : segres) : list blk := match r with SegOk bs => bs | SegFail _ => [] end.
Definition reply_blocks (r : reply) : list blk :=
  match r with RSegs rs => concat (map seg_blocks rs) | _ => [] end.

(* the trace of a run satisfies an assumption on (op, reply) *)
Definition trace_sat (G : io -> reply -> Prop) (x : res) : Prop :=
  Forall (fun e => G (fst (fst e)) (snd (fst e))) (r_trace x).

(* ---------- position recorded by a ghost ---------- *)
Definition gpos (g : list batch) : option (N * N) :=
  match rev g with
  | [] => None
  | b :: _ => Some (b_num (last_blk b), b_hash (last_blk b))
  end.

Fixpoint is_prefix_of {A} (a b : list A) : Prop :=
  match a, b with
  | [], _ => True
  | x :: a', y :: b' => x = y /\ is_prefix_of a' b'
  | _ :: _, [] => False
  end.

(* ---------- boolean shadows (used for concrete examples) ---------- *)
Definition in_rangeb (c : tcfg) (b : blk) : bool :=
  (t_start c <=? b_num b) && ((t_stop c =? 0) || (b_num b <=? t_stop c)) && (b_num b <? nmax).
Definition wf_ghostb (c : tcfg) (g : list batch) : bool :=
  forallb (fun b => match b with [] => false | _ => true end) g
  && chain_ok (concat g) && forallb (in_rangeb c) (concat g).
Definition cfg_okb (c : tcfg) : bool :=
  (1 <=? t_batch c) && (1 <=? t_conc c) && (t_batch c + t_conc c <? nmax)
  && (t_start c <? nmax) && (t_stop c <? nmax) && negb (existsb (N.eqb (t_ig c)) (t_deps c)).

(* ---------- blocks on a chain; growth-only answers ---------- *)
Definition vblk (hashes : bool) (x : blk) : blk := if hashes then x else strip_parent x.
(* a block "is the chain's block at its number" (as served under [hashes]) *)
Definition on_chain (hashes : bool) (ch : chain) (b : blk) : Prop :=
  exists x, blk_at ch (b_num b) = Some x /\ b = vblk hashes x.

(* growth only: every version is a prefix of [canon], so whatever version
   answers, a delivered partition is a segment of [canon], a hash answer is
   the hash of canon's block, a head answer is some block of canon *)
Definition canon_seg (hashes : bool) (canon : chain) (p : N * N) (r : segres) : Prop :=
  match r with
  | SegOk bs => fst p + snd p <= height canon /\ bs = view hashes (segment canon (fst p) (snd p))
  | SegFail _ => True
  end.
Definition growth_reply (hashes : bool) (canon : chain) (o : io) (r : reply) : Prop :=
  match o, r with
  | RGet ps, RSegs rs => Forall2 (canon_seg hashes canon) ps rs
  | RHash n, RHashV h => exists b, blk_at canon n = Some b /\ b_hash b = h
  | RLatest _, RHead n h => exists b, blk_at canon n = Some b /\ b_hash b = h
  | _, _ => True
  end.

(* TaskInv + every indexed block is canon's block *)
Definition TaskInvG (c : tcfg) (canon : chain) (d : db) : Prop :=
  exists g, pv c d = render c g /\ wf_ghost c g /\ Forall (on_chain (t_hashes c) canon) (concat g).

(* ---------- arbitrary histories (C03) ---------- *)
(* the block is the block some version has at that number *)
Definition in_history (H : list chain) (b : blk) : Prop :=
  exists ch, In ch H /\ blk_at ch (b_num b) = Some b.
Definition history_ok (H : list chain) : Prop :=
  forall ch, In ch H -> wf_chain ch /\ height ch < nmax.
(* the last indexed block of the ghost is present in EVERY version: the fork
   points of all versions lie above it *)
Definition stable (H : list chain) (p : list batch) : Prop :=
  match rev p with
  | [] => False
  | b :: _ => forall ch, In ch H -> blk_at ch (b_num (last_blk b)) = Some (last_blk b)
  end.
(* TaskInv + every indexed block is a block of some version *)
Definition TaskInvH (c : tcfg) (H : list chain) (d : db) : Prop :=
  exists g, pv c d = render c g /\ wf_ghost c g /\ Forall (in_history H) (concat g).
(* parents are the predecessors' hashes, numbers consecutive *)
Fixpoint strong_from (prev : blk) (l : list blk) : Prop :=
  match l with
  | [] => True
  | b :: r => b_num b = b_num prev + 1 /\ b_parent b = b_hash prev /\ strong_from b r
  end.
Definition strong_linked (l : list blk) : Prop :=
  match l with [] => True | b :: r => strong_from b r end.

(* ---------- sequences of steps ---------- *)
Fixpoint runs_sat (G : io -> reply -> Prop) (c : tcfg) (ss : list (list ans)) (d : db) : Prop :=
  match ss with
  | [] => True
  | s :: r => trace_sat G (step c s d) /\ runs_sat G c r (r_db (step c s d))
  end.
(* every committed database visited: after every operation of every step *)
Fixpoint run_dbs (c : tcfg) (ss : list (list ans)) (d : db) : list db :=
  match ss with
  | [] => []
  | s :: r => map snd (r_trace (step c s d)) ++ run_dbs c r (r_db (step c s d))
  end.
Definition run_end (c : tcfg) (ss : list (list ans)) (d : db) : db := fst (run_steps repaired c ss d).

(* every cursor and row of the pair lies in [start, stop] *)
Definition pair_in_range (c : tcfg) (d : db) : Prop :=
  (forall x, In x (d_curs d) -> cur_of (t_src c) (t_ig c) x = true ->
             t_start c <= c_num x /\ (t_stop c = 0 \/ c_num x <= t_stop c))
  /\ (forall r, In r (d_rows d) -> row_of (t_src c) (t_ig c) r = true ->
                t_start c <= r_bnum r /\ (t_stop c = 0 \/ r_bnum r <= t_stop c)).

Definition quiet_op (o : io) : Prop :=
  match o with Begin | QLatest _ _ | Rollback => True | _ => False end.

(* a script element that does not force a dependency reading (the reading is
   then what the committed database says at that moment) *)
Definition unforced (a : ans) : Prop := forall x, a <> AReply (RDep x).

(* ---------- interleaved runs: what the schedule may answer ---------- *)
(* the answer given to the op a task is about to issue is a possible one:
   node replies are numbered as requested (reply_ok); anything else (faults,
   forced dependency readings, crashes) is allowed *)
Definition move_ok (st : sys) (m : N * ans) : Prop :=
  snd m = ACrash \/
  forall t, In t (s_tasks st) -> t_id (ts_cfg t) = fst m ->
    match ts_prog t with
    | Some (Op i k) => reply_ok i (snd (step_op (t_uniq (ts_cfg t)) (s_db st) (ts_cs t) i (snd m)))
    | _ => True
    end.
Fixpoint sched_ok (sch : list (N * ans)) (st : sys) : Prop :=
  match sch with
  | [] => True
  | m :: r => move_ok st m /\ sched_ok r (sys_step st m)
  end.
Definition pair_of (c : tcfg) : N * N := (t_src c, t_ig c).
