(* C11: transcription of dig/dig.go  Integration.New/setCols/setIndexing,
   Insert, processLog, processTx, logWithCtx.get, dbtype, negInt.Value.

   ABI decoding (Result.Scan) is taken as given: a log record carries the rows
   its data decodes to under the event's ABI type ([l_scan]); C09/C10 are about
   that function.  Inputs are the event's top-level inputs (no tuple
   components).

   The definitions are parametrised by a [variant]: [fixed] is the code as
   repaired by fixes/C11-*.diff; a [true] flag gives back the behaviour of
   the unrepaired code (kept for the [_refuted] lemmas). *)
From Coq Require Import String Ascii List NArith ZArith Bool.
From Shovel Require Import Base.Outcome Model.Hex Model.Filter.
Import ListNotations.
Open Scope N_scope.

Record variant := {
  lg_topic : bool;    (* topic index counted over the SELECTED indexed inputs only *)
  lg_dbtype : bool;   (* array element types reach dbtype with their suffix *)
  lg_trace : bool     (* trace mode decided by the COLUMN name *)
}.
Definition fixed : variant := {| lg_topic := false; lg_dbtype := false; lg_trace := false |}.
Definition legacy : variant := {| lg_topic := true; lg_dbtype := true; lg_trace := true |}.

(* ---- declaration ---- *)
Record input := {
  i_indexed : bool;
  i_type : bytes;          (* ABI type string, e.g. "uint256", "int24", "bool[]" *)
  i_column : bytes;        (* empty: not selected *)
  i_filter : flt
}.
Record blockdata := { bd_name : bytes; bd_column : bytes; bd_filter : flt }.
Record decl := {
  d_name : bytes;
  d_inputs : list input;
  d_block : list blockdata;
  d_table_cols : list bytes;   (* names of the table's columns *)
  d_agg : bytes;               (* filter_agg as given to dig.New *)
  d_sighash : bytes
}.

Definition selected (i : input) : bool := negb (is_nil (i_column i)).
Definition empty_input : input :=
  {| i_indexed := false; i_type := []; i_column := []; i_filter := no_filter |}.
Definition empty_bd : blockdata := {| bd_name := []; bd_column := []; bd_filter := no_filter |}.

(* coldef; [cd_topic] is the field added by the repair: position of the
   input's topic in Log.Topics *)
Record coldef := { cd_input : input; cd_bd : blockdata; cd_col : bytes; cd_topic : nat }.

Definition get_col (cols : list bytes) (name : bytes) : bytes :=
  if mem name cols then name else [].

(* first loop of setCols: [nidx] = indexed inputs seen so far *)
Fixpoint input_coldefs (cols : list bytes) (ins : list input) (nidx : nat) : list coldef :=
  match ins with
  | [] => []
  | i :: r =>
      let nidx' := if i_indexed i then S nidx else nidx in
      if selected i
      then {| cd_input := i; cd_bd := empty_bd; cd_col := get_col cols (i_column i); cd_topic := nidx' |}
             :: input_coldefs cols r nidx'
      else input_coldefs cols r nidx'
  end.
Definition bd_coldef (cols : list bytes) (bd : blockdata) : coldef :=
  {| cd_input := empty_input; cd_bd := bd; cd_col := get_col cols (bd_column bd); cd_topic := O |}.
Definition coldefs (d : decl) : list coldef :=
  input_coldefs (d_table_cols d) (d_inputs d) 0 ++ map (bd_coldef (d_table_cols d)) (d_block d).
Definition copy_columns (d : decl) : list bytes := map cd_col (coldefs d).

Definition num_indexed (d : decl) : nat := length (filter i_indexed (d_inputs d)).
Definition num_selected (d : decl) : nat := length (filter selected (d_inputs d)).
Definition num_bd (d : decl) : nat := length (d_block d).
Definition trace_pfx : bytes := s2b "trace_".
Definition num_trace (vr : variant) (d : decl) : nat :=
  length (filter (fun bd => has_prefix trace_pfx
                              (if lg_trace vr then get_col (d_table_cols d) (bd_column bd) else bd_name bd))
                 (d_block d)).

Inductive mode := IxTx | IxTrace | IxLog.
Definition indexing (vr : variant) (d : decl) : mode :=
  if (0 <? num_trace vr d)%nat then IxTrace
  else if (0 <? num_selected d)%nat then IxLog
  else IxTx.

(* ---- chain items ---- *)
Record logr := {
  l_idx : N; l_addr : obytes; l_topics : list bytes; l_data : bytes;
  l_scan : outcome (list (list obytes))   (* Result.Scan(l_data) then Result.At(i), given *)
}.
Record tracer := { ta_idx : N; ta_call_type : bytes; ta_from : obytes; ta_to : obytes; ta_value : N }.
Record txr := {
  t_hash : obytes; t_idx : N; t_from : obytes; t_to : obytes; t_value : N; t_input : obytes;
  t_type : N; t_status : N; t_gas_used : N; t_gas_price : N; t_eff_gas_price : N;
  t_contract : obytes; t_max_prio : N; t_max_fee : N; t_nonce : N;
  t_logs : list logr; t_traces : list tracer
}.
Record blockr := { b_hash : obytes; b_num : N; b_time : N; b_txs : list txr }.
Record ctxr := { c_src : bytes; c_chain : N }.

(* logWithCtx *)
Record env := {
  e_ctx : ctxr; e_ig : bytes; e_b : blockr; e_t : txr;
  e_l : option logr;       (* nil outside log indexing *)
  e_ta : option tracer     (* nil outside trace indexing *)
}.

Definition fld (name : bytes) (s : string) : bool := bytes_eqb name (s2b s).

(* logWithCtx.get; a nil *Log / *TraceAction dereference is a panic *)
Definition get_field (e : env) (name : bytes) : outcome gval :=
  let lg (f : logr -> gval) := match e_l e with Some l => Ok (f l) | None => Panic end in
  let ta (f : tracer -> gval) := match e_ta e with Some a => Ok (f a) | None => Panic end in
  if fld name "src_name" then Ok (VStr (c_src (e_ctx e)))
  else if fld name "ig_name" then Ok (VStr (e_ig e))
  else if fld name "chain_id" then Ok (VU64 (c_chain (e_ctx e)))
  else if fld name "block_hash" then Ok (VBytes (b_hash (e_b e)))
  else if fld name "block_num" then Ok (VU64 (b_num (e_b e)))
  else if fld name "block_time" then Ok (VU64 (b_time (e_b e)))
  else if fld name "tx_hash" then Ok (VBytes (t_hash (e_t e)))
  else if fld name "tx_idx" then Ok (VU64 (t_idx (e_t e)))
  else if fld name "tx_signer" then Ok (VBytes (t_from (e_t e)))
  else if fld name "tx_to" then Ok (VBytes (t_to (e_t e)))
  else if fld name "tx_value" then Ok (VU256 (t_value (e_t e)))
  else if fld name "tx_input" then Ok (VBytes (t_input (e_t e)))
  else if fld name "tx_type" then Ok (VByte (t_type (e_t e)))
  else if fld name "tx_status" then Ok (VByte (t_status (e_t e)))
  else if fld name "log_idx" then lg (fun l => VU64 (l_idx l))
  else if fld name "tx_gas_used" then Ok (VU64 (t_gas_used (e_t e)))
  else if fld name "tx_gas_price" then Ok (VU256 (t_gas_price (e_t e)))
  else if fld name "tx_effective_gas_price" then Ok (VU256 (t_eff_gas_price (e_t e)))
  else if fld name "tx_contract_address" then Ok (VBytes (t_contract (e_t e)))
  else if fld name "tx_max_priority_fee_per_gas" then Ok (VU256 (t_max_prio (e_t e)))
  else if fld name "tx_max_fee_per_gas" then Ok (VU256 (t_max_fee (e_t e)))
  else if fld name "tx_nonce" then Ok (VU64 (t_nonce (e_t e)))
  else if fld name "log_addr" then lg (fun l => VBytes (l_addr l))
  else if fld name "trace_action_call_type" then ta (fun a => VStr (ta_call_type a))
  else if fld name "trace_action_idx" then ta (fun a => VU64 (ta_idx a))
  else if fld name "trace_action_from" then ta (fun a => VBytes (ta_from a))
  else if fld name "trace_action_to" then ta (fun a => VBytes (ta_to a))
  else if fld name "trace_action_value" then ta (fun a => VU256 (ta_value a))
  else Ok VNil.

(* the same table, indexed by an enumeration instead of strings (the reading
   of "a column bound to field F holds F of the enclosing item") *)
Inductive field :=
| Fsrc_name | Fig_name | Fchain_id | Fblock_hash | Fblock_num | Fblock_time
| Ftx_hash | Ftx_idx | Ftx_signer | Ftx_to | Ftx_value | Ftx_input | Ftx_type | Ftx_status
| Flog_idx | Ftx_gas_used | Ftx_gas_price | Ftx_effective_gas_price | Ftx_contract_address
| Ftx_max_priority_fee_per_gas | Ftx_max_fee_per_gas | Ftx_nonce | Flog_addr
| Ftrace_action_call_type | Ftrace_action_idx | Ftrace_action_from | Ftrace_action_to
| Ftrace_action_value.
Definition field_name (f : field) : string :=
  match f with
  | Fsrc_name => "src_name" | Fig_name => "ig_name" | Fchain_id => "chain_id"
  | Fblock_hash => "block_hash" | Fblock_num => "block_num" | Fblock_time => "block_time"
  | Ftx_hash => "tx_hash" | Ftx_idx => "tx_idx" | Ftx_signer => "tx_signer" | Ftx_to => "tx_to"
  | Ftx_value => "tx_value" | Ftx_input => "tx_input" | Ftx_type => "tx_type"
  | Ftx_status => "tx_status" | Flog_idx => "log_idx" | Ftx_gas_used => "tx_gas_used"
  | Ftx_gas_price => "tx_gas_price" | Ftx_effective_gas_price => "tx_effective_gas_price"
  | Ftx_contract_address => "tx_contract_address"
  | Ftx_max_priority_fee_per_gas => "tx_max_priority_fee_per_gas"
  | Ftx_max_fee_per_gas => "tx_max_fee_per_gas" | Ftx_nonce => "tx_nonce" | Flog_addr => "log_addr"
  | Ftrace_action_call_type => "trace_action_call_type" | Ftrace_action_idx => "trace_action_idx"
  | Ftrace_action_from => "trace_action_from" | Ftrace_action_to => "trace_action_to"
  | Ftrace_action_value => "trace_action_value"
  end.
(* field F of the enclosing block [b], transaction [t], log [l], trace action [a] *)
Definition field_of (f : field) (c : ctxr) (ig : bytes) (b : blockr) (t : txr)
           (l : option logr) (a : option tracer) : option gval :=
  match f with
  | Fsrc_name => Some (VStr (c_src c)) | Fig_name => Some (VStr ig) | Fchain_id => Some (VU64 (c_chain c))
  | Fblock_hash => Some (VBytes (b_hash b)) | Fblock_num => Some (VU64 (b_num b))
  | Fblock_time => Some (VU64 (b_time b))
  | Ftx_hash => Some (VBytes (t_hash t)) | Ftx_idx => Some (VU64 (t_idx t))
  | Ftx_signer => Some (VBytes (t_from t)) | Ftx_to => Some (VBytes (t_to t))
  | Ftx_value => Some (VU256 (t_value t)) | Ftx_input => Some (VBytes (t_input t))
  | Ftx_type => Some (VByte (t_type t)) | Ftx_status => Some (VByte (t_status t))
  | Flog_idx => option_map (fun l => VU64 (l_idx l)) l
  | Ftx_gas_used => Some (VU64 (t_gas_used t)) | Ftx_gas_price => Some (VU256 (t_gas_price t))
  | Ftx_effective_gas_price => Some (VU256 (t_eff_gas_price t))
  | Ftx_contract_address => Some (VBytes (t_contract t))
  | Ftx_max_priority_fee_per_gas => Some (VU256 (t_max_prio t))
  | Ftx_max_fee_per_gas => Some (VU256 (t_max_fee t)) | Ftx_nonce => Some (VU64 (t_nonce t))
  | Flog_addr => option_map (fun l => VBytes (l_addr l)) l
  | Ftrace_action_call_type => option_map (fun a => VStr (ta_call_type a)) a
  | Ftrace_action_idx => option_map (fun a => VU64 (ta_idx a)) a
  | Ftrace_action_from => option_map (fun a => VBytes (ta_from a)) a
  | Ftrace_action_to => option_map (fun a => VBytes (ta_to a)) a
  | Ftrace_action_value => option_map (fun a => VU256 (ta_value a)) a
  end.

(* ---- dbtype ---- *)
Fixpoint take_until (c : N) (s : bytes) : bytes :=
  match s with
  | [] => []
  | x :: r => if x =? c then [] else x :: take_until c r
  end.
Definition elem_type (ty : bytes) : bytes := take_until 91 ty.   (* up to the first '[' *)

Definition be_val (b : bytes) : N := fold_left (fun a x => a * 256 + x) b 0.
(* uint256.SetBytes: big-endian; of a longer slice the last 32 bytes *)
Definition word256 (b : bytes) : N := be_val b mod two256.

Definition dbtype (vr : variant) (ty0 : bytes) (d : obytes) : gval :=
  let ty := if lg_dbtype vr then ty0 else elem_type ty0 in
  let b := ob d in
  if has_prefix (s2b "int") ty then VNeg (word256 b)
  else if has_prefix (s2b "uint") ty then VU256 (word256 b)
  else if has_prefix (s2b "address") ty then
    (if (length b =? 32)%nat then VBytes (Some (skipn 12 b)) else VBytes d)
  else if bytes_eqb ty (s2b "bool") then VBool ((length b =? 32)%nat && (nth 31 b 0 =? 1))
  else if bytes_eqb ty (s2b "string") then VStr b
  else if bytes_eqb ty (s2b "bytes") then (if is_nil b then VBytes (Some []) else VBytes d)
  else VBytes d.

(* ---- row assembly ---- *)
Definition cd_is_bd (cd : coldef) : bool := negb (is_nil (bd_name (cd_bd cd))).

(* the coldef loop of the data branch of processLog, for decoded row [i] = [srow];
   [ictr]/[actr] are the two counters of the Go code *)
Fixpoint data_cells (vr : variant) (is_and : bool) (dbs : db) (e : env) (topics : list bytes)
         (srow : list obytes) (i : nat) (cds : list coldef) (ictr actr : nat) (fr : frs)
  : outcome (list gval * frs) :=
  match cds with
  | [] => Ok ([], fr)
  | cd :: rest =>
      if i_indexed (cd_input cd) then
        match nth_error topics (if lg_topic vr then ictr else cd_topic cd) with
        | None => Panic
        | Some tp =>
            let v := dbtype vr (i_type (cd_input cd)) (Some tp) in
            do fr' <- accept is_and dbs (i_filter (cd_input cd)) v fr;
            do r <- data_cells vr is_and dbs e topics srow i rest (S ictr) actr fr';
            Ok (v :: fst r, snd r)
        end
      else if cd_is_bd cd then
        if fld (bd_name (cd_bd cd)) "abi_idx" then
          do r <- data_cells vr is_and dbs e topics srow i rest ictr actr fr;
          Ok (VInt (Z.of_nat i) :: fst r, snd r)
        else
          do v <- get_field e (bd_name (cd_bd cd));
          do fr' <- accept is_and dbs (bd_filter (cd_bd cd)) v fr;
          do r <- data_cells vr is_and dbs e topics srow i rest ictr actr fr';
          Ok (v :: fst r, snd r)
      else
        match nth_error srow actr with
        | None => Panic
        | Some c =>
            let v := dbtype vr (i_type (cd_input cd)) c in
            do fr' <- accept is_and dbs (i_filter (cd_input cd)) v fr;
            do r <- data_cells vr is_and dbs e topics srow i rest ictr (S actr) fr';
            Ok (v :: fst r, snd r)
        end
  end.

(* the coldef loop of the no-data branch; [j] is the coldef index *)
Fixpoint nodata_cells (vr : variant) (is_and : bool) (dbs : db) (e : env) (topics : list bytes)
         (cds : list coldef) (j : nat) (fr : frs) : outcome (list gval * frs) :=
  match cds with
  | [] => Ok ([], fr)
  | cd :: rest =>
      if i_indexed (cd_input cd) then
        match nth_error topics (if lg_topic vr then S j else cd_topic cd) with
        | None => Panic
        | Some tp =>
            let v := dbtype vr (i_type (cd_input cd)) (Some tp) in
            do fr' <- accept is_and dbs (i_filter (cd_input cd)) v fr;
            do r <- nodata_cells vr is_and dbs e topics rest (S j) fr';
            Ok (v :: fst r, snd r)
        end
      else if cd_is_bd cd then
        do v <- get_field e (bd_name (cd_bd cd));
        do fr' <- accept is_and dbs (bd_filter (cd_bd cd)) v fr;
        do r <- nodata_cells vr is_and dbs e topics rest (S j) fr';
        Ok (v :: fst r, snd r)
      else Err
  end.

(* the coldef loop of processTx *)
Fixpoint tx_cells (is_and : bool) (dbs : db) (e : env) (cds : list coldef) (fr : frs)
  : outcome (list gval * frs) :=
  match cds with
  | [] => Ok ([], fr)
  | cd :: rest =>
      if cd_is_bd cd then
        do v <- get_field e (bd_name (cd_bd cd));
        do fr' <- accept is_and dbs (bd_filter (cd_bd cd)) v fr;
        do r <- tx_cells is_and dbs e rest fr';
        Ok (v :: fst r, snd r)
      else Err
  end.

Definition emit (r : list gval * frs) : list (list gval) :=
  if frs_accept (snd r) then [fst r] else [].

(* f i x for every element in order, stopping at the first error; results concatenated *)
Fixpoint concatM_i {A B} (f : nat -> A -> outcome (list B)) (i : nat) (l : list A) : outcome (list B) :=
  match l with
  | [] => Ok []
  | x :: r => do a <- f i x; do b <- concatM_i f (S i) r; Ok (a ++ b)
  end.
Definition concatM {A B} (f : A -> outcome (list B)) (l : list A) : outcome (list B) :=
  concatM_i (fun _ => f) 0 l.

(* the gate of processLog: topic count and signature hash *)
Definition gate (d : decl) (l : logr) : bool :=
  (length (l_topics l) =? S (num_indexed d))%nat
  && bytes_eqb (d_sighash d) (nth 0 (l_topics l) []).

Definition process_log (vr : variant) (d : decl) (dbs : db) (e : env) (l : logr)
  : outcome (list (list gval)) :=
  let is_and := kind_is_and (d_agg d) in
  if negb (gate d l) then Ok []
  else if negb (is_nil (l_data l)) then
    do srows <- l_scan l;
    concatM_i (fun i srow =>
                 do r <- data_cells vr is_and dbs e (l_topics l) srow i (coldefs d) 1 0 frs0;
                 Ok (emit r)) 0 srows
  else
    do r <- nodata_cells vr is_and dbs e (l_topics l) (coldefs d) 0 frs0;
    Ok (emit r).

Definition process_tx (d : decl) (dbs : db) (e : env) : outcome (list (list gval)) :=
  if (0 <? num_selected d)%nat then Ok []
  else if (0 <? num_bd d)%nat then
    do r <- tx_cells (kind_is_and (d_agg d)) dbs e (coldefs d) frs0;
    Ok (emit r)
  else Ok [].

Definition mk_env (c : ctxr) (d : decl) (b : blockr) (t : txr) (l : option logr) (a : option tracer) : env :=
  {| e_ctx := c; e_ig := d_name d; e_b := b; e_t := t; e_l := l; e_ta := a |}.

(* Integration.Insert up to the CopyFrom call: the rows handed to COPY *)
Definition insert (vr : variant) (d : decl) (c : ctxr) (dbs : db) (blocks : list blockr)
  : outcome (list (list gval)) :=
  match indexing vr d with
  | IxTx =>
      concatM (fun b => concatM (fun t => process_tx d dbs (mk_env c d b t None None)) (b_txs b)) blocks
  | IxTrace =>
      concatM (fun b => concatM (fun t =>
        concatM (fun a => process_tx d dbs (mk_env c d b t None (Some a))) (t_traces t)) (b_txs b)) blocks
  | IxLog =>
      concatM (fun b => concatM (fun t =>
        concatM (fun l => process_log vr d dbs (mk_env c d b t (Some l) None) l) (t_logs t)) (b_txs b)) blocks
  end.

Definition insert_cells (vr : variant) (d : decl) (c : ctxr) (dbs : db) (blocks : list blockr)
  : outcome (list (list cell)) :=
  do rows <- insert vr d c dbs blocks; Ok (map (map cell_of) rows).

(* ---- the reading of C11, used in the statements of Properties/C11.v ---- *)
Definition count {A} (p : A -> bool) (l : list A) : nat := length (filter p l).
Definition is_data (i : input) : bool := selected i && negb (i_indexed i).

(* ABI word of an unsigned value; of a signed value (two's complement in 256
   bits, which is how intN of every width N is encoded: sign-extended) *)
Fixpoint be_bytes (n : nat) (v : N) : bytes :=
  match n with
  | O => []
  | S k => be_bytes k (v / 256) ++ [v mod 256]
  end.
Definition word_of_N (v : N) : bytes := be_bytes 32 v.
Definition twos256 (z : Z) : N := Z.to_N (z mod Z.of_N two256).
Definition word_of_Z (z : Z) : bytes := be_bytes 32 (twos256 z).
(* the 256-bit word whose low [w] bits are the pattern [u], sign-extended *)
Definition sign_extend (w : N) (u : N) : N :=
  if u <? 2 ^ (w - 1) then u else u + (two256 - 2 ^ w).

(* value of the column bound to input [inp] (declared after the inputs [pre])
   in the row built from decoded row [srow] of a log with topics [topics] *)
Definition spec_input_cell (pre : list input) (inp : input) (topics : list bytes) (srow : list obytes)
  : option gval :=
  if i_indexed inp
  then option_map (fun tp => dbtype fixed (i_type inp) (Some tp))
                  (nth_error topics (1 + count i_indexed pre))
  else option_map (dbtype fixed (i_type inp)) (nth_error srow (count is_data pre)).

(* value of the column bound to block-data entry [bd]; [i] = index of the
   decoded row, [None] for a log without data / a transaction / a trace *)
Definition spec_block_cell (bd : blockdata) (e : env) (i : option nat) : option gval :=
  match i with
  | Some n => if fld (bd_name bd) "abi_idx" then Some (VInt (Z.of_nat n))
              else match get_field e (bd_name bd) with Ok v => Some v | _ => None end
  | None => match get_field e (bd_name bd) with Ok v => Some v | _ => None end
  end.

(* flat views of a chain *)
Definition tx_items (blocks : list blockr) : list (blockr * txr) :=
  flat_map (fun b => map (pair b) (b_txs b)) blocks.
Definition log_items (blocks : list blockr) : list (blockr * txr * logr) :=
  flat_map (fun bt => map (pair bt) (t_logs (snd bt))) (tx_items blocks).
Definition trace_items (blocks : list blockr) : list (blockr * txr * tracer) :=
  flat_map (fun bt => map (pair bt) (t_traces (snd bt))) (tx_items blocks).

(* ---- the reading of C12 at the row level ---- *)
Definition cd_indexed (cd : coldef) : bool := i_indexed (cd_input cd).
Definition cd_data (cd : coldef) : bool := negb (cd_indexed cd) && negb (cd_is_bd cd).

(* the filter a column's value is submitted to ([None]: none); in the data
   branch of processLog the abi_idx column is not filtered *)
Definition cd_filter (data_branch : bool) (cd : coldef) : option flt :=
  if cd_indexed cd then Some (i_filter (cd_input cd))
  else if cd_is_bd cd then
         (if data_branch && fld (bd_name (cd_bd cd)) "abi_idx" then None else Some (bd_filter (cd_bd cd)))
       else Some (i_filter (cd_input cd)).

Definition result_rel (dbs : db) (f : option flt) (v : gval) (r : option bool) : Prop :=
  match f with Some f => filter_result dbs f v = Ok r | None => r = None end.

(* [rs] are the decisions of the declaration's filters on the cells of one candidate row *)
Definition decisions (dbs : db) (fo : coldef -> option flt) (cds : list coldef)
           (cells : list gval) (rs : list (option bool)) : Prop :=
  length cells = length cds /\ length rs = length cds /\
  forall j cd v r, nth_error cds j = Some cd -> nth_error cells j = Some v -> nth_error rs j = Some r ->
                   result_rel dbs (fo cd) v r.

(* the whole row: every column is either the column of a selected input
   (position = number of selected inputs declared before it) or of a block-data
   entry (position = number of selected inputs + its index) *)
Definition row_spec (d : decl) (e : env) (l : logr) (io : option nat) (srow : list obytes)
           (r : list gval) : Prop :=
  length r = (num_selected d + num_bd d)%nat /\
  (forall pre inp post, d_inputs d = pre ++ inp :: post -> selected inp = true ->
     nth_error r (count selected pre) = spec_input_cell pre inp (l_topics l) srow
     /\ spec_input_cell pre inp (l_topics l) srow <> None) /\
  (forall k bd, nth_error (d_block d) k = Some bd -> bd_name bd <> [] ->
     nth_error r (num_selected d + k) = spec_block_cell bd e io
     /\ spec_block_cell bd e io <> None).

(* in row [r], the columns of the block-data entries (starting at column [off])
   hold the named fields of block [b], transaction [t], log [l], trace action [a] *)
Definition enclosing_fields (d : decl) (c : ctxr) (b : blockr) (t : txr) (l : option logr)
           (a : option tracer) (off : nat) (r : list gval) : Prop :=
  forall k bd f, nth_error (d_block d) k = Some bd -> bd_name bd = s2b (field_name f) ->
    nth_error r (off + k) = field_of f c (d_name d) b t l a
    /\ field_of f c (d_name d) b t l a <> None.

(* C11's statement about topics, for a variant of the code *)
Definition topic_statement (vr : variant) : Prop :=
  forall d dbs e l rows r pre inp post,
    process_log vr d dbs e l = Ok rows -> In r rows ->
    d_inputs d = pre ++ inp :: post -> selected inp = true -> i_indexed inp = true ->
    exists tp, nth_error (l_topics l) (1 + count i_indexed pre) = Some tp /\
               nth_error r (count selected pre) = Some (dbtype vr (i_type inp) (Some tp)).
Definition legacy_topic : variant := {| lg_topic := true; lg_dbtype := false; lg_trace := false |}.
