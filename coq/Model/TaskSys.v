(* Task layer: running a step against the world.  A script gives, for every
   operation the program issues, what the world does with it: answer
   normally, a forced reply (node answers; injected faults), or process death.
   Single-task runs ([exec], [run_steps]) and statement-level interleavings of
   several tasks ([sys_run]).  Definitions only. *)
From Coq Require Import List NArith Bool.
From Shovel Require Import Model.TaskTypes Model.TaskDb Model.Task Model.TaskNode.
Import ListNotations.
Open Scope N_scope.

Inductive ans :=
| AAuto               (* database op: the database answers; node op: error *)
| AReply (r : reply)  (* node op: the node's answer; database op: [RFail k] injects fault k;
                         QLatestDep: [RDep x] forces the dependency reading *)
| ACrash.             (* the process dies before this op is issued *)

(* an injected fault on a database op *)
Definition fault (uniq : bool) (d : db) (cs : cstate) (o : io) (k : fkind) : db * cstate * reply :=
  match k with
  | KDrop => (d, None, RFail k)
  | KDropAfter => let '(d', _, _) := db_step uniq d cs o in (d', None, RFail k)
  | _ => match o with
         | Commit | Rollback => (d, None, RFail k)   (* failed COMMIT rolls back; pgx kills the connection *)
         | _ => (d, cs, RFail k)
         end
  end.

(* The dependency reading may be FORCED: seen from one task, other sessions
   commit between its statements, so the cursors of the integrations it
   references -- which it never writes itself -- can be anything at the moment
   it reads them.  [AReply (RDep x)] on QLatestDep models exactly that. *)
Definition forced_dep (o : io) (a : ans) : option reply :=
  match a with
  | AReply (RDep x) => match o with QLatestDep _ _ => Some (RDep x) | _ => None end
  | _ => None
  end.

Definition step_op (uniq : bool) (d : db) (cs : cstate) (o : io) (a : ans) : db * cstate * reply :=
  if is_db_op o then
    match forced_dep o a with
    | Some r => (d, cs, r)
    | None =>
        match a with
        | AReply (RFail k) => fault uniq d cs o k
        | _ => db_step uniq d cs o
        end
    end
  else match a with
       | AReply r => (d, cs, r)
       | _ => (d, cs, RFail KErr)
       end.

Inductive result := Fin (o : outcome) | Crashed | Stuck.

Record res := Res {
  r_out : result;
  r_db : db;                          (* committed database at the end *)
  r_cs : cstate;                      (* open transaction at the end *)
  r_trace : list (io * reply * db)    (* every op, its reply, the committed database after it *)
}.

Fixpoint exec (uniq : bool) (p : prog) (s : list ans) (d : db) (cs : cstate) {struct s} : res :=
  match p with
  | Ret o => Res (Fin o) d cs []
  | Op i k =>
      match s with
      | [] => Res Stuck d cs []
      | ACrash :: _ => Res Crashed d None []
      | a :: s' =>
          let x := exec uniq (k (snd (step_op uniq d cs i a))) s'
                        (fst (fst (step_op uniq d cs i a))) (snd (fst (step_op uniq d cs i a))) in
          Res (r_out x) (r_db x) (r_cs x)
              ((i, snd (step_op uniq d cs i a), fst (fst (step_op uniq d cs i a))) :: r_trace x)
      end
  end.

(* one Converge call of task [c] from committed state [d] *)
Definition step_v (v : variant) (c : tcfg) (s : list ans) (d : db) : res :=
  exec (t_uniq c) (converge_v v c) s d None.
Definition step : tcfg -> list ans -> db -> res := step_v repaired.

(* consecutive calls (process death between them changes nothing: the task
   keeps no state besides its configuration) *)
Fixpoint run_steps (v : variant) (c : tcfg) (ss : list (list ans)) (d : db) : db * list result :=
  match ss with
  | [] => (d, [])
  | s :: r => let x := step_v v c s d in
              let '(d', os) := run_steps v c r (r_db x) in (d', r_out x :: os)
  end.

(* ---------- fault-free scripts against an honest node ---------- *)
(* the program is run with the database answering itself and the node
   answering from chain [ch]; structural on a fuel that bounds the number of ops *)
Fixpoint exec_honest (fuel : nat) (uniq hashes : bool) (ch : chain) (p : prog) (d : db) (cs : cstate)
  : res :=
  match fuel with
  | O => Res Stuck d cs []
  | S f =>
      match p with
      | Ret o => Res (Fin o) d cs []
      | Op i k =>
          let a := if is_db_op i then AAuto else AReply (honest hashes ch i) in
          let x := exec_honest f uniq hashes ch (k (snd (step_op uniq d cs i a)))
                               (fst (fst (step_op uniq d cs i a))) (snd (fst (step_op uniq d cs i a))) in
          Res (r_out x) (r_db x) (r_cs x)
              ((i, snd (step_op uniq d cs i a), fst (fst (step_op uniq d cs i a))) :: r_trace x)
      end
  end.

(* ---------- several tasks, interleaved at op granularity ---------- *)
(* [ts_hist]: ghost -- the operations of the current Converge call so far,
   newest first, each with the reply it got and the committed database AT THE
   MOMENT it was issued *)
Record tstate := TState { ts_cfg : tcfg; ts_prog : option prog; ts_cs : cstate;
                          ts_hist : list (io * reply * db) }.
Record sys := Sys { s_db : db; s_tasks : list tstate }.

Definition sys_init (cfgs : list tcfg) (d : db) : sys :=
  Sys d (map (fun c => TState c None None []) cfgs).

(* what task [tid] does when it is scheduled with answer [a]:
   idle -> calls Converge; returned -> becomes idle; otherwise its next op *)
Definition task_move (d : db) (a : ans) (t : tstate) : db * tstate :=
  match ts_prog t with
  | None => (d, TState (ts_cfg t) (Some (converge (ts_cfg t))) (ts_cs t) [])
  | Some (Ret _) => (d, TState (ts_cfg t) None (ts_cs t) [])
  | Some (Op i k) =>
      let '(d', cs', r) := step_op (t_uniq (ts_cfg t)) d (ts_cs t) i a in
      (d', TState (ts_cfg t) (Some (k r)) cs' ((i, r, d) :: ts_hist t))
  end.

Fixpoint move_task (tid : N) (a : ans) (d : db) (ts : list tstate) : db * list tstate :=
  match ts with
  | [] => (d, [])
  | t :: r =>
      if t_id (ts_cfg t) =? tid then let '(d', t') := task_move d a t in (d', t' :: r)
      else let '(d', r') := move_task tid a d r in (d', t :: r')
  end.

Definition crash_all (ts : list tstate) : list tstate :=
  map (fun t => TState (ts_cfg t) None None []) ts.

Definition sys_step (s : sys) (m : N * ans) : sys :=
  match snd m with
  | ACrash => Sys (s_db s) (crash_all (s_tasks s))
  | a => let '(d', ts') := move_task (fst m) a (s_db s) (s_tasks s) in Sys d' ts'
  end.

(* the schedule: which task moves, and the world's answer to its op *)
Definition sys_run (sch : list (N * ans)) (s : sys) : sys := fold_left sys_step sch s.
(* every state visited *)
Fixpoint sys_states (sch : list (N * ans)) (s : sys) : list sys :=
  match sch with
  | [] => [s]
  | m :: r => s :: sys_states r (sys_step s m)
  end.
