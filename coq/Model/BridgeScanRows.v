(* Bridge ABI decoder (C09, Model/AbiScan.v) -> unique key (C16, Model/BridgeKey.v):
   HOW MANY ROWS Result.Scan creates, as a function of the decoder type and the
   element counts the decoder reads from the log data.  Definitions only; the
   proofs are in Proofs/BridgeScanRowsP.v, the statements at the end of
   Properties/C09.v.

   Read off Model/AbiScan.v (dig.scan):
   * a row is created ([get_row] = Result.GetRow) in ONE place only: at the top
     of an iteration of the array loop, when the array's element is not itself
     an array (`if !t.hasKind('a') { r = res.GetRow() }`);
   * the array loop is not entered at all when nothing under the array is
     selected (`if !t.hasSelect() { return nil }`), and likewise a tuple none of
     whose fields has a selected leaf returns at once;
   * Result.Scan creates one row when scan created none.

   So the number of rows is a SUM along the nesting (not a product): every
   element of an array-of-non-arrays that has a selected leaf below it
   contributes 1, plus whatever the element itself contributes (a selected
   array inside a tuple that is an array element contributes its own elements
   as FURTHER rows); an array of arrays contributes only what its elements
   contribute; sibling arrays in a tuple add up.  [row_count] states this on
   the BYTES (the counts are the length words the decoder reads, at the offsets
   where it reads them), [val_rows] on a typed VALUE. *)
From Coq Require Import String List NArith ZArith Bool.
From Shovel Require Import Base.Outcome Model.Hex Model.Bint Model.AbiType Model.AbiScan Model.AbiEnc
     Model.AbiParse Model.Filter Model.Rows Model.RowsAbi Model.BridgeRowsTask Model.BridgeKey.
From Shovel Require Model.Config Model.ConfigGen.
Import ListNotations.
Open Scope N_scope.

Section Count.
  Variable D : bytes.          (* the log data *)

  (* bint.Decode of the 32 bytes at absolute offset [a] (what [word_at] returns
     when it is in range) *)
  Definition rd (a : N) : N := decode64 (firstn 32 (skipn (N.to_nat a) D)).

  (* g i + g (i+1) + ... (n terms) *)
  Fixpoint nsum (n : nat) (i : N) (g : N -> nat) : nat :=
    match n with
    | O => O
    | S n' => (g i + nsum n' (i + 1) g)%nat
    end.

  (* absolute offset of the slice scan is called on for element [i] of an array
     whose slice starts at [o]; [h] = 32 for T[] (length word first; offsets are
     relative to the byte after it), 0 for T[k] *)
  Definition elem_off (e : aty) (o h i : N) : N :=
    if is_static e then o + (h + i * size e)
    else o + (h + rd (o + (h + i * 32))).

  (* the number of elements of the array at [o] *)
  Definition arr_len (k o : N) : N := if k =? 0 then rd o else k.
  Definition arr_hd (k : N) : N := if k =? 0 then 32 else 0.

  (* rows created by [scan t _ _ o] *)
  Fixpoint row_count (t : aty) (o : N) {struct t} : nat :=
    match t with
    | TWord _ | TDyn _ => O
    | TArr k e =>
        if negb (has_select e) then O else
        nsum (N.to_nat (arr_len k o)) 0
             (fun i => Nat.add (if is_arr e then O else 1%nat) (row_count e (elem_off e o (arr_hd k) i)))
    | TTuple fs =>
        if negb (existsb has_select fs) then O else
        (fix fields (fs : list aty) (pos : N) : nat :=
           match fs with
           | [] => O
           | f :: fs' =>
               Nat.add (row_count f (if is_static f then o + pos else o + rd (o + pos)))
                       (fields fs' (pos + (if is_static f then size f else 32)))
           end) fs 0
    end.

  (* Result.Len() after a successful Result.Scan *)
  Definition scan_len (t : aty) : nat := Nat.max 1 (row_count t 0).
End Count.

(* the same count on a typed value: elements of the arrays that have a
   selected leaf below them *)
Fixpoint val_rows (t : aty) (v : aval) {struct v} : nat :=
  match t, v with
  | TArr _ e, VArr vs =>
      if has_select e then
        fold_right (fun v a => ((if is_arr e then 0 else 1) + val_rows e v + a)%nat) O vs
      else O
  | TTuple fs, VTuple vs =>
      if existsb has_select fs then
        (fix go (fs : list aty) (vs : list aval) {struct vs} : nat :=
           match vs, fs with
           | v :: vs', f :: fs' => (val_rows f v + go fs' vs')%nat
           | _, _ => O
           end) fs vs
      else O
  | _, _ => O
  end.

(* "some selected leaf lies under an array" is [negb (no_sel_arr t)] of
   Model/AbiType.v *)
Definition sel_under_arr (t : aty) : bool := negb (no_sel_arr t).

(* ---------- non-vacuity: Transfer with only the indexed inputs selected ----------
   event Transfer(address indexed from, address indexed to, uint256 value),
   columns f, t for from, to; value not selected.  The generated key has no
   abi_idx column. *)
Definition tri_ig : Config.integ :=
  {| Config.ig_name := Config.s2r "erc20i"; Config.ig_enabled := true; Config.ig_sources := [Config.s2r "main"];
     Config.ig_table := {| Config.t_name := Config.s2r "transfers";
                           Config.t_cols := [ {| Config.c_name := Config.s2r "f"; Config.c_type := Config.s2r "bytea" |};
                                              {| Config.c_name := Config.s2r "t"; Config.c_type := Config.s2r "bytea" |} ];
                           Config.t_unique := []; Config.t_index := [] |};
     Config.ig_agg := []; Config.ig_notif := []; Config.ig_block := [];
     Config.ig_inputs := [erc_cinput true "from" "f"; erc_cinput true "to" "t"; erc_cinput false "value" ""];
     Config.ig_deps := [] |}.
Definition tri_fixed : Config.integ :=
  match Config.fix_one ConfigGen.G tri_ig with Some g => g | None => Config.dummy_ig end.
Definition tri_decl : decl :=
  decl_of tri_fixed [s2b "address"; s2b "address"; s2b "uint256"] erc_sig.
Definition tri_data : bytes := word_of_N 1000.
Definition tri_log (idx : N) (data : bytes) : logr :=
  {| l_idx := idx; l_addr := Some []; l_topics := [erc_sig; erc_addr 10; erc_addr 11];
     l_data := data; l_scan := Panic |}.
Definition tri_blocks : list blockr :=
  [ {| b_hash := Some [9]; b_num := 0; b_time := 0; b_txs := [ex_tx 2 [tri_log 5 tri_data; tri_log 6 tri_data]] |} ].

(* the shape one might suspect: indexed-only selection with an UNSELECTED
   dynamic array in the data.  event E(address indexed a, uint256[] xs), only
   [a] selected; data = encoding of xs = [1; 2; 3] *)
Definition sus_ig : Config.integ :=
  {| Config.ig_name := Config.s2r "sus"; Config.ig_enabled := true; Config.ig_sources := [Config.s2r "main"];
     Config.ig_table := {| Config.t_name := Config.s2r "t";
                           Config.t_cols := [ {| Config.c_name := Config.s2r "ac"; Config.c_type := Config.s2r "bytea" |} ];
                           Config.t_unique := []; Config.t_index := [] |};
     Config.ig_agg := []; Config.ig_notif := []; Config.ig_block := [];
     Config.ig_inputs := [erc_cinput true "a" "ac"; erc_cinput false "xs" ""];
     Config.ig_deps := [] |}.
Definition sus_fixed : Config.integ :=
  match Config.fix_one ConfigGen.G sus_ig with Some g => g | None => Config.dummy_ig end.
Definition sus_decl : decl := decl_of sus_fixed [s2b "address"; s2b "uint256[]"] [7].
Definition sus_data : bytes :=
  enc (TTuple [TArr 0 (TWord None)])
      (VTuple [VArr [VWord (word_of_N 1); VWord (word_of_N 2); VWord (word_of_N 3)]]).

(* the count on nested shapes: event N(uint256[][] m, (uint256 a, uint256[] ys)[] ts, uint256[] zs)
   with the innermost words, a, ys and zs selected *)
Definition nest_t : aty :=
  TTuple [TArr 0 (TArr 0 (TWord (Some 0%nat)));
          TArr 0 (TTuple [TWord (Some 1%nat); TArr 0 (TWord (Some 2%nat))]);
          TArr 0 (TWord (Some 3%nat))].
Definition w (n : N) : aval := VWord (word_of_N n).
Definition nest_v : aval :=
  VTuple [VArr [VArr [w 1; w 2]; VArr []; VArr [w 3]];                 (* 2 + 0 + 1 = 3 rows *)
          VArr [VTuple [w 4; VArr [w 5; w 6]]; VTuple [w 7; VArr []]];  (* (1 + 2) + (1 + 0) = 4 rows *)
          VArr [w 8; w 9]].                                             (* 2 rows *)
