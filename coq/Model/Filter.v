(* C12 (and the value layer of C11): transcription of dig/dig.go
   Filter.Accept, filterResults.add/accept, and of the dynamic Go values that
   flow from dbtype / logWithCtx.get into Accept and into the COPY row.

   Strings are byte lists (ASCII); [s2b "contains"] is the byte list of a
   literal.  A nil []byte is [None], a non-nil one [Some b]. *)
From Coq Require Import String Ascii List NArith ZArith Bool.
From Shovel Require Import Base.Outcome Model.Hex.
Import ListNotations.
Open Scope N_scope.

Definition s2b (s : string) : bytes := map N_of_ascii (list_ascii_of_string s).

Definition obytes := option bytes.
Definition ob (o : obytes) : bytes := match o with Some b => b | None => [] end.

(* ---- Go values reaching Accept and the row ([any] in the Go code) ---- *)
Inductive gval :=
| VBytes (b : obytes)      (* []byte, eth.Bytes *)
| VStr (s : bytes)         (* string *)
| VU64 (n : N)             (* uint64, eth.Uint64 *)
| VU256 (n : N)            (* *uint256.Int *)
| VNeg (n : N)             (* *negInt holding the 256-bit word n *)
| VBool (b : bool)         (* bool *)
| VByte (n : N)            (* eth.Byte (tx_type, tx_status) *)
| VInt (z : Z)             (* int (abi_idx) *)
| VNil.                    (* untyped nil *)

(* what the row builder hands to COPY, canonicalised: numbers as integers
   (negInt.Value / uint256.Value give decimal strings), nil as NULL *)
Inductive cell :=
| CInt (z : Z) | CBytes (b : bytes) | CBool (b : bool) | CText (s : bytes) | CNull.

Definition two255 : N := 2 ^ 255.
Definition two256 : N := 2 ^ 256.

(* negInt.Value: Sign() < 0 iff the top bit of the 256-bit word is set; then
   "-" ++ Dec(Neg(word)) *)
Definition signed256 (n : N) : Z :=
  if n <? two255 then Z.of_N n else (Z.of_N n - Z.of_N two256)%Z.

Definition cell_of (v : gval) : cell :=
  match v with
  | VBytes (Some b) => CBytes b
  | VBytes None => CNull
  | VStr s => CText s
  | VU64 n => CInt (Z.of_N n)
  | VU256 n => CInt (Z.of_N n)
  | VNeg n => CInt (signed256 n)
  | VBool b => CBool b
  | VByte n => CInt (Z.of_N n)
  | VInt z => CInt z
  | VNil => CNull
  end.

(* ---- strings ---- *)
Fixpoint has_prefix (p s : bytes) : bool :=
  match p, s with
  | [], _ => true
  | x :: p', y :: s' => (x =? y) && has_prefix p' s'
  | _ :: _, [] => false
  end.
Definition has_suffix (p s : bytes) : bool := has_prefix (rev p) (rev s).

(* bytes.Contains: sub-slice search; the empty slice is contained in anything *)
Fixpoint contains (s sub : bytes) : bool :=
  has_prefix sub s || match s with [] => false | _ :: s' => contains s' sub end.

Definition mem (x : bytes) (l : list bytes) : bool := existsb (bytes_eqb x) l.

(* strconv.ParseUint(s, 10, 64) / uint256.SetFromDecimal on digit strings:
   non-empty, digits only, in range; anything else is an error *)
Definition dec_digits (a : bytes) : option N :=
  fold_left (fun acc c =>
               match acc with
               | None => None
               | Some n => if (48 <=? c) && (c <=? 57) then Some (n * 10 + (c - 48)) else None
               end) a (Some 0).
Definition parse_dec (bound : N) (a : bytes) : option N :=
  match a with
  | [] => None
  | _ => match dec_digits a with
         | Some n => if n <? bound then Some n else None
         | None => None
         end
  end.
Definition parse_u64 := parse_dec two64.
Definition parse_u256 := parse_dec two256.

(* ---- filters ---- *)
Record flt := {
  f_op : bytes;             (* filter_op *)
  f_args : list bytes;      (* filter_arg *)
  f_ref_ig : bytes;         (* filter_ref.integration *)
  f_ref_table : bytes;      (* filter_ref.table *)
  f_ref_col : bytes         (* filter_ref.column *)
}.
Definition no_filter : flt :=
  {| f_op := []; f_args := []; f_ref_ig := []; f_ref_table := []; f_ref_col := [] |}.

(* referenced tables: (table, column) -> the values of that column; a table the
   database does not have makes the query fail *)
Definition db := list (bytes * bytes * list bytes).
Fixpoint db_lookup (d : db) (t c : bytes) : option (list bytes) :=
  match d with
  | [] => None
  | (t', c', vs) :: r => if bytes_eqb t t' && bytes_eqb c c' then Some vs else db_lookup r t c
  end.

(* filterResults *)
Record frs := { fr_set : bool; fr_val : bool }.
Definition frs0 : frs := {| fr_set := false; fr_val := false |}.
Definition frs_add (is_and : bool) (fr : frs) (b : bool) : frs :=
  if fr_set fr
  then {| fr_set := true; fr_val := if is_and then fr_val fr && b else fr_val fr || b |}
  else {| fr_set := true; fr_val := b |}.
Definition frs_accept (fr : frs) : bool := if fr_set fr then fr_val fr else true.

(* strings.ToLower on ASCII; filterResults.add treats exactly "and" as
   conjunction, every other kind as disjunction *)
Definition lower_byte (c : N) : N := if (65 <=? c) && (c <=? 90) then c + 32 else c.
Definition to_lower (s : bytes) : bytes := map lower_byte s.
Definition kind_is_and (agg : bytes) : bool := bytes_eqb (to_lower agg) (s2b "and").

Definition op_is (f : flt) (s : string) : bool := bytes_eqb (f_op f) (s2b s).
Definition is_nil {A} (l : list A) : bool := match l with [] => true | _ => false end.

(* Filter.Accept.  [Panic] = index out of range on f.Arg[0]. *)
Definition accept (is_and : bool) (d : db) (f : flt) (v : gval) (fr : frs) : outcome frs :=
  if is_nil (f_args f) && is_nil (f_ref_ig f) then Ok fr
  else
    match v with
    | VBytes o =>
        let b := ob o in
        if has_suffix (s2b "contains") (f_op f) then
          do res <- (if negb (is_nil (f_ref_table f))
                     then match db_lookup d (f_ref_table f) (f_ref_col f) with
                          | Some vs => Ok (mem b vs)
                          | None => Err
                          end
                     else Ok (existsb (fun a => contains b (decode_hex a)) (f_args f)));
          let res := if has_prefix (s2b "!") (f_op f) then negb res else res in
          Ok (frs_add is_and (frs_add is_and fr res) res)
        else if op_is f "eq" || op_is f "ne" then
          let res := existsb (fun a => bytes_eqb b (decode_hex a)) (f_args f) in
          let res := if op_is f "ne" then negb res else res in
          Ok (frs_add is_and fr res)
        else Ok (frs_add is_and fr true)
    | VStr s =>
        if op_is f "contains" then Ok (frs_add is_and fr (mem s (f_args f)))
        else if op_is f "!contains" then Ok (frs_add is_and fr (negb (mem s (f_args f))))
        else if op_is f "eq" then
          match f_args f with [] => Panic | a :: _ => Ok (frs_add is_and fr (bytes_eqb s a)) end
        else if op_is f "ne" then
          match f_args f with [] => Panic | a :: _ => Ok (frs_add is_and fr (negb (bytes_eqb s a))) end
        else Ok fr
    | VU64 n =>
        match f_args f with
        | [] => Panic
        | a :: _ =>
            match parse_u64 a with
            | None => Err
            | Some i =>
                if op_is f "eq" then Ok (frs_add is_and fr (n =? i))
                else if op_is f "ne" then Ok (frs_add is_and fr (negb (n =? i)))
                else if op_is f "gt" then Ok (frs_add is_and fr (i <? n))
                else if op_is f "lt" then Ok (frs_add is_and fr (n <? i))
                else Ok fr
            end
        end
    | VU256 n =>
        match f_args f with
        | [] => Panic
        | a :: _ =>
            match parse_u256 a with
            | None => Err
            | Some i =>
                if op_is f "eq" then Ok (frs_add is_and fr (n =? i))
                else if op_is f "ne" then Ok (frs_add is_and fr (negb (n =? i)))
                else if op_is f "gt" then Ok (frs_add is_and fr (i <? n))
                else if op_is f "lt" then Ok (frs_add is_and fr (n <? i))
                else Ok fr
            end
        end
    | _ => Ok fr
    end.

(* ---- the reading of the property: what each filter decides ----
   [None]: this filter applies no comparison to this value. *)
Inductive vkind := KBytes | KStr | KU64 | KU256 | KOther.
Definition kind_of (v : gval) : vkind :=
  match v with
  | VBytes _ => KBytes | VStr _ => KStr | VU64 _ => KU64 | VU256 _ => KU256 | _ => KOther
  end.

(* aggregation of the per-filter decisions *)
Definition agg (is_and : bool) (rs : list bool) : bool :=
  match rs with
  | [] => true
  | _ => if is_and then forallb (fun b => b) rs else existsb (fun b => b) rs
  end.

Fixpoint somes {A} (l : list (option A)) : list A :=
  match l with
  | [] => []
  | Some x :: r => x :: somes r
  | None :: r => somes r
  end.

(* one filter on one value: the single decision Accept contributes *)
Definition filter_result (d : db) (f : flt) (v : gval) : outcome (option bool) :=
  if is_nil (f_args f) && is_nil (f_ref_ig f) then Ok None
  else
    match v with
    | VBytes o =>
        let b := ob o in
        if has_suffix (s2b "contains") (f_op f) then
          do res <- (if negb (is_nil (f_ref_table f))
                     then match db_lookup d (f_ref_table f) (f_ref_col f) with
                          | Some vs => Ok (mem b vs)
                          | None => Err
                          end
                     else Ok (existsb (fun a => contains b (decode_hex a)) (f_args f)));
          Ok (Some (if has_prefix (s2b "!") (f_op f) then negb res else res))
        else if op_is f "eq" then Ok (Some (existsb (fun a => bytes_eqb b (decode_hex a)) (f_args f)))
        else if op_is f "ne" then Ok (Some (negb (existsb (fun a => bytes_eqb b (decode_hex a)) (f_args f))))
        else Ok (Some true)
    | VStr s =>
        if op_is f "contains" then Ok (Some (mem s (f_args f)))
        else if op_is f "!contains" then Ok (Some (negb (mem s (f_args f))))
        else if op_is f "eq" then
          match f_args f with [] => Panic | a :: _ => Ok (Some (bytes_eqb s a)) end
        else if op_is f "ne" then
          match f_args f with [] => Panic | a :: _ => Ok (Some (negb (bytes_eqb s a))) end
        else Ok None
    | VU64 n =>
        match f_args f with
        | [] => Panic
        | a :: _ =>
            match parse_u64 a with
            | None => Err
            | Some i =>
                if op_is f "eq" then Ok (Some (n =? i))
                else if op_is f "ne" then Ok (Some (negb (n =? i)))
                else if op_is f "gt" then Ok (Some (i <? n))
                else if op_is f "lt" then Ok (Some (n <? i))
                else Ok None
            end
        end
    | VU256 n =>
        match f_args f with
        | [] => Panic
        | a :: _ =>
            match parse_u256 a with
            | None => Err
            | Some i =>
                if op_is f "eq" then Ok (Some (n =? i))
                else if op_is f "ne" then Ok (Some (negb (n =? i)))
                else if op_is f "gt" then Ok (Some (i <? n))
                else if op_is f "lt" then Ok (Some (n <? i))
                else Ok None
            end
        end
    | _ => Ok None
    end.
