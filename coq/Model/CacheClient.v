(* C08 x C07: the caching client over builder "client"'s model of jrpc2
   (Model/Client.v): Client.Get through bcache / hcache when the SOURCE IS
   ARBITRARY -- every call sees its own family [world] of decoded replies, of
   any of the corruption classes of C07.

   The getter of the block cache is Client.v's [fetch_blocks repaired] on
   [w_blocks], that of the header cache the same on [w_headers]; Go's
   `return blocks, validate(...)` hands the rejected blocks back with the
   error, which is the outcome [FErr] of Model/Cache.v: nothing of it is
   stored.  The attach requests ([receipts] / [logs] / [traces] of Client.v,
   repaired) run on the blocks the cache handed out, IN PLACE: when one of
   them fails half way, what it attached before stays in the shared segment.
   Client.v's functions return no state on failure, so the attach phase is
   restated here as a list of steps ([run_steps]: stop at the first step that
   fails, keep the state reached); Proofs/CacheClientP.v shows that it
   succeeds exactly when Client.v's [attach] does, with the same result.

   Definitions only. *)
From Coq Require Import List Arith NArith Bool.
From Shovel Require Import Base.Outcome Model.Cache Model.Client Model.ClientSpec.
Import ListNotations.
Open Scope N_scope.

Definition bstep := list block -> outcome (list block).
Fixpoint run_steps (st : list bstep) (bs : list block) : list block * bool :=
  match st with
  | [] => (bs, true)
  | f :: r => match f bs with Ok bs1 => run_steps r bs1 | _ => (bs, false) end
  end.

(* receipts(): one step per element of the batch *)
Fixpoint rsteps (s l : N) (i : nat) (es : list relem) : list bstep :=
  match es with
  | [] => []
  | e :: r => receipts_elem repaired s l i e :: rsteps s l (S i) r
  end.
Definition receipts_p (s l : N) (r : reply (list relem)) (bs : list block) : list block * bool :=
  match r with
  | RFail => (bs, false)
  | RBody es =>
      if existsb re_err es then (bs, false)
      else if (length es <? N.to_nat l)%nat then (bs, false)
      else run_steps (rsteps s l 0 (firstn (N.to_nat l) es)) bs
  end.

(* logs(): one step per (block, tx) group *)
Definition gsteps (gs : list (Client.key * list logr)) : list bstep :=
  map (fun kg => on_block (fst (fst kg)) (log_group repaired (snd (fst kg)) (snd kg))) gs.
Definition logs_p (s l : N) (r : reply lbatch) (bs : list block) : list block * bool :=
  match r with
  | RFail => (bs, false)
  | RBody lb =>
      if (lb_len lb <? 2)%nat then (bs, false)
      else if lb_herr lb then (bs, false)
      else if lb_lerr lb then (bs, false)
      else match lb_hdr lb with
           | None => (bs, false)
           | Some h =>
               match lb_logs lb with
               | None => (bs, false)
               | Some ls =>
                   if hdr_skew (s + l - 1) h bs then (bs, false)
                   else match logs_scan repaired s l ls with
                        | Ok ok => run_steps (gsteps (group_by (fun x => (lr_bnum x, lr_txidx x)) ok)) bs
                        | _ => (bs, false)
                        end
               end
           end
  end.

(* traces(): one step per block; a missing reply is a transport failure *)
Fixpoint tsteps (s : N) (i : nat) (n : nat) (rs : list (reply telem)) : list bstep :=
  match n with
  | O => []
  | S n' => match rs with
            | [] => [fun _ => Err]
            | r :: rest => traces_elem repaired s i r :: tsteps s (S i) n' rest
            end
  end.
Definition traces_p (s l : N) (rs : list (reply telem)) (bs : list block) : list block * bool :=
  run_steps (tsteps s 0 (N.to_nat l) rs) bs.

(* the attach phase of Get, keeping the state on failure *)
Definition attach_p (p : plan) (s l : N) (w : world) (bs : list block) : list block * bool :=
  let '(bs1, ok1) :=
    if use_receipts p then receipts_p s l (w_receipts w) bs
    else if use_logs p then logs_p s l (w_logs w) bs
    else (bs, true) in
  if ok1 then (if use_traces p then traces_p s l (w_traces w) bs1 else (bs1, true))
  else (bs1, false).

(* ---- the caching client ---- *)
Record cclient := mkCclient { cc_b : cache (list block); cc_h : cache (list block) }.
Definition new_cclient (maxreads : N) : cclient := mkCclient (empty_cache maxreads) (empty_cache maxreads).

Definition set_seg_data {D} (sid : nat) (d : D) (c : cache D) : cache D :=
  match nth_error (c_heap c) sid with
  | Some sg => mkCache (c_max c) (c_map c) (upd (c_heap c) sid (mkSeg (sg_key sg) (sg_nreads sg) (Some d)))
  | None => c
  end.

Record ccop := mkCcop {
  cc_plan : plan; cc_s : N; cc_l : N;
  cc_world : world;              (* what the source answers to the requests of THIS call *)
  cc_kept : list Cache.key       (* pruneSegments' choice *)
}.

(* what the getter of a cache returns, as Go sees it *)
Definition getter_outcome (s l : N) (r : reply (list belem)) : fetched (list block) :=
  match fetch_blocks repaired s l r with
  | Ok bs => FOk bs
  | _ => FErr None     (* the rejected blocks that may come with the error are dropped by
                          READ whatever they are: Proofs/CacheP.v, rejected_dropped *)
  end.

Definition via_cache (op : ccop) (r : reply (list belem)) (c : cache (list block))
  : option (cache (list block) * outcome (list block)) :=
  let p := cc_plan op in let s := cc_s op in let l := cc_l op in
  match lookup (s, l) (cc_kept op) c with
  | None => None
  | Some (c1, sid, _) =>
      match read_f sid (getter_outcome s l r) c1 with
      | None => None
      | Some (c2, None, _) => Some (c2, Err)
      | Some (c2, Some bs, _) =>
          let '(bs', ok) := attach_p p s l (cc_world op) bs in
          Some (set_seg_data sid bs' c2, if ok then Ok bs' else Err)
      end
  end.

Definition ccget (op : ccop) (cl : cclient) : option (cclient * outcome (list block)) :=
  let p := cc_plan op in
  if use_blocks p then
    match via_cache op (w_blocks (cc_world op)) (cc_b cl) with
    | Some (c, r) => Some (mkCclient c (cc_h cl), r)
    | None => None
    end
  else if use_headers p then
    match via_cache op (w_headers (cc_world op)) (cc_h cl) with
    | Some (c, r) => Some (mkCclient (cc_b cl) c, r)
    | None => None
    end
  else
    let '(bs', ok) := attach_p p (cc_s op) (cc_l op) (cc_world op) (numbers (cc_s op) (cc_l op)) in
    Some (cl, if ok then Ok bs' else Err).

Fixpoint ccrun (cl : cclient) (ops : list ccop) : option (cclient * list (outcome (list block))) :=
  match ops with
  | [] => Some (cl, [])
  | op :: r =>
      match ccget op cl with
      | None => None
      | Some (cl1, res) =>
          match ccrun cl1 r with
          | None => None
          | Some (cl2, outs) => Some (cl2, res :: outs)
          end
      end
  end.

(* ---- what C07 promises about a successful Get, for a result of the caching
   client: [ws] are the reply families of the calls made so far (this one
   included) ---- *)
Definition validated (op : ccop) (ws : list world) (bs : list block) : Prop :=
  let p := cc_plan op in let s := cc_s op in let l := cc_l op in let w := cc_world op in
  (* exactly the requested consecutive numbers *)
  map b_num bs = seqN s (N.to_nat l)
  (* hash-linked, every hash known, when the plan fetches headers or blocks *)
  /\ (fetches p = true -> linked bs /\ forall b, In b bs -> b_hash b <> [])
  /\ exists base,
       (* the attach requests of this call were accepted by the SAME checks as
          without a cache, and did to [base] exactly what C07 says *)
       attach repaired p s l w base = Ok bs
       /\ attach_faithful p s l w base bs
       /\ (fetches p = false -> base = numbers s l)
       (* [base] = what the segment held: header by header the blocks of a reply
          that passed blocks()/headers() validation, in this call or an earlier one *)
       /\ (fetches p = true ->
             exists w0 fb, In w0 ws
               /\ fetch_blocks repaired s l (block_reply p w0) = Ok fb
               /\ blocks_reply_ok s l (block_reply p w0) fb
               /\ map hdr base = map hdr fb).

Fixpoint prefixes {A} (l : list A) : list (list A) :=
  match l with
  | [] => []
  | x :: r => [x] :: map (cons x) (prefixes r)
  end.
