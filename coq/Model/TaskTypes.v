(* Task layer (C01..C06): data shared by the model, the theorems and the case
   format.  Definitions only.  Every name, table, hash and row content is a
   small integer id chosen by the harness; hash id 0 is the EMPTY hash (a NULL
   / zero-length bytea, a header that was not fetched). *)
From Coq Require Import List NArith Bool.
Import ListNotations.
Open Scope N_scope.

(* one row of shovel.task_updates, reduced to the columns the code reads *)
Record cursor := Cur { c_src : N; c_ig : N; c_num : N; c_hash : N }.

(* one row of an integration table.  [r_key] identifies the row inside its
   block under the table's unique index (tx_idx/log_idx/abi_idx...), [r_val]
   identifies its remaining content. *)
Record trow := Row { r_tbl : N; r_src : N; r_ig : N; r_bnum : N; r_key : N; r_val : N }.

(* committed database; both lists are multisets (order irrelevant, duplicates visible) *)
Record db := Db { d_curs : list cursor; d_rows : list trow }.

(* a block as Source.Get returned it to ONE task: number, hash, parent hash
   (0 when the plan fetched no header), and the (key, val) pairs of the rows
   this task's integration derives from it *)
Record blk := Blk { b_num : N; b_hash : N; b_parent : N; b_rows : list (N * N) }.

(* task configuration: what NewTask was given *)
Record tcfg := Task {
  t_id : N;            (* task / connection id used in traces *)
  t_src : N; t_ig : N; t_tbl : N;
  t_start : N; t_stop : N;
  t_batch : N; t_conc : N;          (* both >= 1 after NewTask *)
  t_deps : list N;                  (* destConfig.Dependencies, as given (duplicates possible) *)
  t_hashes : bool;                  (* the plan contains block headers (parents are served) *)
  t_uniq : bool                     (* the table carries the generated unique index *)
}.

Inductive outcome :=
| OConverged | ONothingNew | ODone | OAhead | OReorgLimit | OFailed | OPanicked.

(* why an operation failed, as the implementation saw it *)
Inductive fkind :=
| KErr        (* error reply (injected, or any server / node error); the op had no effect *)
| KDrop       (* the connection was lost before the op took effect *)
| KDropAfter  (* the op took effect, the connection was lost before the reply *)
| KUnique     (* unique-index violation raised by the database itself *)
| KPanic.     (* the call panicked inside the source (nil dereference ...) *)

(* result of one partition of a load *)
Inductive segres := SegOk (bs : list blk) | SegFail (k : fkind).

Inductive io :=
| Begin | Commit | Rollback
| QLatest (src ig : N)                   (* newest cursor of the pair *)
| QLatestDep (src : N) (deps : list N)   (* the dependency CTE *)
| DelCursors (src ig n : N)              (* delete from task_updates where ... num >= n *)
| QPrev (src ig : N)                     (* the select inside Task.Delete *)
| DelRows (tbl src ig n : N)             (* delete from <tbl> where ... block_num >= n *)
| CopyRows (tbl : N) (rows : list trow)  (* one COPY per insert, possibly of no rows *)
| InsCursor (c : cursor) (tnum thash nblocks : N)   (* src_num, src_hash, nblocks as written *)
| QRef (tbl col v : N)                   (* select true from <tbl> where <col> = v *)
| RLatest (n : N)                        (* Source.Latest(n) *)
| RHash (n : N)                          (* Source.Hash(n) *)
| RGet (parts : list (N * N)).           (* ONE op per load: (start, limit) of every partition, by start *)

Inductive reply :=
| RUnit
| RCount (n : N)                         (* rows affected (DelCursors, DelRows, CopyRows) *)
| RFail (k : fkind)
| RCur (o : option (N * N))              (* QLatest: (num, hash) *)
| RDep (o : option (N * N * N))          (* QLatestDep: (num, hash, number of rows of the CTE) *)
| RNum (o : option N)                    (* QPrev *)
| RBool (b : bool)                       (* QRef *)
| RHead (n h : N)                        (* RLatest *)
| RHashV (h : N)                         (* RHash *)
| RSegs (l : list segres).               (* RGet: one result per partition, same order *)

(* a step as an interaction tree *)
Inductive prog := Ret (o : outcome) | Op (i : io) (k : reply -> prog).

(* ---------- decidable equalities (used by conformance) ---------- *)
Fixpoint leqb {A} (e : A -> A -> bool) (a b : list A) : bool :=
  match a, b with
  | [], [] => true
  | x :: a', y :: b' => e x y && leqb e a' b'
  | _, _ => false
  end.
Definition pair_eqb (a b : N * N) : bool := (fst a =? fst b) && (snd a =? snd b).
Definition cursor_eqb (a b : cursor) : bool :=
  (c_src a =? c_src b) && (c_ig a =? c_ig b) && (c_num a =? c_num b) && (c_hash a =? c_hash b).
Definition trow_eqb (a b : trow) : bool :=
  (r_tbl a =? r_tbl b) && (r_src a =? r_src b) && (r_ig a =? r_ig b) &&
  (r_bnum a =? r_bnum b) && (r_key a =? r_key b) && (r_val a =? r_val b).
Definition blk_eqb (a b : blk) : bool :=
  (b_num a =? b_num b) && (b_hash a =? b_hash b) && (b_parent a =? b_parent b) &&
  leqb pair_eqb (b_rows a) (b_rows b).
Definition outcome_eqb (a b : outcome) : bool :=
  match a, b with
  | OConverged, OConverged | ONothingNew, ONothingNew | ODone, ODone | OAhead, OAhead
  | OReorgLimit, OReorgLimit | OFailed, OFailed | OPanicked, OPanicked => true
  | _, _ => false
  end.
Definition io_eqb (a b : io) : bool :=
  match a, b with
  | Begin, Begin | Commit, Commit | Rollback, Rollback => true
  | QLatest s i, QLatest s' i' => (s =? s') && (i =? i')
  | QLatestDep s d, QLatestDep s' d' => (s =? s') && leqb N.eqb d d'
  | DelCursors s i n, DelCursors s' i' n' => (s =? s') && (i =? i') && (n =? n')
  | QPrev s i, QPrev s' i' => (s =? s') && (i =? i')
  | DelRows t s i n, DelRows t' s' i' n' => (t =? t') && (s =? s') && (i =? i') && (n =? n')
  | CopyRows t r, CopyRows t' r' => (t =? t') && leqb trow_eqb r r'
  | InsCursor c a b n, InsCursor c' a' b' n' => cursor_eqb c c' && (a =? a') && (b =? b') && (n =? n')
  | QRef t c v, QRef t' c' v' => (t =? t') && (c =? c') && (v =? v')
  | RLatest n, RLatest n' => n =? n'
  | RHash n, RHash n' => n =? n'
  | RGet p, RGet p' => leqb pair_eqb p p'
  | _, _ => false
  end.
