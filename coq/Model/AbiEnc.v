(* C09: an independent specification of the Solidity ABI encoding (head/tail
   layout, https://docs.soliditylang.org/en/latest/abi-spec.html) over typed
   values, and the row rule of the decoder stated on VALUES (not on bytes).
   Nothing here is derived from dig.scan: dynamic-ness is Solidity's own
   definition ([dyn_ty]), head sizes are the lengths of the encodings. *)
From Coq Require Import List NArith Bool.
From Shovel Require Import Base.Outcome Model.Hex Model.Bint Model.AbiType Model.AbiScan.
Import ListNotations.
Open Scope N_scope.

Inductive aval :=
| VWord (w : bytes)            (* the 32-byte word of a static elementary value *)
| VBytes (b : bytes)           (* bytes / string contents *)
| VArr (vs : list aval)
| VTuple (vs : list aval).

(* Solidity: bytes, string, T[], T[k] with T dynamic, tuples with a dynamic component *)
Fixpoint dyn_ty (t : aty) : bool :=
  match t with
  | TWord _ => false
  | TDyn _ => true
  | TArr k e => (k =? 0) || dyn_ty e
  | TTuple fs => existsb dyn_ty fs
  end.

Inductive has_type : aty -> aval -> Prop :=
| HT_word s w : length w = 32%nat -> has_type (TWord s) (VWord w)
| HT_dyn s b : has_type (TDyn s) (VBytes b)
| HT_arr k e vs : (k = 0 \/ N.of_nat (length vs) = k) -> Forall (has_type e) vs -> has_type (TArr k e) (VArr vs)
| HT_tuple fs vs : Forall2 has_type fs vs -> has_type (TTuple fs) (VTuple vs).

Fixpoint has_typeb (t : aty) (v : aval) {struct v} : bool :=
  match t, v with
  | TWord _, VWord w => Nat.eqb (length w) 32
  | TDyn _, VBytes _ => true
  | TArr k e, VArr vs => ((k =? 0) || (N.of_nat (length vs) =? k)) && forallb (has_typeb e) vs
  | TTuple fs, VTuple vs =>
      (fix go (fs : list aty) (vs : list aval) {struct vs} : bool :=
         match vs, fs with
         | [], [] => true
         | v :: vs', f :: fs' => has_typeb f v && go fs' vs'
         | _, _ => false
         end) fs vs
  | _, _ => false
  end.

Definition blen (b : bytes) : N := N.of_nat (length b).
Definition word32 (n : N) : bytes := be 32 n.
Definition pad32 (b : bytes) : bytes := b ++ repeat 0 (N.to_nat ((32 - blen b mod 32) mod 32)).

(* enc(X1..Xk) = head(X1) .. head(Xk) tail(X1) .. tail(Xk); a member is
   (dynamic?, its encoding) *)
Definition member := (bool * bytes)%type.
Definition hsz (m : member) : N := if fst m then 32 else blen (snd m).
Definition hsum (ms : list member) : N := fold_right (fun m a => hsz m + a) 0 ms.
Fixpoint heads (ms : list member) (off : N) : bytes :=
  match ms with
  | [] => []
  | (false, e) :: r => e ++ heads r off
  | (true, e) :: r => word32 off ++ heads r (off + blen e)
  end.
Fixpoint tails (ms : list member) : bytes :=
  match ms with
  | [] => []
  | (false, _) :: r => tails r
  | (true, e) :: r => e ++ tails r
  end.
Definition enc_seq (ms : list member) : bytes := heads ms (hsum ms) ++ tails ms.

Fixpoint enc (t : aty) (v : aval) {struct v} : bytes :=
  match t, v with
  | TWord _, VWord w => w
  | TDyn _, VBytes b => word32 (blen b) ++ pad32 b
  | TArr k e, VArr vs =>
      (if k =? 0 then word32 (N.of_nat (length vs)) else []) ++ enc_seq (map (fun v => (dyn_ty e, enc e v)) vs)
  | TTuple fs, VTuple vs =>
      enc_seq ((fix go (fs : list aty) (vs : list aval) {struct vs} : list member :=
                  match vs, fs with
                  | v :: vs', f :: fs' => (dyn_ty f, enc f v) :: go fs' vs'
                  | _, _ => []
                  end) fs vs)
  | _, _ => []
  end.

(* ---- the row rule on values ------------------------------------------------ *)
Definition cells := list (nat * bytes).          (* (column, bytes) *)

(* the selected leaves of a value that are not inside an array; an empty
   bytes/string value leaves its cell empty *)
Fixpoint leaf_cells (t : aty) (v : aval) {struct v} : cells :=
  match t, v with
  | TWord (Some p), VWord w => [(p, w)]
  | TDyn (Some p), VBytes b => match b with [] => [] | _ => [(p, b)] end
  | TTuple fs, VTuple vs =>
      (fix go (fs : list aty) (vs : list aval) {struct vs} : cells :=
         match vs, fs with
         | v :: vs', f :: fs' => leaf_cells f v ++ go fs' vs'
         | _, _ => []
         end) fs vs
  | _, _ => []
  end.

(* one entry per element of each selected innermost array, in order *)
Fixpoint elem_rows (t : aty) (v : aval) {struct v} : list cells :=
  match t, v with
  | TArr _ e, VArr vs =>
      if has_select e then
        if is_arr e then flat_map (elem_rows e) vs else map (leaf_cells e) vs
      else []
  | TTuple fs, VTuple vs =>
      (fix go (fs : list aty) (vs : list aval) {struct vs} : list cells :=
         match vs, fs with
         | v :: vs', f :: fs' => elem_rows f v ++ go fs' vs'
         | _, _ => []
         end) fs vs
  | _, _ => []
  end.

Definition vrowT := list (option bytes).
Definition wr (cs : cells) (r : vrowT) : vrowT :=
  fold_left (fun r pc => set_nth (fst pc) (Some (snd pc)) r) cs r.
Definition mkrow (ncols : nat) (cs : cells) : vrowT := wr cs (repeat None ncols).
Fixpoint overlayv (sg r : vrowT) : vrowT :=
  match sg, r with
  | x :: sg', y :: r' => (match x with Some _ => x | None => y end) :: overlayv sg' r'
  | _, _ => r
  end.

(* scalars once (broadcast into every row), one row per array element; no
   array element at all: one row holding the scalars *)
Definition rows_spec (ncols : nat) (t : aty) (v : aval) : list vrowT :=
  let sg := mkrow ncols (leaf_cells t v) in
  let rs := match elem_rows t v with [] => [[]] | l => l end in
  map (fun cs => overlayv sg (mkrow ncols cs)) rs.
