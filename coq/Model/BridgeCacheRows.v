(* Bridge cached client -> row builder: vocabulary (definitions only).

   The cache->task bridge (Model/BridgeCacheTask.v) proves [growth_reply] for
   loads answered through the segment cache under two premises it could not
   discharge: an invariant [J] of cached segment contents that every call
   keeps ([op_keeps J op]) and the rows premise [rows_canon rowsf cch J op].
   Here:
   * [attach_on cch want s l w]: the node is honest about ITEMS too: the
     transactions carried by a blocks reply, every receipt, every log of an
     eth_getLogs reply and every trace of a trace_block reply that the family
     [w] contains is an item of canon's block of the number the item names
     (soundness, [items_on]), and the receipts / logs replies of THIS request
     (s, l) are complete ([items_all]): a receipt for every canon
     transaction, and every canon log that passes the request's filter
     [want] (an eth_getLogs reply may carry ANY further canon logs);
   * [Jit cch]: the invariant: numbered, every hash known, and every block's
     header payload and every attached transaction / log / trace is canon's
     ([blk_sub]): a transaction's fields are unwritten or canon's, its logs
     are canon logs of that transaction WITHOUT DUPLICATE INDEX -- in ARRIVAL
     order, not index order: Logs.Add appends;
   * [log_view keep b]: what of a delivered block a log-indexing integration
     may depend on: the header, and per transaction (index, hash) the logs
     that pass [keep], transactions and logs in index order, transactions
     without such a log dropped;  [view_rowsf keep F := F o log_view keep] is
     a row function "of the block's attached items restricted to those
     passing the declaration's gate";
   * [c11_rowsf]: C11's keyed builder ([BridgeRowsTask.rowsf_of]) run on the
     view, through any item-wise reading [reader] of the client model's
     opaque payloads as Rows-level items. *)
From Coq Require Import List NArith Bool.
From Shovel Require Import Base.Outcome.
From Shovel Require Model.Cache Model.Client Model.ClientSpec Model.CacheClient Model.BridgeCacheTask
  Proofs.BridgeClientTaskP.
From Shovel Require Model.Rows Model.Pushdown Model.BridgeGateRows Model.BridgeRowsTask.
From Shovel Require Import Model.TaskTypes Model.TaskSpec.
Import ListNotations.
Open Scope N_scope.

Module CR.
Import Client ClientSpec CacheClient BridgeCacheTask.

(* ---------- canon's items ---------- *)
(* every field of [t] that has been written is [ct]'s *)
Definition tx_part (ct t : tx) : Prop :=
  (t_tft t = [] \/ t_tft t = t_tft ct)
  /\ (t_body t = [] \/ t_body t = t_body ct)
  /\ (t_rcpt t = [] \/ t_rcpt t = t_rcpt ct)
  /\ NoDup (map l_idx (t_logs t)) /\ incl (t_logs t) (t_logs ct)
  /\ (t_traces t = [] \/ t_traces t = t_traces ct).
Definition tx_sub (ct t : tx) : Prop :=
  t_idx t = t_idx ct /\ t_hash t = t_hash ct /\ tx_part ct t.
Definition txs_sub (ctxs txs : list tx) : Prop :=
  NoDup (map t_idx txs) /\ forall t, In t txs -> exists ct, In ct ctxs /\ tx_sub ct t.
(* the block is a partial copy of canon's block of its own number *)
Definition blk_sub (cch : list block) (b : block) : Prop :=
  exists cb, nth_error cch (N.to_nat (b_num b)) = Some cb
    /\ b_hpl b = b_hpl cb /\ txs_sub (b_txs cb) (b_txs b).

(* canon's blocks as a node serves them: distinct transaction indices, per
   transaction distinct log indices, trace actions numbered by position *)
Definition citems_wf (cch : list block) : Prop :=
  forall cb, In cb cch ->
    NoDup (map t_idx (b_txs cb))
    /\ forall ct, In ct (b_txs cb) ->
         NoDup (map l_idx (t_logs ct)) /\ t_traces ct = number_from 0 (map ta_pl (t_traces ct)).

(* the invariant of cached segment contents *)
Definition Jit (cch : list block) (s l : N) (bs : list block) : Prop :=
  numbered s bs /\ length bs = N.to_nat l /\ (forall b, In b bs -> b_hash b <> [])
  /\ Forall (blk_sub cch) bs.

(* ---------- the node is honest about items ---------- *)
(* blocks / headers replies: every block with a hash carries canon's header
   payload and only (partial copies of) canon's transactions *)
Definition blocks_items (cch : list block) (r : reply (list belem)) : Prop :=
  forall es e b, r = RBody es -> In e es -> be_res e = Some b -> b_hash b <> [] -> blk_sub cch b.

(* a receipt is the receipt of a canon transaction of the block it names *)
Definition rcpt_on (cch : list block) (r : rcpt) : Prop :=
  exists cb ct, nth_error cch (N.to_nat (r_bnum r)) = Some cb /\ In ct (b_txs cb)
    /\ r_txidx r = t_idx ct /\ r_txhash r = t_hash ct /\ r_tft r = t_tft ct
    /\ r_pl r = t_rcpt ct /\ r_logs r = t_logs ct.
(* a log result is a log of a canon transaction of the block it names *)
Definition logr_on (cch : list block) (x : logr) : Prop :=
  exists cb ct, nth_error cch (N.to_nat (lr_bnum x)) = Some cb /\ In ct (b_txs cb)
    /\ lr_txidx x = t_idx ct /\ lr_txhash x = t_hash ct /\ In (lr_log x) (t_logs ct).
(* a trace of a trace_block reply [ts] names a canon transaction of the block
   it names, and the traces of [ts] naming that transaction are, in order,
   canon's trace actions of it *)
Definition tracer_on (cch : list block) (ts : list tracer) (x : tracer) : Prop :=
  exists cb ct, nth_error cch (N.to_nat (tr_bnum x)) = Some cb /\ In ct (b_txs cb)
    /\ tr_txidx x = t_idx ct /\ tr_txhash x = t_hash ct
    /\ map tr_pl (filter (fun y => tr_txidx y =? t_idx ct) ts) = map ta_pl (t_traces ct).

(* soundness: whatever of [w] the client may look at names canon's items.
   Nothing about failures, error elements, nulls, short batches, block hashes
   of items (the client checks them against the header it holds). *)
Definition items_on (cch : list block) (w : world) : Prop :=
  blocks_items cch (w_blocks w) /\ blocks_items cch (w_headers w)
  /\ (forall es e rs r, w_receipts w = RBody es -> In e es -> re_res e = Some rs -> In r rs -> rcpt_on cch r)
  /\ (forall lb ls x, w_logs w = RBody lb -> lb_logs lb = Some ls -> In (Some x) ls -> logr_on cch x)
  /\ (forall e ts x, In (RBody e) (w_traces w) -> te_res e = Some ts -> In x ts -> tracer_on cch ts x).

(* completeness, for the request (s, l) with log filter [want] *)
Definition items_all (cch : list block) (want : log -> bool) (s l : N) (w : world) : Prop :=
  (forall es i e rs cb ct, w_receipts w = RBody es -> (i < N.to_nat l)%nat -> nth_error es i = Some e ->
     re_res e = Some rs -> nth_error cch (N.to_nat s + i) = Some cb -> In ct (b_txs cb) ->
     exists r, In r rs /\ r_txidx r = t_idx ct)
  /\ (forall lb ls n cb ct lg, w_logs w = RBody lb -> lb_logs lb = Some ls ->
        s <= n < s + l -> nth_error cch (N.to_nat n) = Some cb -> In ct (b_txs cb) -> In lg (t_logs ct) ->
        want lg = true ->
        exists x, In (Some x) ls /\ lr_bnum x = n /\ lr_txidx x = t_idx ct /\ lr_log x = lg).

Definition attach_on (cch : list block) (want : log -> bool) (s l : N) (w : world) : Prop :=
  items_on cch w /\ items_all cch want s l w.

(* ---------- the view of a log-indexing integration ---------- *)
Fixpoint ins_by {A} (key : A -> N) (x : A) (l : list A) : list A :=
  match l with
  | [] => [x]
  | y :: r => if key x <=? key y then x :: y :: r else y :: ins_by key x r
  end.
Definition sort_by {A} (key : A -> N) (l : list A) : list A := fold_right (ins_by key) [] l.

Definition vtx (keep : log -> bool) (t : tx) : tx :=
  mkTx (t_idx t) (t_hash t) [] [] [] (sort_by l_idx (filter keep (t_logs t))) [].
Definition vtxs (keep : log -> bool) (txs : list tx) : list tx :=
  sort_by t_idx (filter (fun t => negb (is_nil (t_logs t))) (map (vtx keep) txs)).
Definition log_view (keep : log -> bool) (b : block) : block := with_txs b (vtxs keep (b_txs b)).
Definition view_rowsf (keep : log -> bool) (F : block -> list (N * N)) : block -> list (N * N) :=
  fun b => F (log_view keep b).

(* what a J-block of canon block [cb] looks like after an accepted honest
   attach whose filter covers [keep] *)
Definition served (keep : log -> bool) (cb b : block) : Prop :=
  hdr b = hdr cb /\ txs_sub (b_txs cb) (b_txs b)
  /\ forall ct lg, In ct (b_txs cb) -> In lg (t_logs ct) -> keep lg = true ->
       exists t, In t (b_txs b) /\ t_idx t = t_idx ct /\ In lg (t_logs t).

(* a partition of a load answered through the caches by an HONEST NODE: every
   call of that client's history is answered from a prefix version of canon
   ([world_on]) with canon's items ([attach_on], [wantf o] = the log filter
   call [o] sent); the integration's rows depend on the logs passing [keep]
   only, and its own request's filter accepts every such log *)
Definition honest_cache_answer (hid : bytes -> N) (keep : log -> bool) (F : block -> list (N * N))
           (cch : list block) (wantf : ccop -> log -> bool) (pr : N * N) (r : segres) : Prop :=
  match r with
  | SegFail _ => True
  | SegOk xs => exists mx ops i op bs,
      Forall (fun o => world_on cch (cc_world o)
                       /\ attach_on cch (wantf o) (cc_s o) (cc_l o) (cc_world o)) ops
      /\ (forall lg, keep lg = true -> wantf op lg = true)
      /\ use_receipts (cc_plan op) || use_logs (cc_plan op) = true
      /\ cached_result mx ops i op bs
      /\ fetches (cc_plan op) = true
      /\ cc_s op = fst pr /\ cc_l op = snd pr
      /\ xs = map (BridgeClientTaskP.abs hid (view_rowsf keep F)) bs
  end.

(* the statement for a RAW row function (any function of the delivered block
   as it is): false -- Proofs/BridgeCacheRowsP.v, [raw_rows_refuted] *)
Definition rows_canon_raw_full : Prop :=
  forall (F : block -> list (N * N)) cch want op,
    citems_wf cch -> attach_on cch want (cc_s op) (cc_l op) (cc_world op) ->
    use_receipts (cc_plan op) || use_logs (cc_plan op) = true ->
    rows_canon F cch (Jit cch) op.

(* the statement WITHOUT the filter condition [keep -> want]: false --
   Proofs/BridgeCacheRowsP.v, [filter_cover_needed] *)
Definition rows_canon_any_keep_full : Prop :=
  forall keep want (F : block -> list (N * N)) cch op,
    citems_wf cch -> attach_on cch want (cc_s op) (cc_l op) (cc_world op) ->
    use_receipts (cc_plan op) || use_logs (cc_plan op) = true ->
    rows_canon (view_rowsf keep F) cch (Jit cch) op.
End CR.

(* ================================================================== *)
(* C11's builder on the view                                           *)
(* ================================================================== *)
Module C11V.
(* an item-wise reading of the client model's opaque payloads *)
Record reader := mkReader {
  rd_log : Client.log -> Rows.logr;
  (* scalar fields of a transaction from (index, hash, type/from/to, body,
     receipt payload, traces); the [t_logs] of the result are not used *)
  rd_tx : N -> bytes -> Client.payload -> Client.payload -> Client.payload -> list Client.trace -> Rows.txr;
  rd_time : Client.payload -> N }.

Definition conv_tx (rd : reader) (t : Client.tx) : Rows.txr :=
  Pushdown.tx_with_logs
    (rd_tx rd (Client.t_idx t) (Client.t_hash t) (Client.t_tft t) (Client.t_body t) (Client.t_rcpt t)
           (Client.t_traces t))
    (map (rd_log rd) (Client.t_logs t)).
Definition conv (rd : reader) (b : Client.block) : Rows.blockr :=
  {| Rows.b_hash := Some (Client.b_hash b); Rows.b_num := Client.b_num b;
     Rows.b_time := rd_time rd (Client.b_hpl b); Rows.b_txs := map (conv_tx rd) (Client.b_txs b) |}.

(* erase, at the client level, every log failing [keep] (nothing else) *)
Definition restrict_tx (keep : Client.log -> bool) (t : Client.tx) : Client.tx :=
  Client.mkTx (Client.t_idx t) (Client.t_hash t) (Client.t_tft t) (Client.t_body t) (Client.t_rcpt t)
              (filter keep (Client.t_logs t)) (Client.t_traces t).
Definition restrict (keep : Client.log -> bool) (b : Client.block) : Client.block :=
  Client.with_txs b (map (restrict_tx keep) (Client.b_txs b)).

(* the gate of the declared event / the restrictions Filter() pushes down,
   on client-level logs *)
Definition gate_keep (rd : reader) (ed : BridgeGateRows.evdecl) (lg : Client.log) : bool :=
  BridgeGateRows.is_declared_log (BridgeGateRows.ed_event ed) (BridgeGateRows.ed_js ed) (rd_log rd lg).
Definition push_keep (rd : reader) (d : Rows.decl) (lg : Client.log) : bool :=
  Pushdown.node_pass (Pushdown.push_addrs d) (Pushdown.push_topics d) (rd_log rd lg).

(* C11's keyed builder (the row function of the rows->task bridge) on the view *)
Definition c11_rowsf (rd : reader) (d : Rows.decl) (c : Rows.ctxr) (dbs : Filter.db) (keep : Client.log -> bool)
  : Client.block -> list (N * N) :=
  CR.view_rowsf keep (BridgeRowsTask.rowsf_of (conv rd) d c dbs).

(* the LITERAL instantiation: the builder on the delivered block as it is.
   Not proved: Insert's rows on a block whose transactions / logs are
   permuted are the same rows PERMUTED, so list equality with canon's rows
   needs an order-insensitive comparison of [b_rows] at the task level. *)
Definition cached_rows_c11_literal_full : Prop :=
  forall rd ed c dbs cch op,
    CR.citems_wf cch ->
    CR.attach_on cch (gate_keep rd ed) (CacheClient.cc_s op) (CacheClient.cc_l op) (CacheClient.cc_world op) ->
    Client.use_receipts (CacheClient.cc_plan op) || Client.use_logs (CacheClient.cc_plan op) = true ->
    BridgeCacheTask.rows_canon (BridgeRowsTask.rowsf_of (conv rd) (BridgeGateRows.decl_of ed) c dbs)
                               cch (CR.Jit cch) op.
End C11V.

(* ---------- concrete instance for the non-vacuity example ---------- *)
Module EX.
Import Client CacheClient BridgeCacheTask.
(* plan headers + eth_getLogs; canon = BridgeCacheTask.ex_cch: block 2 has one
   transaction (index 0, hash [100]) with logs 0 (payload [7]) and 1 ([8]).
   Integration A indexes the logs with payload 7, integration B those with
   payload 8; each one's eth_getLogs carries its own filter. *)
Definition plan_hl : plan := mkPlan true false false true false.
Definition keepA (lg : log) : bool := hd 0 (l_pl lg) =? 7.
Definition keepB (lg : log) : bool := hd 0 (l_pl lg) =? 8.
Definition logs_reply (ls : list log) : reply lbatch :=
  RBody (mkLbatch 2 false (Some [12]) false (Some (map (fun lg => Some (mkLogr 2 [12] 0 [100] lg)) ls))).
(* B reads first (node at height 3), A second (height 4): A is served B's
   cached segment, its block 2 already carrying B's log 1 *)
Definition opB : ccop :=
  mkCcop plan_hl 1 2 (mkWorld RFail (hdr_reply (firstn 3 ex_cch) 1 2) RFail (logs_reply [mkLog 1 [8]]) []) [].
Definition opA : ccop :=
  mkCcop plan_hl 1 2 (mkWorld RFail RFail RFail (logs_reply [mkLog 0 [7]]) []) [].
Definition ex_wantf (o : ccop) : log -> bool :=
  match w_logs (cc_world o) with
  | RBody lb => match lb_logs lb with
                | Some (Some x :: _) => if l_idx (lr_log x) =? 1 then keepB else keepA
                | _ => keepA
                end
  | _ => keepA
  end.
(* the base of the refutation witness: block 2 as B left it *)
Definition raw_base : list block :=
  [xb 1 11 10 []; xb 2 12 11 [mkTx 0 [100] [] [] [] [mkLog 1 [8]] []]].
(* ... and a segment holding the headers only *)
Definition hdr_base : list block := [xb 1 11 10 []; xb 2 12 11 []].
End EX.
