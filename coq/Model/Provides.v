(* C14 — which fields each request of jrpc2.Client fills, keyed by the struct field
   (Declaring.Field) that dig.logWithCtx.get returns (Gen/GetFields.v).  This hand-written table is now only the
   cross-check of the table derived from Gen/FetchFills.v ([provides_of]).  Written by
   hand from the JSON tags of eth.Header / eth.Tx (what eth_getBlockByNumber
   decodes) and from the assignments in receipts(), logs(), traces(); tied to
   the code by the correspondence run of C14 (observed supplied-matrix).
   The relation does not depend on what earlier requests attached to a (cached,
   shared) block: receipts() overwrites hash/type/from/to of the transaction it
   finds (C07: rcpt_block_spec, for an arbitrary base block); the sequence
   stream of the C14 driver exercises exactly that.
   Definitions only. *)
From Coq Require Import List String Bool.
From Shovel Require Import Model.Plan.
Import ListNotations.
Open Scope string_scope.

Definition provides_tbl : list (string * list fetch) := [
  (* eth.Header: number / hash / timestamp; receipts, logs and traces write the block hash they name *)
  ("Header.Number", [GNumbers; GHeaders; GBlocks]);
  ("Header.Hash", [GHeaders; GBlocks; GReceipts; GLogs; GTraces]);
  ("Header.Time", [GHeaders; GBlocks]);
  (* eth.Tx from the full block; receipts() also writes hash, type, from, to; logs()/traces() hash and index *)
  ("Tx.PrecompHash", [GBlocks; GReceipts; GLogs; GTraces]);
  ("Tx.Idx", [GBlocks; GReceipts; GLogs; GTraces]);
  ("Tx.From", [GBlocks; GReceipts]);
  ("Tx.To", [GBlocks; GReceipts]);
  ("Tx.Type", [GBlocks; GReceipts]);
  ("Tx.Value", [GBlocks]);
  ("Tx.Data", [GBlocks]);
  ("Tx.Nonce", [GBlocks]);
  ("Tx.GasPrice", [GBlocks]);
  ("Tx.MaxPriorityFeePerGas", [GBlocks]);
  ("Tx.MaxFeePerGas", [GBlocks]);
  (* eth.Receipt (embedded in Tx): only receipts() *)
  ("Receipt.Status", [GReceipts]);
  ("Receipt.GasUsed", [GReceipts]);
  ("Receipt.EffectiveGasPrice", [GReceipts]);
  ("Receipt.ContractAddress", [GReceipts]);
  (* logs: from the receipts or from eth_getLogs *)
  ("Log.Idx", [GReceipts; GLogs]);
  ("Log.Address", [GReceipts; GLogs]);
  (* trace actions *)
  ("TraceAction.CallType", [GTraces]);
  ("TraceAction.Idx", [GTraces]);
  ("TraceAction.From", [GTraces]);
  ("TraceAction.To", [GTraces]);
  ("TraceAction.Value", [GTraces])
].

Fixpoint assoc (k : string) (l : list (string * list fetch)) : list fetch :=
  match l with
  | [] => []
  | (k', v) :: r => if String.eqb k k' then v else assoc k r
  end.
Definition provides (acc : string) : list fetch := assoc acc provides_tbl.

(* the relation derived from Gen/FetchFills.v: a request supplies a struct field iff it fills it *)
Definition provides_of (fills : list (fetch * list string)) (acc : string) : list fetch :=
  map fst (filter (fun ff => existsb (String.eqb acc) (snd ff)) fills).

Definition has_fetch (g : fetch) (fs : list fetch) : bool := existsb (fetch_eqb g) fs.

(* the items a mode makes rows of exist (all of them) only with these requests *)
Definition items_exist (m : mode) (fs : list fetch) : bool :=
  match m with
  | MTx => has_fetch GBlocks fs || has_fetch GReceipts fs
  | MLog => has_fetch GReceipts fs || has_fetch GLogs fs
  | MTrace => has_fetch GTraces fs
  end.

(* field [f] of a row of mode [m] carries the node's value when the requests [fs] were made *)
Definition supplied_b (P : string -> list fetch) (fs : list fetch) (m : mode) (f : field) : bool :=
  match f_class f with
  | ICtx => true
  | _ => items_exist m fs && existsb (fun g => has_fetch g fs) (P (f_acc f))
  end.

(* which items a mode can read *)
Definition class_in_mode (m : mode) (c : iclass) : bool :=
  match c, m with
  | ICtx, _ | IHeader, _ | ITx, _ | IReceipt, _ => true
  | ILog, MLog => true
  | ITrace, MTrace => true
  | _, _ => false
  end.
