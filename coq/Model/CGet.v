(* C08: Client.Get through the caches, against an unchanging chain
   (jrpc2/client.go: Client.Get, bcache/hcache, logs(), receipts()).

   The source is an honest, unchanging chain; a fetch can fail.  A Get does:
     base   none    : fresh blocks carrying only their numbers
            headers : hcache.get(start, limit, c.headers)
            blocks  : bcache.get(start, limit, c.blocks)
     extra  none | logs (eth_getLogs with the caller's address filter, each
            (block, tx) group attached under the block lock) | receipts
   The blocks handed out by a cache are SHARED: attaching mutates what the
   segment holds, and every later reader of the segment sees it.

   [cget] is one whole Get with nobody in between (used by the correspondence
   run); [gstep] is the fine-grained system: the two steps of cache.get plus
   one step per attach operation, of any number of callers, in any order.

   Definitions only; the proofs are in Proofs/CGetP.v. *)
From Coq Require Import List NArith Bool Arith.
From Shovel Require Import Model.Cache Model.LogAttach.
Import ListNotations.
Open Scope N_scope.

(* ---- the chain ---- *)
Record ctx_ := mkCtx { x_idx : N; x_hash : N; x_logs : list log; x_traces : list N }.
Record cblock := mkCB { cb_hash : N; cb_time : N; cb_txs : list ctx_ }.
Definition chain := N -> cblock.
Definition chain_of (l : list cblock) : chain := fun n => nth (N.to_nat n) l (mkCB 0 0 []).

Definition find_ctx (ch : chain) (n i : N) : option ctx_ :=
  find (fun t => x_idx t =? i) (cb_txs (ch n)).
(* all logs / all trace actions of transaction i of block n *)
Definition full (ch : chain) (n i : N) : list log :=
  match find_ctx ch n i with Some t => x_logs t | None => [] end.
Definition ftr (ch : chain) (n i : N) : list N :=
  match find_ctx ch n i with Some t => x_traces t | None => [] end.

Definition chain_wf (ch : chain) : Prop :=
  forall n, NoDup (map x_idx (cb_txs (ch n)))
            /\ forall t, In t (cb_txs (ch n)) -> NoDup (idxs (x_logs t)).

Definition seqN (start : N) (len : nat) : list N := map (fun i => start + N.of_nat i) (seq 0 len).
Definition krange (k : key) : list N := seqN (fst k) (N.to_nat (snd k)).

(* ---- what a base fetch returns ---- *)
Inductive kind := KHeaders | KBlocks.
Definition fresh_blk (ch : chain) (b : option kind) (n : N) : blk :=
  match b with
  | None => mkBlk n 0 0 []
  | Some KHeaders => mkBlk n (cb_hash (ch n)) (cb_time (ch n)) []
  | Some KBlocks =>
      mkBlk n (cb_hash (ch n)) (cb_time (ch n))
            (map (fun t => mkTx (x_idx t) (x_hash t) 0 [] []) (cb_txs (ch n)))
  end.
Definition fresh (ch : chain) (b : option kind) (k : key) : list blk :=
  map (fresh_blk ch b) (krange k).

(* ---- what the caller attaches to block n: first what its receipts / logs
   request brings, then (plans with traces) what trace_block(n) brings ---- *)
Inductive extra := XNone | XLogs | XReceipts.
(* address filter: empty list = every address *)
Definition matches (f : list N) (l : log) : bool :=
  match f with [] => true | _ => existsb (N.eqb (l_addr l)) f end.
(* the logs the caller is entitled to compare *)
Definition want (x : extra) (f : list N) (l : log) : bool :=
  match x with XNone => false | XLogs => matches f l | XReceipts => true end.

Definition stage1_ops (ch : chain) (x : extra) (f : list N) (n : N) : list aop :=
  match x with
  | XNone => []
  | XLogs =>
      flat_map (fun t => match filter (matches f) (x_logs t) with
                         | [] => []
                         | ls => [AGroup (cb_hash (ch n)) (x_idx t) (x_hash t) ls]
                         end) (cb_txs (ch n))
  | XReceipts =>
      map (fun t => AReceipt (cb_hash (ch n)) (x_idx t) (x_hash t) 1 (x_logs t)) (cb_txs (ch n))
  end.
(* trace_block(n) returns every trace of the block; a transaction without
   traces does not appear in it *)
Definition trace_ops (ch : chain) (n : N) : list aop :=
  flat_map (fun t => match x_traces t with
                     | [] => []
                     | tas => [ATraces (cb_hash (ch n)) (x_idx t) (x_hash t) tas]
                     end) (cb_txs (ch n)).
Definition caller_ops (ch : chain) (x : extra) (t : bool) (f : list N) (n : N) : list aop :=
  stage1_ops ch x f n ++ (if t then trace_ops ch n else []).

(* bm[num] = &blocks[i]: the LAST block carrying that number *)
Definition has_num (n : N) (bs : list blk) : bool := existsb (fun b => b_num b =? n) bs.
Fixpoint blks_apply (n : N) (f : blk -> blk) (bs : list blk) : list blk :=
  match bs with
  | [] => []
  | b :: r => if has_num n r then b :: blks_apply n f r
              else if b_num b =? n then f b :: r else b :: r
  end.
(* a sequence of (block number, operation) pairs applied in order *)
Definition attach_pairs (ps : list (N * aop)) (bs : list blk) : list blk :=
  fold_left (fun bs p => blks_apply (fst p) (fun b => a_step b (snd p)) bs) ps bs.
Definition pairs_of (F : N -> list aop) (ns : list N) : list (N * aop) :=
  flat_map (fun n => map (pair n) (F n)) ns.

(* the uncached client when every request succeeds: the receipts / logs of
   the whole range first, then the traces block by block *)
Definition uget (ch : chain) (b : option kind) (x : extra) (t : bool) (f : list N) (k : key) : list blk :=
  attach_pairs (pairs_of (stage1_ops ch x f) (krange k)
                ++ (if t then pairs_of (trace_ops ch) (krange k) else []))
               (fresh ch b k).

(* ---- the caching client, one whole Get at a time ---- *)
Record client := mkClient { cl_b : cache (list blk); cl_h : cache (list blk) }.
Definition new_client (maxreads : N) : client :=
  mkClient (empty_cache maxreads) (empty_cache maxreads).

Definition set_data (sid : nat) (bs : list blk) (c : cache (list blk)) : cache (list blk) :=
  match nth_error (c_heap c) sid with
  | Some sg => mkCache (c_max c) (c_map c) (upd (c_heap c) sid (mkSeg (sg_key sg) (sg_nreads sg) (Some bs)))
  | None => c
  end.

Record gop := mkGop {
  g_base : option kind; g_extra : extra; g_traces : bool; g_filter : list N; g_key : key;
  g_kept : list key;     (* pruneSegments' choice, as observed *)
  g_failb : bool;        (* the base fetch fails if it is made *)
  g_failx : bool;        (* the receipts / logs request fails if it is made *)
  g_failt : option nat   (* Some i: the trace_block request for the i-th block of the range fails *)
}.
Inductive gres := GErr | GOk (bs : list blk).

Definition pick (b : kind) (cl : client) : cache (list blk) :=
  match b with KHeaders => cl_h cl | KBlocks => cl_b cl end.
Definition put (b : kind) (c : cache (list blk)) (cl : client) : client :=
  match b with KHeaders => mkClient (cl_b cl) c | KBlocks => mkClient c (cl_h cl) end.

(* traces(): one request per block, in order; it stops at the first request
   that fails and at the first block whose reply is empty ("no rpc error but
   empty result"), leaving what it attached before.  Result: number of blocks
   attached, whether all were. *)
Fixpoint trace_stop (ch : chain) (failt : option nat) (i : nat) (ns : list N) : nat * bool :=
  match ns with
  | [] => (O, true)
  | n :: r =>
      if (match failt with Some j => Nat.eqb i j | None => false end)
         || (match trace_ops ch n with [] => true | _ => false end)
      then (O, false)
      else let '(j, ok) := trace_stop ch failt (S i) r in (S j, ok)
  end.

(* what one Get attaches, in order, before it returns; whether it succeeds;
   how many receipts/logs requests and trace requests it sends *)
Definition stage1_plan (ch : chain) (op : gop) : list (N * aop) * bool * N :=
  match g_extra op with
  | XNone => ([], true, 0)
  | x => if g_failx op then ([], false, 1)
         else (pairs_of (stage1_ops ch x (g_filter op)) (krange (g_key op)), true, 1)
  end.
Definition call_plan (ch : chain) (op : gop) : list (N * aop) * bool * N * N :=
  let k := g_key op in
  let '(ps1, ok1, nx) := stage1_plan ch op in
  if ok1 && g_traces op then
    let '(j, ok2) := trace_stop ch (g_failt op) 0 (krange k) in
    (ps1 ++ pairs_of (trace_ops ch) (firstn j (krange k)), ok2, nx,
     N.of_nat (if ok2 then j else S j))
  else (ps1, ok1, nx, 0).

(* result: client, what the caller gets, base / extra / trace requests sent.
   The blocks a cache hands out are shared and attached to IN PLACE: what a
   failing Get attached before it failed stays in the segment. *)
Definition cget (ch : chain) (op : gop) (cl : client) : option (client * gres * N * N * N) :=
  let k := g_key op in
  let '(ps, ok, nx, nt) := call_plan ch op in
  match g_base op with
  | None =>
      let bs := attach_pairs ps (fresh ch None k) in
      Some (cl, if ok then GOk bs else GErr, 0, nx, nt)
  | Some b =>
      match lookup k (g_kept op) (pick b cl) with
      | None => None
      | Some (c1, sid, _) =>
          match read sid (if g_failb op then None else Some (fresh ch (Some b) k)) c1 with
          | None => None
          | Some (c2, None, asked) => Some (put b c2 cl, GErr, if asked then 1 else 0, 0, 0)
          | Some (c2, Some bs, asked) =>
              let bs' := attach_pairs ps bs in
              Some (put b (set_data sid bs' c2) cl, if ok then GOk bs' else GErr,
                    if asked then 1 else 0, nx, nt)
          end
      end
  end.

Fixpoint cget_run (ch : chain) (cl : client) (ops : list gop) : option (client * list (gres * N * N * N)) :=
  match ops with
  | [] => Some (cl, [])
  | op :: r =>
      match cget ch op cl with
      | None => None
      | Some (cl1, res, nb, nx, nt) =>
          match cget_run ch cl1 r with
          | None => None
          | Some (cl2, outs) => Some (cl2, (res, nb, nx, nt) :: outs)
          end
      end
  end.

(* ---- the fine-grained system over one cache ---- *)
Inductive gev :=
| GCache (e : ev (list blk))                 (* LOOKUP or READ of some caller *)
| GAttach (sid : nat) (n : N) (op : aop).    (* some caller holding segment sid attaches one
                                                group / receipt to its block n *)

Definition attach_at (sid : nat) (n : N) (op : aop) (c : cache (list blk)) : option (cache (list blk)) :=
  match nth_error (c_heap c) sid with
  | Some sg =>
      match sg_data sg with
      | Some bs => Some (set_data sid (blks_apply n (fun b => a_step b op) bs) c)
      | None => None
      end
  | None => None
  end.

Definition gstep (s : sys (list blk)) (e : gev) : option (sys (list blk)) :=
  match e with
  | GCache e => match step s e with Some (s', _) => Some s' | None => None end
  | GAttach sid n op =>
      match attach_at sid n op (sy_cache s) with
      | Some c => Some (mkSys c (sy_pend s))
      | None => None
      end
  end.

Definition op_bh (op : aop) : N :=
  match op with AGroup bh _ _ _ => bh | AReceipt bh _ _ _ _ => bh | ATraces bh _ _ _ => bh end.

(* honest unchanging source: a successful base fetch returns the chain's
   blocks of the key; attached logs / receipts are the chain's *)
Definition op_ok (ch : chain) (n : N) (op : aop) : Prop :=
  honest (full ch n) op /\ op_bh op = cb_hash (ch n)
  /\ match op with ATraces _ i _ tas => tas = ftr ch n i | _ => True end.
Definition gev_honest (ch : chain) (b : kind) (s : sys (list blk)) (e : gev) : Prop :=
  match e with
  | GCache (ERead sid (Some d)) => d = fresh ch (Some b) (seg_key_of (c_heap (sy_cache s)) sid)
  | GCache _ => True
  | GAttach _ n op => op_ok ch n op
  end.

Inductive greach (ch : chain) (b : kind) (mx : N) : sys (list blk) -> list gev -> Prop :=
| gr_init : greach ch b mx (init_sys mx) []
| gr_step s tr e s' :
    greach ch b mx s tr -> gev_honest ch b s e -> gstep s e = Some s' ->
    greach ch b mx s' (tr ++ [e]).

(* the operations attached so far to block n of segment sid, in order *)
Definition ops_for (sid : nat) (n : N) (tr : list gev) : list aop :=
  flat_map (fun e => match e with
                     | GAttach sid' n' op => if Nat.eqb sid sid' && (n =? n') then [op] else []
                     | _ => []
                     end) tr.

(* what two block lists must agree on from the point of view of a caller
   whose extra request was x with filter f *)
Definition same_view (x : extra) (t : bool) (f : list N) (cb ub : blk) : Prop :=
  b_num cb = b_num ub /\ b_hash cb = b_hash ub /\ b_time cb = b_time ub
  /\ (t = true -> forall i, traces_of cb i = traces_of ub i)
  /\ forall i,
       NoDup (idxs (filter (want x f) (logs_of cb i)))
       /\ NoDup (idxs (filter (want x f) (logs_of ub i)))
       /\ forall l, In l (filter (want x f) (logs_of cb i)) <-> In l (filter (want x f) (logs_of ub i)).

(* what a successful result of the caching client must look like *)
Definition transparent_result (ch : chain) (op : gop) (r : gres) : Prop :=
  forall bs, r = GOk bs ->
    match g_base op with
    | Some b => Forall2 (same_view (g_extra op) (g_traces op) (g_filter op)) bs
                        (uget ch (Some b) (g_extra op) (g_traces op) (g_filter op) (g_key op))
    | None => bs = uget ch None (g_extra op) (g_traces op) (g_filter op) (g_key op)
    end.

