(* Bridge: the system-level composition (Model/BridgeSystem.v) across RESTARTS.
   Definitions only; proofs in Proofs/BridgeRestartP.v; statements at the very
   end of Properties/C04.v.

   A GENERATION is what Manager.Restart (C20) produces: the tasks the manager
   model loads from the configuration of the moment, and what the world does
   while they run (the schedule).  When a generation is stopped the open
   transactions of its runners are rolled back (C02 crash_is_rollback: the
   database found is the last committed one), so the next generation starts
   as [sys_init] on [s_db] of the last state of the previous one: all tasks
   idle, no connection state, the committed database kept.

   All generations live in ONE world [w] (same declaration per integration
   name, same canonical chain per source name; [gens_ok_grow] below lets the
   chains GROW between generations) and draw their tasks from one UNIVERSE [U] of tasks with pairwise distinct
   (source, integration) pairs: a pair that exists in several generations has
   the same task parameters (start, stop, batch, chain id) in all of them. *)
From Coq Require Import String List NArith Bool.
From Shovel Require Import Base.Outcome.
From Shovel Require Model.Manager Model.Filter Model.Rows Model.RowsAbi.
From Shovel Require Import Model.TaskTypes Model.TaskDb Model.Task Model.TaskNode Model.TaskSys
  Model.TaskSpec Model.BridgeRowsTask Model.BridgeSystem.
Import ListNotations.
Open Scope N_scope.

(* the loaded tasks restarted on the committed database [d] *)
Definition sys_from (w : world) (ts : list Manager.task) (d : db) : sys := sys_init (sys_cfgs w ts) d.

(* what a start database must satisfy: every loaded task's pair holds the
   rendering of blocks of ITS chain (C01's growth invariant), and no row or
   cursor belongs to a pair of no loaded task *)
Definition start_ok (w : world) (ts : list Manager.task) (d : db) : Prop :=
  (forall t, In t ts -> TaskInvG (sys_cfg w t) (chain_of w ts (sys_cfg w t)) d)
  /\ owned_by (sys_cfgs w ts) d.

Record gen := Gen { g_tasks : list Manager.task; g_sched : list (N * ans) }.

(* the committed database a stopped generation leaves *)
Definition gen_end (w : world) (g : gen) (d : db) : db :=
  s_db (sys_run (g_sched g) (sys_from w (g_tasks g) d)).
Fixpoint gens_end (w : world) (gs : list gen) (d : db) : db :=
  match gs with [] => d | g :: r => gens_end w r (gen_end w g d) end.

(* the invariant of the database across generations: every task of the
   universe -- running in the current generation or not -- has the growth
   invariant against its own chain; nothing belongs to a pair outside U *)
Definition univ_ok (w : world) (U : list Manager.task) (d : db) : Prop :=
  (forall t, In t U -> TaskInvG (sys_cfg w t) (sys_chain w t) d)
  /\ owned_by (sys_cfgs w U) d.

(* generation [g], started on [d]: loaded by the manager model from SOME
   configuration, tasks of the universe, every task answered from its chain *)
Definition gen_ok (w : world) (U : list Manager.task) (g : gen) (d : db) : Prop :=
  (exists fs ds fi di, Manager.load_tasks fs ds fi di = Ok (g_tasks g))
  /\ incl (g_tasks g) U
  /\ sched_growth (chain_of w (g_tasks g)) (g_sched g) (sys_from w (g_tasks g) d).
Fixpoint gens_ok (w : world) (U : list Manager.task) (gs : list gen) (d : db) : Prop :=
  match gs with
  | [] => True
  | g :: r => gen_ok w U g d /\ gens_ok w U r (gen_end w g d)
  end.

(* every state visited, with the generation it belongs to and the database
   that generation started on *)
Fixpoint gens_visited (w : world) (gs : list gen) (d : db) : list (gen * db * sys) :=
  match gs with
  | [] => []
  | g :: r => map (fun st => (g, d, st)) (sys_states (g_sched g) (sys_from w (g_tasks g) d))
              ++ gens_visited w r (gen_end w g d)
  end.

(* GROWING CHAINS between generations: every generation has its own world,
   equal to the previous one except that every source's canonical chain is an
   extension of the previous generation's ([raw_prefix]); [world_ok] is asked
   of every generation's world (Insert returns Ok on the new blocks too) *)
Definition raw_prefix (w w' : world) : Prop :=
  w_enc w' = w_enc w /\ w_id w' = w_id w /\ w_tbl w' = w_tbl w /\ w_deps w' = w_deps w
  /\ w_hashes w' = w_hashes w /\ w_uniq w' = w_uniq w /\ w_decl w' = w_decl w /\ w_dbs w' = w_dbs w
  /\ forall s, exists ext, w_raw w' s = w_raw w s ++ ext.
Fixpoint gens_ok_grow (w : world) (U : list Manager.task) (gs : list (world * gen)) (d : db) : Prop :=
  match gs with
  | [] => True
  | (w', g) :: r => raw_prefix w w' /\ world_ok w' U /\ gen_ok w' U g d
                    /\ gens_ok_grow w' U r (gen_end w' g d)
  end.
Fixpoint gens_visited_grow (gs : list (world * gen)) (d : db) : list (world * gen * db * sys) :=
  match gs with
  | [] => []
  | (w', g) :: r => map (fun st => (w', g, d, st)) (sys_states (g_sched g) (sys_from w' (g_tasks g) d))
                    ++ gens_visited_grow r (gen_end w' g d)
  end.
(* ================= concrete restart (non-vacuity) =================
   The two-integration system of Model/BridgeSystem.v.  Generation 1: both
   tasks, stopped after 32 moves (both tasks have committed block 1 and are in the
   middle of the next transaction, which is discarded).  Generation 2: the
   configuration now has integration "a" disabled: only task "b" is loaded and
   runs to the end; the table of "a" is not touched.  Generation 3: "a" enabled
   again, both tasks run to the end. *)
Definition ex_file_igs_b : list Manager.integration :=
  [ {| Manager.i_name := nm "a"; Manager.i_enabled := false;
       Manager.i_refs := [ {| Manager.r_name := nm "main"; Manager.r_start := 1; Manager.r_stop := 0 |} ] |};
    {| Manager.i_name := nm "b"; Manager.i_enabled := true;
       Manager.i_refs := [ {| Manager.r_name := nm "main"; Manager.r_start := 1; Manager.r_stop := 0 |} ] |} ].
Definition ex_loaded_b : list Manager.task :=
  match Manager.load_tasks ex_file_srcs [] ex_file_igs_b [] with Ok ts => ts | _ => [] end.

Definition ex_gen_of (ts : list Manager.task) (who : list (N * inject)) (d : db) : gen :=
  Gen ts (gen_sched (chain_of ex_world ts) who (sys_from ex_world ts d)).
Definition ex_d0 : db := Db [] [].
Definition ex_g1 : gen := ex_gen_of ex_loaded (alternate 16) ex_d0.
Definition ex_d1 : db := gen_end ex_world ex_g1 ex_d0.
Definition ex_g2 : gen := ex_gen_of ex_loaded_b (alternate 40) ex_d1.
Definition ex_d2 : db := gen_end ex_world ex_g2 ex_d1.
Definition ex_g3 : gen := ex_gen_of ex_loaded (alternate 60) ex_d2.
Definition ex_gens : list gen := [ex_g1; ex_g2; ex_g3].
(* which tasks have an open transaction *)
Definition open_tx (st : sys) : list bool :=
  map (fun t => match ts_cs t with Some _ => true | None => false end) (s_tasks st).

(* growing chains: generation 1 runs in a world whose source has only blocks
   0..1 and indexes block 1; then the chain has grown to blocks 0..2 and
   generation 2 indexes block 2 *)
Definition gen_of (w : world) (ts : list Manager.task) (who : list (N * inject)) (d : db) : gen :=
  Gen ts (gen_sched (chain_of w ts) who (sys_from w ts d)).
Definition ex_world1 : world :=
  {| w_enc := w_enc ex_world; w_id := w_id ex_world; w_tbl := w_tbl ex_world; w_deps := w_deps ex_world;
     w_hashes := w_hashes ex_world; w_uniq := w_uniq ex_world; w_decl := w_decl ex_world;
     w_dbs := w_dbs ex_world; w_raw := fun _ => firstn 2 ex_sys_raw |}.
Definition ex_h1 : gen := gen_of ex_world1 ex_loaded (alternate 40) ex_d0.
Definition ex_e1 : db := gen_end ex_world1 ex_h1 ex_d0.
Definition ex_h2 : gen := gen_of ex_world ex_loaded (alternate 40) ex_e1.
Definition ex_grow : list (world * gen) := [(ex_world1, ex_h1); (ex_world, ex_h2)].
Definition ex_e2 : db := gen_end ex_world ex_h2 ex_e1.
