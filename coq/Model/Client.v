(* C07 — model of jrpc2/client.go: validate, blocks, headers, receipts, logs,
   traces, Get, Hash, Latest, over DECODED response shapes.

   What is decoded and how (probed against goccy/go-json, see design.d/C07.md):
   a batch reply is decoded into a slice pre-sized to [limit] whose elements
   hold pointers into the [blocks] array; the decoder sets the slice length to
   the length of the JSON array (shorter: the remaining blocks stay zero;
   longer: extra elements are decoded into fresh memory and never reach
   [blocks]); ["result":null] sets the element's pointer to nil and leaves the
   block zero; a missing result member or a [null] element leaves pointer and
   zero block alone (the harness presents both as [Some zero_block]).
   Transport failure (status not 2xx, undecodable body) is [RFail].

   The definitions take a record of flags, one per repaired defect class:
   [repaired] is the code as repaired (fixes/C07-*.diff), [legacy] the code as
   found.  Only definitions here; proofs are in Proofs/ClientP.v. *)
From Coq Require Import List Arith NArith Bool.
From Shovel Require Import Base.Outcome.
Import ListNotations.
Open Scope N_scope.

(* ---- items.  A payload is the list of the remaining field values of an item,
   carried verbatim ([] = every field zero/empty). *)
Definition payload := list N.

Record log := mkLog { l_idx : N; l_pl : payload }.
Record trace := mkTrace { ta_idx : N; ta_pl : payload }.
Record tx := mkTx {
  t_idx : N;
  t_hash : bytes;          (* PrecompHash: written by blocks, receipts, logs, traces *)
  t_tft : payload;         (* type, from, to: written by blocks and by receipts *)
  t_body : payload;        (* the fields only eth_getBlockByNumber(full) fills *)
  t_rcpt : payload;        (* status, gasUsed, effectiveGasPrice, contractAddress *)
  t_logs : list log;
  t_traces : list trace }.
Record block := mkBlock {
  b_num : N; b_hash : bytes; b_parent : bytes;
  b_hpl : payload;         (* timestamp, logsBloom *)
  b_txs : list tx }.

Definition new_tx (idx : N) : tx := mkTx idx [] [] [] [] [] [].
Definition zero_block : block := mkBlock 0 [] [] [] [].

Definition is_nil {A} (l : list A) : bool := match l with [] => true | _ => false end.

(* ---- which defects are repaired *)
Record fixes := mkFixes {
  fx_numbers : bool;   (* validate compares every block number with start+i *)
  fx_missing : bool;   (* blocks/headers: short batch, null result, empty hash are errors *)
  fx_receipts : bool;  (* receipts: short batch / null result are errors; every receipt names start+i *)
  fx_traces : bool;    (* traces: every trace names start+i *)
  fx_hash : bool;      (* an item's blockHash must agree with a hash already known *)
  fx_logs : bool;      (* logs: batch of < 2 elements, null result, null log are errors *)
  fx_head : bool;      (* Hash/Latest: null result is an error *)
  fx_both : bool;      (* Get: traces are requested in addition to receipts / logs (fixes/C14-2) *)
  fx_loghdr : bool     (* logs: the header fetched with eth_getLogs must carry the hash known for that block *) }.
Definition repaired : fixes := mkFixes true true true true true true true true true.
Definition legacy : fixes := mkFixes false false false false false false false false false.

(* ---- decoded replies *)
Inductive reply (A : Type) : Type := RFail | RBody (a : A).
Arguments RFail {A}.
Arguments RBody {A} a.

Record belem := mkBelem { be_err : bool; be_res : option block }.           (* None: "result":null *)
Record rcpt := mkRcpt {
  r_bnum : N; r_bhash : bytes; r_txidx : N; r_txhash : bytes;
  r_tft : payload; r_pl : payload; r_logs : list log }.
Record relem := mkRelem { re_err : bool; re_res : option (list rcpt) }.     (* None: null / no result *)
Record logr := mkLogr {
  lr_bnum : N; lr_bhash : bytes; lr_txidx : N; lr_txhash : bytes; lr_log : log }.
Record lbatch := mkLbatch {
  lb_len : nat;                               (* number of elements of the batch reply *)
  lb_herr : bool; lb_hdr : option bytes;      (* element 0: eth_getBlockByNumber(toBlock); None: null result, Some h: its hash *)
  lb_lerr : bool; lb_logs : option (list (option logr)) }.  (* element 1; inner None: a null log *)
Record tracer := mkTracer {
  tr_bnum : N; tr_bhash : bytes; tr_txidx : N; tr_txhash : bytes; tr_pl : payload }.
Record telem := mkTelem { te_err : bool; te_res : option (list tracer) }.
Record hreply := mkHreply { hr_err : bool; hr_res : option (N * bytes) }.

(* one reply per request the plan can make *)
Record world := mkWorld {
  w_blocks : reply (list belem);
  w_headers : reply (list belem);
  w_receipts : reply (list relem);
  w_logs : reply lbatch;
  w_traces : list (reply telem)   (* the reply to trace_block(start+i), i = 0.. *) }.

Record plan := mkPlan { use_headers : bool; use_blocks : bool; use_receipts : bool;
                        use_logs : bool; use_traces : bool }.

(* ---- validate *)
Fixpoint linked_from (fx : fixes) (prev : block) (n : N) (bs : list block) : bool :=
  match bs with
  | [] => true
  | b :: r =>
      (if fx_numbers fx then b_num b =? n else true)
      && bytes_eqb (b_parent b) (b_hash prev)
      && linked_from fx b (n + 1) r
  end.

Definition validate (fx : fixes) (start limit : N) (bs : list block) : bool :=
  match bs with
  | [] => false
  | b0 :: r =>
      (b_num b0 =? start)
      && (b_num (last bs b0) =? start + limit - 1)
      && linked_from fx b0 (start + 1) r
  end.

(* ---- blocks / headers: the [blocks] array after decoding [es] into it *)
Definition fill_one (es : list belem) (i : nat) : block :=
  match nth_error es i with
  | Some e => match be_res e with Some b => b | None => zero_block end
  | None => zero_block
  end.
Definition fill (limit : nat) (es : list belem) : list block := map (fill_one es) (seq 0 limit).

Definition belem_missing (e : belem) : bool :=
  match be_res e with None => true | Some b => is_nil (b_hash b) end.

Definition fetch_blocks (fx : fixes) (start limit : N) (r : reply (list belem)) : outcome (list block) :=
  match r with
  | RFail => Err
  | RBody es =>
      if existsb be_err es then Err
      else if fx_missing fx
              && ((length es <? N.to_nat limit)%nat
                  || existsb belem_missing (firstn (N.to_nat limit) es)) then Err
      else
        let bs := fill (N.to_nat limit) es in
        if validate fx start limit bs then Ok bs else Err
  end.

Definition numbers (start limit : N) : list block :=
  map (fun i => mkBlock (start + N.of_nat i) [] [] [] []) (seq 0 (N.to_nat limit)).

(* ---- blockmap: a Go map from number to *Block built by a forward loop, so the
   LAST block with a given number is the one found *)
Fixpoint bm_get (n : N) (bs : list block) : option block :=
  match bs with
  | [] => None
  | b :: r =>
      match bm_get n r with
      | Some x => Some x
      | None => if b_num b =? n then Some b else None
      end
  end.
Fixpoint bm_set (n : N) (b' : block) (bs : list block) : list block :=
  match bs with
  | [] => []
  | b :: r =>
      match bm_get n r with
      | Some _ => b :: bm_set n b' r
      | None => if b_num b =? n then b' :: r else b :: r
      end
  end.

(* find the block numbered n, run f on it, store the result *)
Definition on_block (n : N) (f : block -> outcome block) (bs : list block) : outcome (list block) :=
  match bm_get n bs with
  | None => Err
  | Some b => do b' <- f b; Ok (bm_set n b' bs)
  end.

(* Block.Tx(idx): the first transaction with that index, appended when absent;
   [f] is what the caller then does to it *)
Fixpoint upd_txs (txs : list tx) (idx : N) (f : tx -> tx) : list tx :=
  match txs with
  | [] => [f (new_tx idx)]
  | t :: r => if t_idx t =? idx then f t :: r else t :: upd_txs r idx f
  end.
Definition with_txs (b : block) (txs : list tx) : block :=
  mkBlock (b_num b) (b_hash b) (b_parent b) (b_hpl b) txs.
Definition with_hash (b : block) (h : bytes) : block :=
  mkBlock (b_num b) h (b_parent b) (b_hpl b) (b_txs b).

(* setHash over the items of one block, in order (repaired code): the hash
   known so far must be empty or equal; result = the hash after the last write *)
Fixpoint check_hashes (cur : bytes) (hs : list bytes) : option bytes :=
  match hs with
  | [] => Some cur
  | h :: r => if is_nil cur || bytes_eqb cur h then check_hashes h r else None
  end.
(* legacy: Header.Hash.Write(items[0].BlockHash) *)
Definition set_hashes (fx : fixes) (b : block) (hs : list bytes) : outcome block :=
  if fx_hash fx then
    match check_hashes (b_hash b) hs with Some h => Ok (with_hash b h) | None => Err end
  else Ok (with_hash b (hd [] hs)).

(* ---- receipts *)
Definition apply_rcpt (r : rcpt) (t : tx) : tx :=
  mkTx (t_idx t) (r_txhash r) (r_tft r) (t_body t) (r_pl r) (r_logs r) (t_traces t).
Definition attach_rcpts (b : block) (rs : list rcpt) : block :=
  fold_left (fun b r => with_txs b (upd_txs (b_txs b) (r_txidx r) (apply_rcpt r))) rs b.

Definition rcpt_block (fx : fixes) (rs : list rcpt) (b : block) : outcome block :=
  do b1 <- set_hashes fx b (map r_bhash rs);
  Ok (attach_rcpts b1 rs).

(* one element of the batch, requested for block start+i *)
Definition receipts_elem (fx : fixes) (start limit : N) (i : nat) (e : relem) (bs : list block)
  : outcome (list block) :=
  let want := start + N.of_nat i in
  match re_res e with
  | None => if fx_receipts fx then Err else Ok bs
  | Some [] => Ok bs
  | Some ((r0 :: _) as rs) =>
      if fx_receipts fx then
        if forallb (fun r => r_bnum r =? want) rs then on_block want (rcpt_block fx rs) bs else Err
      else
        let bn := r_bnum r0 in
        if (bn <? start) || (start + limit <? bn) then Err
        else on_block bn (rcpt_block fx rs) bs
  end.

Fixpoint receipts_loop (fx : fixes) (start limit : N) (i : nat) (es : list relem) (bs : list block)
  : outcome (list block) :=
  match es with
  | [] => Ok bs
  | e :: r => do bs1 <- receipts_elem fx start limit i e bs; receipts_loop fx start limit (S i) r bs1
  end.

Definition receipts (fx : fixes) (start limit : N) (r : reply (list relem)) (bs : list block)
  : outcome (list block) :=
  match r with
  | RFail => Err
  | RBody es =>
      if existsb re_err es then Err
      else if fx_receipts fx then
        if (length es <? N.to_nat limit)%nat then Err
        else receipts_loop fx start limit 0 (firstn (N.to_nat limit) es) bs
      else receipts_loop fx start limit 0 es bs
  end.

(* ---- logs *)
Definition key := (N * N)%type.
Definition key_eqb (a b : key) : bool := (fst a =? fst b) && (snd a =? snd b).

Fixpoint group_add {A} (k : key) (x : A) (gs : list (key * list A)) : list (key * list A) :=
  match gs with
  | [] => [(k, [x])]
  | (k', xs) :: r => if key_eqb k k' then (k', xs ++ [x]) :: r else (k', xs) :: group_add k x r
  end.
(* groups in order of first occurrence (Go iterates the map in arbitrary
   order; see design.d/C07.md for why that cannot be observed) *)
Definition group_by {A} (kf : A -> key) (l : list A) : list (key * list A) :=
  fold_left (fun gs x => group_add (kf x) x gs) l [].

(* Logs.Add *)
Definition logs_add (ls : list log) (l : log) : list log :=
  if existsb (fun x => l_idx x =? l_idx l) ls then ls else ls ++ [l].

Definition with_tx_logs (txhash : bytes) (ls : list log) (t : tx) : tx :=
  mkTx (t_idx t) txhash (t_tft t) (t_body t) (t_rcpt t) (fold_left logs_add ls (t_logs t)) (t_traces t).

Definition log_group (fx : fixes) (txidx : N) (g : list logr) (b : block) : outcome block :=
  do b1 <- set_hashes fx b (if fx_hash fx then map lr_bhash g else [lr_bhash (hd (mkLogr 0 [] 0 [] (mkLog 0 [])) g)]);
  Ok (with_txs b1 (upd_txs (b_txs b1) txidx
                     (with_tx_logs (lr_txhash (hd (mkLogr 0 [] 0 [] (mkLog 0 [])) g)) (map lr_log g)))).

Fixpoint logs_groups (fx : fixes) (gs : list (key * list logr)) (bs : list block) : outcome (list block) :=
  match gs with
  | [] => Ok bs
  | (k, g) :: r => do bs1 <- on_block (fst k) (log_group fx (snd k) g) bs; logs_groups fx r bs1
  end.

Definition in_range (start limit n : N) : bool := (start <=? n) && (n <? start + limit).

(* first loop of logs(): null logs, range check *)
Fixpoint logs_scan (fx : fixes) (start limit : N) (ls : list (option logr)) : outcome (list logr) :=
  match ls with
  | [] => Ok []
  | None :: r =>
      if fx_logs fx then Err
      else (* a zero logResult with a nil *Log: numbered 0; dereferenced by Logs.Add later *)
        if in_range start limit 0 then do _ <- logs_scan fx start limit r; Panic else Err
  | Some l :: r =>
      if in_range start limit (lr_bnum l) then do rest <- logs_scan fx start limit r; Ok (l :: rest) else Err
  end.

(* the block toBlock is in the blockmap with a known hash other than the one of the header fetched with the logs *)
Definition hdr_skew (n : N) (h : bytes) (bs : list block) : bool :=
  match bm_get n bs with
  | Some b => negb (is_nil (b_hash b)) && negb (bytes_eqb (b_hash b) h)
  | None => false
  end.

Definition logs (fx : fixes) (start limit : N) (r : reply lbatch) (bs : list block) : outcome (list block) :=
  match r with
  | RFail => Err
  | RBody lb =>
      if (lb_len lb <? 2)%nat then (if fx_logs fx then Err else Panic)
      else if lb_herr lb then Err
      else if lb_lerr lb then Err
      else
        match lb_hdr lb with
        | None => Err
        | Some h =>
            match lb_logs lb with
            | None => if fx_logs fx then Err else Ok bs
            | Some ls =>
                if fx_loghdr fx && hdr_skew (start + limit - 1) h bs then Err
                else
                  do ok <- logs_scan fx start limit ls;
                  logs_groups fx (group_by (fun l => (lr_bnum l, lr_txidx l)) ok) bs
            end
        end
  end.

(* ---- traces *)
Fixpoint number_from (i : N) (pls : list payload) : list trace :=
  match pls with
  | [] => []
  | p :: r => mkTrace i p :: number_from (i + 1) r
  end.
Definition with_tx_traces (txhash : bytes) (pls : list payload) (t : tx) : tx :=
  mkTx (t_idx t) txhash (t_tft t) (t_body t) (t_rcpt t) (t_logs t) (number_from 0 pls).

Definition attach_traces (b : block) (gs : list (key * list tracer)) : block :=
  fold_left (fun b kg =>
               with_txs b (upd_txs (b_txs b) (snd (fst kg))
                             (with_tx_traces (tr_txhash (hd (mkTracer 0 [] 0 [] []) (snd kg)))
                                             (map tr_pl (snd kg))))) gs b.

Definition trace_block (fx : fixes) (ts : list tracer) (b : block) : outcome block :=
  do b1 <- set_hashes fx b (if fx_hash fx then map tr_bhash ts else [tr_bhash (hd (mkTracer 0 [] 0 [] []) ts)]);
  Ok (attach_traces b1 (group_by (fun t => (b_num b1, tr_txidx t)) ts)).

Definition traces_elem (fx : fixes) (start : N) (i : nat) (r : reply telem) (bs : list block)
  : outcome (list block) :=
  let want := start + N.of_nat i in
  match r with
  | RFail => Err
  | RBody e =>
      if te_err e then Err
      else match te_res e with
           | None => Err
           | Some [] => Err
           | Some ((t0 :: _) as ts) =>
               if fx_traces fx then
                 if forallb (fun t => tr_bnum t =? want) ts then on_block want (trace_block fx ts) bs else Err
               else on_block (tr_bnum t0) (trace_block fx ts) bs
           end
  end.

(* one request per block; a missing entry of the world is a transport failure *)
Fixpoint traces_loop (fx : fixes) (start : N) (i : nat) (n : nat) (rs : list (reply telem)) (bs : list block)
  : outcome (list block) :=
  match n with
  | O => Ok bs
  | S n' =>
      match rs with
      | [] => Err
      | r :: rest => do bs1 <- traces_elem fx start i r bs; traces_loop fx start (S i) n' rest bs1
      end
  end.
Definition traces (fx : fixes) (start limit : N) (rs : list (reply telem)) (bs : list block) :=
  traces_loop fx start 0 (N.to_nat limit) rs bs.

(* ---- Get: blocks | headers | bare numbers; then receipts | logs; then traces *)
Definition fetch (fx : fixes) (p : plan) (start limit : N) (w : world) : outcome (list block) :=
  if use_blocks p then fetch_blocks fx start limit (w_blocks w)
  else if use_headers p then fetch_blocks fx start limit (w_headers w)
  else Ok (numbers start limit).

Definition attach1 (fx : fixes) (p : plan) (start limit : N) (w : world) (bs : list block)
  : outcome (list block) :=
  if use_receipts p then receipts fx start limit (w_receipts w) bs
  else if use_logs p then logs fx start limit (w_logs w) bs
  else Ok bs.
(* as found, the three were the cases of one switch: traces only when neither receipts nor logs *)
Definition does_traces (fx : fixes) (p : plan) : bool :=
  use_traces p && (fx_both fx || negb (use_receipts p || use_logs p)).
Definition attach2 (fx : fixes) (p : plan) (start limit : N) (w : world) (bs : list block)
  : outcome (list block) :=
  if does_traces fx p then traces fx start limit (w_traces w) bs else Ok bs.
Definition attach (fx : fixes) (p : plan) (start limit : N) (w : world) (bs : list block)
  : outcome (list block) :=
  do bs1 <- attach1 fx p start limit w bs; attach2 fx p start limit w bs1.

Definition get_fx (fx : fixes) (p : plan) (start limit : N) (w : world) : outcome (list block) :=
  do bs <- fetch fx p start limit w; attach fx p start limit w bs.

Definition get := get_fx repaired.
Definition legacy_get := get_fx legacy.

(* ---- Hash / Latest (the direct request; the head cache is C08's) *)
Definition head_fx (fx : fixes) (r : reply hreply) : outcome (N * bytes) :=
  match r with
  | RFail => Err
  | RBody h =>
      if hr_err h then Err
      else match hr_res h with
           | Some nh => Ok nh
           | None => if fx_head fx then Err else Panic   (* hresp.Hash on a nil *Header *)
           end
  end.
Definition latest := head_fx repaired.
Definition hash_of (r : reply hreply) : outcome bytes :=
  match head_fx repaired r with Ok nh => Ok (snd nh) | Err => Err | Panic => Panic end.
Definition legacy_latest := head_fx legacy.

(* ---- canonical form used by the correspondence run: transactions of a block
   in ascending index order (stable), because the implementation appends new
   transactions in Go map iteration order *)
Fixpoint insert_tx (t : tx) (l : list tx) : list tx :=
  match l with
  | [] => [t]
  | x :: r => if t_idx t <=? t_idx x then t :: x :: r else x :: insert_tx t r
  end.
Definition sort_txs (l : list tx) : list tx := fold_right insert_tx [] l.
Definition canon_block (b : block) : block := with_txs b (sort_txs (b_txs b)).
