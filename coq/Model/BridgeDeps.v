(* Bridge configuration -> task layer -> row builder, for filter references:
     shovel/config ValidateFilterRefs derives Integration.Dependencies
       (Model/Config.v [validate_filter_refs], field [ig_deps]; C15/C16)
     --> the task layer takes that list as [t_deps] (Model/TaskTypes.v; C05:
         dep_target_bounded, system_dep_bounded)
     --> the row builder consults the referenced tables through [dbs]
         (Model/Filter.v [accept], Model/Rows.v [insert]; C11/C12).
   Definitions only; proofs in Proofs/BridgeDepsP.v; statements at the end of
   Properties/C05.v.

   NO NEW MODEL OF GO CODE is introduced here: [validate_filter_refs] and
   [validate_fix] are the C15/C16 model (pointer aliasing through the Go map
   [igs] is written there as "look up in the configuration as it was", the map
   itself as last-wins search [find_last_ig]).  What this file adds are
   READINGS of that model:

   * [declared_refs g]: the integration names that the filter_refs of g's
     TOP-LEVEL event inputs and then of its block fields name, in the order
     ValidateFilterRefs appends them (inputs loop, then block loop; one entry
     per referencing filter, duplicates kept).  [declared_refs_deep g] also
     descends into Components: the Go loop does NOT (config.go:151 ranges over
     Event.Inputs only), although dig's coldefs (Event.Selected) do contain
     the selected components and Filter.Accept runs on them.

   * [ref_table_of igs R]: igs[R].Table.Name of the Go map filled in list
     order (a later integration of the same name wins).

   * [ref_resolved igs f]: filter f as a successful validation leaves it:
     no integration => no table and no column; else the table is the named
     integration's table and the column is a declared column of (some
     integration writing to) that table.

   * [cfg_lookups g]: the (table, column) pairs of the reference queries a
     task of g can issue = the statements of Sql.accepts_of (the C15 model,
     compared with the SQL the implementation sends on every C15 run).

   * [consulted d]: the (table, column) pairs at which Rows.insert can read
     [dbs] for declaration d; [agree_on] = two contents of the referenced
     tables agree there.

   * [task_of_integ], [tasks_of_config]: a task configuration of the task
     layer built from a validated integration through an injective naming
     [enc] (the [enc] of Proofs/BridgeManagerTaskP.to_tcfg, the [w_enc] of
     Model/BridgeSystem.v), with t_deps = map enc Dependencies. *)
From Coq Require Import String List NArith Bool.
From Shovel Require Import Base.Outcome Model.Config.
From Shovel Require Model.Filter Model.Rows Model.Sql.
From Shovel Require Model.TaskTypes Model.TaskSpec Model.BridgeRowsTask.
Import ListNotations.
Open Scope N_scope.

(* ================= declared references ================= *)
Definition ref_name (f : cfilter) : list str :=
  if is_nil (r_ig (f_ref f)) then [] else [r_ig (f_ref f)].
Definition input_refs (l : list input) : list str := flat_map (fun i => ref_name (i_flt i)) l.
Definition block_refs (l : list blockdata) : list str := flat_map (fun b => ref_name (bd_flt b)) l.

(* what ValidateFilterRefs (as repaired by fixes/C05-filter-ref-on-components.diff)
   appends for g: the walk over the inputs AND their components (parent
   first), then the block loop: every filter_ref of the declaration *)
Definition declared_refs (g : integ) : list str :=
  input_refs (all_inputs (ig_inputs g)) ++ block_refs (ig_block g).
Definition declared_refs_deep (g : integ) : list str := declared_refs g.
(* what the pass appended BEFORE the repair: top-level inputs only *)
Definition legacy_declared_refs (g : integ) : list str :=
  input_refs (ig_inputs g) ++ block_refs (ig_block g).

(* no input has components (Rows.v's domain) *)
Definition flat (g : integ) : bool := forallb (fun i => is_nil (i_comps i)) (ig_inputs g).

(* igs[R].Table.Name *)
Definition ref_table_of (igs : list integ) (R : str) : option str :=
  match find_last_ig R igs with
  | Some k => Some (t_name (ig_table (nth k igs dummy_ig)))
  | None => None
  end.

Definition ref_resolved (igs : list integ) (f : cfilter) : Prop :=
  if is_nil (r_ig (f_ref f))
  then r_table (f_ref f) = [] /\ r_col (f_ref f) = []
  else ref_table_of igs (r_ig (f_ref f)) = Some (r_table (f_ref f))
       /\ r_col (f_ref f) <> []
       /\ mem (r_col (f_ref f)) (cols_of_table igs (r_table (f_ref f))) = true.

(* the configuration file did not itself supply "Dependencies" (the field has
   no json tag: encoding/json fills it from a key "dependencies") *)
Definition user_deps_empty (c : root) : Prop := Forall (fun g => ig_deps g = []) (integs c).
(* NOT refused by ValidateFilterRefs *)
Definition no_self_ref (g : integ) : Prop := ~ In (ig_name g) (declared_refs g).

(* positional relation input integration / validated integration *)
Definition deps_rel (g g' : integ) : Prop :=
  ig_name g' = ig_name g
  /\ ig_deps g' = ig_deps g ++ declared_refs g
  /\ declared_refs g' = declared_refs g.

(* ================= reference queries, configuration level ================= *)
Definition cf_lookup (f : cfilter) : list (str * str) :=
  if is_nil (f_arg f) && is_nil (r_ig (f_ref f)) then [] else
  if has_suffix Sql.s_contains (f_op f) && negb (is_nil (r_table (f_ref f)))
  then [(r_table (f_ref f), r_col (f_ref f))] else [].
Definition input_lookups (l : list input) : list (str * str) := flat_map (fun i => cf_lookup (i_flt i)) l.
Definition block_lookups (l : list blockdata) : list (str * str) := flat_map (fun b => cf_lookup (bd_flt b)) l.
Definition cfg_lookups (g : integ) : list (str * str) :=
  input_lookups (selected (ig_inputs g)) ++ block_lookups (ig_block g).
(* the statement of Sql.accept_sql for one pair *)
Definition lookup_stmt (pt pc : string) (tc : str * str) : Sql.stmt :=
  {| Sql.st_site := "dig.Filter.Accept";
     Sql.st_text := [Sql.L "select true from "; Sql.Splice pt (fst tc); Sql.L " where ";
                     Sql.Splice pc (snd tc); Sql.L " = $1"] |}.

(* ================= reference lookups, row-builder level ================= *)
Definition flt_of (f : cfilter) : Filter.flt :=
  {| Filter.f_op := f_op f; Filter.f_args := f_arg f; Filter.f_ref_ig := r_ig (f_ref f);
     Filter.f_ref_table := r_table (f_ref f); Filter.f_ref_col := r_col (f_ref f) |}.

(* the Rows-level declaration carries the filters of the configuration-level
   integration: top-level inputs one to one (no components), block fields one
   to one.  ABI types, columns of the table, signature hash are not related:
   the theorems hold for all of them. *)
Definition same_filters (g : integ) (d : Rows.decl) : Prop :=
  flat g = true
  /\ Forall2 (fun ci ri => Rows.i_filter ri = flt_of (i_flt ci)) (ig_inputs g) (Rows.d_inputs d)
  /\ Forall2 (fun cb rb => Rows.bd_filter rb = flt_of (bd_flt cb)) (ig_block g) (Rows.d_block d).

(* a function producing such a declaration (ABI types by position) *)
Fixpoint inputs_of_cfg (cis : list input) (tys : list bytes) : list Rows.input :=
  match cis with
  | [] => []
  | ci :: r =>
      {| Rows.i_indexed := i_indexed ci; Rows.i_type := match tys with t :: _ => t | [] => [] end;
         Rows.i_column := i_col ci; Rows.i_filter := flt_of (i_flt ci) |}
      :: inputs_of_cfg r (match tys with _ :: ts => ts | [] => [] end)
  end.
Definition decl_of_cfg (g : integ) (tys : list bytes) (sig : bytes) : Rows.decl :=
  {| Rows.d_name := ig_name g; Rows.d_inputs := inputs_of_cfg (ig_inputs g) tys;
     Rows.d_block := map (fun b => {| Rows.bd_name := bd_name b; Rows.bd_column := bd_col b;
                                      Rows.bd_filter := flt_of (bd_flt b) |}) (ig_block g);
     Rows.d_table_cols := col_names (ig_table g);
     Rows.d_agg := ig_agg g; Rows.d_sighash := sig |}.

(* where Filter.accept reads [dbs] *)
Definition flt_lookup (f : Filter.flt) : list (bytes * bytes) :=
  if Filter.is_nil (Filter.f_args f) && Filter.is_nil (Filter.f_ref_ig f) then [] else
  if Filter.has_suffix (Filter.s2b "contains") (Filter.f_op f) && negb (Filter.is_nil (Filter.f_ref_table f))
  then [(Filter.f_ref_table f, Filter.f_ref_col f)] else [].
Definition cd_lookups (cd : Rows.coldef) : list (bytes * bytes) :=
  flt_lookup (Rows.i_filter (Rows.cd_input cd)) ++ flt_lookup (Rows.bd_filter (Rows.cd_bd cd)).
Definition consulted (d : Rows.decl) : list (bytes * bytes) := flat_map cd_lookups (Rows.coldefs d).
Definition agree_on (ts : list (bytes * bytes)) (d1 d2 : Filter.db) : Prop :=
  forall t c, In (t, c) ts -> Filter.db_lookup d1 t c = Filter.db_lookup d2 t c.

(* ================= task layer ================= *)
Definition injective {A B} (f : A -> B) : Prop := forall a b, f a = f b -> a = b.

(* cfg_ok without its clause on t_deps *)
Definition sizes_ok (c : TaskTypes.tcfg) : Prop :=
  1 <= TaskTypes.t_batch c /\ 1 <= TaskTypes.t_conc c
  /\ TaskTypes.t_batch c + TaskTypes.t_conc c < TaskSpec.nmax
  /\ TaskTypes.t_start c < TaskSpec.nmax /\ TaskTypes.t_stop c < TaskSpec.nmax.

(* [c] is a task of integration [g]: destConfig = g *)
Definition task_of_integ (enc : str -> N) (g : integ) (c : TaskTypes.tcfg) : Prop :=
  TaskTypes.t_ig c = enc (ig_name g) /\ TaskTypes.t_deps c = map enc (ig_deps g).

(* every task configuration is a task of an integration of [c'] that does
   not reference itself *)
Definition tasks_of_config (enc : str -> N) (c' : root) (cfgs : list TaskTypes.tcfg) : Prop :=
  Forall (fun c => sizes_ok c /\ exists g, In g (integs c') /\ no_self_ref g /\ task_of_integ enc g c) cfgs.

(* ================= concrete configurations (non-vacuity, witnesses) ================= *)
Definition U_ascii : uni :=
  {| is_letter := fun c => ((65 <=? c) && (c <=? 90)) || ((97 <=? c) && (c <=? 122));
     is_digit := fun c => (48 <=? c) && (c <=? 57) |}.

Local Open Scope string_scope.
(* the tables of AddRequiredFields / AddUniqueIndex as they stand in the pinned
   source, written out (the theorems hold for every [gen]; the examples do not
   depend on the regenerated coq/Gen files) *)
Definition ex_G : gen :=
  {| g_checked := [("check", "Integrations[].Name"); ("check", "Integrations[].Table.Name")];
     g_required := [ (GAlways, s2r "ig_name", s2r "text"); (GAlways, s2r "src_name", s2r "text");
                     (GAlways, s2r "block_num", s2r "numeric"); (GAlways, s2r "tx_idx", s2r "int");
                     (GAnySelected, s2r "log_idx", s2r "int");
                     (GAnySelectedNotIndexed, s2r "abi_idx", s2r "int2");
                     (GAnyBlockPrefix (s2r "trace_"), s2r "trace_action_idx", s2r "int2") ];
     g_possible := map s2r ["ig_name"; "src_name"; "block_num"; "tx_idx"; "log_idx"; "abi_idx";
                            "trace_action_idx"] |}.

Definition ex_col (n : string) : column := {| c_name := s2r n; c_type := s2r "bytea" |}.
Definition ex_table (n : string) (cols : list string) : table :=
  {| t_name := s2r n; t_cols := map ex_col cols; t_unique := []; t_index := [] |}.
Definition ex_ref (ig col : string) : cfilter :=
  {| f_op := s2r "contains"; f_arg := [];
     f_ref := {| r_ig := s2r ig; r_table := []; r_col := s2r col |} |}.
Definition ex_input (name col : string) (f : cfilter) (comps : list input) : input :=
  Input true (s2r name) (s2r col) f comps.
Definition ex_ig (name : string) (t : table) (ins : list input) (bl : list blockdata) : integ :=
  {| ig_name := s2r name; ig_enabled := true; ig_sources := [s2r "main"]; ig_table := t;
     ig_agg := []; ig_notif := []; ig_block := bl; ig_inputs := ins; ig_deps := [] |}.

(* a; b (input filter_ref -> a); c; d (block-field filter_ref -> c) *)
Definition ex_a : integ := ex_ig "a" (ex_table "ta" ["addr"]) [ex_input "x" "addr" no_filter []] [].
Definition ex_b : integ :=
  ex_ig "b" (ex_table "tb" ["y"]) [ex_input "x" "y" (ex_ref "a" "addr") []] [].
Definition ex_c : integ := ex_ig "c" (ex_table "tc" ["addr"]) [ex_input "x" "addr" no_filter []] [].
Definition ex_d : integ :=
  ex_ig "d" (ex_table "td" ["y"; "la"]) [ex_input "x" "y" no_filter []]
        [{| bd_name := s2r "log_addr"; bd_col := s2r "la"; bd_flt := ex_ref "c" "addr" |}].
Definition ex_root : root := {| sources := [s2r "main"]; integs := [ex_a; ex_b; ex_c; ex_d] |}.

(* what the seeded edit C05-f (one scratch slice for every integration)
   computes on ex_root: b waits for c *)
Definition ex_aliased_deps : list (list str) := [[]; [s2r "c"]; []; [s2r "c"]].

(* an integration that references its own table: accepted *)
Definition ex_self : integ :=
  ex_ig "s" (ex_table "ts" ["addr"]) [ex_input "x" "addr" (ex_ref "s" "addr") []] [].
Definition ex_self_root : root := {| sources := [s2r "main"]; integs := [ex_self] |}.

(* a configuration file that supplies "dependencies": ["ghost"] for b *)
Definition ex_b_userdeps : integ :=
  {| ig_name := ig_name ex_b; ig_enabled := true; ig_sources := ig_sources ex_b; ig_table := ig_table ex_b;
     ig_agg := []; ig_notif := []; ig_block := []; ig_inputs := ig_inputs ex_b; ig_deps := [s2r "ghost"] |}.
Definition ex_userdeps_root : root := {| sources := [s2r "main"]; integs := [ex_a; ex_b_userdeps] |}.

(* a filter_ref on a COMPONENT of a tuple input, with the table written by the
   user: ValidateFilterRefs never sees it *)
Definition ex_nested_ref : cfilter :=
  {| f_op := s2r "contains"; f_arg := [];
     f_ref := {| r_ig := s2r "a"; r_table := s2r "ta"; r_col := s2r "addr" |} |}.
Definition ex_n : integ :=
  ex_ig "n" (ex_table "tn" ["y"])
        [Input false (s2r "t") [] no_filter [Input false (s2r "x") (s2r "y") ex_nested_ref []]] [].
Definition ex_nested_root : root := {| sources := [s2r "main"]; integs := [ex_a; ex_n] |}.

(* the error cases of ValidateFilterRefs, on b's input filter *)
Definition ex_b_with (r : ref) : integ :=
  ex_ig "b" (ex_table "tb" ["y"])
        [ex_input "x" "y" {| f_op := s2r "contains"; f_arg := []; f_ref := r |} []] [].
Definition ex_root_with (r : ref) : root := {| sources := [s2r "main"]; integs := [ex_a; ex_b_with r] |}.
Definition ex_r_unknown : ref := {| r_ig := s2r "zz"; r_table := []; r_col := s2r "addr" |}.
Definition ex_r_usertable : ref := {| r_ig := []; r_table := s2r "ta"; r_col := s2r "addr" |}.
Definition ex_r_nocol : ref := {| r_ig := s2r "a"; r_table := []; r_col := [] |}.
Definition ex_r_badcol : ref := {| r_ig := s2r "a"; r_table := []; r_col := s2r "nope" |}.
(* integration AND table given: the table is overwritten *)
Definition ex_r_overwritten : ref := {| r_ig := s2r "a"; r_table := s2r "elsewhere"; r_col := s2r "addr" |}.

(* a task of b in the vocabulary of the task layer *)
(* an injective naming: Model/BridgeRowsTask.v [hid] (injective: Proofs/BridgeRowsTaskP.hid_inj) *)
Definition ex_enc (s : str) : N := BridgeRowsTask.hid s.
Definition ex_task_b : TaskTypes.tcfg :=
  TaskTypes.Task 1 1 (ex_enc (s2r "b")) 3 0 0 1 1 [ex_enc (s2r "a")] true true.

(* b as validated, its Rows-level declaration (event sighash [7], one indexed
   address input), and one block with one matching log whose topic is the
   address 0x..05 *)
Definition ex_validated (k : nat) : integ :=
  match validate_fix U_ascii ex_G ex_root with
  | Some c' => nth k (integs c') dummy_ig
  | None => dummy_ig
  end.
Definition ex_decl_b : Rows.decl := decl_of_cfg (ex_validated 1) [Filter.s2b "address"] [7].
Definition ex_addr5 : bytes := List.app (repeat 0 19) [5].
Definition ex_blk : Rows.blockr :=
  {| Rows.b_hash := Some [2]; Rows.b_num := 1; Rows.b_time := 0;
     Rows.b_txs :=
       [{| Rows.t_hash := None; Rows.t_idx := 0; Rows.t_from := None; Rows.t_to := None; Rows.t_value := 0;
           Rows.t_input := None; Rows.t_type := 0; Rows.t_status := 1; Rows.t_gas_used := 0;
           Rows.t_gas_price := 0; Rows.t_eff_gas_price := 0; Rows.t_contract := None; Rows.t_max_prio := 0;
           Rows.t_max_fee := 0; Rows.t_nonce := 0;
           Rows.t_logs := [{| Rows.l_idx := 0; Rows.l_addr := Some [1];
                              Rows.l_topics := [[7]; Rows.word_of_N 5]; Rows.l_data := [];
                              Rows.l_scan := Panic |}];
           Rows.t_traces := [] |}] |}.
Definition ex_ctx : Rows.ctxr := {| Rows.c_src := Filter.s2b "main"; Rows.c_chain := 1 |}.
Definition ex_dbs (vals : list bytes) : Filter.db := [(Filter.s2b "ta", Filter.s2b "addr", vals)].

(* names used in the statements of Properties/C05.v *)
Definition nm_a : str := s2r "a".
Definition nm_c : str := s2r "c".
Definition nm_s : str := s2r "s".
Definition nm_ghost : str := s2r "ghost".
Definition nm_ta : str := s2r "ta".
Definition nm_addr : str := s2r "addr".
