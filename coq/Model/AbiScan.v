(* C09 / C10: transcription of dig.scan, Result.GetRow and Result.Scan as
   REPAIRED by fixes/C10-scan-unsigned-bounds.diff (the code before the repair
   is Model/AbiLegacy.v).

   Conventions.  The whole log data is one byte list [D]; every slice the Go
   code forms is a suffix [input[pos:]] of it, so a slice is its absolute start
   offset [o] (its length is |D| - o; cap = len).  A decoded cell is the pair
   (absolute offset, length) of the sub-slice of [D] it aliases.  Go slice
   expressions that would be out of range, an index [r[t.pos]] outside the row
   and the index in GetRow are [SPanic]; exhausted loop fuel is [SFuel]; the
   error return keeps the state (the row collection has already been touched
   when scan fails).  [iters] is a ghost counter of array-loop iterations. *)
From Coq Require Import List NArith Bool.
From Shovel Require Import Base.Outcome Model.Hex Model.Bint Model.AbiType.
Import ListNotations.
Open Scope N_scope.

Definition cell := option (N * N).
Definition row := list cell.
Record st := mkst { single : row; coll : list row; nrows : nat; iters : N }.
Inductive cur := CSingle | CRow (i : nat).

Inductive sres := SOk (s : st) | SErr (s : st) | SFuel | SPanic.

Fixpoint set_nth {A} (n : nat) (x : A) (l : list A) : list A :=
  match n, l with
  | O, _ :: t => x :: t
  | S n', h :: t => h :: set_nth n' x t
  | _, [] => []
  end.

Definition lift {A} (o : outcome A) (s : st) (k : A -> sres) : sres :=
  match o with Ok a => k a | Err => SErr s | Panic => SPanic end.

Definition with_single (s : st) (r : row) : st := mkst r (coll s) (nrows s) (iters s).
Definition with_coll (s : st) (c : list row) : st := mkst (single s) c (nrows s) (iters s).
Definition tick (s : st) : st := mkst (single s) (coll s) (nrows s) (iters s + 1).

(* r[pos] = v where r is the singleton or the row handed out by GetRow *)
Definition put (s : st) (c : cur) (p : nat) (v : N * N) : sres :=
  match c with
  | CSingle =>
      if Nat.ltb p (length (single s)) then SOk (with_single s (set_nth p (Some v) (single s)))
      else SPanic
  | CRow i =>
      match nth_error (coll s) i with
      | Some r => if Nat.ltb p (length r) then SOk (with_coll s (set_nth i (set_nth p (Some v) r) (coll s)))
                  else SPanic
      | None => SPanic
      end
  end.

Section Scan.
  Variable D : bytes.          (* the log data *)
  Variable ncols : nat.        (* Result.ncols *)

  Definition L : N := N.of_nat (length D).
  Definition blank : row := repeat None ncols.

  (* Result.GetRow: n++; append a fresh row when n >= len(collection); clear row n-1 *)
  Definition get_row (s : st) : option (st * cur) :=
    let n' := S (nrows s) in
    let c1 := if Nat.leb (length (coll s)) n' then coll s ++ [blank] else coll s in
    if Nat.ltb (nrows s) (length c1)
    then Some (mkst (single s) (set_nth (nrows s) blank c1) n' (iters s), CRow (nrows s))
    else None.

  Definition slen (o : N) : N := L - o.
  (* input[a:] *)
  Definition sfrom (o a : N) : outcome N := if slen o <? a then Panic else Ok (o + a).
  (* input[a:b] as (absolute offset, length) *)
  Definition srange (o a b : N) : outcome (N * N) :=
    if (b <? a) || (slen o <? b) then Panic else Ok (o + a, b - a).
  (* bint.Decode(input[a:a+32]) *)
  Definition word_at (o a : N) : outcome N :=
    if slen o <? a + 32 then Panic
    else Ok (decode64 (firstn 32 (skipn (N.to_nat (o + a)) D))).

  Definition step (e : aty) : N := if is_static e then size e else 32.
  Definition fuel0 : nat := S (S (length D)).

  (* one iteration of the array loop; [scan_e] is the recursive call on the element type *)
  Definition arr_body (e : aty) (scan_e : st -> cur -> N -> sres) (o : N) (c : cur)
             (s0 : st) (pos start : N) : sres :=
    match (if is_arr e then Some (s0, c) else get_row s0) with
    | None => SPanic
    | Some (s1, c1) =>
        if is_static e then
          if slen o <? pos then SErr s1 else
          lift (sfrom o pos) s1 (fun sub => scan_e s1 c1 sub)
        else
          if slen o <? pos + 32 then SErr s1 else
          lift (word_at o pos) s1 (fun w =>
          if slen o - start <? w then SErr s1 else
          lift (sfrom o (start + w)) s1 (fun sub => scan_e s1 c1 sub))
    end.

  Fixpoint arr_loop (e : aty) (scan_e : st -> cur -> N -> sres) (o : N) (c : cur)
           (fuel : nat) (i len pos start : N) (s0 : st) : sres :=
    match fuel with
    | O => SFuel
    | S fuel' =>
        if len <=? i then SOk s0 else
        match arr_body e scan_e o c (tick s0) pos start with
        | SOk s1 => arr_loop e scan_e o c fuel' (i + 1) len (pos + step e) start s1
        | r => r
        end
    end.

  Fixpoint scan (t : aty) (s : st) (c : cur) (o : N) {struct t} : sres :=
    match t with
    | TWord sel =>
        if slen o <? 32 then SErr s else
        match sel with
        | Some p => lift (srange o 0 32) s (fun r => put s c p r)
        | None => SOk s
        end
    | TDyn sel =>
        if slen o <? 32 then SErr s else
        lift (word_at o 0) s (fun w =>
        if w =? 0 then SOk s else
        if slen o - 32 <? w then SErr s else
        match sel with
        | Some p => lift (srange o 32 (32 + w)) s (fun r => put s c p r)
        | None => SOk s
        end)
    | TArr k e =>
        if negb (has_select e) then SOk s else
        if k =? 0 then
          if slen o <? 32 then SErr s else
          lift (word_at o 0) s (fun w =>
          if (slen o - 32) / 32 <? w then SErr s else
          arr_loop e (scan e) o c fuel0 0 w 32 32 s)
        else arr_loop e (scan e) o c fuel0 0 k 0 0 s
    | TTuple fs =>
        if negb (existsb has_select fs) then SOk s else
        (fix fields (fs : list aty) (pos : N) (s0 : st) : sres :=
           match fs with
           | [] => SOk s0
           | f :: fs' =>
               if is_static f then
                 if slen o <? pos then SErr s0 else
                 lift (sfrom o pos) s0 (fun sub =>
                 match scan f s0 c sub with
                 | SOk s1 => fields fs' (pos + size f) s1
                 | r => r
                 end)
               else
                 if slen o <? pos + 32 then SErr s0 else
                 lift (word_at o pos) s0 (fun w =>
                 if slen o <? w then SErr s0 else
                 lift (sfrom o w) s0 (fun sub =>
                 match scan f s0 c sub with
                 | SOk s1 => fields fs' (pos + 32) s1
                 | r => r
                 end))
           end) fs 0 s
    end.

  (* the scalar broadcast of Result.Scan: a non-empty singleton cell overwrites
     the cell of every row *)
  Fixpoint overlay (sg r : row) : row :=
    match sg, r with
    | x :: sg', y :: r' =>
        (match x with Some (_, l) => if 0 <? l then x else y | None => y end) :: overlay sg' r'
    | _, _ => r
    end.
  Fixpoint map_first {A} (n : nat) (f : A -> A) (l : list A) : list A :=
    match n, l with
    | S n', x :: r => f x :: map_first n' f r
    | _, _ => l
    end.

  (* Result.Scan on a decoder whose previous state is [s] *)
  Definition result_scan (t : aty) (s : st) : sres :=
    let s0 := mkst (map (fun _ => None) (single s)) (coll s) 0 0 in
    match scan t s0 CSingle 0 with
    | SOk s1 =>
        match (if Nat.eqb (nrows s1) 0 then option_map fst (get_row s1) else Some s1) with
        | None => SPanic
        | Some s2 => SOk (with_coll s2 (map_first (nrows s2) (overlay (single s2)) (coll s2)))
        end
    | r => r
    end.
End Scan.

(* NewResult *)
Definition new_result (ncols : nat) : st := mkst (repeat None ncols) [] 0 0.

(* Result.Bytes(): rows 0 .. n-1 *)
Definition rows_out (s : st) : list row := firstn (nrows s) (coll s).

(* the bytes a cell aliases *)
Definition vcell (D : bytes) (c : cell) : option bytes :=
  match c with
  | Some (o, l) => Some (firstn (N.to_nat l) (skipn (N.to_nat o) D))
  | None => None
  end.
Definition vrow (D : bytes) (r : row) : list (option bytes) := map (vcell D) r.
Definition vrows (D : bytes) (s : st) : list (list (option bytes)) := map (vrow D) (rows_out s).

(* a state a decoder can be in between two calls: every row has ncols cells *)
Definition st_ok (ncols : nat) (s : st) : Prop :=
  length (single s) = ncols /\ Forall (fun r => length r = ncols) (coll s) /\ (nrows s <= length (coll s))%nat.

(* loop-iteration / row bound as a function of the type and |D| only *)
Fixpoint cost (t : aty) (len : N) : N :=
  match t with
  | TWord _ | TDyn _ => 0
  | TArr k e => (if k =? 0 then len / 32 else k) * (1 + cost e len)
  | TTuple fs => fold_right (fun f a => cost f len + a) 0 fs
  end.

(* the state of a decoder instance after it has been offered [inputs] one after
   the other (a call that fails leaves the state it reached) *)
Fixpoint after_scans (ncols : nat) (t : aty) (s : st) (inputs : list bytes) : st :=
  match inputs with
  | [] => s
  | d :: rest =>
      after_scans ncols t (match result_scan d ncols t s with SOk s' | SErr s' => s' | _ => s end) rest
  end.
