(* C17 (and the word reader of C09/C10): transcription of bint/bint.go *)
From Coq Require Import List NArith Bool.
From Shovel Require Import Base.Outcome Model.Hex.
Import ListNotations.
Open Scope N_scope.

(* size: number of bytes of n, 1 for 0.  Fuel 8 suffices for n < 2^64;
   the loop runs while n > 0. *)
Fixpoint nbytes_fuel (fuel : nat) (n : N) : nat :=
  match fuel with
  | O => O
  | S f => if n =? 0 then O else S (nbytes_fuel f (n / 256))
  end.
Definition nbytes (n : N) : nat := nbytes_fuel 8 n.
Definition size (n : N) : nat := if n =? 0 then 1%nat else nbytes n.

(* big-endian digits of n, exactly k of them (low k bytes) *)
Fixpoint be (k : nat) (n : N) : bytes :=
  match k with
  | O => []
  | S k' => be k' (n / 256) ++ [n mod 256]
  end.

(* Encode(b, n): nil buffer -> fresh buffer of [size n]; too small -> panic;
   otherwise the last [nbytes n] bytes of b are overwritten (for n = 0 nothing
   is written), the rest of b is left as it was. *)
Definition encode (b : option bytes) (n : N) : outcome bytes :=
  let buf := match b with None => repeat 0 (size n) | Some b => b end in
  if Nat.ltb (length buf) (size n) then Panic
  else Ok (firstn (length buf - nbytes n) buf ++ be (nbytes n) n).

(* Decode: n = n<<8 + b[i] on uint64, extra leading bytes shift out *)
Definition decode64 (b : bytes) : N :=
  fold_left (fun acc x => (acc * 256 + x) mod two64) b 0.
