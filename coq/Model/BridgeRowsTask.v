(* Bridge rows -> task: the task layer's abstract per-block rows ([b_rows] of
   Model/TaskTypes.v, a list of (key, val) : N * N) INSTANTIATED by the row
   builder of C11 (Model/Rows.v, [insert]) for a declared integration.
   Definitions only; the theorems are in Proofs/BridgeRowsTaskP.v and are
   stated in Properties/C01.v.

   * A rows-level chain is a list of [Rows.blockr], the canonical chain from
     block 0.  [inst_chain dcl ctx dbs rbs] is the task-level chain: numbers
     kept; hashes mapped to ids by [hid]; the parent of a block is the id of
     its predecessor's hash (a [blockr] carries no parent: the chain is the
     canonical one, linked by construction; 0 for block 0); [b_rows] = the
     encoded keyed rows [kinsert] emits for that block.

   * [kinsert] is Rows.insert on ONE block with every emitted row tagged by
     its identity key [ikey] = (tx_idx, log_idx, abi_idx, trace_action_idx) of
     the item it was built from -- together with block_num (the task model
     stamps it: [r_bnum]) this is the table's generated unique index
     (shovel/config AddUniqueIndex over the columns AddRequiredFields adds).
     Proofs: [omap (map snd) (kinsert ..b) = insert fixed .. [b]] -- the tags
     change nothing -- and insert over a list of blocks is the concatenation
     of the per-block inserts.

   * ENCODING.  The task model's row is a pair of numbers.  [enc_key] and
     [enc_row] are INJECTIVE (proved: enc_key_inj, enc_row_inj), so equality
     of task-level rows implies equality of identity keys and of C11 rows
     (lists of [gval], cell by cell).  The encoding is a prefix code over
     bits ([code_*], continuation style: [code x k] = bits of x followed by
     k), read as a positive with a leading 1.  [hid] sends exactly the empty
     hash to 0 and is injective (the assumption of BridgeClientTaskP made
     concrete).

   * If [kinsert] fails (Err / Panic: a decode error, a nil dereference) the
     block has NO rows here; every theorem about tables carries the explicit
     hypothesis [inserts_ok] (every block's Insert returns Ok) and concludes
     [insert .. = Ok rows], so nothing is true because of this totalisation.
     [dbs] (the referenced tables filter_ref looks into) is one fixed value. *)
From Coq Require Import String List NArith ZArith Bool.
From Shovel Require Import Base.Outcome Model.Hex Model.Filter Model.Rows.
From Shovel Require Model.TaskTypes Model.Task Model.TaskNode.
Import ListNotations.
Open Scope N_scope.

(* ---------- a prefix code over bits ---------- *)
Definition bits := list bool.

Fixpoint code_pos (p : positive) (k : bits) : bits :=
  match p with
  | xH => false :: k
  | xO q => true :: false :: code_pos q k
  | xI q => true :: true :: code_pos q k
  end.
Definition code_N (n : N) (k : bits) : bits :=
  match n with N0 => false :: k | Npos p => true :: code_pos p k end.
Definition code_nat (n : nat) (k : bits) : bits := code_N (N.of_nat n) k.
Definition code_Z (z : Z) (k : bits) : bits :=
  match z with
  | Z0 => false :: false :: k
  | Zpos p => false :: true :: code_pos p k
  | Zneg p => true :: false :: code_pos p k
  end.
Definition code_bool (b : bool) (k : bits) : bits := b :: k.
Fixpoint code_list {A} (f : A -> bits -> bits) (l : list A) (k : bits) : bits :=
  match l with
  | [] => false :: k
  | x :: r => true :: f x (code_list f r k)
  end.
Definition code_opt {A} (f : A -> bits -> bits) (o : option A) (k : bits) : bits :=
  match o with None => false :: k | Some x => true :: f x k end.
Definition code_bytes : bytes -> bits -> bits := code_list code_N.

Definition code_gval (v : gval) (k : bits) : bits :=
  match v with
  | VBytes b => code_N 0 (code_opt code_bytes b k)
  | VStr s => code_N 1 (code_bytes s k)
  | VU64 n => code_N 2 (code_N n k)
  | VU256 n => code_N 3 (code_N n k)
  | VNeg n => code_N 4 (code_N n k)
  | VBool b => code_N 5 (code_bool b k)
  | VByte n => code_N 6 (code_N n k)
  | VInt z => code_N 7 (code_Z z k)
  | VNil => code_N 8 k
  end.

(* bits -> positive: a bijection (leading 1 = end of the list) *)
Fixpoint pos_of_bits (l : bits) : positive :=
  match l with
  | [] => xH
  | true :: r => xI (pos_of_bits r)
  | false :: r => xO (pos_of_bits r)
  end.
Definition N_of_bits (l : bits) : N := Npos (pos_of_bits l).

(* ---------- identity key of a row inside its block ---------- *)
Record ikey := Key {
  k_tx : N;                (* tx_idx *)
  k_log : option N;        (* log_idx: log indexing only *)
  k_abi : option nat;      (* abi_idx: rows built from decoded log data only *)
  k_trace : option N       (* trace_action_idx: trace indexing only *)
}.

Definition code_key (x : ikey) (k : bits) : bits :=
  code_N (k_tx x) (code_opt code_N (k_log x) (code_opt code_nat (k_abi x) (code_opt code_N (k_trace x) k))).
Definition enc_key (x : ikey) : N := N_of_bits (code_key x []).
Definition enc_row (r : list gval) : N := N_of_bits (code_list code_gval r []).
Definition enc_kr (kr : ikey * list gval) : N * N := (enc_key (fst kr), enc_row (snd kr)).

(* hash id: 0 exactly for the empty hash *)
Definition hid (h : bytes) : N :=
  match h with [] => 0 | _ => N_of_bits (code_bytes h []) end.

(* ---------- the row builder, with identity keys ---------- *)
Definition omap {A B} (h : A -> B) (o : outcome A) : outcome B := do a <- o; Ok (h a).
Definition tagged {K A} (k : K) (o : outcome (list A)) : outcome (list (K * A)) :=
  omap (map (pair k)) o.

(* Rows.process_log with the key of every emitted row: candidate [i] of the
   data branch is abi_idx = i *)
Definition kprocess_log (d : decl) (dbs : db) (e : env) (l : logr)
  : outcome (list (ikey * list gval)) :=
  let is_and := kind_is_and (d_agg d) in
  let tx := t_idx (e_t e) in
  if negb (gate d l) then Ok []
  else if negb (is_nil (l_data l)) then
    do srows <- l_scan l;
    concatM_i (fun i srow =>
                 tagged (Key tx (Some (l_idx l)) (Some i) None)
                   (do r <- data_cells fixed is_and dbs e (l_topics l) srow i (coldefs d) 1 0 frs0;
                    Ok (emit r))) 0 srows
  else
    tagged (Key tx (Some (l_idx l)) None None)
      (do r <- nodata_cells fixed is_and dbs e (l_topics l) (coldefs d) 0 frs0;
       Ok (emit r)).

Definition kprocess_tx (d : decl) (dbs : db) (e : env) : outcome (list (ikey * list gval)) :=
  tagged (Key (t_idx (e_t e)) None None (option_map ta_idx (e_ta e))) (process_tx d dbs e).

(* Rows.insert on one block *)
Definition kinsert (d : decl) (c : ctxr) (dbs : db) (b : blockr) : outcome (list (ikey * list gval)) :=
  match indexing fixed d with
  | IxTx => concatM (fun t => kprocess_tx d dbs (mk_env c d b t None None)) (b_txs b)
  | IxTrace =>
      concatM (fun t =>
        concatM (fun a => kprocess_tx d dbs (mk_env c d b t None (Some a))) (t_traces t)) (b_txs b)
  | IxLog =>
      concatM (fun t =>
        concatM (fun l => kprocess_log d dbs (mk_env c d b t (Some l) None) l) (t_logs t)) (b_txs b)
  end.

(* the keyed rows of a block; none when Insert does not return Ok *)
Definition block_krows (d : decl) (c : ctxr) (dbs : db) (b : blockr) : list (ikey * list gval) :=
  match kinsert d c dbs b with Ok krs => krs | _ => [] end.
Definition block_kv (d : decl) (c : ctxr) (dbs : db) (b : blockr) : list (N * N) :=
  map enc_kr (block_krows d c dbs b).

(* ---------- instantiation ---------- *)
Definition bhash_id (b : blockr) : N := hid (ob (b_hash b)).
Definition inst_blk (d : decl) (c : ctxr) (dbs : db) (parent : N) (b : blockr) : TaskTypes.blk :=
  TaskTypes.Blk (b_num b) (bhash_id b) parent (block_kv d c dbs b).
Fixpoint inst_from (d : decl) (c : ctxr) (dbs : db) (parent : N) (bs : list blockr) : list TaskTypes.blk :=
  match bs with
  | [] => []
  | b :: r => inst_blk d c dbs parent b :: inst_from d c dbs (bhash_id b) r
  end.
Definition inst_chain (d : decl) (c : ctxr) (dbs : db) (bs : list blockr) : TaskNode.chain :=
  inst_from d c dbs 0 bs.

(* the rows the destination table holds for block [b] of a task [tc] *)
Definition trow_of (tc : TaskTypes.tcfg) (bnum : N) (kr : ikey * list gval) : TaskTypes.trow :=
  TaskTypes.Row (TaskTypes.t_tbl tc) (TaskTypes.t_src tc) (TaskTypes.t_ig tc) bnum
                (enc_key (fst kr)) (enc_row (snd kr)).
Definition declared_rows (tc : TaskTypes.tcfg) (d : decl) (c : ctxr) (dbs : db) (b : blockr)
  : list TaskTypes.trow :=
  map (trow_of tc (b_num b)) (block_krows d c dbs b).

(* blocks [m, m+k) of a rows-level chain *)
Definition rsegment (bs : list blockr) (m k : N) : list blockr :=
  firstn (N.to_nat k) (skipn (N.to_nat m) bs).

(* ---------- preconditions on the rows-level chain ---------- *)
(* numbered from [n]; hashes non-empty *)
Fixpoint numbered_from (n : N) (bs : list blockr) : Prop :=
  match bs with
  | [] => True
  | b :: r => b_num b = n /\ ob (b_hash b) <> [] /\ numbered_from (n + 1) r
  end.
Definition rows_chain_wf (bs : list blockr) : Prop := bs <> [] /\ numbered_from 0 bs.
Fixpoint numbered_fromb (n : N) (bs : list blockr) : bool :=
  match bs with
  | [] => true
  | b :: r => (b_num b =? n) && negb (is_nil (ob (b_hash b))) && numbered_fromb (n + 1) r
  end.

(* a block as a node should serve it: distinct transaction indices; inside a
   transaction distinct log indices and distinct trace-action indices.  NOT
   implied by the client's validation (C07 checks numbers and hashes only). *)
Definition wf_items (b : blockr) : Prop :=
  NoDup (map t_idx (b_txs b))
  /\ Forall (fun t => NoDup (map l_idx (t_logs t)) /\ NoDup (map ta_idx (t_traces t))) (b_txs b).

(* Integration.Insert returns Ok on every block of the chain, one block at a time *)
Definition inserts_ok (d : decl) (c : ctxr) (dbs : db) (bs : list blockr) : Prop :=
  forall b, In b bs -> exists rows, insert fixed d c dbs [b] = Ok rows.

(* ---------- the reading of C11 for one stored row ---------- *)
(* [gr] is a row C11 speaks about: built by the declared integration from an
   item of block [b] whose indices are the key [k], and (C11 row_cells_spec /
   tx_row_cells_spec / block_field_of_enclosing_item_log/tx/trace) every cell is the
   declared field's value *)
Definition declared_row (d : decl) (c : ctxr) (dbs : db) (b : blockr) (k : ikey) (gr : list gval) : Prop :=
  match indexing fixed d with
  | IxLog =>
      exists t l, In t (b_txs b) /\ In l (t_logs t)
        /\ k_tx k = t_idx t /\ k_log k = Some (l_idx l) /\ k_trace k = None
        /\ enclosing_fields d c b t (Some l) None (num_selected d) gr
        /\ gate d l = true
        /\ ((l_data l <> [] /\ exists srows i srow,
               l_scan l = Ok srows /\ nth_error srows i = Some srow /\ k_abi k = Some i
               /\ row_spec d (mk_env c d b t (Some l) None) l (Some i) srow gr)
            \/ (l_data l = [] /\ k_abi k = None
                /\ row_spec d (mk_env c d b t (Some l) None) l None [] gr))
  | IxTx =>
      exists t, In t (b_txs b)
        /\ k = Key (t_idx t) None None None
        /\ enclosing_fields d c b t None None 0 gr
        /\ length gr = num_bd d
  | IxTrace =>
      exists t a, In t (b_txs b) /\ In a (t_traces t)
        /\ k = Key (t_idx t) None None (Some (ta_idx a))
        /\ enclosing_fields d c b t None (Some a) 0 gr
        /\ length gr = num_bd d
  end.

(* the identity key and the block number are what the columns of the table's
   generated unique index hold (block_num, tx_idx, log_idx, abi_idx,
   trace_action_idx -- the block-data entries AddRequiredFields adds), whenever
   the declaration binds them *)
Definition key_columns (d : decl) (b : blockr) (k : ikey) (gr : list gval) : Prop :=
  let off := match indexing fixed d with IxLog => num_selected d | _ => O end in
  forall j bd, nth_error (d_block d) j = Some bd ->
    (bd_name bd = s2b "block_num" -> nth_error gr (off + j) = Some (VU64 (b_num b)))
    /\ (bd_name bd = s2b "tx_idx" -> nth_error gr (off + j) = Some (VU64 (k_tx k)))
    /\ (bd_name bd = s2b "log_idx" -> indexing fixed d = IxLog ->
          exists n, k_log k = Some n /\ nth_error gr (off + j) = Some (VU64 n))
    /\ (bd_name bd = s2b "trace_action_idx" -> indexing fixed d = IxTrace ->
          exists n, k_trace k = Some n /\ nth_error gr (off + j) = Some (VU64 n))
    /\ (bd_name bd = s2b "abi_idx" -> forall i, k_abi k = Some i ->
          nth_error gr (off + j) = Some (VInt (Z.of_nat i))).

(* ---------- composition with the client bridge (BridgeClientTaskP.abs) ----------
   for any reading [conv] of a client-level block's payloads as a rows-level
   block, the row function to hand to [abs] *)
Definition rowsf_of {CB} (conv : CB -> blockr) (d : decl) (c : ctxr) (dbs : db) (cb : CB) : list (N * N) :=
  block_kv d c dbs (conv cb).

(* ---------- a concrete scenario (non-vacuity; Properties/C01.v) ----------
   event E(uint256 indexed a, uint256 v), both selected; block data block_num,
   tx_idx, log_idx, abi_idx (what AddRequiredFields adds).  Chain: block 0
   (empty), block 1 (tx 0 with log 0: a = 5, v = 9), block 2 (tx 3 with log 4:
   a = 6, v = 10).  The logs carry their DATA; the decoded cells come from the
   ABI model of C09/C10 ([RowsAbi.chain_with_scan]). *)
From Shovel Require Model.AbiParse Model.AbiEnc Model.RowsAbi.

Definition ex_tins : list RowsAbi.tin :=
  [ {| RowsAbi.tn_indexed := true; RowsAbi.tn_name := AbiParse.EUint 256; RowsAbi.tn_dims := [];
       RowsAbi.tn_column := s2b "a"; RowsAbi.tn_filter := no_filter |};
    {| RowsAbi.tn_indexed := false; RowsAbi.tn_name := AbiParse.EUint 256; RowsAbi.tn_dims := [];
       RowsAbi.tn_column := s2b "v"; RowsAbi.tn_filter := no_filter |} ].
Definition ex_bd (name : bytes) : blockdata := {| bd_name := name; bd_column := name; bd_filter := no_filter |}.
Definition ex_decl : decl :=
  {| d_name := s2b "ig"; d_inputs := map RowsAbi.tin_input ex_tins;
     d_block := [ex_bd (s2b "block_num"); ex_bd (s2b "tx_idx"); ex_bd (s2b "log_idx"); ex_bd (s2b "abi_idx")];
     d_table_cols := [s2b "a"; s2b "v"; s2b "block_num"; s2b "tx_idx"; s2b "log_idx"; s2b "abi_idx"];
     d_agg := []; d_sighash := [7] |}.
Definition ex_ctx : ctxr := {| c_src := s2b "main"; c_chain := 1 |}.
Definition ex_log (idx a v : N) : logr :=
  {| l_idx := idx; l_addr := Some []; l_topics := [[7]; word_of_N a];
     l_data := AbiEnc.enc (RowsAbi.tins_type ex_tins) (AbiEnc.VTuple [AbiEnc.VWord (word_of_N v)]);
     l_scan := Panic |}.
Definition ex_tx (idx : N) (logs : list logr) : txr :=
  {| t_hash := None; t_idx := idx; t_from := None; t_to := None; t_value := 0; t_input := None;
     t_type := 0; t_status := 1; t_gas_used := 0; t_gas_price := 0; t_eff_gas_price := 0;
     t_contract := None; t_max_prio := 0; t_max_fee := 0; t_nonce := 0; t_logs := logs; t_traces := [] |}.
Definition ex_rchain : list blockr :=
  RowsAbi.chain_with_scan ex_decl
    [ {| b_hash := Some [1]; b_num := 0; b_time := 0; b_txs := [] |};
      {| b_hash := Some [2]; b_num := 1; b_time := 0; b_txs := [ex_tx 0 [ex_log 0 5 9]] |};
      {| b_hash := Some [3]; b_num := 2; b_time := 0; b_txs := [ex_tx 3 [ex_log 4 6 10]] |} ].
Definition ex_chain : TaskNode.chain := inst_chain ex_decl ex_ctx [] ex_rchain.
(* the task: connection 1, source 1, integration 2, table 3, start 1, no stop,
   no dependencies, headers in the plan, unique index present *)
Definition ex_task (batch conc : N) : TaskTypes.tcfg :=
  TaskTypes.Task 1 1 2 3 1 0 batch conc [] true true.
(* the C11 rows expected in the table, with their identity keys *)
Definition ex_expected : list (N * (ikey * list gval)) :=
  [ (1, (Key 0 (Some 0) (Some 0%nat) None,
         [VU256 5; VU256 9; VU64 1; VU64 0; VU64 0; VInt 0]));
    (2, (Key 3 (Some 4) (Some 0%nat) None,
         [VU256 6; VU256 10; VU64 2; VU64 3; VU64 4; VInt 0])) ].

(* a block NOT well-formed: one transaction with two matching logs that carry
   the same log index *)
Definition ex_bad_rchain : list blockr :=
  RowsAbi.chain_with_scan ex_decl
    [ {| b_hash := Some [1]; b_num := 0; b_time := 0; b_txs := [] |};
      {| b_hash := Some [2]; b_num := 1; b_time := 0; b_txs := [ex_tx 0 [ex_log 0 5 9; ex_log 0 6 10]] |} ].

(* (2) without the precondition [wf_items]: false (bridge_keys_unconditional_refuted) *)
Definition keys_distinct_unconditional : Prop :=
  forall d c dbs parent b, NoDup (map fst (TaskTypes.b_rows (inst_blk d c dbs parent b))).
