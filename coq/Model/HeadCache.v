(* C08: the head cache of jrpc2/client.go (type NumHash: error / update / get,
   and Client.Latest), transcribed.  Every method runs under the NumHash lock,
   so a method call is one atomic step; the poller (httpPoll / wsListen) and
   any number of Latest callers interleave at that granularity.  A Latest
   call is: once.Do(start poller); get; on a miss a direct fetch from the
   source followed by update -- three steps between which others may run.

   Definitions only; the proofs are in Proofs/HeadCacheP.v. *)
From Coq Require Import List NArith Bool.
From Shovel Require Import Base.Outcome.
Import ListNotations.
Open Scope N_scope.

Record head := mkHead {
  h_max : N;          (* maxreads *)
  h_num : N;          (* Num *)
  h_hash : bytes;     (* Hash *)
  h_nreads : N;
  h_err : bool;       (* err != nil *)
  h_once : bool       (* once already fired: a poller has been started and the
                         next once.Do does nothing *)
}.

Definition head_init (maxreads : N) : head := mkHead maxreads 0 [] 0 false false.

(* h := make([]byte, 32); copy(h, nh.Hash) *)
Definition pad32 (h : bytes) : bytes := firstn 32 (h ++ repeat 0 32%nat).

Inductive hop :=
| HUpdate (n : N) (h : bytes)     (* an announcement reaches update() *)
| HError                          (* the poller / listener reports a failure *)
| HGet (n : N).                   (* some Latest caller runs get(n) *)

Inductive hobs :=
| OHit (n : N) (h : bytes)        (* get: served from the cache *)
| OMiss                           (* get: n = 0 or cached number below n *)
| OExpired                        (* get: maxreads reached, cache emptied *)
| OErrCleared                     (* get: pending error consumed, once reset *)
| OAdvanced                       (* update: stored *)
| OIgnored                        (* update: n <= cached number *)
| OErrored.                       (* error recorded *)

Definition h_step (st : head) (op : hop) : head * hobs :=
  match op with
  | HError =>
      (mkHead (h_max st) (h_num st) (h_hash st) 0 true (h_once st), OErrored)
  | HUpdate n h =>
      if n <=? h_num st then (st, OIgnored)
      else (mkHead (h_max st) n h 0 (h_err st) (h_once st), OAdvanced)
  | HGet n =>
      if h_err st then
        (mkHead (h_max st) (h_num st) (h_hash st) (h_nreads st) false false, OErrCleared)
      else if (n =? 0) || (h_num st <? n) then (st, OMiss)
      else if h_max st <=? h_nreads st then
        (mkHead (h_max st) 0 [] 0 false (h_once st), OExpired)
      else
        (mkHead (h_max st) (h_num st) (h_hash st) (h_nreads st + 1) false (h_once st),
         OHit (h_num st) (pad32 (h_hash st)))
  end.

Fixpoint h_run (st : head) (ops : list hop) : head * list hobs :=
  match ops with
  | [] => (st, [])
  | op :: r => let '(st1, o) := h_step st op in
               let '(st2, os) := h_run st1 r in (st2, o :: os)
  end.

Definition is_hit (o : hobs) : bool := match o with OHit _ _ => true | _ => false end.
(* the source was heard from / the cache was told to forget *)
Definition is_reset (o : hobs) : bool :=
  match o with OAdvanced | OErrored => true | _ => false end.
Definition is_expired (o : hobs) : bool := match o with OExpired => true | _ => false end.
Definition count {A} (f : A -> bool) (l : list A) : N := N.of_nat (length (filter f l)).

(* Client.Latest run without interference between its steps.  [src] is the
   answer of the source to a direct eth_getBlockByNumber("latest") IF it is
   asked (None = transport or RPC error).  Result: new state, what the caller
   gets (None = error), whether the source was asked, whether this call
   started a poller. *)
Definition h_latest (n : N) (src : option (N * bytes)) (st : head)
  : head * option (N * bytes) * bool * bool :=
  let started := negb (h_once st) in
  let st0 := mkHead (h_max st) (h_num st) (h_hash st) (h_nreads st) (h_err st) true in
  match h_step st0 (HGet n) with
  | (st1, OHit m h) => (st1, Some (m, h), false, started)
  | (st1, _) =>
      match src with
      | None => (st1, None, true, started)
      | Some (m, h) => (fst (h_step st1 (HUpdate m h)), Some (m, h), true, started)
      end
  end.

(* sequential client-level operations used by the correspondence run *)
Inductive lop :=
| LUpdate (n : N) (h : bytes)
| LError
| LLatest (n : N) (src : option (N * bytes)).

Definition l_step (st : head) (op : lop) : head * option (option (N * bytes) * bool * bool) :=
  match op with
  | LUpdate n h => (fst (h_step st (HUpdate n h)), None)
  | LError => (fst (h_step st HError), None)
  | LLatest n src => let '(st1, r, asked, started) := h_latest n src st in
                     (st1, Some (r, asked, started))
  end.

Fixpoint l_run (st : head) (ops : list lop)
  : head * list (option (option (N * bytes) * bool * bool)) :=
  match ops with
  | [] => (st, [])
  | op :: r => let '(st1, o) := l_step st op in
               let '(st2, os) := l_run st1 r in (st2, o :: os)
  end.

(* pairs the source has announced in a sequential history *)
Fixpoint l_announced (ops : list lop) : list (N * bytes) :=
  match ops with
  | [] => []
  | LUpdate n h :: r => (n, h) :: l_announced r
  | LLatest _ (Some p) :: r => p :: l_announced r
  | _ :: r => l_announced r
  end.
