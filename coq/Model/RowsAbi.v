(* C11, composed with the decoder model of C09/C10: the decoded rows of a log
   ([l_scan] of Model/Rows.v, a given there) are computed by Model/AbiScan.v's
   transcription of Result.Scan on the log's data, under the decoder type that
   Model/AbiParse.v's transcription of Event.ABIType derives from the
   declaration.  Inputs are top-level inputs without tuple components. *)
From Coq Require Import String Ascii List NArith ZArith Bool.
From Shovel Require Import Base.Outcome Model.Hex Model.Bint.
From Shovel Require Import Model.AbiType Model.AbiScan Model.AbiEnc Model.AbiParse Model.AbiSig.
From Shovel Require Import Model.Filter Model.Rows.
Import ListNotations.
Open Scope N_scope.

(* the ABI JSON input of a declared input (no components) *)
Definition inp_of (i : input) : inp := Inp (Rows.i_indexed i) (i_type i) [] (Rows.selected i).
Definition event_of_decl (d : decl) : event := mkevent (d_name d) (map inp_of (d_inputs d)).

(* Event.ABIType *)
Definition abi_ty (d : decl) : outcome aty := event_type false (event_of_decl d).

(* NewResult(ev.ABIType()).Scan(data), then Result.At(i) for every row: the
   bytes the decoded cells alias.  (One decoder instance is reused for all logs;
   C09's scan_reuse shows the previous inputs do not matter.) *)
Definition scan_rows (d : decl) (data : bytes) : outcome (list (list obytes)) :=
  match abi_ty d with
  | Ok t =>
      match result_scan data (ncols_of t) t (new_result (ncols_of t)) with
      | SOk s => Ok (vrows data s)
      | SErr _ => Err
      | SFuel => Err
      | SPanic => Panic
      end
  | Err => Err
  | Panic => Panic
  end.

Definition with_scan (d : decl) (l : logr) : logr :=
  {| l_idx := l_idx l; l_addr := l_addr l; l_topics := l_topics l; l_data := l_data l;
     l_scan := scan_rows d (l_data l) |}.

(* a chain whose logs carry the model's own decoding of their data *)
Definition chain_with_scan (d : decl) (blocks : list blockr) : list blockr :=
  map (fun b => {| b_hash := b_hash b; b_num := b_num b; b_time := b_time b;
                   b_txs := map (fun t =>
                     {| t_hash := t_hash t; t_idx := t_idx t; t_from := t_from t; t_to := t_to t;
                        t_value := t_value t; t_input := t_input t; t_type := t_type t;
                        t_status := t_status t; t_gas_used := t_gas_used t; t_gas_price := t_gas_price t;
                        t_eff_gas_price := t_eff_gas_price t; t_contract := t_contract t;
                        t_max_prio := t_max_prio t; t_max_fee := t_max_fee t; t_nonce := t_nonce t;
                        t_logs := map (with_scan d) (t_logs t); t_traces := t_traces t |}) (b_txs b) |})
      blocks.

(* do the decoded rows a case file carries agree with the model's own decoding?
   ([Panic] in the case file marks a log whose decoding the driver does not
   predict: a log of another event) *)
Definition orow_eqb (a b : list obytes) : bool := list_eqb (option_eqb bytes_eqb) a b.
Definition scan_agrees (d : decl) (l : logr) : bool :=
  match l_scan l with
  | Panic => true
  | given => outcome_eqb (list_eqb orow_eqb) (scan_rows d (l_data l)) given
  end.
Definition chain_scan_agrees (d : decl) (blocks : list blockr) : bool :=
  forallb (fun b => forallb (fun t => forallb (scan_agrees d) (t_logs t)) (b_txs b)) blocks.

(* ---- typed declarations: the statement from VALUES to CELLS ---------------- *)
(* an input whose type string is the print of an elementary name and array
   suffixes (innermost first: T[3][] = [3; 0]) *)
Record tin := {
  tn_indexed : bool; tn_name : ename; tn_dims : list N; tn_column : bytes; tn_filter : flt
}.
Definition tin_input (x : tin) : input :=
  {| Rows.i_indexed := tn_indexed x; i_type := ename_str (tn_name x) ++ dims_str (tn_dims x);
     i_column := tn_column x; i_filter := tn_filter x |}.
Definition tin_sel (x : tin) : bool := negb (is_nil (tn_column x)).
Definition tin_jty (x : tin) : jty := JElem (tn_indexed x) (tn_name x) (tin_sel x) (tn_dims x).
Definition tin_data (x : tin) : bool := tin_sel x && negb (tn_indexed x).

(* the decoder type of the declaration and the tuple of its data values *)
Definition tins_type (xs : list tin) : aty := decl_type (map tin_jty xs).

(* the domain of the end-to-end statement: every selected non-indexed input is
   a scalar, except at most one, which is a one-level array (T[] or T[k]);
   unselected inputs are arbitrary (any array nesting) *)
Definition sel_scalar (x : tin) : bool := negb (tin_data x) || is_nil (tn_dims x).
Definition sel_array1 (x : tin) : bool :=
  tin_data x && match tn_dims x with [_] => true | _ => false end.
Fixpoint e2e_dom (xs : list tin) (seen_arr : bool) : bool :=
  match xs with
  | [] => true
  | x :: r =>
      if sel_scalar x then e2e_dom r seen_arr
      else if sel_array1 x && negb seen_arr then e2e_dom r true
      else false
  end.

(* the bytes the decoder presents for value [v] in candidate row [i]: the word
   of a static value, the contents of a bytes/string value (nothing when
   empty), element [i] of an array *)
Definition leaf_bytes (v : aval) : obytes :=
  match v with
  | VWord w => Some w
  | AbiEnc.VBytes [] => None
  | AbiEnc.VBytes b => Some b
  | _ => None
  end.
Definition val_cell (v : aval) (i : nat) : obytes :=
  match v with
  | VArr es => match nth_error es i with Some e => leaf_bytes e | None => None end
  | _ => leaf_bytes v
  end.

(* number of candidate rows: the length of the selected array (one if it is
   empty or there is none) *)
Fixpoint arr_rows (xs : list tin) (vs : list aval) : nat :=
  match xs with
  | [] => 1%nat
  | x :: r =>
      if tn_indexed x then arr_rows r vs
      else match vs with
           | [] => 1%nat
           | v :: vs' =>
               if sel_array1 x then match v with VArr es => Nat.max 1 (length es) | _ => 1%nat end
               else arr_rows r vs'
           end
      end.

(* the value of the input declared after [pre]: one value per non-indexed input *)
Definition data_val (pre : list tin) (vs : list aval) : aval :=
  nth (count (fun x => negb (tn_indexed x)) pre) vs (VTuple []).

(* candidate row [i], column by column, from the VALUES *)
Definition row_spec_v (d : decl) (xs : list tin) (vs : list aval) (e : env) (l : logr) (i : nat)
           (r : list gval) : Prop :=
  length r = (num_selected d + num_bd d)%nat /\
  (forall pre x post, xs = pre ++ x :: post -> tin_sel x = true ->
     if tn_indexed x
     then exists tp, nth_error (l_topics l) (1 + count tn_indexed pre) = Some tp /\
                     nth_error r (count tin_sel pre) = Some (dbtype fixed (i_type (tin_input x)) (Some tp))
     else nth_error r (count tin_sel pre)
          = Some (dbtype fixed (i_type (tin_input x)) (val_cell (data_val pre vs) i))) /\
  (forall k bd, nth_error (d_block d) k = Some bd -> bd_name bd <> [] ->
     nth_error r (num_selected d + k) = spec_block_cell bd e (Some i)
     /\ spec_block_cell bd e (Some i) <> None).
