(* C13: transcription of Input.Signature, Event.Signature, Event.numIndexed and
   of the gate at the top of Integration.processLog (dig.go); the canonical
   signature of the Solidity ABI specification stated independently on the
   type AST.  Keccak-256 is external: the gate takes the integration's stored
   [sighash]; theorems relate it to [keccak (event_sig e)] for an arbitrary
   function [keccak] (a Section variable in Proofs/AbiSigP.v). *)
From Coq Require Import String.
From Coq Require Import List NArith ZArith Bool.
From Shovel Require Import Base.Outcome Model.AbiType Model.AbiParse.
Import ListNotations.
Open Scope N_scope.

Definition COMMA : N := 44.

(* strings.Replace(s, old, new, 1) for a non-empty [old]: the first occurrence *)
Fixpoint replace_first (old new s : bytes) : bytes :=
  match s with
  | [] => []
  | c :: r => if has_prefix old s then new ++ skipn (length old) s else c :: replace_first old new r
  end.

(* Input.Signature *)
Fixpoint input_sig (i : inp) : bytes :=
  match i with
  | Inp _ ty comps _ =>
      if negb (has_prefix (str "tuple") ty) then ty else
      let inner :=
        str "(" ++
        (fix go (l : list inp) : bytes :=
           match l with
           | [] => []
           | c :: r => input_sig c ++ (match r with [] => [] | _ => [COMMA] end) ++ go r   (* if i+1 < len *)
           end) comps ++
        str ")" in
      replace_first (str "tuple") inner ty
  end.

(* Event.Signature *)
Fixpoint sig_list (l : list inp) : bytes :=
  match l with
  | [] => []
  | c :: r => input_sig c ++ (match r with [] => [] | _ => [COMMA] end) ++ sig_list r
  end.
Definition event_sig (e : event) : bytes := ev_name e ++ str "(" ++ sig_list (ev_inputs e) ++ str ")".

(* Event.numIndexed *)
Definition num_indexed (e : event) : nat := length (filter i_indexed (ev_inputs e)).

(* the first two cases of the switch in processLog, and which branch a log
   that passes them takes *)
Inductive stage := Skip | Decode | NoData.
Definition stage_eqb (a b : stage) : bool :=
  match a, b with Skip, Skip | Decode, Decode | NoData, NoData => true | _, _ => false end.

Definition gate (nidx : nat) (sighash : bytes) (topics : list bytes) (data : bytes) : outcome stage :=
  if negb (Z.of_nat (length topics) - 1 =? Z.of_nat nidx)%Z then Ok Skip else
  match topics with
  | [] => Panic                                             (* Topics[0] *)
  | t0 :: _ =>
      if negb (bytes_eqb sighash t0) then Ok Skip
      else Ok (match data with [] => NoData | _ => Decode end)
  end.

(* ---- the canonical signature, independently ------------------------------- *)
Fixpoint join (sep : bytes) (l : list bytes) : bytes :=
  match l with
  | [] => []
  | [x] => x
  | x :: r => x ++ sep ++ join sep r
  end.

(* Solidity: elementary canonical name; tuples as the parenthesised,
   comma-separated list of their components' types; array suffixes kept *)
Fixpoint canon (j : jty) : bytes :=
  match j with
  | JElem _ n _ ds => ename_str n ++ dims_str ds
  | JTuple _ cs ds => str "(" ++ join [COMMA] (map canon cs) ++ str ")" ++ dims_str ds
  end.
Definition canon_sig (name : bytes) (js : list jty) : bytes :=
  name ++ str "(" ++ join [COMMA] (map canon js) ++ str ")".
Definition event_of (name : bytes) (js : list jty) : event := mkevent name (map json_of js).
