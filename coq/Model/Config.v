(* C15 / C16 — the configuration tree and the validation pass of
   shovel/config/config.go (CheckUserInput, ValidateFilterRefs,
   AddRequiredFields, AddUniqueIndex, ValidateColRefs, ValidateFix) together
   with wstrings.Safe.  Definitions only.

   Strings are lists of Unicode code points (Go ranges over runes in
   wstrings.Safe; JSON decoding never yields invalid UTF-8).  The Unicode
   classification is a parameter [U : uni]; the theorems state what they need
   of it as premises and the correspondence run instantiates it with the
   values Go's unicode package returns.

   The tables that the code holds as literals (which selector paths
   CheckUserInput checks, which fields AddRequiredFields adds under which
   guard, the candidate key columns of AddUniqueIndex) are parameters here and
   are instantiated with coq/Gen/*.v, regenerated from the source on every run. *)
From Coq Require Import List NArith Bool String Ascii.
From Shovel Require Import Base.Outcome.
Import ListNotations.
Open Scope N_scope.

Definition str := list N.
Definition s2r (s : string) : str := map N_of_ascii (list_ascii_of_string s).
Definition str_eqb : str -> str -> bool := list_eqb N.eqb.
Definition is_nil {A} (l : list A) : bool := match l with [] => true | _ => false end.
Definition mem (s : str) (l : list str) : bool := existsb (str_eqb s) l.

(* ---- wstrings.Safe ---- *)
Record uni := { is_letter : N -> bool; is_digit : N -> bool }.
Definition ident_char (U : uni) (c : N) : bool :=
  is_letter U c || is_digit U c || (c =? 95) || (c =? 45).
Definition safe (U : uni) (s : str) : bool := forallb (ident_char U) s.

(* strings.HasSuffix / HasPrefix *)
Fixpoint has_prefix (p s : str) : bool :=
  match p, s with
  | [], _ => true
  | a :: p', b :: s' => (a =? b) && has_prefix p' s'
  | _ :: _, [] => false
  end.
Definition has_suffix (x s : str) : bool := has_prefix (rev x) (rev s).
Definition drop_last (n : nat) (s : str) : str := firstn (List.length s - n) s.

(* an index entry is a column name optionally followed by " asc" / " desc"
   (wpg.Table.Index, e.g. "block_num desc"); [idx_split] separates the two *)
Definition sp_asc : str := s2r " asc".
Definition sp_desc : str := s2r " desc".
Definition idx_split (e : str) : str * str :=
  if has_suffix sp_asc e then (drop_last 4 e, sp_asc)
  else if has_suffix sp_desc e then (drop_last 5 e, sp_desc)
  else (e, []).
Definition idx_ok (U : uni) (e : str) : bool := safe U (fst (idx_split e)).

(* ---- the tree ---- *)
Record ref := { r_ig : str; r_table : str; r_col : str }.
Record cfilter := { f_op : str; f_arg : list str; f_ref : ref }.
Inductive input :=
  Input (indexed : bool) (name column : str) (flt : cfilter) (comps : list input).
Record blockdata := { bd_name : str; bd_col : str; bd_flt : cfilter }.
Record column := { c_name : str; c_type : str }.
Record table := { t_name : str; t_cols : list column;
                  t_unique : list (list str); t_index : list (list str) }.
Record integ := { ig_name : str; ig_enabled : bool; ig_sources : list str;
                  ig_table : table; ig_agg : str; ig_notif : list str;
                  ig_block : list blockdata; ig_inputs : list input;
                  ig_deps : list str }.
Record root := { sources : list str; integs : list integ }.

Definition i_indexed (i : input) := match i with Input x _ _ _ _ => x end.
Definition i_name (i : input) := match i with Input _ x _ _ _ => x end.
Definition i_col (i : input) := match i with Input _ _ x _ _ => x end.
Definition i_flt (i : input) := match i with Input _ _ _ x _ => x end.
Definition i_comps (i : input) := match i with Input _ _ _ _ x => x end.

Definition no_ref : ref := {| r_ig := []; r_table := []; r_col := [] |}.
Definition no_filter : cfilter := {| f_op := []; f_arg := []; f_ref := no_ref |}.

(* every input of the tree, parents before their components *)
Fixpoint flat_input (i : input) : list input :=
  match i with Input _ _ _ _ comps => i :: flat_map flat_input comps end.
Definition all_inputs (l : list input) : list input := flat_map flat_input l.

(* dig.Input.Selected / Event.Selected: components first, then the input itself *)
Fixpoint selected1 (i : input) : list input :=
  match i with
  | Input _ _ col _ comps => flat_map selected1 comps ++ (if is_nil col then [] else [i])
  end.
Definition selected (l : list input) : list input := flat_map selected1 l.

Definition col_names (t : table) : list str := map c_name (t_cols t).

(* ---- CheckUserInput, parametrised by the regenerated list of checks ----
   A check is (kind, path): kind is the name of the checking closure ("check" =
   wstrings.Safe, "checkIndexCol" = Safe on the entry without its direction
   suffix), path the selector path with [] for a ranged slice and []* for the
   recursive walk over Components. *)
Open Scope string_scope.
Definition values_at (p : string) (c : root) : option (list str) :=
  let igs := integs c in
  if p =? "Sources[].Name" then Some (sources c)
  else if p =? "Integrations[].Name" then Some (map ig_name igs)
  else if p =? "Integrations[].Table.Name" then Some (map (fun g => t_name (ig_table g)) igs)
  else if p =? "Integrations[].Table.Columns[].Name" then
    Some (flat_map (fun g => map c_name (t_cols (ig_table g))) igs)
  else if p =? "Integrations[].Table.Columns[].Type" then
    Some (flat_map (fun g => map c_type (t_cols (ig_table g))) igs)
  else if p =? "Integrations[].Table.Unique[][]" then
    Some (flat_map (fun g => List.concat (t_unique (ig_table g))) igs)
  else if p =? "Integrations[].Table.Index[][]" then
    Some (flat_map (fun g => List.concat (t_index (ig_table g))) igs)
  else if p =? "Integrations[].Notification.Columns[]" then Some (flat_map ig_notif igs)
  else if p =? "Integrations[].Event.Inputs[].Filter.Ref.Column" then
    Some (flat_map (fun g => map (fun i => r_col (f_ref (i_flt i))) (ig_inputs g)) igs)
  else if p =? "Integrations[].Event.Inputs[].Filter.Ref.Table" then
    Some (flat_map (fun g => map (fun i => r_table (f_ref (i_flt i))) (ig_inputs g)) igs)
  else if p =? "Integrations[].Event.Inputs[]*.Filter.Ref.Column" then
    Some (flat_map (fun g => map (fun i => r_col (f_ref (i_flt i))) (all_inputs (ig_inputs g))) igs)
  else if p =? "Integrations[].Event.Inputs[]*.Filter.Ref.Table" then
    Some (flat_map (fun g => map (fun i => r_table (f_ref (i_flt i))) (all_inputs (ig_inputs g))) igs)
  else if p =? "Integrations[].Block[].Filter.Ref.Column" then
    Some (flat_map (fun g => map (fun b => r_col (f_ref (bd_flt b))) (ig_block g)) igs)
  else if p =? "Integrations[].Block[].Filter.Ref.Table" then
    Some (flat_map (fun g => map (fun b => r_table (f_ref (bd_flt b))) (ig_block g)) igs)
  else None.

Definition check_kind (U : uni) (k : string) : option (str -> bool) :=
  if k =? "check" then Some (safe U)
  else if k =? "checkIndexCol" then Some (idx_ok U)
  else None.

(* an unknown kind or path makes the configuration unacceptable for the model:
   [checks_known] (below) is part of the checked obligation, so this never
   decides a case silently *)
Definition check_one (U : uni) (c : root) (kp : string * string) : bool :=
  match check_kind U (fst kp), values_at (snd kp) c with
  | Some f, Some vs => forallb f vs
  | _, _ => false
  end.
Definition check_user_input (U : uni) (checked : list (string * string)) (c : root) : bool :=
  forallb (check_one U c) checked.

Definition empty_root : root := {| sources := []; integs := [] |}.
Definition checks_known (checked : list (string * string)) : bool :=
  forallb (fun kp => match check_kind {| is_letter := fun _ => false; is_digit := fun _ => false |} (fst kp),
                           values_at (snd kp) empty_root with
                     | Some _, Some _ => true | _, _ => false end) checked.
Close Scope string_scope.

(* ---- ValidateFilterRefs ----
   The Go code mutates the configuration in place through pointers: a
   reference that names an integration gets its table name from that
   integration (a user-supplied table without integration is refused), the
   referencing integration gets a dependency, the referenced one an index on
   the referenced column.  Names, table names and columns are not changed by
   the pass, so every lookup can be done in the configuration as it was. *)
Fixpoint find_last_from (name : str) (igs : list integ) (i : nat) (acc : option nat) : option nat :=
  match igs with
  | [] => acc
  | g :: r => find_last_from name r (S i) (if str_eqb (ig_name g) name then Some i else acc)
  end.
Definition find_last_ig (name : str) (igs : list integ) : option nat := find_last_from name igs 0 None.

Definition dummy_table : table := {| t_name := []; t_cols := []; t_unique := []; t_index := [] |}.
Definition dummy_ig : integ :=
  {| ig_name := []; ig_enabled := false; ig_sources := []; ig_table := dummy_table; ig_agg := [];
     ig_notif := []; ig_block := []; ig_inputs := []; ig_deps := [] |}.

Definition cols_of_table (igs0 : list integ) (tn : str) : list str :=
  flat_map (fun g => if str_eqb (t_name (ig_table g)) tn then col_names (ig_table g) else []) igs0.

Inductive refres := RErr | RSkip | ROk (k : nat) (tn : str).
Definition check_ref (igs0 : list integ) (r : ref) : refres :=
  if negb (is_nil (r_ig r)) then
    match find_last_ig (r_ig r) igs0 with
    | None => RErr
    | Some k =>
        if is_nil (r_col r) then RErr else
        let tn := t_name (ig_table (nth k igs0 dummy_ig)) in
        if mem (r_col r) (cols_of_table igs0 tn) then ROk k tn else RErr
    end
  else if negb (is_nil (r_table r)) || negb (is_nil (r_col r)) then RErr
  else RSkip.

(* one index request: integration position, column *)
Definition addreq := (nat * str)%type.

(* a filter after the pass, the dependency it adds, the index request *)
Definition fix_filter (igs0 : list integ) (f : cfilter) : option (cfilter * list str * list addreq) :=
  match check_ref igs0 (f_ref f) with
  | RErr => None
  | RSkip => Some (f, [], [])
  | ROk k tn =>
      Some ({| f_op := f_op f; f_arg := f_arg f;
               f_ref := {| r_ig := r_ig (f_ref f); r_table := tn; r_col := r_col (f_ref f) |} |},
            [r_ig (f_ref f)], [(k, r_col (f_ref f))])
  end.

(* the inputs AND their components are visited (parent first), as repaired by
   fixes/C05-filter-ref-on-components.diff: dig builds its column definitions
   from Event.Selected(), which descends into Components *)
Fixpoint fix_input (igs0 : list integ) (i : input) : option (input * list str * list addreq) :=
  match i with
  | Input ix n c f cs =>
      match fix_filter igs0 f,
            (fix go (l : list input) : option (list input * list str * list addreq) :=
               match l with
               | [] => Some ([], [], [])
               | x :: r =>
                   match fix_input igs0 x, go r with
                   | Some (x', d, a), Some (r', ds, as_) => Some (x' :: r', d ++ ds, a ++ as_)
                   | _, _ => None
                   end
               end) cs with
      | Some (f', d, a), Some (cs', dc, ac) => Some (Input ix n c f' cs', d ++ dc, a ++ ac)
      | _, _ => None
      end
  end.
Fixpoint fix_inputs (igs0 : list integ) (l : list input)
  : option (list input * list str * list addreq) :=
  match l with
  | [] => Some ([], [], [])
  | x :: r =>
      match fix_input igs0 x, fix_inputs igs0 r with
      | Some (x', d, a), Some (r', ds, as_) => Some (x' :: r', d ++ ds, a ++ as_)
      | _, _ => None
      end
  end.

(* before the repair only the TOP-LEVEL inputs were visited: a filter_ref on a
   component escaped validation (no dependency, user-supplied table kept) *)
Fixpoint legacy_fix_inputs (igs0 : list integ) (l : list input)
  : option (list input * list str * list addreq) :=
  match l with
  | [] => Some ([], [], [])
  | Input ix n c f cs :: r =>
      match fix_filter igs0 f, legacy_fix_inputs igs0 r with
      | Some (f', d, a), Some (r', ds, as_) => Some (Input ix n c f' cs :: r', d ++ ds, a ++ as_)
      | _, _ => None
      end
  end.
Fixpoint fix_block (igs0 : list integ) (l : list blockdata)
  : option (list blockdata * list str * list addreq) :=
  match l with
  | [] => Some ([], [], [])
  | b :: r =>
      match fix_filter igs0 (bd_flt b), fix_block igs0 r with
      | Some (f', d, a), Some (r', ds, as_) =>
          Some ({| bd_name := bd_name b; bd_col := bd_col b; bd_flt := f' |} :: r', d ++ ds, a ++ as_)
      | _, _ => None
      end
  end.

Definition set_table_index (t : table) (ix : list (list str)) : table :=
  {| t_name := t_name t; t_cols := t_cols t; t_unique := t_unique t; t_index := ix |}.

Definition fix_ig (igs0 : list integ) (g : integ) : option (integ * list addreq) :=
  match fix_inputs igs0 (ig_inputs g), fix_block igs0 (ig_block g) with
  | Some (ins, d1, a1), Some (bl, d2, a2) =>
      Some ({| ig_name := ig_name g; ig_enabled := ig_enabled g; ig_sources := ig_sources g;
               ig_table := ig_table g; ig_agg := ig_agg g; ig_notif := ig_notif g;
               ig_block := bl; ig_inputs := ins; ig_deps := ig_deps g ++ d1 ++ d2 |}, a1 ++ a2)
  | _, _ => None
  end.

Fixpoint fix_igs (igs0 : list integ) (l : list integ) : option (list integ * list addreq) :=
  match l with
  | [] => Some ([], [])
  | g :: r =>
      match fix_ig igs0 g, fix_igs igs0 r with
      | Some (g', a), Some (r', as_) => Some (g' :: r', a ++ as_)
      | _, _ => None
      end
  end.

Definition reqs_for (k : nat) (adds : list addreq) : list (list str) :=
  flat_map (fun a => if Nat.eqb (fst a) k then [[snd a]] else []) adds.

Definition with_index (g : integ) (extra : list (list str)) : integ :=
  {| ig_name := ig_name g; ig_enabled := ig_enabled g; ig_sources := ig_sources g;
     ig_table := set_table_index (ig_table g) (t_index (ig_table g) ++ extra);
     ig_agg := ig_agg g; ig_notif := ig_notif g; ig_block := ig_block g;
     ig_inputs := ig_inputs g; ig_deps := ig_deps g |}.

Fixpoint apply_adds (adds : list addreq) (k : nat) (l : list integ) : list integ :=
  match l with
  | [] => []
  | g :: r => with_index g (reqs_for k adds) :: apply_adds adds (S k) r
  end.

Definition validate_filter_refs (igs0 : list integ) : option (list integ) :=
  match fix_igs igs0 igs0 with
  | None => None
  | Some (l, adds) => Some (apply_adds adds 0 l)
  end.

(* the pass as it was before the repair *)
Definition legacy_fix_ig (igs0 : list integ) (g : integ) : option (integ * list addreq) :=
  match legacy_fix_inputs igs0 (ig_inputs g), fix_block igs0 (ig_block g) with
  | Some (ins, d1, a1), Some (bl, d2, a2) =>
      Some ({| ig_name := ig_name g; ig_enabled := ig_enabled g; ig_sources := ig_sources g;
               ig_table := ig_table g; ig_agg := ig_agg g; ig_notif := ig_notif g;
               ig_block := bl; ig_inputs := ins; ig_deps := ig_deps g ++ d1 ++ d2 |}, a1 ++ a2)
  | _, _ => None
  end.
Fixpoint legacy_fix_igs (igs0 : list integ) (l : list integ) : option (list integ * list addreq) :=
  match l with
  | [] => Some ([], [])
  | g :: r =>
      match legacy_fix_ig igs0 g, legacy_fix_igs igs0 r with
      | Some (g', a), Some (r', as_) => Some (g' :: r', a ++ as_)
      | _, _ => None
      end
  end.
Definition legacy_validate_filter_refs (igs0 : list integ) : option (list integ) :=
  match legacy_fix_igs igs0 igs0 with
  | None => None
  | Some (l, adds) => Some (apply_adds adds 0 l)
  end.

(* ---- AddRequiredFields ----
   [required] is regenerated from the add("name","type") calls with their
   guards. *)
Inductive guard :=
| GAlways
| GAnySelected                (* len(ig.Event.Selected()) > 0 *)
| GAnySelectedNotIndexed      (* some selected input has Indexed == false *)
| GAnyBlockPrefix (p : str).  (* some block field name has this prefix *)

Definition has_bd (name : str) (g : integ) : bool := existsb (fun b => str_eqb (bd_name b) name) (ig_block g).
Definition has_col (name : str) (t : table) : bool := mem name (col_names t).

Definition add_field (name ty : str) (g : integ) : integ :=
  let bl := if has_bd name g then ig_block g
            else ig_block g ++ [{| bd_name := name; bd_col := name; bd_flt := no_filter |}] in
  let t := ig_table g in
  let cols := if has_col name t then t_cols t else t_cols t ++ [{| c_name := name; c_type := ty |}] in
  {| ig_name := ig_name g; ig_enabled := ig_enabled g; ig_sources := ig_sources g;
     ig_table := {| t_name := t_name t; t_cols := cols; t_unique := t_unique t; t_index := t_index t |};
     ig_agg := ig_agg g; ig_notif := ig_notif g; ig_block := bl; ig_inputs := ig_inputs g;
     ig_deps := ig_deps g |}.

Definition guard_holds (gd : guard) (g : integ) : bool :=
  match gd with
  | GAlways => true
  | GAnySelected => negb (is_nil (selected (ig_inputs g)))
  | GAnySelectedNotIndexed => existsb (fun i => negb (i_indexed i)) (selected (ig_inputs g))
  | GAnyBlockPrefix p => existsb (fun b => has_prefix p (bd_name b)) (ig_block g)
  end.

Definition reqfield := (guard * str * str)%type.
Definition add_required_fields (required : list reqfield) (g : integ) : integ :=
  fold_left (fun g rf => match rf with (gd, n, t) => if guard_holds gd g then add_field n t g else g end)
            required g.

(* ---- AddUniqueIndex ---- *)
Definition add_unique_index (possible : list str) (t : table) : table :=
  if negb (is_nil (t_unique t)) then t else
  let u := filter (fun p => has_col p t) possible in
  if is_nil u then t else
  {| t_name := t_name t; t_cols := t_cols t; t_unique := [u]; t_index := t_index t |}.

(* ---- ValidateColRefs ---- *)
Fixpoint nodupb (l : list str) : bool :=
  match l with
  | [] => true
  | x :: r => negb (mem x r) && nodupb r
  end.

Definition validate_col_refs (g : integ) : bool :=
  let cols := col_names (ig_table g) in
  nodupb cols
  && nodupb (map i_name (ig_inputs g))
  && nodupb (map bd_name (ig_block g))
  && forallb (fun i => mem (i_col i) cols) (selected (ig_inputs g))
  && forallb (fun b => negb (is_nil (bd_col b)) && mem (bd_col b) cols) (ig_block g)
  && forallb (fun n => mem n cols) (ig_notif g).

(* ---- ValidateFix ---- *)
Definition s_and : str := s2r "and".
Definition s_or : str := s2r "or".

Definition with_agg (g : integ) (a : str) : integ :=
  {| ig_name := ig_name g; ig_enabled := ig_enabled g; ig_sources := ig_sources g;
     ig_table := ig_table g; ig_agg := a; ig_notif := ig_notif g; ig_block := ig_block g;
     ig_inputs := ig_inputs g; ig_deps := ig_deps g |}.
Definition with_table (g : integ) (t : table) : integ :=
  {| ig_name := ig_name g; ig_enabled := ig_enabled g; ig_sources := ig_sources g;
     ig_table := t; ig_agg := ig_agg g; ig_notif := ig_notif g; ig_block := ig_block g;
     ig_inputs := ig_inputs g; ig_deps := ig_deps g |}.

Record gen := { g_checked : list (string * string);
                g_required : list reqfield;
                g_possible : list str }.

Definition fix_one (G : gen) (g : integ) : option integ :=
  let a := if is_nil (ig_agg g) then s_or else ig_agg g in
  if negb (str_eqb a s_and || str_eqb a s_or || is_nil a) then None else
  let g1 := add_required_fields (g_required G) (with_agg g a) in
  let g2 := with_table g1 (add_unique_index (g_possible G) (ig_table g1)) in
  if validate_col_refs g2 then Some g2 else None.

Fixpoint fix_all (G : gen) (l : list integ) : option (list integ) :=
  match l with
  | [] => Some []
  | g :: r =>
      match fix_one G g, fix_all G r with
      | Some g', Some r' => Some (g' :: r')
      | _, _ => None
      end
  end.

Definition validate_fix (U : uni) (G : gen) (c : root) : option root :=
  if negb (check_user_input U (g_checked G) c) then None else
  match validate_filter_refs (integs c) with
  | None => None
  | Some igs1 =>
      match fix_all G igs1 with
      | None => None
      | Some igs2 => Some {| sources := sources c; integs := igs2 |}
      end
  end.

(* ValidateFix before the repair of ValidateFilterRefs *)
Definition legacy_validate_fix (U : uni) (G : gen) (c : root) : option root :=
  if negb (check_user_input U (g_checked G) c) then None else
  match legacy_validate_filter_refs (integs c) with
  | None => None
  | Some igs1 =>
      match fix_all G igs1 with
      | None => None
      | Some igs2 => Some {| sources := sources c; integs := igs2 |}
      end
  end.

(* the configuration the dashboard handler validates: one integration, no sources *)
Definition root_of (g : integ) : root := {| sources := []; integs := [g] |}.
